// C16 correspondence: the same seeded operation sequences on the real kv/memory, kv/aof and kv/sqlite3
// stores (in-process), every answer compared by `modeld C16` with the per-back-end Lean model (DIFF)
// and judged against the KV contract (SPEC).
package main

import (
	"regexp"
	"strconv"
	"strings"

	"verif/harness/hlib"
	"verif/harness/kvh"
)

var keyAlphabets = [][]string{
	{"a", "ab", "abc", "b"},             // keys that are prefixes of each other
	{"k1", "k2", "k3"},                  // plain
	{"", "a", "aa", "b", "ba", "c"},     // incl. the empty key
	{"x/1", "x/2", "x", "y/1", "y"},     // directory-like
	{"\x00", "\x00\x00", "\xff", "a\x00"}, // binary keys
}
var tokRe = regexp.MustCompile(`tok:[0-9]+`)
var childAlphabet = []string{"c1", "c2", "c3", "", "c1x"}
var values = []string{"nil", "-", hlib.HexS("v1"), hlib.HexS("v2"), hlib.HexS("a-longer-value-0123456789"), "00"}

func main() {
	r := hlib.Start()
	r.Rule = "one case = fresh real memory, aof and sqlite stores sharing a degenerate hash table (all keys collide / two buckets 0 and 2^48-1 / distinct / random) + 20..200 random ops (put incl. nil and empty values, get, delete, prefix append/remove/contains/list incl. the empty child, listkeys with prefixes, acquire/release so that LEASE kinds appear, removekeys, export) over an alphabet of 3-6 keys (prefixes of each other, empty key, binary keys), each op run identically on the three back-ends; non-trivial = distinct (op, args, the three answers with lease tokens abstracted) inside a case of >= 5 ops"
	env := kvh.NewEnv(r)
	defer env.Close()
	if r.Replay != "" {
		env.Replay(r.ReplayLines())
		r.Finish()
		return
	}
	rng := hlib.NewRng(r.Seed)
	cases, maxOps := 40, 120
	if r.Thorough() {
		cases, maxOps = 600, 200
	}
	for c := 0; c < cases; c++ {
		env.Reset()
		keys := hlib.Pick(rng, keyAlphabets)
		hk := func(s string) string { return hlib.HexS(s) }
		// degenerate hash functions
		style := rng.Intn(4)
		for i, k := range keys {
			var h uint64
			switch style {
			case 0:
				h = 7 // everything collides
			case 1:
				h = uint64(i % 2) * (kvh.M - 1) // two buckets: 0 and 2^48-1
			case 2:
				h = uint64(i) * 1000
			default:
				h = rng.U64() % kvh.M
			}
			env.Exec([]string{"hash", hk(k), strconv.FormatUint(h, 10)})
		}
		r.Count("hash-style:" + strconv.Itoa(style))
		nops := 20 + rng.Intn(maxOps-19)
		if c == 0 {
			nops = 1
		}
		for i := 0; i < nops; i++ {
			k := hk(hlib.Pick(rng, keys))
			ch := hk(hlib.Pick(rng, childAlphabet))
			var res []string
			var line string
			do := func(op string, args ...string) {
				res = env.All("", op, args...)
				line = op + " " + strings.Join(args, " ")
			}
			switch x := rng.Intn(100); {
			case x < 18:
				do("put", k, hlib.Pick(rng, values))
			case x < 30:
				do("get", k)
			case x < 38:
				do("del", k)
			case x < 52:
				do("pappend", k, ch)
			case x < 60:
				do("premove", k, ch)
			case x < 66:
				do("pcontains", k, ch)
			case x < 72:
				do("plist", k)
			case x < 84:
				p := ""
				if rng.Chance(60) {
					kk := hlib.Pick(rng, keys)
					p = kk[:rng.Intn(len(kk)+1)]
				} else if rng.Chance(30) {
					p = "zz"
				}
				do("listkeys", hk(p))
			case x < 90:
				do("acquire", k, hlib.Pick(rng, []string{"1000000000", "3000000000", "999999999", "60000000000"}))
			case x < 94:
				do("release", k, hlib.Pick(rng, []string{"last:0", "last:0", "last:1", "abs:0"}))
			case x < 97:
				do("remove", kvh.List([][]byte{hlib.UnHex(k)}))
			default:
				do("export", kvh.List([][]byte{hlib.UnHex(k)}))
			}
			key := ""
			if nops >= 5 {
				key = line + "=>" + tokRe.ReplaceAllString(strings.Join(res, "|"), "tok")
			}
			for range res {
				r.Case(key)
			}
			if res[0] != res[2] || res[0] != res[1] {
				r.Count("backends-answer-differently:" + strings.Fields(line)[0])
			}
		}
	}
	r.Finish()
}
