/-! C44 executable model of the tunnel client's routing state (core Lean only):
`Configuration.Tunnels`, `Configuration.router` (hostname → route), `Client.proxies` (hostname → the
HTTP proxy created for a route), and the operations that change them
(tun/client: tunnel.go `RebuildTunnels` / `tunnelRemovalWrapper` / `diffTunnels` /
`closeOutdatedProxies`, reload.go `doReload`, config.go `buildRouter`, client.go
`handleIncomingDelegation`, proxy.go `getHTTPProxy`). -/
namespace Specter.C44

/-- the routing-relevant part of a tunnel = the fields of `route` -/
structure Route where
  target : String
  insecure : Bool
  timeout : Nat
  hdrHost : String
  hdrMode : String
deriving DecidableEq, Repr

structure Tunnel where
  host : String
  route : Route
deriving DecidableEq, Repr

/-- Go map built by iterating the list: the LAST tunnel with that hostname wins
(`oldMap[o.Hostname] = o`, `router.Store(tunnel.Hostname, …)` in list order). -/
def last (ts : List Tunnel) (h : String) : Option Tunnel := (ts.filter (·.host = h)).getLast?

/-- `diffTunnels old new` contains (the old tunnel of) hostname `h`: the maps skip empty hostnames;
`h` is in the diff when it is configured in `old` and its route changed or it is gone in `new`. -/
def inDiff (old new : List Tunnel) (h : String) : Bool :=
  h ≠ "" &&
  match last old h, last new h with
  | some o, some n => o.route ≠ n.route
  | some _, none => true
  | none, _ => false

/-- the hostnames of `diffTunnels old new` (Go returns them in map order; callers only use the set) -/
def diffHosts (old new : List Tunnel) : List String :=
  ((old.map (·.host)).eraseDups).filter (inDiff old new)

abbrev Table := String → Option Route

/-- `closeOutdatedProxies(diff...)`: `proxies.LoadAndDelete` for every hostname of the diff -/
def closeOutdated (d : String → Bool) (proxies : Table) : Table := fun h => if d h then none else proxies h

/-- `buildRouter(drop...)`: delete the dropped hostnames, then store every tunnel of the list
(also one with an empty hostname) -/
def buildRouter (d : String → Bool) (ts : List Tunnel) (router : Table) : Table := fun h =>
  match last ts h with
  | some t => some t.route
  | none => if d h then none else router h

structure St where
  tunnels : List Tunnel
  router : Table
  proxies : Table
  /-- an open `RebuildTunnels` window: proxies of the diff already closed, router not yet rebuilt -/
  window : Option (List Tunnel × List Tunnel)      -- (old list, new list)

def init (ts : List Tunnel) : St := { tunnels := ts, router := fun _ => none, proxies := fun _ => none, window := none }

/-- first half of `RebuildTunnels` (under `configMu`): `diff := diffTunnels(cur, new)`;
`closeOutdatedProxies(diff...)` -/
def wBegin (s : St) (new : List Tunnel) : St :=
  { s with proxies := closeOutdated (inDiff s.tunnels new) s.proxies, window := some (s.tunnels, new) }

/-- second half: `Tunnels = new`; writeFile; validate; `buildRouter(diff...)`; unlock -/
def wEnd (s : St) : St :=
  match s.window with
  | some (old, new) => { s with tunnels := new, router := buildRouter (inDiff old new) new s.router, window := none }
  | none => s

/-- `RebuildTunnels(new)` without anything in between -/
def rebuild (s : St) (new : List Tunnel) : St := wEnd (wBegin s new)

/-- Targets are symbolic names; a name starting with `!` stands for a target string that
`Config.validate` rejects (`url.Parse` fails, or the scheme is not http / https / tcp / unix). -/
def targetOk (target : String) : Bool := target.toList.head? != some '!'

/-- `Config.validate` for one tunnel (config.go): target parses with a supported scheme; header mode is
one of "", target, hostname, custom; custom needs a header host. -/
def Route.valid (r : Route) : Bool :=
  targetOk r.target &&
  (r.hdrMode = "" || r.hdrMode = "target" || r.hdrMode = "hostname" || r.hdrMode = "custom") &&
  !(r.hdrMode = "custom" && r.hdrHost = "")

/-- `next.validate() == nil` in `reloadFile`: every tunnel of the decoded file is valid -/
def accepts (next : List Tunnel) : Bool := next.all (·.route.valid)

/-- `doReload`: `reloadFile` decodes the file into a scratch config and validates THAT; a rejected
file leaves the client exactly as it was (Tunnels, router, proxies; no callback, no sync). Otherwise
it sets `Tunnels = next` and runs `onReload(prev, next)` = diff / closeOutdatedProxies / buildRouter;
then `SyncConfigTunnels` ends in `RebuildTunnels(next)` (every tunnel of `next` already has a
hostname in the modelled runs, so the sync changes nothing). -/
def reload (s : St) (next : List Tunnel) : St :=
  if accepts next then
    let d := inDiff s.tunnels next
    let s1 : St := { s with tunnels := next, proxies := closeOutdated d s.proxies, router := buildRouter d next s.router }
    rebuild s1 next
  else s

/-- `doReload` when the file cannot be opened or decoded: `reloadFile` returns before touching anything -/
def reloadUnreadable (s : St) : St := s

/-- `tunnelRemovalWrapper` (UnpublishTunnel / ReleaseTunnel after the RPC succeeded): the FIRST tunnel
with that hostname is removed, its proxy closed, the router entry dropped and the router rebuilt. -/
def eraseFirst (ts : List Tunnel) (h : String) : List Tunnel :=
  match ts with
  | [] => []
  | t :: r => if t.host = h then r else t :: eraseFirst r h

def unpublish (s : St) (h : String) : St :=
  if s.tunnels.any (·.host = h) then
    let ts := eraseFirst s.tunnels h
    { s with tunnels := ts, proxies := closeOutdated (· = h) s.proxies, router := buildRouter (· = h) ts s.router }
  else s

/-- the resolution step of `handleIncomingDelegation` for an HTTP link: `router.Load(h)`; unknown →
not forwarded; else `proxies.LoadOrStoreLazy(h, newProxy(route))`. Result: the route of the proxy
that serves the connection. In the code as it is this runs under `configMu.RLock()`, i.e. never
while a window is open (`stepLocked` below); before the fix it could run inside a window. -/
def incoming (s : St) (h : String) : St × Option Route :=
  match s.router h with
  | none => (s, none)
  | some u =>
    match s.proxies h with
    | some r => (s, some r)
    | none => ({ s with proxies := fun x => if x = h then some u else s.proxies x }, some u)

/-- what the property demands for a new connection: the route currently configured for `h` -/
def current (s : St) (h : String) : Option Route := (last s.tunnels h).map (·.route)

/-- sequential operations (each runs to completion before the next one starts) -/
inductive Op where
  | rebuild (new : List Tunnel)
  | reload (next : List Tunnel)
  | unpublish (h : String)
  | incoming (h : String)
  | reloadUnreadable
deriving Repr

def step (s : St) : Op → St
  | .rebuild n => rebuild s n
  | .reload n => reload s n
  | .reloadUnreadable => reloadUnreadable s
  | .unpublish h => unpublish s h
  | .incoming h => (incoming s h).1

def run (s : St) (ops : List Op) : St := ops.foldl step s

/-! ### schedules with connections arriving DURING a configuration change -/

/-- one scheduled event: a configuration change together with the hostnames of the connections that
arrive while it holds `configMu`, or a connection arriving while nothing is in progress.
`reload` has two locked sections (`reloadFile`+`onReload`, then the `RebuildTunnels` of the sync);
a rejected reload has only the first, in which nothing changes. -/
inductive Ev where
  | rebuild (new : List Tunnel) (during : List String)
  | reload (next : List Tunnel) (during1 during2 : List String)
  | unpublish (h : String) (during : List String)
  | arrive (h : String)
deriving Repr

/-- a resolved connection: hostname, route it is served with, route configured at that moment -/
structure Served where
  h : String
  route : Option Route
  want : Option Route
deriving Repr

def serveAll (s : St) : List String → St × List Served
  | [] => (s, [])
  | h :: hs =>
    let r := incoming s h
    let rest := serveAll r.1 hs
    (rest.1, ⟨h, r.2, current s h⟩ :: rest.2)

/-- LOCKED semantics = the code as it is (`handleIncomingDelegation` resolves under
`configMu.RLock()`, every change holds `configMu.Lock()` from before `closeOutdatedProxies` until
after `buildRouter`): connections that arrive during a change wait and are resolved right after it. -/
def stepLocked (s : St) : Ev → St × List Served
  | .rebuild new d => serveAll (rebuild s new) d
  | .reload next d1 d2 =>
    if accepts next then
      let a := serveAll (rebuild s next) d1
      let b := serveAll (rebuild a.1 next) d2
      (b.1, a.2 ++ b.2)
    else serveAll s (d1 ++ d2)
  | .unpublish h d => serveAll (unpublish s h) d
  | .arrive h => serveAll s [h]

def runLocked (s : St) : List Ev → St × List Served
  | [] => (s, [])
  | e :: es =>
    let a := stepLocked s e
    let b := runLocked a.1 es
    (b.1, a.2 ++ b.2)

end Specter.C44
