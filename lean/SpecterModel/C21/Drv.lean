import SpecterModel.Util
import SpecterModel.C21.Model
/-!
C21 line-protocol driver (also provides the parsing / rendering shared with C20 and C22).

Tokens: byte strings are hex (`-` = empty) or `big:<n>:<seed>` (a large generated value, kept abstract);
lists are comma separated, `_` = empty list; a transfer is `value/children/lease`, transfers are joined by `|`.
State text: `key=value/children(sorted)/lease` for every listed key with any datum, joined by `;`, `-` if none.
-/
namespace Specter.Aof.Proto
open Specter.Util Specter.Aof

def parseBytes (s : String) : Option Bytes :=
  if s.startsWith "big:" then
    match s.splitOn ":" with
    | [_, n, seed] =>
      match n.toNat?, seed.toNat? with
      | some n, some seed => some [1000000 + n, seed]
      | _, _ => none
    | _ => none
  else hexToBytes s

def renderBytes (b : Bytes) : String :=
  match b with
  | [n, seed] => if n ≥ 1000000 then s!"big:{n - 1000000}:{seed}" else bytesToHex b
  | _ => bytesToHex b

def parseList (s : String) : Option (List Bytes) :=
  if s = "_" then some [] else (s.splitOn ",").mapM parseBytes

def parseTransfer (s : String) : Option Transfer :=
  match s.splitOn "/" with
  | [v, cs, l] =>
    match parseBytes v, parseList cs, l.toNat? with
    | some v, some cs, some l => some { value := v, children := cs, lease := l }
    | _, _, _ => none
  | _ => none

def parseTransfers (s : String) : Option (List Transfer) :=
  if s = "_" then some [] else (s.splitOn "|").mapM parseTransfer

def insertSorted (x : String) : List String → List String
  | [] => [x]
  | y :: ys => if x ≤ y then x :: y :: ys else y :: insertSorted x ys

def sortStrings (xs : List String) : List String := xs.foldl (fun acc x => insertSorted x acc) []

def renderEntry (k : Bytes) (e : Entry) : Option String :=
  if e.val = [] ∧ e.children = [] ∧ e.lease = 0 then none
  else
    let cs := sortStrings (e.children.map renderBytes)
    let cs := if cs.isEmpty then "_" else ",".intercalate cs
    some s!"{renderBytes k}={renderBytes e.val}/{cs}/{e.lease}"

def renderMem (keys : List Bytes) (m : Mem) : String :=
  let parts := keys.filterMap (fun k => renderEntry k (m.get k))
  if parts.isEmpty then "-" else ";".intercalate parts

/-- parse a mutation op line (lhs tokens) into the model mutation -/
def parseMutation (toks : List String) : Option Mutation :=
  match toks with
  | ["put", k, v] => do some { type := tPut, key := ← parseBytes k, value := ← parseBytes v }
  | ["del", k] => do some { type := tDelete, key := ← parseBytes k }
  | ["app", k, c] => do some { type := tAppend, key := ← parseBytes k, value := ← parseBytes c }
  | ["rem", k, c] => do some { type := tRemove, key := ← parseBytes k, value := ← parseBytes c }
  | ["imp", ks, ts] => do some { type := tImport, keys := ← parseList ks, values := ← parseTransfers ts }
  | ["rmk", ks] => do some { type := tRemoveKeys, keys := ← parseList ks }
  | _ => none

def renderErr : Option Err → String
  | none => "ok"
  | some .conflict => "conflict"
  | some .panic => "panic"

end Specter.Aof.Proto

namespace Specter.C21
open Specter.Util Specter.Aof Specter.Aof.Proto

structure St where
  store : Store := {}
  lastSnap : String := ""      -- implementation's live snapshot taken before the stop
deriving Inhabited

def step (st : St) (toks : List String) (rhs : String) : St × Verdict :=
  match toks with
  | ["reset"] => ({}, .ok)
  | ["snap", ks] =>
    match parseList ks with
    | none => (st, .bad "snap keys")
    | some keys =>
      let m := renderMem keys st.store.mem
      ({ st with lastSnap := rhs }, if m = rhs then .ok else .diff m)
  | ["reopen", ks] =>
    match parseList ks with
    | none => (st, .bad "reopen keys")
    | some keys =>
      -- property statement: a clean restart succeeds and yields exactly the data seen before the stop
      let specBad := rhs = "error" ∨ rhs ≠ st.lastSnap
      match st.store.reopen with
      | .ok s' =>
        let m := renderMem keys s'.mem
        ({ st with store := s' },
          if specBad then .spec s!"restart changed the data: before={st.lastSnap}"
          else if m = rhs then .ok else .diff m)
      | .error _ =>
        (st, if specBad then .spec s!"restart changed the data: before={st.lastSnap}" else .diff "error")
  | _ =>
    match parseMutation toks with
    | none => (st, .bad "unknown op")
    | some mu =>
      if ¬ mu.WF then (st, .bad "ill-formed import") else
      let (s', r) := submit st.store mu
      ({ st with store := s' }, if renderErr r = rhs then .ok else .diff (renderErr r))

def main : IO Unit := runLoop ({} : St) step

end Specter.C21
