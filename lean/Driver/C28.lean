import SpecterModel.C28.Drv

def main : IO Unit := Specter.C28.main
