import SpecterModel.C16.Props
import SpecterModel.C19.Gen
/-!
# C19 — leases are exclusive and tokens are honoured only while current

The lease of a key is a timed cell (`Nat`, 0 = free, otherwise the expiry instant in ns = the token)
with explicit `now`; `acquireCell / renewCell b / releaseCell b` (in `SpecterModel/C16/Model.lean`)
are the comparisons of kv/memory/lease.go and kv/sqlite3/lease.go + queries.go (aof delegates to
memory), `Specter.Kv.step` applies them to the lease of one key. Tie: `harness/cmd/c19` (real stores,
wall clock bracket per call) and the regenerated `Gen.C19` (`durationGuard` of both packages is
TRANSLATED and proved equal to `ttlGuard`; the guard conditions of Acquire/Renew/Release and the SQL
text are pinned: `lease_guards_expected`, `sql_expected`).

Statement ↔ theorems: acquire only when free or expired — `acquire_iff`; renew only with the current
unexpired token — `renew_iff`; release only with the current token — `release_iff`; every other
attempt fails with the documented error and changes nothing — `failed_attempt_unchanged`; TTL below
one second rejected — `ttl_guard`, granted token = now + whole seconds — `token_is_expiry`,
`ttl_truncated_to_seconds`; exclusivity over arbitrary interleavings of other holders' attempts —
`exclusive` (with `stale_or_forged_renew_rejected`, `stale_or_forged_release_rejected`); the same
through the store (`step_lease_*`: only the lease of that key changes).
The two boundary choices where memory and sqlite differ (renew exactly at `now = token`; `Release(0)`
on a free lease) are visible in `renew_iff` / `release_iff` through `Backend.policy`.
-/
namespace Specter.Kv

/-! ## T tie: the Go `durationGuard` of both packages is `ttlGuard` -/

def guardPair (ttl : Int) : Int × Bool :=
  match ttlGuard ttl with
  | none => (0, false)
  | some d => ((d : Int), true)

theorem memory_durationGuard_eq (t : Int) : Gen.C19.memory_durationGuard t = guardPair t := by
  unfold Gen.C19.memory_durationGuard Gen.C19.goTruncate guardPair ttlGuard second
  by_cases c : t - t.tmod 1000000000 < 1000000000
  · simp [c]
  · have : 0 ≤ t - t.tmod 1000000000 := by omega
    simp [c, Int.toNat_of_nonneg this]

theorem sqlite_durationGuard_eq (t : Int) : Gen.C19.sqlite3_durationGuard t = guardPair t := by
  unfold Gen.C19.sqlite3_durationGuard Gen.C19.goTruncate guardPair ttlGuard second
  by_cases c : t - t.tmod 1000000000 < 1000000000
  · simp [c]
  · have : 0 ≤ t - t.tmod 1000000000 := by omega
    simp [c, Int.toNat_of_nonneg this]

/-- F tie: the guard conditions the cell functions model, in source order -/
theorem lease_guards_expected :
    Gen.C19.memory_leaseGuards = [
      "Acquire: !ok",
      "Acquire: curr > uint64(ref.UnixNano())",
      "Acquire: !v.lease.CompareAndSwap(curr, next)",
      "Renew: !ok",
      "Renew: curr == 0",
      "Renew: time.Now().UnixNano() > int64(curr)",
      "Renew: curr != prevToken",
      "Renew: !v.lease.CompareAndSwap(curr, next)",
      "Release: !v.lease.CompareAndSwap(token, 0)"] ∧
    Gen.C19.sqlite3_leaseGuards = [
      "Acquire: !ok",
      "Acquire: err != nil",
      "Acquire: err != nil",
      "Acquire: n == 0",
      "Acquire: err != nil",
      "Renew: !ok",
      "Renew: err != nil",
      "Renew: err != nil",
      "Renew: n == 0",
      "Renew: err != nil",
      "Renew: readErr != nil",
      "Renew: scanInt64AsUint64(curToken) != next",
      "Release: err != nil",
      "Release: err != nil",
      "Release: n == 0"] := ⟨rfl, rfl⟩

/-! ## TTL -/

theorem ttlGuard_none_iff (ttl : Int) : ttlGuard ttl = none ↔ ttl < second := by
  rw [ttlGuard_eq_grant]; unfold Spec.grant
  by_cases c : ttl < second <;> simp [c]

/-- the granted duration is the TTL rounded down to whole seconds, at least one -/
theorem ttl_truncated_to_seconds (ttl : Int) (d : Nat) (h : ttlGuard ttl = some d) :
    d % 1000000000 = 0 ∧ 1000000000 ≤ d ∧ (d : Int) ≤ ttl ∧ ttl < d + 1000000000 := by
  rw [ttlGuard_eq_grant] at h; unfold Spec.grant at h
  simp only [second] at h
  by_cases c : ttl < 1000000000
  · simp [c] at h
  · simp only [c, if_false, Option.some.injEq] at h
    omega

/-- TTL below one second: rejected with ErrKVLeaseInvalidTTL, nothing changes (acquire and renew) -/
theorem ttl_guard (b : Backend) (cur prev now : Nat) (ttl : Int) (h : ttl < second) :
    acquireCell cur now ttl = (cur, .invalidTTL) ∧ renewCell b cur prev now ttl = (cur, .invalidTTL) := by
  have := (ttlGuard_none_iff ttl).mpr h
  simp [acquireCell, renewCell, this]

/-! ## success conditions (iff) -/

/-- **acquire** succeeds iff the TTL is valid and the lease is free or its grant has expired;
then the token is the new expiry `now + ⌊ttl⌋`, and the cell holds it. -/
theorem acquire_iff (cur now : Nat) (ttl : Int) (t : Nat) :
    (acquireCell cur now ttl).2 = .token t ↔
      (∃ d, ttlGuard ttl = some d ∧ (cur = 0 ∨ cur ≤ now) ∧ t = now + d) := by
  unfold acquireCell
  cases h : ttlGuard ttl with
  | none => simp
  | some d =>
    simp only [Option.some.injEq, exists_eq_left']
    by_cases c : cur > now
    · have : ¬ (cur = 0 ∨ cur ≤ now) := by omega
      simp [c, this]
    · have : cur = 0 ∨ cur ≤ now := by omega
      simp only [c, if_false, Out.token.injEq, this, true_and]
      exact eq_comm

/-- **renew** succeeds iff the TTL is valid, a lease is held, the presented token is the current one
and it has not expired (`now < cur`; memory also accepts the very instant `now = cur`). -/
theorem renew_iff (b : Backend) (cur prev now : Nat) (ttl : Int) (t : Nat) :
    (renewCell b cur prev now ttl).2 = .token t ↔
      (∃ d, ttlGuard ttl = some d ∧ cur ≠ 0 ∧ prev = cur ∧
        (now < cur ∨ (b.policy.renewAtExpiry = true ∧ now = cur)) ∧ t = now + d) := by
  unfold renewCell
  cases h : ttlGuard ttl with
  | none => simp
  | some d =>
    simp only [Option.some.injEq, exists_eq_left']
    by_cases c : renewOk b cur prev now = true
    · have c' := (renewOk_iff b cur prev now).mp c
      simp only [c, if_true, Out.token.injEq]
      constructor
      · intro e; exact ⟨c'.1, c'.2.1, c'.2.2, e.symm⟩
      · intro e; exact e.2.2.2.symm
    · have c' := mt (renewOk_iff b cur prev now).mpr c
      simp only [c]
      constructor
      · intro e; simp at e
      · intro e; exact absurd ⟨e.1, e.2.1, e.2.2.1⟩ c'

/-- **release** succeeds iff the presented token is the current one (memory additionally answers nil
for token 0 on a free lease, where there is nothing to release). -/
theorem release_iff (b : Backend) (cur tok : Nat) :
    (releaseCell b cur tok).2 = .ok ↔ (tok = cur ∧ (cur ≠ 0 ∨ b.policy.releaseFreeZero = true)) := by
  unfold releaseCell
  by_cases c : releaseOk b cur tok = true
  · have c' := (releaseOk_iff b cur tok).mp c
    rw [if_pos c]; exact ⟨fun _ => c', fun _ => rfl⟩
  · have c' := mt (releaseOk_iff b cur tok).mpr c
    simp only [c]
    constructor
    · intro e; simp at e
    · intro e; exact absurd e c'

/-- a successful release frees the lease; a successful grant stores exactly the returned token -/
theorem success_effect (b : Backend) (cur prev now tok : Nat) (ttl : Int) (t : Nat) :
    ((acquireCell cur now ttl).2 = .token t → (acquireCell cur now ttl).1 = t) ∧
    ((renewCell b cur prev now ttl).2 = .token t → (renewCell b cur prev now ttl).1 = t) ∧
    ((releaseCell b cur tok).2 = .ok → (releaseCell b cur tok).1 = 0) := by
  refine ⟨?_, ?_, ?_⟩
  · unfold acquireCell
    cases ttlGuard ttl with
    | none => simp
    | some d => by_cases c : cur > now <;> simp [c]
  · unfold renewCell
    cases ttlGuard ttl with
    | none => simp
    | some d => by_cases c : renewOk b cur prev now = true <;> simp [c]
  · unfold releaseCell
    by_cases c : releaseOk b cur tok = true <;> simp [c]

/-- the token is the expiry instant: `now` plus the TTL truncated to whole seconds -/
theorem token_is_expiry (cur now : Nat) (ttl : Int) (t : Nat) (h : (acquireCell cur now ttl).2 = .token t) :
    now + 1000000000 ≤ t ∧ (t - now) % 1000000000 = 0 ∧ ((t - now : Nat) : Int) ≤ ttl := by
  obtain ⟨d, hd, _, ht⟩ := (acquire_iff cur now ttl t).mp h
  have := ttl_truncated_to_seconds ttl d hd
  omega

/-- every other attempt fails with the documented error and changes nothing -/
theorem failed_attempt_unchanged (b : Backend) (cur prev now tok : Nat) (ttl : Int) :
    ((∀ t, (acquireCell cur now ttl).2 ≠ .token t) →
      (acquireCell cur now ttl).1 = cur ∧
      ((acquireCell cur now ttl).2 = .leaseConflict ∨ (acquireCell cur now ttl).2 = .invalidTTL)) ∧
    ((∀ t, (renewCell b cur prev now ttl).2 ≠ .token t) →
      (renewCell b cur prev now ttl).1 = cur ∧
      ((renewCell b cur prev now ttl).2 = .leaseExpired ∨ (renewCell b cur prev now ttl).2 = .invalidTTL)) ∧
    ((releaseCell b cur tok).2 ≠ .ok →
      (releaseCell b cur tok).1 = cur ∧ (releaseCell b cur tok).2 = .leaseExpired) := by
  refine ⟨?_, ?_, ?_⟩
  · unfold acquireCell
    cases ttlGuard ttl with
    | none => simp
    | some d => by_cases c : cur > now <;> simp [c]
  · unfold renewCell
    cases ttlGuard ttl with
    | none => simp
    | some d => by_cases c : renewOk b cur prev now = true <;> simp [c]
  · unfold releaseCell
    by_cases c : releaseOk b cur tok = true <;> simp [c]

/-- the documented error for a valid TTL: acquire → conflict, renew → expired -/
theorem documented_errors (b : Backend) (cur prev now : Nat) (ttl : Int) (h : second ≤ ttl) :
    (acquireCell cur now ttl).2 ≠ .invalidTTL ∧ (renewCell b cur prev now ttl).2 ≠ .invalidTTL := by
  have hn : ttlGuard ttl ≠ none := fun e => by
    have := (ttlGuard_none_iff ttl).mp e; omega
  unfold acquireCell renewCell
  cases hg : ttlGuard ttl with
  | none => exact absurd hg hn
  | some d =>
    constructor
    · by_cases c : cur > now <;> simp [c]
    · by_cases c : renewOk b cur prev now = true <;> simp [c]

theorem stale_or_forged_renew_rejected (b : Backend) (cur prev now : Nat) (ttl : Int) (h : prev ≠ cur) :
    (renewCell b cur prev now ttl).1 = cur ∧ ∀ t, (renewCell b cur prev now ttl).2 ≠ .token t := by
  have hno : ∀ t, (renewCell b cur prev now ttl).2 ≠ .token t := by
    intro t e
    obtain ⟨_, _, _, hp, _⟩ := (renew_iff b cur prev now ttl t).mp e
    exact h hp
  exact ⟨((failed_attempt_unchanged b cur prev now 0 ttl).2.1 hno).1, hno⟩

theorem stale_or_forged_release_rejected (b : Backend) (cur tok : Nat) (h : tok ≠ cur) :
    releaseCell b cur tok = (cur, .leaseExpired) := by
  have hno : (releaseCell b cur tok).2 ≠ .ok := fun e => h ((release_iff b cur tok).mp e).1
  have := (failed_attempt_unchanged b cur 0 0 tok 0).2.2 hno
  exact Prod.ext this.1 this.2

/-! ## exclusivity over histories -/

/-- operations on one lease cell -/
inductive LOp where
  | acquire (ttl : Int) (now : Nat)
  | renew (ttl : Int) (prev now : Nat)
  | release (tok : Nat)

def lstep (b : Backend) (cur : Nat) : LOp → Nat × Out
  | .acquire ttl now => acquireCell cur now ttl
  | .renew ttl prev now => renewCell b cur prev now ttl
  | .release tok => releaseCell b cur tok

/-- an attempt by somebody who does not hold token `e`, made before `e` expires -/
def LOp.foreign (e : Nat) : LOp → Prop
  | .acquire _ now => now < e
  | .renew _ prev _ => prev ≠ e
  | .release tok => tok ≠ e

def Out.refused : Out → Prop
  | .leaseConflict | .leaseExpired | .invalidTTL => True
  | _ => False

theorem foreign_step (b : Backend) (e : Nat) (op : LOp) (h : op.foreign e) :
    (lstep b e op).1 = e ∧ (lstep b e op).2.refused := by
  cases op with
  | acquire ttl now =>
    simp only [LOp.foreign] at h
    have hno : ∀ t, (acquireCell e now ttl).2 ≠ .token t := by
      intro t ht
      obtain ⟨_, _, hc, _⟩ := (acquire_iff e now ttl t).mp ht
      omega
    have := (failed_attempt_unchanged b e 0 now 0 ttl).1 hno
    refine ⟨this.1, ?_⟩
    rcases this.2 with r | r <;> simp [lstep, r, Out.refused]
  | renew ttl prev now =>
    simp only [LOp.foreign] at h
    have hno := (stale_or_forged_renew_rejected b e prev now ttl h).2
    have := (failed_attempt_unchanged b e prev now 0 ttl).2.1 hno
    refine ⟨this.1, ?_⟩
    rcases this.2 with r | r <;> simp [lstep, r, Out.refused]
  | release tok =>
    simp only [LOp.foreign] at h
    simp [lstep, stale_or_forged_release_rejected b e tok h, Out.refused]

/-- **exclusive**: once a holder has token `e`, ANY sequence of attempts by others before `e`
expires — acquires at instants `< e`, renewals and releases with any token other than `e` (stale,
forged, zero) — is refused one by one and leaves the lease exactly as it was. -/
theorem exclusive (b : Backend) (e : Nat) (ops : List LOp) (h : ∀ op ∈ ops, op.foreign e) :
    ops.foldl (fun c op => (lstep b c op).1) e = e ∧
    ∀ o ∈ (ops.map fun op => (lstep b e op).2), Out.refused o := by
  induction ops with
  | nil => simp
  | cons op ops ih =>
    have h1 := foreign_step b e op (h op (by simp))
    have ih' := ih (fun o ho => h o (by simp [ho]))
    refine ⟨?_, ?_⟩
    · simp only [List.foldl_cons, h1.1]; exact ih'.1
    · intro o ho
      simp only [List.map_cons, List.mem_cons] at ho
      rcases ho with r | r
      · exact r ▸ h1.2
      · exact ih'.2 o r

/-- after expiry (or a release) somebody else can acquire, and then the old token is dead -/
theorem old_token_dead_after_reacquire (b : Backend) (e now now' : Nat) (ttl ttl' : Int) (t : Nat)
    (_h : (acquireCell e now ttl).2 = .token t) (hne : t ≠ e) :
    (∀ t', (renewCell b t e now' ttl').2 ≠ .token t') ∧ (releaseCell b t e).2 = .leaseExpired := by
  refine ⟨(stale_or_forged_renew_rejected b t e now' ttl' (fun x => hne x.symm)).2, ?_⟩
  rw [stale_or_forged_release_rejected b t e (fun x => hne x.symm)]

/-! ## through the store: a lease operation touches only the lease of its key -/

theorem onLease_ent (s : Store) (k : Key) (r : Nat × Out) (k' : Key) :
    (onLease s k r).1.ent k' = if k' = k then { s.ent k with lease := r.1 } else s.ent k' := by
  unfold onLease
  by_cases c : r.1 = (s.ent k).lease
  · by_cases e : k' = k
    · subst e; simp [c]
    · simp [c, e]
  · simp [c, Store.upd_ent]

theorem step_lease_acquire (b : Backend) (hash : Key → Nat) (s : Store) (k : Key) (ttl : Int) (now : Nat) (k' : Key) :
    (step b hash s (.acquire k ttl now)).2 = (acquireCell (s.ent k).lease now ttl).2 ∧
    (step b hash s (.acquire k ttl now)).1.ent k' =
      if k' = k then { s.ent k with lease := (acquireCell (s.ent k).lease now ttl).1 } else s.ent k' := by
  simp only [step]; exact ⟨rfl, onLease_ent _ _ _ _⟩

theorem step_lease_renew (b : Backend) (hash : Key → Nat) (s : Store) (k : Key) (ttl : Int) (prev now : Nat) (k' : Key) :
    (step b hash s (.renew k ttl prev now)).2 = (renewCell b (s.ent k).lease prev now ttl).2 ∧
    (step b hash s (.renew k ttl prev now)).1.ent k' =
      if k' = k then { s.ent k with lease := (renewCell b (s.ent k).lease prev now ttl).1 } else s.ent k' := by
  simp only [step]; exact ⟨rfl, onLease_ent _ _ _ _⟩

theorem step_lease_release (b : Backend) (hash : Key → Nat) (s : Store) (k : Key) (tok : Nat) (k' : Key) :
    (step b hash s (.release k tok)).2 = (releaseCell b (s.ent k).lease tok).2 ∧
    (step b hash s (.release k tok)).1.ent k' =
      if k' = k then { s.ent k with lease := (releaseCell b (s.ent k).lease tok).1 } else s.ent k' := by
  simp only [step]; exact ⟨rfl, onLease_ent _ _ _ _⟩

/-- a refused lease operation leaves the whole store as it was -/
theorem refused_store_unchanged (s : Store) (k : Key) (r : Nat × Out) (h : r.1 = (s.ent k).lease) :
    (onLease s k r).1 = s := by
  simp [onLease, h]

/-! ## non-vacuity -/

-- A acquires at 100 for 1.9 s (token 1000000100); B's acquire at 1000000099 conflicts, B's forged renew
-- and release fail; A renews in time; at the old expiry instant B still conflicts (renewed);
-- after the new expiry B acquires and A's token is dead.
example :
    let ops : List Op := [.acquire [1] 1900000000 100, .acquire [1] 1000000000 1000000099,
      .renew [1] 1000000000 1000000101 500, .release [1] 1000000099, .renew [1] 2000000000 1000000100 999999999,
      .acquire [1] 1000000000 1000000100, .acquire [1] 1000000000 2999999999, .renew [1] 1000000000 2999999999 3000000000,
      .release [1] 2999999999, .acquire [1] 999999999 9999999999, .acquire [1] (-5) 9999999999]
    run (step .sqlite (fun _ => 0)) Store.init ops =
      [.token 1000000100, .leaseConflict, .leaseExpired, .leaseExpired, .token 2999999999,
       .leaseConflict, .token 3999999999, .leaseExpired, .leaseExpired, .invalidTTL, .invalidTTL] := by decide

-- the boundary where the back-ends differ: renew exactly at now = token
example : (renewCell .memory 500 500 500 1000000000).2 = .token 1000000500 ∧
    (renewCell .sqlite 500 500 500 1000000000).2 = .leaseExpired ∧
    (releaseCell .memory 0 0).2 = .ok ∧ (releaseCell .sqlite 0 0).2 = .leaseExpired := by decide

example : LOp.foreign 1000000100 (.acquire 1000000000 1000000099) ∧ LOp.foreign 1000000100 (.renew 5 7 9) := by
  simp [LOp.foreign]

end Specter.Kv
