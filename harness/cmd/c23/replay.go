package main

import (
	"context"
	"os"
	"path/filepath"
	"sort"
	"strconv"
	"strings"
	"time"

	"go.miragespace.co/specter/spec/chord"
	"go.miragespace.co/specter/spec/protocol"
	"verif/harness/hlib"
)

func parseItems(s string) []item {
	var res []item
	for _, x := range strings.Split(s, ";") {
		p := strings.Split(x, ":")
		if len(p) == 2 && p[1] == "nil" {
			res = append(res, item{k: hlib.UnHex(p[0]), isNil: true})
			continue
		}
		if len(p) != 4 {
			continue
		}
		it := item{k: hlib.UnHex(p[0])}
		if p[1] != "~" {
			it.sv = hlib.UnHex(p[1])
			if it.sv == nil {
				it.sv = []byte{}
			}
		}
		if p[2] != "." {
			for _, c := range strings.Split(p[2], ",") {
				it.ch = append(it.ch, hlib.UnHex(c))
			}
		}
		it.lease, _ = strconv.ParseUint(p[3], 10, 64)
		res = append(res, it)
	}
	return res
}

func nz(b []byte) []byte {
	if b == nil {
		return []byte{}
	}
	return b
}

// replayCase re-applies the sequential lines of a recorded case to a fresh real store.
func replayCase(root string, lines [][]string) (out caseOut) {
	dir := filepath.Join(root, "replay")
	os.MkdirAll(dir, 0o755)
	defer os.RemoveAll(dir)
	out.lines = append(out.lines, line{raw: true, lhs: "reset"})
	kv, err := openStore(dir, hash1)
	if err != nil {
		panic(err)
	}
	defer func() { kv.Close() }()
	raw := rawOpen(dir)
	defer raw.Close()
	u := func(s string) uint64 { v, _ := strconv.ParseUint(s, 10, 64); return v }
	for _, t := range lines {
		var o op
		switch t[0] {
		case "reset":
			continue
		case "key":
			out.emit(strings.Join(t, " "), "-")
			continue
		case "usehash":
			kv.Close()
			hf := chord.HashFn(hash1)
			if t[1] == "2" {
				hf = hash2
			}
			if kv, err = openStore(dir, hf); err != nil {
				panic(err)
			}
			out.emit(strings.Join(t, " "), "-")
			continue
		case "dump":
			out.emit("dump", dump(raw))
			continue
		case "get":
			v, _ := kv.Get(context.Background(), hlib.UnHex(t[1]))
			r := "nil"
			if v != nil {
				r = hlib.Hex(v)
			}
			out.emit(strings.Join(t, " "), r)
			continue
		case "plist":
			cs, _ := kv.PrefixList(context.Background(), hlib.UnHex(t[1]))
			var xs []string
			for _, c := range cs {
				xs = append(xs, hlib.Hex(c))
			}
			sort.Strings(xs)
			r := "."
			if len(xs) > 0 {
				r = strings.Join(xs, ",")
			}
			out.emit(strings.Join(t, " "), r)
			continue
		case "listkeys":
			ks, _ := kv.ListKeys(context.Background(), nil)
			var xs []string
			for _, kc := range ks {
				xs = append(xs, hlib.Hex(kc.Key)+":"+map[protocol.KeyComposite_Type]string{
					protocol.KeyComposite_SIMPLE: "S", protocol.KeyComposite_PREFIX: "P", protocol.KeyComposite_LEASE: "L"}[kc.Type])
			}
			sort.Strings(xs)
			r := "."
			if len(xs) > 0 {
				r = strings.Join(xs, ",")
			}
			out.emit("listkeys", r+" "+dump(raw))
			continue
		case "put":
			o = op{kind: "put", k: hlib.UnHex(t[1]), v: nz(hlib.UnHex(t[2]))}
		case "del":
			o = op{kind: "del", k: hlib.UnHex(t[1])}
		case "pappend", "premove":
			o = op{kind: t[0], k: hlib.UnHex(t[1]), v: hlib.UnHex(t[2])}
		case "acquire":
			ttl, _ := strconv.Atoi(t[2])
			o = op{kind: "acquire", k: hlib.UnHex(t[1]), ttl: ttl}
		case "renew":
			ttl, _ := strconv.Atoi(t[2])
			o = op{kind: "renew", k: hlib.UnHex(t[1]), ttl: ttl, tok: u(t[3])}
		case "release":
			o = op{kind: "release", k: hlib.UnHex(t[1]), tok: u(t[2])}
		case "import":
			o = op{kind: "import", items: parseItems(t[1])}
		case "remove":
			o = op{kind: "remove"}
			for _, k := range strings.Split(t[1], ",") {
				o.keys = append(o.keys, hlib.UnHex(k))
			}
		default: // plan / ref / recovered: a crash is not replayable
			out.lines = append(out.lines, line{raw: true, lhs: "# not replayable: " + strings.Join(t, " ")})
			continue
		}
		now := time.Now().UnixNano()
		res, _ := o.apply(kv)
		out.emit(o.tokens(now), res)
	}
	out.key = "replay"
	return
}
