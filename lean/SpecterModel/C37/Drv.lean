import SpecterModel.Util
import SpecterModel.C37.Model
/-! C37 line-protocol driver.

`apex <user> <pass> <mounts bitmask> <method> <chi knows method> <URL.Path> <URL.RawPath> <BasicAuth()|-> <node header|-> <forwarded header set>
   => <status> <internal handler reached|-> <DialInternal targets|->`
Strings are hex tokens; `<BasicAuth()>` = `user:pass` (hex each) as parsed by net/http, `-` when it reports !ok.
The SPEC verdict is the property statement on the observation: nothing internal is reached, and no path under
the prefix is answered with anything but 401/404/405, unless credentials are configured and presented. -/
namespace Specter.C37
open Specter.Util

def parseAuth (t : String) : Option (Option (String × String)) :=
  if t = "-" then some none else
  match t.splitOn ":" with
  | [u, p] => do let u ← hexToAscii u; let p ← hexToAscii p; pure (some (u, p))
  | _ => none

def hexOf (s : String) : String := bytesToHex (s.toList.map Char.toNat)

def handlerName (pat : String) : String := (pat.drop 1).toString

/-- statement-level notion of "a path under the internal admin prefix" (on the decoded path) -/
def isInternalPath (p : String) : Bool := p == "/_internal" || p.startsWith "/_internal/"

def step (_ : Unit) (toks : List String) (rhs : String) : Unit × Verdict :=
  match toks with
  | ["apex", u, p, mounts, _method, known, path, raw, auth, node, fwd] =>
    match hexToAscii u, hexToAscii p, mounts.toNat?, parseBool known, hexToAscii path, hexToAscii raw, parseAuth auth,
          (if node = "-" then some "" else hexToAscii node), parseBool fwd, rhs.splitOn " " with
    | some u, some p, some mounts, some known, some path, some raw, some auth, some node, some fwd, [status, reached, dialed] =>
      let authOK := u ≠ "" && p ≠ "" && auth == some (u, p)
      -- the property statement
      if (reached ≠ "-" ∨ dialed ≠ "-") ∧ !authOK then ((), .spec "internal-handler-or-proxy-reached-without-admin-credentials")
      else if isInternalPath path ∧ !authOK ∧ !(["401", "404", "405"].contains status) then
        ((), .spec "internal-path-answered-without-admin-credentials")
      else if isInternalPath path ∧ (u = "" ∨ p = "") ∧ !(["404", "405"].contains status) then
        ((), .spec "internal-prefix-served-although-no-credentials-are-configured")
      else
        let c : Cfg := ⟨u, p, mounts % 2 = 1, mounts / 2 % 2 = 1, mounts / 4 % 2 = 1, mounts / 8 % 2 = 1⟩
        let rq : Rq := ⟨known, path, raw, auth, node, fwd⟩
        let o := apex c rq
        let expect : Option String × String × String :=     -- status (none = not modelled), reached, dialed
          match o with
          | .methodNotAllowed => (some "405", "-", "-")
          | .outside => (none, "-", "-")
          | .notMounted => (some "404", "-", "-")
          | .unauthorized => (some "401", "-", "-")
          | .proxied t => (some "502", "-", hexOf t)
          | .served h =>
            if h = "catchall" then (some "200", "catchall", "-")
            else if h = "/debug" then (none, "-", "-")           -- middleware.Profiler's own router: status not modelled
            else (some "200", handlerName h, "-")
        let ok := (expect.1 = none ∨ expect.1 = some status) ∧ expect.2.1 = reached ∧ expect.2.2 = dialed
        if ok then ((), .ok) else ((), .diff s!"{repr o} expects {expect.1.getD "*"} {expect.2.1} {expect.2.2}")
    | _, _, _, _, _, _, _, _, _, _ => ((), .bad "apex args")
  | _ => ((), .bad "unknown op")

def main : IO Unit := runLoop () step

end Specter.C37
