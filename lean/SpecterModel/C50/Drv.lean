import SpecterModel.Util
import SpecterModel.C50.Model
/-!
C50 line-protocol driver.
  conn <recorder 0|1> <conns> <table>  =>  <ids>
conns = comma list of `key|addr|unknown(0/1)|realMeasurementKey` (node id = position), `-` = none
table = comma list of `mkey|age;age;…|avg|sent;lost|val;val;…` (ages in ms and values in ns of ALL samples the harness
        passed to RecordLatency for the key, in recording order, `_` = none; avg = the implementation's
        Snapshot(mkey,10s).Average in ns, `_` = snapshot nil; `sent;lost` = probes recorded for the key, which the
        model ignores: only samples inside the window make a key measured), `-` = empty

Statement-level verdict (SPEC): which node "has a recent round-trip measurement", and its average, are decided from
the harness's ground truth (the samples it recorded and when), never from what the implementation's Snapshot says.
-/
namespace Specter.C50
open Specter.Util

def parseConns (t : String) : Option (List (Node × String)) :=
  if t = "-" then some [] else
  (t.splitOn ",").zipIdx.mapM fun ((e : String), i) =>
    match e.splitOn "|" with
    | [k, a, u, mk] => (parseBool (if u = "1" then "true" else if u = "0" then "false" else u)).map
        fun u => (Node.mk i k a u, mk)
    | _ => none

def parseInt? (s : String) : Option Int :=
  if s.startsWith "-" then (s.drop 1).toString.toNat?.map (fun n => -(n : Int)) else s.toNat?.map Int.ofNat

def parseTable (t : String) : Option (List Entry) :=
  if t = "-" then some [] else
  (t.splitOn ",").mapM fun (e : String) =>
    match e.splitOn "|" with
    | [k, ages, avg, _probes, vals] =>
      let ages? := if ages = "_" then some [] else (ages.splitOn ";").mapM (·.toNat?)
      let vals? := if vals = "_" then some [] else (vals.splitOn ";").mapM parseInt?
      let avg? : Option (Option Int) := if avg = "_" then some none else (parseInt? avg).map some
      match ages?, vals?, avg? with
      | some a, some vs, some v =>
        if a.length = vs.length then some ⟨k, (a.zip vs).map (fun (x, y) => ⟨x, y⟩), v⟩ else none
      | _, _, _ => none
    | _ => none

def ids (l : List Node) : String := if l.isEmpty then "-" else ",".intercalate (l.map (toString ·.id))

def step (_ : Unit) (toks : List String) (rhs : String) : Unit × Verdict :=
  match toks with
  | ["reset"] => ((), .ok)
  | ["conn", r, c, t] =>
    match parseConns c, parseTable t, (if rhs = "-" then some [] else (rhs.splitOn ",").mapM (·.toNat?)) with
    | some cs, some tab, some out =>
      let conns := cs.map (·.1)
      let rec_ := r = "1"
      -- statement-level verdict, using the real measurement keys and the samples that were really recorded
      let realKey (i : Nat) : Option String := (cs[i]?).map (·.2)
      let meas (i : Nat) : Option Int := (realKey i).bind (snapshot tab)
      let okPair (i j : Nat) : Bool :=
        match meas i, meas j with
        | some l, some r => decide (l ≤ r)
        | some _, none => true
        | none, some _ => false
        | none, none => true
      let rec ordered : List Nat → Bool
        | a :: b :: rest => okPair a b && ordered (b :: rest)
        | _ => true
      -- inside the quantifier: time only moves forward, so a key with more samples than the recorder retains has
      -- them in non-increasing age order (then "measured recently" = "some recorded sample is recent")
      let rec mono : List Sample → Bool
        | a :: b :: rest => decide (b.age ≤ a.age) && mono (b :: rest)
        | _ => true
      if tab.any (fun e => e.samples.length > capacity + 1 ∧ !mono e.samples) then
        ((), .bad "more samples than the recorder retains must be in recording-time order") else
      if out.length > 3 then ((), .spec s!"{out.length} gateways used, at most 3 allowed")
      else if out.any (· ≥ conns.length) ∨ out.eraseDups.length ≠ out.length then ((), .spec "result is not a set of connected nodes")
      else if rec_ ∧ !ordered out then ((), .spec "a node with a recent measurement comes after an unmeasured or slower one")
      else if cs.any (fun (n, mk) => mkey n ≠ mk) then ((), .diff "measurement key differs from the model's MakeMeasurementKey")
      else if tab.any (fun e => snapAvg (recordAll capacity e.samples) ≠ e.avg) then
        ((), .diff "Snapshot differs from the model's recorder (retained points within 10 s, their mean)")
      else
        let m := connected conns rec_ (fun n => snapshot tab (mkey n))
        if m.map (·.id) ≠ out then ((), .diff (ids m)) else ((), .ok)
    | _, _, _ => ((), .bad "conn args")
  | _ => ((), .bad "unknown op")

def main : IO Unit := runLoop () step

end Specter.C50
