/-!
# C34 model — `(*Gateway).extractHostname` (gateway/proxy_handler.go)

Hosts are ASCII byte strings, modelled as `List Nat` (one Nat < 128 per byte; Go strings are byte
sequences and `strings.ToLower`/`Count`/`SplitN` act bytewise on ASCII input). `net.ParseIP(host) != nil` is an INPUT
(`isIP`), supplied per line by the harness from the real library.

```go
if net.ParseIP(host) != nil            { err = "hostname cannot be IP" }
if strings.Count(host, ".") < 2        { err = "too few labels" }
host = strings.ToLower(host)
parts := strings.SplitN(host, ".", 2)
if len(parts) != 2                     { err = "invalid hostname" }
if slices.Contains(g.RootDomains, parts[1]) { hostname = parts[0] } else { hostname = host }
```
-/
namespace Specter.C34

abbrev Str := List Nat

/-- the byte `.` -/
abbrev dot : Nat := 46

/-- `strings.ToLower` restricted to ASCII input: only `A`–`Z` change. -/
def lowerChar (c : Nat) : Nat :=
  if 65 ≤ c ∧ c ≤ 90 then c + 32 else c

def lower (s : Str) : Str := s.map lowerChar

/-- `strings.Count(s, ".")` -/
def dots (s : Str) : Nat := s.count dot

/-- `strings.SplitN(s, ".", 2)`: `none` = a single part (no separator), `some (a, b)` = two parts. -/
def splitFirstDot : Str → Option (Str × Str)
  | [] => none
  | c :: rest =>
    if c = dot then some ([], rest)
    else match splitFirstDot rest with
      | none => none
      | some (a, b) => some (c :: a, b)

inductive Err where
  | ip          -- "gateway: hostname cannot be IP"
  | fewLabels   -- "gateway: too few labels in hostname"
  | invalid     -- "gateway: invalid hostname for forwarding"
  deriving DecidableEq, Repr

def Err.token : Err → String
  | .ip => "err:ip" | .fewLabels => "err:few" | .invalid => "err:invalid"

deriving instance DecidableEq for Except

/-- The function as coded, statement by statement. -/
def extract (roots : List Str) (host : Str) (isIP : Bool) : Except Err Str :=
  if isIP then .error .ip
  else if dots host < 2 then .error .fewLabels
  else
    let h := lower host
    match splitFirstDot h with
    | none => .error .invalid
    | some (label, rest) => if roots.contains rest then .ok label else .ok h

end Specter.C34
