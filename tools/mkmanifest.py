#!/usr/bin/env python3
"""Write MANIFEST.json from spec/*.json (one check per claimed property) and tools/not_applicable.json."""
import json, glob, os
root = os.path.dirname(os.path.dirname(os.path.abspath(__file__)))
props = [json.loads(l)["id"] for l in open(os.path.join(root, "properties.jsonl"))]
checks, claimed = [], set()
for f in sorted(glob.glob(os.path.join(root, "spec", "C*.json"))):
    c = json.load(open(f))
    if c.get("disabled"):
        continue
    pid = c["id"]; claimed.add(pid)
    checks.append({
        "property_id": pid,
        "quick_cmd": "./check %s --tier quick" % pid,
        "thorough_cmd": "./check %s --tier thorough" % pid,
        "evidence_file": "/verif/evidence/%s.json" % pid,
        "replay_cmd_template": "./check %s --replay {path}" % pid,
        "engine": "lean-model+go-harness",
        "level_claimed": {"category": c.get("level", "proof"), "text": c["level_text"], "design_ref": c.get("design_ref", "DESIGN.md section 6, " + pid)},
        "level_note": c["level_note"],
        "technique": c.get("technique", "Lean 4 theorem over a model tied to the Go source by differential correspondence"),
    })
na_file = os.path.join(root, "tools", "not_applicable.json")
na_reason = json.load(open(na_file)) if os.path.exists(na_file) else {}
na = [{"property_id": p, "reason": na_reason.get(p, "not claimed yet: model and tie still being built (see DESIGN.md section 8); no check registered")}
      for p in props if p not in claimed]
m = {
 "version": 1,
 "setup_cmd": "./setup.sh",
 "hooks": {"guard": "verif",
           "enable": "go build -tags verif -overlay <generated: harness/shims/<pkg>/*.go injected as /repo/<pkg>/zz_verif_*.go> (no file in /repo is edited; see DESIGN.md 3.5)",
           "baseline_off_cmd": "cd /repo && GOFLAGS=-mod=mod GOPROXY=off go test -vet=off -count=1 -timeout 25m ./...",
           "source_commits": [], "add_only": True},
 "engines": [
   {"name": "lean-model", "path": "lean/", "serves_properties": sorted(claimed), "kind_free_text": "Lean 4 models, specs, property theorems; compiled core-only line-protocol driver modeld"},
   {"name": "go-harness", "path": "harness/", "serves_properties": sorted(claimed), "kind_free_text": "in-process drivers of the real specter code, one binary per property, overlay shims under build tag verif"},
   {"name": "extractor", "path": "extract/", "serves_properties": sorted(claimed), "kind_free_text": "go/ast translator (go2lean) and fact extractors regenerating Lean artefacts from /repo on every run"}],
 "checks": checks,
 "notes": "Technique family: machine-checked proof in Lean 4 + checked model-to-code tie. See DESIGN.md.",
 "not_applicable": na,
}
json.dump(m, open(os.path.join(root, "MANIFEST.json"), "w"), indent=1)
print("claimed", len(checks), "not_applicable", len(na))
