import SpecterModel.Util
import SpecterModel.C14.Model
/-!
C14 line-protocol driver. Model = `acrossRPC` over the GENERATED registry / externals / error-map / handler table.
SPEC (from the statement): a registry error must arrive as the same registry variable with the origin's
retryability; an unknown (arbitrary / canceled) error must arrive non-retryable; `context.DeadlineExceeded` — which
the origin itself classifies as retryable (it is in `retryableErrs`, the wire code is failed_precondition) and which
nodes do return to remote callers (timeouts of forwarded operations) — must keep its retryability.
A TEXT-PRESERVING wrapper around a known sentinel e (kind `same:<shape>`: `fmt.Errorf("%w", e)`, `errors.Join(e)`, a
wrapper type whose `Error()` is the inner one's, nested as `<shape>` says) IS that error for the origin
(`errors.Is`) and is indistinguishable from it on the wire, so the statement applies to it as it stands: the caller
must see e, and must classify it retryable exactly when the origin's own `ErrorIsRetryable` did.
`%w`-wrapped registry errors whose text is CHANGED and fresh errors carrying a registry message are outside the
reachable domain (no handler returns them): compared with the model only.
-/
namespace Specter.C14
open Specter.Util

def entryOf (name : String) : Option Entry := known.find? (fun e => e.name == name)

/-- an external sentinel: the known entry if the source mentions it, else just an error with that message -/
def extOf (name msg : String) : GoErr := match entryOf name with | some e => .reg e | none => .opaque msg

/-- the wrapper shape of a `same:<shape>` kind: one letter per nesting level (f = fmt.Errorf("%w"), j = errors.Join,
t = text-preserving wrapper type); all of them are `wrap <inner text> inner` for the model -/
def sameShape (kind : String) : Option Nat :=
  if kind.startsWith "same:" then
    let sh := (kind.drop 5).toString.toList
    if sh ≠ [] ∧ sh.all (fun c => c == 'f' || c == 'j' || c == 't') then some sh.length else none
  else none

def nest (x : GoErr) : Nat → GoErr
  | 0 => x
  | n + 1 => .wrap x.msg (nest x n)

def originOf (kind arg : String) : Option GoErr :=
  match sameShape kind with
  | some n =>
    match entryOf arg with
    | some e => some (sameText e n)
    | none => if arg = "context.DeadlineExceeded" then some (nest (.opaque "context deadline exceeded") n) else none
  | none =>
  match kind with
  | "reg" => (entryOf arg).map .reg
  | "wrapped" => (entryOf arg).map (fun e => .wrap ("storing KV to successor: " ++ e.msg) (.reg e))
  | "alias" => (entryOf arg).map (fun e => .opaque e.msg)
  | "deadline" => some (extOf "context.DeadlineExceeded" "context deadline exceeded")
  | "deadlinewrapped" => some (.wrap "forwarding: context deadline exceeded" (extOf "context.DeadlineExceeded" "context deadline exceeded"))
  | "canceled" => some (extOf "context.Canceled" "context canceled")
  | "opaque" => (hexToAscii arg).map .opaque
  | _ => none

def render (x : GoErr) (origin : GoErr) : String :=
  match x with
  | .reg e => s!"id={e.name} retry={boolStr (retryable known x)} msgsame=-"
  | .twirp c m => s!"id=tw:{c} retry={boolStr (retryable known x)} msgsame={boolStr (m == origin.msg)}"
  | _ => "other"

def field (rhs key : String) : String :=
  match (rhs.splitOn " ").find? (·.startsWith (key ++ "=")) with
  | some t => (t.drop (key.length + 1)).toString
  | none => ""

def step (_ : Unit) (toks : List String) (rhs : String) : Unit × Verdict :=
  match toks with
  | ["reset"] => ((), .ok)
  | ["reg", name, msg, r] =>
    match entryOf name, hexToAscii msg, parseBool r with
    | some e, some m, some r =>
      -- the harness's table, the running program and the extracted registry must agree
      if e.msg = m ∧ e.retryable = r then ((), .ok)
      else ((), .diff s!"registry entry {name}: message/retryable differ from the extracted registry")
    | none, _, _ => ((), .diff s!"{name} is not in the extracted registry")
    | _, _, _ => ((), .bad "reg args")
  | ["regcount", n] =>
    if n.toNat? = some known.length then ((), .ok)
    else ((), .diff s!"extracted registry + externals have {known.length} entries (harness table out of date?)")
  | ["rpc", method, kind, arg, oretry] =>
    match originOf kind arg, parseBool oretry with
    | some x, some oretry =>
      let how := howOf Gen.C14.handlers method
      let got := acrossRPC known mapped how x
      let id := field rhs "id"
      let retry := field rhs "retry"
      let sp : Option String :=
        if (sameShape kind).isSome then
          if id ≠ arg then
            some s!"{arg} inside a text-preserving wrapper ({kind}) is not recognised by the caller as the same error (caller sees {id})"
          else if retry ≠ boolStr oretry then
            some s!"{arg} inside a text-preserving wrapper ({kind}): retryable at the origin = {oretry}, at the caller = {retry}"
          else none
        else
        match kind with
        | "reg" =>
          if id ≠ arg then some s!"{arg} is not recognised by the caller as the same error (caller sees {id})"
          else if retry ≠ boolStr oretry then some s!"{arg}: retryable at the origin = {oretry}, at the caller = {retry}"
          else none
        | "opaque" | "canceled" => if retry ≠ "false" then some "an unknown error became retryable at the caller" else none
        | "deadline" =>
          if retry ≠ boolStr oretry then
            some s!"context.DeadlineExceeded: retryable at the origin = {oretry}, at the caller = {retry}"
          else none
        | _ => none
      match sp with
      | some w => ((), .spec w)
      | none =>
        if retryable known x ≠ oretry then ((), .diff s!"model: retryable at the origin = {retryable known x}")
        else if render got x ≠ rhs then ((), .diff (render got x))
        else ((), .ok)
    | _, _ => ((), .bad "rpc args")
  | _ => ((), .bad "unknown op")

def main : IO Unit := runLoop () step

end Specter.C14
