// C48 correspondence: real dns.Msg queries through the real acme.DNS.ServeDNS with a recording ResponseWriter,
// challenges stored in the real memory KV (through ChordSolver.Present/CleanUp for the managed label, PrefixAppend
// otherwise), storage failures injected by a wrapper around PrefixList.
package main

import (
	"context"
	"errors"
	"net"
	"sort"
	"strconv"
	"strings"

	"github.com/mholt/acmez/v3/acme"
	"github.com/miekg/dns"
	specterAcme "go.miragespace.co/specter/acme"
	"go.miragespace.co/specter/kv/memory"
	acmeSpec "go.miragespace.co/specter/spec/acme"
	"go.miragespace.co/specter/spec/chord"
	"go.uber.org/zap"
	"verif/harness/hlib"
)

type failKV struct {
	chord.KV
	fail bool
}

func (f *failKV) PrefixList(ctx context.Context, prefix []byte) ([][]byte, error) {
	if f.fail {
		return nil, errors.New("injected storage failure")
	}
	return f.KV.PrefixList(ctx, prefix)
}

type recWriter struct{ msg *dns.Msg }

func (w *recWriter) LocalAddr() net.Addr         { return &net.UDPAddr{IP: net.IPv4(127, 0, 0, 1), Port: 53} }
func (w *recWriter) RemoteAddr() net.Addr        { return &net.UDPAddr{IP: net.IPv4(127, 0, 0, 1), Port: 5353} }
func (w *recWriter) WriteMsg(m *dns.Msg) error   { w.msg = m; return nil }
func (w *recWriter) Write(b []byte) (int, error) { return len(b), nil }
func (w *recWriter) Close() error                { return nil }
func (w *recWriter) TsigStatus() error           { return nil }
func (w *recWriter) TsigTimersOnly(bool)         {}
func (w *recWriter) Hijack()                     {}

type config struct {
	name string
	zone string
	ns   map[string][]string
}

var configs = []config{
	{"main", "acme.example.com", map[string][]string{"ns.acme.example.com": {"192.168.1.1", "2001:db8::1"}}},
	{"mixedcase-zone", "Acme.Example.COM", map[string][]string{"ns.acme.example.com": {"10.0.0.1"}}},
	{"two-ns", "dns.specter.dev.", map[string][]string{"ns1.dns.specter.dev": {"10.0.0.1"}, "ns2.example.net.": {"10.0.0.2", "bogus"}}},
	// pathological corners (DESIGN.md section 7): zones where the zone string occurs earlier inside label.zone
	{"single-label-zone", "acme", map[string][]string{"ns.acme": {"10.0.0.1"}}},
	{"repeated-label-zone", "a.a", map[string][]string{"ns.a.a": {"10.0.0.1"}}},
	// a name server configured with upper-case letters
	{"mixedcase-ns", "acme.example.com", map[string][]string{"NS1.acme.example.com": {"10.0.0.1"}}},
}

type world struct {
	r      *hlib.Run
	rng    *hlib.Rng
	cfg    config
	kv     *failKV
	d      *specterAcme.DNS
	solver *specterAcme.ChordSolver
	zone   string // as configured in the handler: lower-case, fqdn
	soa    dns.RR
	idx    map[dns.RR]int
	owners []string
	labels []string
}

func (w *world) setup(c config) {
	w.cfg = c
	w.kv = &failKV{KV: memory.WithHashFn(chord.Hash)}
	w.d = specterAcme.NewDNS(context.Background(), zap.NewNop(), w.kv, "hostmaster@example.com", c.zone, c.ns)
	w.solver = &specterAcme.ChordSolver{KV: w.kv, ManagedDomains: []string{"managed.example.org"}}
	zone, soa, recs := specterAcme.VerifDNSInfo(w.d)
	w.zone, w.soa = zone, soa
	w.idx = map[dns.RR]int{}
	w.owners = nil
	w.labels = []string{acmeSpec.ManagedDelegation}
	var parts []string
	for i, rc := range recs {
		w.idx[rc.RR] = i
		w.owners = append(w.owners, rc.Owner)
		parts = append(parts, hlib.HexS(rc.Owner)+":"+strconv.Itoa(int(rc.RR.Header().Rrtype))+":"+strconv.Itoa(i))
	}
	w.r.Raw("# case " + c.name)
	w.r.Emit("cfg "+hlib.HexS(zone)+" "+hlib.Join(parts, ";"), "ok")
	w.r.Count("config:" + c.name)
}

func (w *world) put(label string, val []byte) {
	var err error
	ctx := context.Background()
	if label == acmeSpec.ManagedDelegation && len(val) > 0 {
		// through the real solver: the stored value is the DNS-01 key authorization digest of the challenge
		chal := acme.Challenge{Type: "dns-01", Identifier: acme.Identifier{Type: "dns", Value: "managed.example.org"}, KeyAuthorization: string(val)}
		val = []byte(chal.DNS01KeyAuthorization())
		err = w.solver.Present(ctx, chal)
	} else {
		err = w.kv.PrefixAppend(ctx, []byte(specterAcme.VerifDNSKeyName(label)), val)
	}
	res := "ok"
	if errors.Is(err, chord.ErrKVPrefixConflict) {
		res = "conflict"
	} else if err != nil {
		res = "err"
	}
	w.r.Emit("put "+hlib.HexS(label)+" "+hlib.Hex(val), res)
	w.r.Count("op:put")
}

func (w *world) del(label string, rawOrVal []byte, viaSolver bool) {
	var err error
	ctx := context.Background()
	val := rawOrVal
	if viaSolver {
		chal := acme.Challenge{Type: "dns-01", Identifier: acme.Identifier{Type: "dns", Value: "managed.example.org"}, KeyAuthorization: string(rawOrVal)}
		val = []byte(chal.DNS01KeyAuthorization())
		err = w.solver.CleanUp(ctx, chal)
	} else {
		err = w.kv.PrefixRemove(ctx, []byte(specterAcme.VerifDNSKeyName(label)), val)
	}
	res := "ok"
	if err != nil {
		res = "err"
	}
	w.r.Emit("del "+hlib.HexS(label)+" "+hlib.Hex(val), res)
	w.r.Count("op:del")
}

func (w *world) setFail(f bool) {
	w.kv.fail = f
	w.r.Emit("fail "+hlib.B(f), "ok")
}

func (w *world) query(name string, qtype uint16, edns int, opcode int, cat string) {
	m := new(dns.Msg)
	m.Id = 1
	m.Opcode = opcode
	m.Question = []dns.Question{{Name: name, Qtype: qtype, Qclass: dns.ClassINET}}
	e := "-"
	if edns >= 0 {
		m.SetEdns0(4096, false)
		m.IsEdns0().SetVersion(uint8(edns))
		e = strconv.Itoa(edns)
	}
	rw := &recWriter{}
	res := func() (res string) {
		defer func() {
			if p := recover(); p != nil {
				res = "panic"
			}
		}()
		w.d.ServeDNS(rw, m)
		return w.render(rw.msg, name)
	}()
	lhs := hlib.F("q %s %d %s %d %s/%s", hlib.HexS(name), qtype, e, opcode, w.cfg.name, cat)
	w.r.Count("name:" + cat)
	w.r.Emit(lhs, res)
	w.r.Case(w.cfg.name + "|" + lhs + "|" + res)
	w.r.Count("qtype:" + dns.TypeToString[qtype])
	w.r.Count("result:" + strings.SplitN(res, " ", 2)[0])
}

func (w *world) render(m *dns.Msg, qname string) string {
	if m == nil {
		return "noreply"
	}
	var ans []string
	for _, rr := range m.Answer {
		if i, ok := w.idx[rr]; ok {
			ans = append(ans, "S"+strconv.Itoa(i))
			continue
		}
		if t, ok := rr.(*dns.TXT); ok && t.Hdr.Rrtype == dns.TypeTXT && t.Hdr.Class == dns.ClassINET && t.Hdr.Ttl == 1 && len(t.Txt) == 1 {
			ans = append(ans, "T"+hlib.HexS(t.Hdr.Name)+":"+hlib.HexS(t.Txt[0]))
			continue
		}
		ans = append(ans, "X")
	}
	sort.Strings(ans) // PrefixList order / map order are not part of the contract; multiplicity is kept
	soa := "0"
	if len(m.Ns) == 1 && m.Ns[0] == w.soa {
		soa = "1"
	} else if len(m.Ns) != 0 {
		soa = "x"
	}
	opt := "0"
	if m.IsEdns0() != nil {
		opt = "1"
	}
	if !m.Response || len(m.Question) != 1 || m.Question[0].Name != qname {
		return "badreply"
	}
	return hlib.F("rc=%d aa=%s ans=%s soa=%s opt=%s", m.Rcode, hlib.B(m.Authoritative), hlib.Join(ans, ","), soa, opt)
}

func randCase(rng *hlib.Rng, s string) string {
	b := []byte(s)
	for i, c := range b {
		if c >= 'a' && c <= 'z' && rng.Chance(35) {
			b[i] = c - 32
		}
	}
	return string(b)
}

var randLabels = []string{"x", "token", "foo", "www", "_acme-challenge", "a", "ns", "ns1", "0123abcd", "xacme", "acme", "managedx"}

func (w *world) genName() (string, string) {
	rng := w.rng
	z := w.zone
	label := func() string {
		if rng.Chance(60) {
			return hlib.Pick(rng, w.labels)
		}
		return hlib.Pick(rng, randLabels)
	}
	var n, cat string
	switch c := rng.Intn(100); {
	case c < 40: // label.zone
		cat = "label"
		n = label() + "." + z
	case c < 50: // apex / static owners
		cat = "static"
		if rng.Bool() || len(w.owners) == 0 {
			n = z
		} else {
			n = hlib.Pick(rng, w.owners)
		}
	case c < 65: // deeper names
		cat = "deep"
		n = label() + "." + label() + "." + z
		if rng.Chance(30) {
			n = label() + "." + n
		}
	case c < 85: // names sharing a string suffix with the zone, without the dot boundary
		cat = "noboundary"
		switch rng.Intn(4) {
		case 0:
			n = "x" + z
		case 1:
			n = label() + "x" + z
		case 2:
			n = label() + ".x" + z
		default:
			n = label() + "-" + z
		}
	case c < 92: // the zone's first label repeated in front (first-occurrence corner)
		cat = "firstlabel"
		first := strings.SplitN(z, ".", 2)[0]
		n = hlib.Pick(rng, []string{first, "x" + first, first + "x"}) + "." + z
	default: // unrelated names, parents of the zone
		cat = "unrelated"
		if i := strings.Index(z, "."); i >= 0 && i+1 < len(z) && rng.Bool() {
			n = z[i+1:]
		} else {
			n = hlib.Pick(rng, []string{"example.org.", "com.", ".", "other.example.net."})
		}
	}
	if rng.Chance(50) {
		n = randCase(rng, n)
	}
	return n, cat
}

var qtypes = []uint16{dns.TypeTXT, dns.TypeTXT, dns.TypeTXT, dns.TypeA, dns.TypeAAAA, dns.TypeNS, dns.TypeSOA, dns.TypeANY, dns.TypeCNAME, dns.TypeMX}

func (w *world) genVal() []byte {
	rng := w.rng
	if rng.Chance(15) {
		return []byte{}
	}
	const al = "abcdefghijklmnopqrstuvwxyzABCDEFGHIJKLMNOPQRSTUVWXYZ0123456789-_"
	b := make([]byte, 1+rng.Intn(12))
	for i := range b {
		b[i] = al[rng.Intn(len(al))]
	}
	return b
}

func (w *world) randomCase(c config, nops int) {
	rng := w.rng
	w.setup(c)
	type stored struct {
		label string
		val   []byte
		raw   []byte
		via   bool
	}
	var st []stored
	for i := 0; i < nops; i++ {
		switch k := rng.Intn(100); {
		case k < 22:
			label := hlib.Pick(rng, []string{acmeSpec.ManagedDelegation, "token", "x", acmeSpec.EncodeClientToken(rng.Bytes(4)), "xacme", "a"})
			if !contains(w.labels, label) {
				w.labels = append(w.labels, label)
			}
			v := w.genVal()
			w.put(label, v)
			st = append(st, stored{label, v, v, label == acmeSpec.ManagedDelegation && len(v) > 0})
		case k < 30:
			if len(st) > 0 {
				j := rng.Intn(len(st))
				w.del(st[j].label, st[j].raw, st[j].via)
			}
		case k < 36:
			w.setFail(!w.kv.fail && rng.Chance(60))
		default:
			edns, opcode := -1, dns.OpcodeQuery
			if rng.Chance(6) {
				edns = rng.Intn(2)
			}
			if rng.Chance(3) {
				opcode = dns.OpcodeNotify
			}
			n, cat := w.genName()
			w.query(n, hlib.Pick(rng, qtypes), edns, opcode, cat)
		}
	}
}

func contains(xs []string, x string) bool {
	for _, y := range xs {
		if x == y {
			return true
		}
	}
	return false
}

func main() {
	r := hlib.Start()
	r.Rule = "one case = one responder configuration + a random sequence of challenge puts/removals (ChordSolver.Present/CleanUp for the managed label), storage-failure toggles and queries; query names: label.zone with random letter case, apex and static owners, depth 2-3, names sharing a string suffix with the zone without dot boundary, the zone's first label repeated, unrelated names; types TXT/A/AAAA/NS/SOA/ANY/CNAME/MX; non-trivial evaluation = distinct (configuration, query, response)"
	w := &world{r: r, rng: hlib.NewRng(r.Seed)}
	if r.Replay != "" {
		// a replayed case starts with its cfg line: find the configuration by zone
		for _, t := range r.ReplayLines() {
			switch t[0] {
			case "cfg":
				z := string(hlib.UnHex(t[1]))
				for _, c := range configs {
					d := specterAcme.NewDNS(context.Background(), zap.NewNop(), &failKV{KV: memory.WithHashFn(chord.Hash)}, "hostmaster@example.com", c.zone, c.ns)
					zz, _, _ := specterAcme.VerifDNSInfo(d)
					if zz == z && (len(t) < 3 || cfgLine(d) == t[2]) {
						w.setup(c)
						break
					}
				}
			case "put":
				w.kv.PrefixAppend(context.Background(), []byte(specterAcme.VerifDNSKeyName(string(hlib.UnHex(t[1])))), orEmpty(hlib.UnHex(t[2])))
				r.Emit(strings.Join(t, " "), "ok")
			case "del":
				w.kv.PrefixRemove(context.Background(), []byte(specterAcme.VerifDNSKeyName(string(hlib.UnHex(t[1])))), orEmpty(hlib.UnHex(t[2])))
				r.Emit(strings.Join(t, " "), "ok")
			case "fail":
				w.setFail(t[1] == "true")
			case "q":
				qt, _ := strconv.Atoi(t[2])
				e := -1
				if t[3] != "-" {
					e, _ = strconv.Atoi(t[3])
				}
				op, _ := strconv.Atoi(t[4])
				cat := "replay"
				if len(t) > 5 {
					if i := strings.Index(t[5], "/"); i >= 0 {
						cat = t[5][i+1:]
					}
				}
				w.query(string(hlib.UnHex(t[1])), uint16(qt), e, op, cat)
			}
		}
		r.Finish()
		return
	}
	rounds, nops := 30, 60
	if r.Thorough() {
		rounds, nops = 1500, 80
	}
	for i := 0; i < rounds; i++ {
		for _, c := range configs {
			w.randomCase(c, nops)
		}
	}
	r.Finish()
}

func orEmpty(b []byte) []byte {
	if b == nil {
		return []byte{}
	}
	return b
}

func cfgLine(d *specterAcme.DNS) string {
	_, _, recs := specterAcme.VerifDNSInfo(d)
	var parts []string
	for i, rc := range recs {
		parts = append(parts, hlib.HexS(rc.Owner)+":"+strconv.Itoa(int(rc.RR.Header().Rrtype))+":"+strconv.Itoa(i))
	}
	return hlib.Join(parts, ";")
}
