import SpecterModel.C50.Drv

def main : IO Unit := Specter.C50.main
