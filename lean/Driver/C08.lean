import SpecterModel.C08.Drv

def main : IO Unit := Specter.C08.main
