// C07: every membership RPC x fault mode x scenario on rings of real LocalNodes whose background tasks
// and retry loops run on real (millisecond) timers. One fault is injected at the first matching
// cross-node call; after the attempt (and its retries) ended and the ring had time to quiesce, every
// previously acknowledged key must be readable through every remaining node and every remaining node
// must be Active again.
// Second family (window.go): no transport fault - the leave is refused because the leaver's successor is
// locked for a join in flight behind the leaver; the join concludes before the retry (same oracle).
package main

import (
	"context"
	"sort"
	"strings"
	"time"

	"go.miragespace.co/specter/spec/chord"
	"verif/harness/hlib"
	"verif/harness/ringh"
)

type tuple struct{ scenario, rpc, mode string }

var rpcs = map[string][]string{
	"join":  {"RequestToJoin", "Import", "FinishJoin(true,false)", "FinishJoin(false,true)"},
	"leave": {"RequestToLeave", "Import", "FinishLeave(true,false)", "FinishLeave(false,true)"},
}

const interval = 4 * time.Millisecond

func waitFor(d time.Duration, cond func() bool) bool {
	deadline := time.Now().Add(d)
	for time.Now().Before(deadline) {
		if cond() {
			return true
		}
		time.Sleep(5 * time.Millisecond)
	}
	return cond()
}

func main() {
	hlib.Guarded(func(run *hlib.Run) {
		run.Rule = "fault table: scenario {join into a populated ring, leave of a populated node} x membership RPC {RequestToJoin|RequestToLeave, Import, Finish*(stabilize), Finish*(release)} x mode {fail before delivery, lose the response after delivery} x control (no fault), on rings of 3..5 real LocalNodes with millisecond timers and 10 acknowledged keys; plus scenario {leave of the highest-id member, leave of another member} whose RequestToLeave is refused (1..n times) by a successor holding the membership lock for a join held in flight directly behind the leaver (joiner next to the leaver / next to the successor / anywhere in the gap, possibly wrapping to the lowest id), the join concluding before the retry, on rings of 2..5 nodes with 28 acknowledged keys of which the leaver owns at least one; non-trivial = distinct (tuple, ring) in which the faulted call was actually reached"
		rng := hlib.NewRng(run.Seed)
		var tuples []tuple
		for _, sc := range []string{"join", "leave"} {
			tuples = append(tuples, tuple{sc, "none", "none"})
			for _, rpc := range rpcs[sc] {
				for _, m := range []string{"fail", "lost"} {
					tuples = append(tuples, tuple{sc, rpc, m})
				}
				if rpc == "Import" || rpc == "RequestToJoin" || rpc == "RequestToLeave" {
					// the fault persists through every retry: the attempt gives up for good
					tuples = append(tuples, tuple{sc, rpc, "always"})
				}
			}
		}
		// second family (window.go): the leave's RequestToLeave is refused because the successor holds the
		// membership lock for a join in flight behind the leaver; the join concludes before the retry
		for _, sc := range []string{scLeaveHi, scLeaveLo, scLeaveHi, scLeaveHi, scLeaveLo, scLeaveHi} {
			tuples = append(tuples, tuple{sc, "RequestToLeave", "refused"})
		}
		reps := 1
		if run.Thorough() {
			reps = 6
		}
		if run.Replay != "" {
			tuples = nil
			for _, t := range run.ReplayLines() {
				if t[0] == "fault" {
					tp := tuple{t[1], t[2], t[3]}
					tuples = append(tuples, tp)
					if isWindowScenario(tp.scenario) { // timing-dependent: a few fresh runs of the same kind
						tuples = append(tuples, tp, tp, tp)
					}
				}
			}
			reps = 1
		}
		for rep := 0; rep < reps; rep++ {
			for _, tp := range tuples {
				if isWindowScenario(tp.scenario) {
					windowCase(run, rng, tp.scenario)
					continue
				}
				oneCase(run, rng, tp)
			}
		}
	})
}

func oneCase(run *hlib.Run, rng *hlib.Rng, tp tuple) {
	n := 3 + rng.Intn(3)
	ids := ringh.AdversarialIDs(rng, n+1)
	r := ringh.NewRing()
	r.Interval = interval
	for _, id := range ids {
		r.New(id)
	}
	if err := r.Node(ids[0]).Create(); err != nil {
		panic(err)
	}
	members := []uint64{ids[0]}
	for _, id := range ids[1:n] {
		if err := r.Node(id).Join(r.Wrap(members[rng.Intn(len(members))])); err != nil {
			run.Count("setup-join-failed")
			return
		}
		members = append(members, id)
		time.Sleep(10 * interval)
	}
	ctx := context.Background()
	allActive := func(ms []uint64) bool {
		for _, m := range ms {
			if r.Node(m).VerifState() != chord.Active {
				return false
			}
		}
		return true
	}
	// acknowledged data
	acked := map[string]string{}
	for i, k := range ringh.KeyTokens[:10] {
		v := hlib.Pick(rng, ringh.ValTokens)
		entry := r.Wrap(members[i%len(members)])
		ok := waitFor(2*time.Second, func() bool { return entry.Put(ctx, []byte(k), []byte(v)) == nil })
		if !ok {
			run.Count("setup-put-failed")
			return
		}
		acked[k] = v
	}
	readable := func(ms []uint64) []string {
		var lost []string
		for k, v := range acked {
			for _, m := range ms {
				got, err := r.Wrap(m).Get(ctx, []byte(k))
				if err != nil || string(got) != v {
					lost = append(lost, k)
					break
				}
			}
		}
		sort.Strings(lost)
		return lost
	}
	if !waitFor(6*time.Second, func() bool { return allActive(members) && len(readable(members)) == 0 }) {
		run.Count("setup-not-stable")
		return
	}
	// arm the fault: first matching call
	reached := false
	if tp.rpc != "none" {
		r.Fault = func(target uint64, method string) int {
			if method != tp.rpc {
				return 0
			}
			if tp.mode == "always" {
				reached = true
				return 1
			}
			if reached {
				return 0
			}
			reached = true
			if tp.mode == "fail" {
				return 1
			}
			return 2
		}
	}
	var remaining []uint64
	subject := ids[n]
	done := make(chan struct{})
	switch tp.scenario {
	case "join":
		remaining = append([]uint64{}, members...)
		go func() {
			defer close(done)
			defer func() { recover() }()
			if r.Node(subject).Join(r.Wrap(members[rng.Intn(len(members))])) == nil {
				// joined: it is a remaining node too (checked below via state)
			}
		}()
	case "leave":
		// the node holding most keys leaves
		subject = members[0]
		best := -1
		for _, m := range members {
			c := strings.Count(r.StoreStr(m), "=")
			if c > best {
				best, subject = c, m
			}
		}
		for _, m := range members {
			if m != subject {
				remaining = append(remaining, m)
			}
		}
		go func() {
			defer close(done)
			defer func() { recover() }()
			r.Node(subject).Leave()
		}()
	}
	select {
	case <-done:
	case <-time.After(3 * time.Second):
	}
	// who remains: for a join the joiner remains iff it became a member; for a leave the leaver remains iff it did not leave
	st := r.Node(subject).VerifState()
	if tp.scenario == "join" && st != chord.Inactive {
		remaining = append(remaining, subject)
	}
	if tp.scenario == "leave" && st != chord.Left {
		remaining = append(remaining, subject)
	}
	r.Fault = nil
	recovered := waitFor(6*time.Second, func() bool { return allActive(remaining) && len(readable(remaining)) == 0 })
	var stuck []string
	var states []string
	sort.Slice(remaining, func(i, j int) bool { return remaining[i] < remaining[j] })
	for _, m := range remaining {
		s := r.Node(m).VerifState()
		states = append(states, ringh.U(m)+":"+s.String())
		if s != chord.Active {
			stuck = append(stuck, ringh.U(m)+":"+s.String())
		}
	}
	lost := []string{}
	if !recovered {
		lost = readable(remaining)
	}
	lhs := "fault " + tp.scenario + " " + tp.rpc + " " + tp.mode + " " + hlib.B(reached || tp.rpc == "none") + " n=" + hlib.F("%d", n)
	run.Emit(lhs, "stuck="+hlib.Join(stuck, ",")+" lost="+hlib.Join(lost, ",")+" subject="+st.String())
	key := ""
	if reached || tp.rpc == "none" {
		key = hlib.F("%v|%v", tp, ids)
	}
	run.Case(key)
	run.Count("tuple:" + tp.scenario + ":" + tp.rpc + ":" + tp.mode)
	_ = states
	// let the nodes of this case die quietly: stop their tasks by leaving (best effort, not observed)
	for _, id := range ids {
		r.Crash(id)
		r.Node(id).VerifStop()
	}
}
