// C39 correspondence: the real util/bufconn pipe vs the Lean ring-buffer model and the bounded-FIFO spec.
//
// Part 1 (sequential, D): one real `pipe` driven through the shim; at most one goroutine parked in
// Read or Write at a time (the real sync.Cond wait / Signal / Broadcast paths are exercised: a parked call is
// woken by the next operation and its answer is reported by an `rpoll` / `wpoll` line). Every line also carries
// the internal r,w,len(buf) at quiescent points.
// Part 2 (concurrent, V): real BufferedPipe conns, reader and writer goroutines with seeded yields, close at random
// points, real-time deadlines; the driver checks the delivered byte stream against the property statement.
package main

import (
	"fmt"
	"io"
	"net"
	"os"
	"runtime"
	"strconv"
	"sync"
	"time"

	"go.miragespace.co/specter/util/bufconn"
	"verif/harness/hlib"
)

const guard = 5 * time.Second

// grace: how long a call that is predicted to park is given before it is reported as parked
// (VERIF_C39_GRACE_US overrides it; correctness does not depend on it, see write()).
var grace = 3 * time.Millisecond

type seq struct {
	r   *hlib.Run
	v   *bufconn.VerifPipe
	cap int
	// harness-side accounting, used only to predict whether a call parks (how long to wait for it)
	q                    int
	closed, wc, rto, wto bool
	rpend                chan string
	rpendN               int
	wpend                chan string
	wrest                int
	hangs                int
	abort                bool // the implementation contradicted the harness prediction: end the case
	nops                 int
	key                  string
}

func (s *seq) state() string {
	r, w, l, _, _, _, _ := s.v.State()
	return fmt.Sprintf("%d,%d,%d", r, w, l)
}

func (s *seq) stateOrDash() string {
	if s.rpend != nil || s.wpend != nil {
		return "-"
	}
	return s.state()
}

func (s *seq) newCase(c int) {
	s.cleanup()
	s.v = bufconn.VerifNewPipe(c)
	s.cap, s.q = c, 0
	s.closed, s.wc, s.rto, s.wto = false, false, false, false
	s.key = "c" + strconv.Itoa(c)
	s.nops = 0
	s.abort = false
	s.r.Raw("# case")
	s.r.Emit("new "+strconv.Itoa(c), "ok")
}

func (s *seq) cleanup() {
	if s.v != nil {
		s.v.Close() // release parked goroutines
	}
	s.rpend, s.wpend = nil, nil
}

func (s *seq) endCase() {
	s.r.Case(s.key)
}

// quiescent = no woken goroutine can still be running (poll lines): report r,w,len even with a parked call
func (s *seq) emit(lhs, res string, quiescent bool) {
	st := s.stateOrDash()
	if quiescent {
		st = s.state()
	}
	s.r.Emit(lhs, res+"|"+st)
	s.key += ";" + lhs + ">" + res
	s.nops++
}

// wait for a call: predictedPark → short grace period, otherwise the long guard.
func (s *seq) await(ch chan string, predictedPark bool) (string, bool) {
	d := guard
	if predictedPark {
		d = grace
	}
	select {
	case res := <-ch:
		return res, true
	case <-time.After(d):
		if predictedPark {
			return "block", false
		}
		s.hangs++
		return "hang", false
	}
}

func (s *seq) startRead(n int) chan string {
	ch := make(chan string, 1)
	v := s.v
	go func() {
		defer func() {
			if e := recover(); e != nil {
				ch <- "panic"
			}
		}()
		buf := make([]byte, n)
		k, err := v.Read(buf)
		if err == nil {
			ch <- "data:" + hlib.Hex(buf[:k])
		} else if k != 0 {
			ch <- bufconn.VerifErr(err) + ":" + strconv.Itoa(k)
		} else {
			ch <- bufconn.VerifErr(err)
		}
	}()
	return ch
}

func (s *seq) startWrite(b []byte) chan string {
	ch := make(chan string, 1)
	v := s.v
	go func() {
		defer func() {
			if e := recover(); e != nil {
				ch <- "panic"
			}
		}()
		k, err := v.Write(b)
		if err == nil {
			ch <- "ok:" + strconv.Itoa(k)
		} else if k != 0 {
			ch <- bufconn.VerifErr(err) + ":" + strconv.Itoa(k)
		} else {
			ch <- bufconn.VerifErr(err)
		}
	}()
	return ch
}

func dataLen(res string) int {
	if len(res) >= 5 && res[:5] == "data:" {
		return len(hlib.UnHex(res[5:]))
	}
	return 0
}

func (s *seq) read(n int) {
	park := !s.closed && s.q == 0 && !s.wc && !s.rto
	ch := s.startRead(n)
	res, done := s.await(ch, park)
	s.r.Count("read:" + kind(res))
	if park != (res == "block") {
		s.abort = true
	}
	if !done && res == "block" {
		s.rpend, s.rpendN = ch, n
	}
	s.q -= dataLen(res)
	hadW := s.wpend != nil
	s.emit("read "+strconv.Itoa(n), res, false)
	if hadW {
		s.settleW(true)
	}
}

func (s *seq) write(b []byte) {
	var copied int
	park := false
	if !s.closed && !(s.wc && len(b) > 0) {
		copied = min(len(b), s.cap-s.q)
		park = copied < len(b) && !s.wto
	}
	ch := s.startWrite(b)
	res, done := s.await(ch, park)
	s.r.Count("write:" + kind(res))
	if park != (res == "block") {
		s.abort = true
	}
	s.q += copied
	if !done && res == "block" {
		// "block" was decided by the grace period only: the goroutine may not even have started. A parked writer
		// has filled the pipe, so wait until the pipe is full (or the call returns) before the next operation.
		deadline := time.Now().Add(guard)
	wait:
		for {
			select {
			case res = <-ch:
				done = true
				break wait
			default:
			}
			if _, _, _, full, _, _, _ := s.v.State(); full {
				break
			}
			if time.Now().After(deadline) {
				res = "hang"
				s.hangs++
				break
			}
			runtime.Gosched()
		}
	}
	if !done && res == "block" {
		s.wpend, s.wrest = ch, len(b)-copied
	}
	hadR := s.rpend != nil
	s.emit("write "+hlib.Hex(b), res, false)
	if hadR {
		s.settleR(copied > 0)
	}
}

// settleR: after an operation, report what the parked reader did.
func (s *seq) settleR(woken bool) {
	res := "block"
	if woken {
		var done bool
		res, done = s.await(s.rpend, false)
		_ = done
	} else {
		select {
		case res = <-s.rpend:
		default:
		}
	}
	if res != "block" {
		s.rpend = nil
		s.q -= dataLen(res)
	}
	s.r.Count("rpoll:" + kind(res))
	s.emit("rpoll", res, true)
}

// settleW: after an operation, report what the parked writer did (woken = the operation signalled wwait).
func (s *seq) settleW(woken bool) {
	res := "block"
	if woken {
		if s.closed || s.wc || s.wto || s.wrest <= s.cap-s.q {
			res, _ = s.await(s.wpend, false)
			if !s.closed && !s.wc {
				c := min(s.wrest, s.cap-s.q)
				s.q += c
			}
		} else {
			// it copies what fits and parks again: wait until the pipe is full again
			deadline := time.Now().Add(guard)
			for {
				select {
				case res = <-s.wpend:
				default:
				}
				if res != "block" {
					break
				}
				if _, _, _, full, _, _, _ := s.v.State(); full {
					break
				}
				if time.Now().After(deadline) {
					res = "hang"
					s.hangs++
					break
				}
				runtime.Gosched()
			}
			c := s.cap - s.q
			s.q += c
			s.wrest -= c
		}
	} else {
		select {
		case res = <-s.wpend:
		default:
		}
	}
	if res != "block" {
		s.wpend = nil
	}
	s.r.Count("wpoll:" + kind(res))
	s.emit("wpoll", res, true)
}

func kind(res string) string {
	for i := 0; i < len(res); i++ {
		if res[i] == ':' {
			return res[:i]
		}
	}
	return res
}

func (s *seq) flag(op string) {
	wakeR, wakeW := false, false
	switch op {
	case "close":
		s.v.Close()
		s.closed = true
		wakeR, wakeW = true, true
	case "closew":
		s.v.CloseWrite()
		s.wc = true
		wakeR, wakeW = true, true
	case "rtimer":
		s.v.SetReadDeadline(time.Now().Add(-time.Second))
		s.waitFlag(true)
		s.rto = true
		wakeR = true
	case "wtimer":
		s.v.SetWriteDeadline(time.Now().Add(-time.Second))
		s.waitFlag(false)
		s.wto = true
		wakeW = true
	case "rclear":
		s.v.SetReadDeadline(time.Time{})
		s.rto = false
	case "wclear":
		s.v.SetWriteDeadline(time.Time{})
		s.wto = false
	}
	s.r.Count("flag:" + op)
	hadR, hadW := s.rpend != nil, s.wpend != nil
	s.emit(op, "ok", false)
	if hadR {
		s.settleR(wakeR)
	}
	if hadW {
		s.settleW(wakeW)
	}
}

func (s *seq) waitFlag(read bool) {
	deadline := time.Now().Add(guard)
	for time.Now().Before(deadline) {
		_, _, _, _, _, rto, wto := s.v.State()
		if (read && rto) || (!read && wto) {
			return
		}
		runtime.Gosched()
	}
}

func (s *seq) do(t []string) {
	switch t[0] {
	case "new":
		c, _ := strconv.Atoi(t[1])
		s.newCase(c)
	case "read":
		if s.rpend == nil {
			n, _ := strconv.Atoi(t[1])
			s.read(n)
		}
	case "write":
		if s.wpend == nil {
			s.write(hlib.UnHex(t[1]))
		}
	case "close", "closew", "rtimer", "wtimer", "rclear", "wclear":
		s.flag(t[0])
	}
}

var caps = []int{1, 1, 2, 2, 3, 3, 4, 5, 6, 7, 8, 13, 16, 31, 64}

func (s *seq) randomCase(rng *hlib.Rng, ctr *byte) {
	c := hlib.Pick(rng, caps)
	if rng.Chance(20) {
		c = 1 + rng.Intn(64)
	}
	s.newCase(c)
	nops := 10 + rng.Intn(50)
	sz := func() int {
		switch rng.Intn(6) {
		case 0:
			return rng.Intn(2)
		case 1:
			return c
		case 2:
			return c + 1 + rng.Intn(3)
		default:
			return rng.Intn(c + 1)
		}
	}
	after := -1
	for i := 0; i < nops && s.hangs == 0 && !s.abort; i++ {
		if s.closed || s.wc {
			if after < 0 {
				after = 3
				if !s.closed {
					after = 8
				}
			}
			after--
			if after < 0 {
				break
			}
		}
		x := rng.Intn(100)
		switch {
		case x < 42:
			if s.wpend != nil {
				continue
			}
			n := sz()
			if s.rpend != nil && n > c { // with a parked reader a write must not park as well
				n = c
			}
			b := make([]byte, n)
			for j := range b {
				*ctr++
				b[j] = *ctr
			}
			s.write(b)
		case x < 84:
			if s.rpend != nil {
				continue
			}
			s.read(sz())
		case x < 87:
			s.flag("close")
		case x < 91:
			s.flag("closew")
		case x < 94:
			s.flag("rtimer")
		case x < 97:
			s.flag("wtimer")
		case x < 99:
			s.flag("rclear")
		default:
			s.flag("wclear")
		}
	}
	s.endCase()
}

// systematic: every wrap position o, fill f, write length L, read length n for capacity c.
func (s *seq) systematic(maxCap int) {
	ctr := byte(0)
	mk := func(n int) []byte {
		b := make([]byte, n)
		for j := range b {
			ctr++
			b[j] = ctr
		}
		return b
	}
	for c := 1; c <= maxCap; c++ {
		for o := 0; o < c; o++ {
			for f := 0; f <= c; f++ {
				for L := 0; L <= c+2; L++ {
					for n := 0; n <= c+1; n += 1 {
						if s.hangs > 0 {
							return
						}
						s.newCase(c)
						if o > 0 {
							s.write(mk(o))
							s.read(o)
						}
						if f > 0 {
							s.write(mk(f))
						}
						s.write(mk(L)) // parks when f+L > c
						steps := []func(){
							func() { s.read(n) }, // wakes the parked writer
							func() { s.read(c) }, func() { s.read(c) },
							func() { s.flag("closew") },
							func() { s.read(c) }, func() { s.read(c) },
						}
						for i, f := range steps {
							if s.abort || s.hangs > 0 {
								break
							}
							if s.rpend != nil && i != 3 {
								continue
							}
							f()
						}
						s.r.Count("systematic")
						s.endCase()
					}
				}
			}
		}
	}
}

// ---------- concurrent part ----------

func stream(r *hlib.Run, rng *hlib.Rng) string {
	c := hlib.Pick(rng, caps)
	if rng.Chance(30) {
		c = 1 + rng.Intn(64)
	}
	c1, c2 := bufconn.BufferedPipe(c)
	total := rng.Intn(6 * c + 40)
	payload := rng.Bytes(total)
	readerClosesAt := -1
	if rng.Chance(30) {
		readerClosesAt = rng.Intn(total + 1)
	}
	wseed, rseed := rng.U64(), rng.U64()
	var mu sync.Mutex
	offered := 0
	var delivered []byte
	wres, rres := "ok", "?"
	var wg sync.WaitGroup
	wg.Add(2)
	yield := func(g *hlib.Rng) {
		switch g.Intn(8) {
		case 0, 1, 2:
			runtime.Gosched()
		case 3:
			time.Sleep(time.Duration(g.Intn(50)) * time.Microsecond)
		}
	}
	go func() { // writer on c1
		defer wg.Done()
		g := hlib.NewRng(wseed)
		pos := 0
		for pos < total {
			n := 1 + g.Intn(2*c+2)
			if g.Chance(10) {
				n = 0
			}
			if pos+n > total {
				n = total - pos
			}
			mu.Lock()
			offered = pos + n
			mu.Unlock()
			k, err := c1.Write(payload[pos : pos+n])
			if err != nil {
				wres = bufconn.VerifErr(err)
				return
			}
			if k != n {
				wres = "short"
				return
			}
			pos += n
			yield(g)
		}
		c1.Close()
	}()
	go func() { // reader on c2
		defer wg.Done()
		g := hlib.NewRng(rseed)
		for {
			if readerClosesAt >= 0 && len(delivered) >= readerClosesAt {
				c2.Close()
				readerClosesAt = -2
			}
			buf := make([]byte, g.Intn(2*c+3))
			k, err := c2.Read(buf)
			delivered = append(delivered, buf[:k]...)
			if err != nil {
				rres = bufconn.VerifErr(err)
				return
			}
			yield(g)
		}
	}()
	done := make(chan struct{})
	go func() { wg.Wait(); close(done) }()
	res := "done"
	select {
	case <-done:
	case <-time.After(guard):
		res = "hang"
		c1.Close()
		c2.Close()
		<-done
	}
	mu.Lock()
	off := offered
	mu.Unlock()
	r.Raw("# case")
	early := "0"
	if readerClosesAt == -2 {
		early = "1"
	}
	lhs := fmt.Sprintf("stream %d %s %s %s %s %s", c, hlib.Hex(payload[:off]), hlib.Hex(delivered), wres, rres, early)
	r.Emit(lhs, res)
	r.Case(lhs)
	r.Count("stream:w=" + wres + ",r=" + rres)
	return res
}

func deadline(r *hlib.Run, rng *hlib.Rng) string {
	c := 1 + rng.Intn(16)
	c1, c2 := bufconn.BufferedPipe(c)
	defer c1.Close()
	defer c2.Close()
	which := "r"
	ch := make(chan string, 1)
	if rng.Bool() {
		c2.SetReadDeadline(time.Now().Add(4 * time.Millisecond))
		go func() {
			_, err := c2.Read(make([]byte, 4))
			ch <- bufconn.VerifErr(err)
		}()
	} else {
		which = "w"
		c1.Write(make([]byte, c)) // fill
		c1.SetWriteDeadline(time.Now().Add(4 * time.Millisecond))
		go func() {
			_, err := c1.Write([]byte{1})
			ch <- bufconn.VerifErr(err)
		}()
	}
	res := "hang"
	select {
	case res = <-ch:
	case <-time.After(guard):
	}
	r.Raw("# case")
	r.Emit("deadline "+which+" "+strconv.Itoa(c), res)
	r.Case("")
	r.Count("deadline:" + which)
	return res
}

var _ net.Conn
var _ = io.EOF

func main() {
	if us, err := strconv.Atoi(os.Getenv("VERIF_C39_GRACE_US")); err == nil && us > 0 {
		grace = time.Duration(us) * time.Microsecond
	}
	r := hlib.Start()
	r.Rule = "sequential case = capacity + op sequence (write/read with sizes around 0, cap, cap+k; close, closeWrite, deadline timers; parked calls woken by the next op), non-trivial = distinct (cap, ops, results); systematic = all (cap, wrap offset, fill, write len, read len); stream = concurrent reader/writer goroutines over BufferedPipe with seeded yields and close at random points"
	rng := hlib.NewRng(r.Seed)
	s := &seq{r: r}
	if r.Replay != "" {
		for _, t := range r.ReplayLines() {
			switch t[0] {
			case "stream":
				stream(r, rng)
			case "deadline":
				deadline(r, rng)
			default:
				if s.v == nil && t[0] != "new" {
					continue
				}
				s.do(t)
			}
		}
		s.cleanup()
		r.Finish()
		return
	}
	maxSys, nrand, nstream, ndl := 3, 1500, 300, 20
	if r.Thorough() {
		maxSys, nrand, nstream, ndl = 6, 20000, 4000, 100
	}
	s.systematic(maxSys)
	ctr := byte(0)
	for i := 0; i < nrand && s.hangs == 0; i++ {
		s.randomCase(rng, &ctr)
	}
	s.cleanup()
	hung := s.hangs
	for i := 0; i < nstream && hung == 0; i++ {
		if stream(r, rng) == "hang" {
			hung++
		}
	}
	for i := 0; i < ndl && hung == 0; i++ {
		if deadline(r, rng) == "hang" {
			hung++
		}
	}
	r.Finish()
}
