import SpecterModel.C01.Sim
import SpecterModel.C08.Props
/-! C08 driver: a join request must be answered with success, a retryable refusal, the duplicate-id
refusal or a routing (lookup/transport) error — never a panic, a crash, a hang or another error. -/
namespace Specter.C08
open Specter.Util Specter.Ring

def allowedRefusals : List String :=
  ([Err.joinInvalidState, .joinInvalidSuccessor, .joinTransferFailure, .leaveInvalidState, .leaveTransferFailure,
    .kvStale].filter (·.retryable)).map (fun e => "err:" ++ e.name) ++
  ["err:ErrDuplicateJoinerID"] ++
  ([Err.notStarted, .gone, .noSuccessor, .unreachable].filter isLookupError).map (fun e => "err:" ++ e.name)

def spec (_net _net' : Net) (toks : List String) (ires : String) : Option String :=
  match toks with
  | "reqjoin" :: _ | "reqjoinrace" :: _ =>
    if ires.startsWith "ok:" || allowedRefusals.contains ires then none
    else some s!"join request answered with {ires}"
  | _ => none

def main : IO Unit := runLoop ([] : Net) (ringStep spec)

end Specter.C08
