import SpecterModel.Util
import SpecterModel.C20.Model
import SpecterModel.C21.Drv
/-!
C20 line-protocol driver.

`<mutation> => result` / `snap keys => state` : reference run of the whole history (model correspondence).
`crash keys acked issued w tag => recovered|error|panic` : a crash image of that history, reopened by the real
`aof.New`. Oracle (property statement): the recovered state is the reference state (`specStep` fold: rejected
mutations contribute nothing) of a prefix `p` of the issued mutations with `acked ≤ p ≤ issued`.
Model prediction (when `w`, the number of completed WAL frame writes, is known): replay of the first `w`
logged mutations.
-/
namespace Specter.C20
open Specter.Util Specter.Aof Specter.Aof.Proto

structure St where
  store : Store := {}
  mems : Array Mem := #[Mem.empty]     -- reference state after every prefix of the history
deriving Inhabited

def step (st : St) (toks : List String) (rhs : String) : St × Verdict :=
  match toks with
  | ["reset"] => ({}, .ok)
  | ["snap", ks] =>
    match parseList ks with
    | none => (st, .bad "snap keys")
    | some keys =>
      let m := renderMem keys st.store.mem
      (st, if m = rhs then .ok else .diff m)
  | ["crash", ks, a, i, w, _tag] =>
    match parseList ks, a.toNat?, i.toNat? with
    | some keys, some acked, some issued =>
      let n := st.mems.size - 1
      let hi := min issued n
      let admissible := (List.range (hi + 1)).filter (fun p => acked ≤ p) |>.map
        (fun p => renderMem keys (st.mems.getD p Mem.empty))
      if ¬ admissible.contains rhs then
        (st, .spec s!"recovered state is not the state of any prefix p with {acked} ≤ p ≤ {hi}: admissible={admissible}")
      else
        match w.toNat? with
        | none => (st, .ok)
        | some w =>
          let m := match recover { seg := some (st.store.log.take w) } with
            | .ok s' => renderMem keys s'.mem
            | .error _ => "error"
          (st, if m = rhs then .ok else .diff m)
    | _, _, _ => (st, .bad "crash args")
  | _ =>
    match parseMutation toks with
    | none => (st, .bad "unknown op")
    | some mu =>
      if ¬ mu.WF then (st, .bad "ill-formed import") else
      let (s', r) := submit st.store mu
      let last := st.mems.getD (st.mems.size - 1) Mem.empty
      ({ store := s', mems := st.mems.push (specStep last mu) },
        if renderErr r = rhs then .ok else .diff (renderErr r))

def main : IO Unit := runLoop ({} : St) step

end Specter.C20
