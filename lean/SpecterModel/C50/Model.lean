/-!
C50 executable model of `(*Client).getConnectedNodes` (core Lean only).

`conns`: the connection map as (map key, node) pairs, any order — the code ranges a skipmap, i.e. ascending
key order, and keeps the first `NumRedundantLinks = 3` nodes. With a recorder, the kept nodes are stably sorted
by the code's comparator over `rttLookup` (measurement key ↦ average of the snapshot over the last 10 s; absent
when the snapshot is nil). The average itself is the implementation's integer (nanoseconds), an input.
-/
namespace Specter.C50

structure Node where
  id : Nat
  key : String        -- key in the connections map
  addr : String       -- node.Address
  unknown : Bool      -- node.Unknown
deriving Repr, DecidableEq

/-- `rtt.MakeMeasurementKey` -/
def mkey (n : Node) : String := n.addr ++ "/" ++ (if n.unknown then "-1" else "PHY")

/-- measurements of one key: ages (ms) of the recorded points, and the average the implementation computed
over the window (`none` when its snapshot was nil) -/
structure Entry where
  mkey : String
  ages : List Nat
  avg : Option Int
deriving Repr

def windowMs : Nat := 10000
def numRedundantLinks : Nat := 3

/-- `Snapshot(key, 10s)`: nil when the key is unknown or no point lies inside the window -/
def snapshot (tab : List Entry) (k : String) : Option Int :=
  match tab.find? (·.mkey == k) with
  | none => none
  | some e => if e.ages.any (· ≤ windowMs) then e.avg else none

/-- the comparator passed to `sort.SliceStable` -/
def less (look : Node → Option Int) (a b : Node) : Bool :=
  match look a, look b with
  | some _, none => true
  | none, some _ => false
  | some l, some r => decide (l < r)
  | none, none => false        -- `l < r` on two zero values

def le (look : Node → Option Int) (a b : Node) : Bool := !less look b a

/-- ascending map-key order (skipmap range) -/
def byKey (conns : List Node) : List Node := conns.mergeSort (fun a b => decide (a.key ≤ b.key))

def firstThree (conns : List Node) : List Node := (byKey conns).take numRedundantLinks

def connected (conns : List Node) (recorder : Bool) (look : Node → Option Int) : List Node :=
  let nodes := firstThree conns
  if !recorder then nodes else nodes.mergeSort (le look)

end Specter.C50
