import SpecterModel.C31.Model
/-!
# C32 — model of `spec/pki` subjects/identities and `pki.Server.RequestCertificate` / `RenewCertificate`

Core Lean only.  Re-uses the byte-string helpers of C31 (`dec`, `parseNat`, `join`).
Oracles (inputs supplied by the harness from the real libraries): `sha` (SHA-256), `b64` (`base64.URLEncoding`),
the verdict of `pow.VerifySolution` (`powRes`, modelled and proved in C31), x509 parsing (`parseOK`),
`oldCert.Verify` against the client CA with ExtKeyUsageClientAuth (`caVerified`), the certificate's public key.

The trust pool of `RenewCertificate` is modelled too (`trustVerdict`, `renewChain`): the server's `ClientCA` is a
`tls.Certificate`, i.e. a CHAIN of DER blobs (client CA first, then whatever the PEM bundle carried: its parent, the root, …).
Per chain element the harness supplies the x509 oracle "is this element parseable, and does the presented certificate
verify (ClientAuth) with that element as the ONLY root"; the code trusts `ClientCA.Certificate[0]` and nothing else.
-/
namespace Specter.C32
open Specter.C31 (Bytes dec parseNat join colon)

def v1 : Bytes := [118, 49]   -- "v1"
def v2 : Bytes := [118, 50]   -- "v2"

/-- text before the first separator and (if there is one) the text after it -/
def cut (sep : Nat) : Bytes → Bytes × Option Bytes
  | [] => ([], none)
  | c :: cs => if c = sep then ([], some cs) else ((c :: (cut sep cs).1), (cut sep cs).2)

/-- `strings.SplitN(s, ":", 3)` -/
def splitN3 (s : Bytes) : List Bytes :=
  match cut colon s with
  | (a, none) => [a]
  | (a, some r) =>
    match cut colon r with
    | (b, none) => [a, b]
    | (b, some r2) => [a, b, r2]

/-- `strconv.ParseUint(s, 10, 64)`: digits only (no sign), at least one, value < 2^64 -/
def parseUint64 (s : Bytes) : Option Nat := (parseNat s).bind fun v => if v < 2^64 then some v else none

inductive Version | v1 | v2
  deriving DecidableEq, Repr

structure Identity where
  token : Bytes
  id : Nat
  version : Version
  deriving DecidableEq, Repr

/-- result of `ExtractCertificateIdentity`; `panic` = `util.Must(strconv.ParseUint …)` on a non-numeric id -/
inductive ExtractRes
  | ok (i : Identity) | format | unknown | panic
  deriving DecidableEq, Repr

def extract (cn : Bytes) : ExtractRes :=
  match splitN3 cn with
  | [p0, p1, p2] =>
    if p0 = v1 then
      match parseUint64 p1 with
      | some id => .ok { token := p2, id := id, version := .v1 }
      | none => .panic
    else if p0 = v2 then
      match parseUint64 p1 with
      | some id => .ok { token := cn, id := id, version := .v2 }
      | none => .panic
    else .unknown
  | _ => .format

def makeSubjectV1 (id : Nat) (token : Bytes) : Bytes := join colon [v1, dec id, token]
def makeSubjectV2 (b64 : Bytes → Bytes) (id : Nat) (hash : Bytes) : Bytes := join colon [v2, dec id, b64 hash]

/-- what matters of an issued certificate: subject CommonName and public key (both are signed by the client CA) -/
structure Cert where
  cn : Bytes
  key : Bytes
  deriving DecidableEq, Repr

inductive ReqRes
  | issued (c : Cert)
  | powErr (r : C31.Res)
  deriving DecidableEq, Repr

/-- `RequestCertificate`: `id` is `chord.Random()`; `GenerateCertificate` cannot fail once the proof verified
(key length 32 is part of `VerifySolution`; CA parsing is configuration). -/
def request (sha b64 : Bytes → Bytes) (powRes : C31.Res) (pub : Bytes) (id : Nat) : ReqRes :=
  if powRes ≠ .ok then .powErr powRes
  else .issued { cn := makeSubjectV2 b64 id (sha pub), key := pub }

inductive RenewErr
  | required | parse | notOurCA | identity | panic | v1 | pow (r : C31.Res) | notEd25519 | keyMismatch
  deriving DecidableEq, Repr

/-- `RenewCertificate`, in the order of the Go code.  `certKey = none`: the old certificate's key is not ed25519. -/
def renew (derEmpty parseOK caVerified : Bool) (cn : Bytes) (powRes : C31.Res) (powKey : Bytes)
    (certKey : Option Bytes) : Except RenewErr Cert :=
  if derEmpty then .error .required else
  if !parseOK then .error .parse else
  if !caVerified then .error .notOurCA else
  match extract cn with
  | .format => .error .identity
  | .unknown => .error .identity
  | .panic => .error .panic
  | .ok ident =>
    if ident.version = .v1 then .error .v1 else
    if powRes ≠ .ok then .error (.pow powRes) else
    match certKey with
    | none => .error .notEd25519
    | some k =>
      if powKey ≠ k then .error .keyMismatch
      else .ok { cn := cn, key := powKey }

/-- One element of `ClientCA.Certificate` as seen by the presented certificate:
`none` = the DER blob is not a parseable certificate; `some b` = it parses and `oldCert.Verify` with that certificate as
the only root (KeyUsages = ClientAuth) says `b`. -/
abbrev ChainElem := Option Bool

inductive TrustRes
  | noChain        -- `p.ClientCA.Certificate[0]` on an empty chain: index out of range (Go panics)
  | caUnparsable   -- `x509.ParseCertificate(p.ClientCA.Certificate[0])` failed: twirp internal error
  | verdict (b : Bool)
  deriving DecidableEq, Repr

/-- The pool is `{ClientCA.Certificate[0]}`: only the FIRST element of the chain is parsed, added and consulted.
Certificates bundled behind the client CA (its issuer, a root, anything else in the PEM file) are not trust anchors. -/
def trustVerdict : List ChainElem → TrustRes
  | [] => .noChain
  | none :: _ => .caUnparsable
  | some b :: _ => .verdict b

inductive RenewChainErr
  | noChain | caUnparsable | renew (e : RenewErr)
  deriving DecidableEq, Repr

def liftRenew : Except RenewErr Cert → Except RenewChainErr Cert
  | .ok c => .ok c
  | .error e => .error (.renew e)

/-- `RenewCertificate` over the whole `ClientCA` chain, in the order of the Go code: the DER checks come before the chain is
touched; then the pool is built from element 0; the rest is `renew` with that verdict. -/
def renewChain (derEmpty parseOK : Bool) (chain : List ChainElem) (cn : Bytes) (powRes : C31.Res) (powKey : Bytes)
    (certKey : Option Bytes) : Except RenewChainErr Cert :=
  if derEmpty then .error (.renew .required) else
  if !parseOK then .error (.renew .parse) else
  match trustVerdict chain with
  | .noChain => .error .noChain
  | .caUnparsable => .error .caUnparsable
  | .verdict b => liftRenew (renew false true b cn powRes powKey certKey)

end Specter.C32
