// Package ringh drives real chord.LocalNode instances in one process, serially, through
// wrapper VNodes (every cross-node call is interceptable), and prints the line protocol of
// the Lean ring model (lean/SpecterModel/C01/Model.lean).
package ringh

import (
	"context"
	"errors"
	"fmt"
	"os"
	"path/filepath"
	"sort"
	"strconv"
	"strings"
	"sync"
	"time"

	"github.com/stretchr/testify/mock"
	"go.uber.org/zap"

	impl "go.miragespace.co/specter/chord"
	"go.miragespace.co/specter/kv/memory"
	"go.miragespace.co/specter/kv/sqlite3"
	"go.miragespace.co/specter/spec/chord"
	"go.miragespace.co/specter/spec/mocks"
	"go.miragespace.co/specter/spec/protocol"
	"go.miragespace.co/specter/spec/rtt"
)

var ErrUnreachable = errors.New("verif: node unreachable")

// Fault decides, per intercepted cross-node call, whether to fail it before delivery (1),
// lose the response after delivery (2) or deliver normally (0).
type Fault func(target uint64, method string) int

type Ring struct {
	// Backend of the nodes' KV provider: "" / "memory" (default) or "sqlite" (one database per node
	// under $VERIF_SCRATCH).
	Backend string
	closers []func()
	// Interval of the nodes' background tasks and retry delays (default 1h = tasks never fire, the
	// harness drives them explicitly); C07 uses milliseconds and lets the real timers run.
	Interval time.Duration
	// paused join (C09): the joiner's goroutine blocks at its first cross-node call after
	// RequestToJoin returned, i.e. with neighbour pointers assigned and an empty finger table
	pauseArmed bool
	pauseSeen  bool
	paused     chan struct{}
	resume     chan struct{}
	joinDone   chan string
	// generic second-stage pauses of an in-flight Join: before each FinishJoin call
	pauseMatch func(method string) bool
	pausedAt   chan string
	resume2    chan struct{}

	onIdentity   func()
	onIdentityOf uint64

	mu      sync.Mutex
	nodes   map[uint64]*impl.LocalNode
	wraps   map[uint64]*W
	crashed map[uint64]bool
	Fault   Fault
	Calls   []string // log of cross-node calls "method@target"
	LogRPC  bool
}

func NewRing() *Ring {
	return &Ring{nodes: map[uint64]*impl.LocalNode{}, wraps: map[uint64]*W{}, crashed: map[uint64]bool{}}
}

func (r *Ring) New(id uint64) *impl.LocalNode {
	m := new(mocks.Measurement)
	m.On("Snapshot", mock.Anything, mock.Anything).Return(&rtt.Statistics{})
	n := impl.NewLocalNode(impl.NodeConfig{
		BaseLogger:               zap.NewNop(),
		ChordClient:              new(mocks.ChordClient),
		Identity:                 &protocol.Node{Id: id, Address: "n" + strconv.FormatUint(id, 10)},
		KVProvider:               r.newKV(id),
		StabilizeInterval:        r.interval(),
		FixFingerInterval:        r.interval(),
		PredecessorCheckInterval: r.interval(),
		NodesRTT:                 m,
	})
	r.mu.Lock()
	r.nodes[id] = n
	r.wraps[id] = &W{inner: n, r: r}
	r.mu.Unlock()
	return n
}

var sqlInitOnce sync.Once

func (r *Ring) newKV(id uint64) chord.KVProvider {
	if r.Backend != "sqlite" {
		return memory.WithHashFn(chord.Hash)
	}
	base := os.Getenv("VERIF_SCRATCH")
	if base == "" {
		base = os.TempDir()
	}
	sqlInitOnce.Do(func() {
		cache := os.Getenv("WAZERO_CACHE")
		if cache == "" {
			cache = filepath.Join(base, "wazero")
		}
		os.MkdirAll(cache, 0o755)
		if err := sqlite3.Initialize(cache); err != nil {
			panic(err)
		}
	})
	dir, err := os.MkdirTemp(base, "ringsql")
	if err != nil {
		panic(err)
	}
	kv, err := sqlite3.New(sqlite3.Config{Logger: zap.NewNop(), HashFn: chord.Hash, DataDir: dir})
	if err != nil {
		panic(err)
	}
	r.closers = append(r.closers, func() { kv.Close(); os.RemoveAll(dir) })
	return kv
}

// Close releases per-node resources (sqlite databases).
func (r *Ring) Close() {
	for _, c := range r.closers {
		c()
	}
	r.closers = nil
}

func (r *Ring) interval() time.Duration {
	if r.Interval > 0 {
		return r.Interval
	}
	return time.Hour
}

func (r *Ring) Node(id uint64) *impl.LocalNode { r.mu.Lock(); defer r.mu.Unlock(); return r.nodes[id] }
func (r *Ring) Wrap(id uint64) *W              { r.mu.Lock(); defer r.mu.Unlock(); return r.wraps[id] }
func (r *Ring) Crash(id uint64)                { r.mu.Lock(); r.crashed[id] = true; r.mu.Unlock() }
func (r *Ring) IDs() []uint64 {
	r.mu.Lock()
	defer r.mu.Unlock()
	ids := make([]uint64, 0, len(r.nodes))
	for id := range r.nodes {
		ids = append(ids, id)
	}
	sort.Slice(ids, func(i, j int) bool { return ids[i] < ids[j] })
	return ids
}

// wrap maps any VNode (raw LocalNode or wrapper) to the registered wrapper of its id.
func (r *Ring) wrap(v chord.VNode) chord.VNode {
	if v == nil {
		return nil
	}
	if w, ok := v.(*W); ok {
		return w
	}
	r.mu.Lock()
	w := r.wraps[v.ID()]
	r.mu.Unlock()
	if w == nil {
		return v
	}
	return w
}

func (r *Ring) wrapAll(vs []chord.VNode) []chord.VNode {
	out := make([]chord.VNode, len(vs))
	for i, v := range vs {
		out[i] = r.wrap(v)
	}
	return out
}

// W is the interceptable VNode handed to every node instead of the raw LocalNode.
type W struct {
	inner *impl.LocalNode
	r     *Ring
}

var _ chord.VNode = (*W)(nil)

// pre returns an error when the call must fail before delivery; post reports response loss.
func (w *W) gate(method string) (pre error, lose bool) {
	w.r.mu.Lock()
	if w.r.pauseArmed {
		if method == "RequestToJoin" {
			w.r.pauseSeen = true
		} else if w.r.pauseSeen && (method == "GetPredecessor" || method == "GetSuccessors") {
			w.r.pauseArmed = false
			paused, resume := w.r.paused, w.r.resume
			w.r.mu.Unlock()
			close(paused)
			<-resume
			w.r.mu.Lock()
		}
	}
	if w.r.pauseMatch != nil && w.r.pauseMatch(method) {
		w.r.pauseMatch = nil
		at, res := w.r.pausedAt, w.r.resume2
		w.r.mu.Unlock()
		at <- method
		<-res
		w.r.mu.Lock()
	}
	defer w.r.mu.Unlock()
	if w.r.LogRPC {
		w.r.Calls = append(w.r.Calls, method+"@"+strconv.FormatUint(w.inner.ID(), 10))
	}
	if w.r.crashed[w.inner.ID()] {
		return ErrUnreachable, false
	}
	if w.r.Fault != nil {
		switch w.r.Fault(w.inner.ID(), method) {
		case 1:
			return ErrUnreachable, false
		case 2:
			return nil, true
		}
	}
	return nil, false
}

// PauseNext arms a one-shot pause: the next cross-node call whose method name satisfies match blocks before it
// is delivered. at receives the method name once the caller is blocked; resume lets it continue (idempotent).
func (r *Ring) PauseNext(match func(method string) bool) (at <-chan string, resume func()) {
	r.mu.Lock()
	defer r.mu.Unlock()
	r.pauseMatch = match
	r.pausedAt = make(chan string, 1)
	res := make(chan struct{})
	r.resume2 = res
	var once sync.Once
	return r.pausedAt, func() {
		once.Do(func() {
			r.mu.Lock()
			r.pauseMatch = nil
			r.mu.Unlock()
			close(res)
		})
	}
}

func (w *W) ID() uint64               { return w.inner.ID() }
func (w *W) Identity() *protocol.Node {
	// one-shot yield point: LocalNode.RequestToJoin reads joiner.Identity() after it decided that it is
	// responsible for the joiner and before it takes the membership lock; a concurrent goroutine's work
	// (e.g. checkPredecessor) is run exactly there
	w.r.mu.Lock()
	h := w.r.onIdentity
	if h != nil && w.r.onIdentityOf == w.inner.ID() {
		w.r.onIdentity = nil
	} else {
		h = nil
	}
	w.r.mu.Unlock()
	if h != nil {
		h()
	}
	return w.inner.Identity()
}
func (w *W) Ping() error {
	if e, _ := w.gate("Ping"); e != nil {
		return e
	}
	return w.inner.Ping()
}
func (w *W) Notify(p chord.VNode) error {
	e, lose := w.gate("Notify")
	if e != nil {
		return e
	}
	err := w.inner.Notify(w.r.wrap(p))
	if lose {
		return ErrUnreachable
	}
	return err
}
func (w *W) FindSuccessor(key uint64) (chord.VNode, error) {
	e, lose := w.gate("FindSuccessor")
	if e != nil {
		return nil, e
	}
	v, err := w.inner.FindSuccessor(key)
	if lose {
		return nil, ErrUnreachable
	}
	return w.r.wrap(v), err
}
func (w *W) GetSuccessors() ([]chord.VNode, error) {
	e, lose := w.gate("GetSuccessors")
	if e != nil {
		return nil, e
	}
	v, err := w.inner.GetSuccessors()
	if lose {
		return nil, ErrUnreachable
	}
	return w.r.wrapAll(v), err
}
func (w *W) GetPredecessor() (chord.VNode, error) {
	e, lose := w.gate("GetPredecessor")
	if e != nil {
		return nil, e
	}
	v, err := w.inner.GetPredecessor()
	if lose {
		return nil, ErrUnreachable
	}
	return w.r.wrap(v), err
}
func (w *W) RequestToJoin(j chord.VNode) (chord.VNode, []chord.VNode, error) {
	e, lose := w.gate("RequestToJoin")
	if e != nil {
		return nil, nil, e
	}
	p, s, err := w.inner.RequestToJoin(w.r.wrap(j))
	if lose {
		return nil, nil, ErrUnreachable
	}
	return w.r.wrap(p), w.r.wrapAll(s), err
}
func (w *W) FinishJoin(stabilize, release bool) error {
	e, lose := w.gate(fmt.Sprintf("FinishJoin(%v,%v)", stabilize, release))
	if e != nil {
		return e
	}
	err := w.inner.FinishJoin(stabilize, release)
	if lose {
		return ErrUnreachable
	}
	return err
}
func (w *W) RequestToLeave(l chord.VNode) error {
	e, lose := w.gate("RequestToLeave")
	if e != nil {
		return e
	}
	err := w.inner.RequestToLeave(w.r.wrap(l))
	if lose {
		return ErrUnreachable
	}
	return err
}
func (w *W) FinishLeave(stabilize, release bool) error {
	e, lose := w.gate(fmt.Sprintf("FinishLeave(%v,%v)", stabilize, release))
	if e != nil {
		return e
	}
	err := w.inner.FinishLeave(stabilize, release)
	if lose {
		return ErrUnreachable
	}
	if release {
		w.r.signalRelease()
	}
	return err
}

// KV (routed)
func (w *W) kvGate(m string) error { e, _ := w.gate(m); return e }
func (w *W) Put(ctx context.Context, k, v []byte) error {
	if e := w.kvGate("Put"); e != nil {
		return e
	}
	return w.inner.Put(ctx, k, v)
}
func (w *W) Get(ctx context.Context, k []byte) ([]byte, error) {
	if e := w.kvGate("Get"); e != nil {
		return nil, e
	}
	return w.inner.Get(ctx, k)
}
func (w *W) Delete(ctx context.Context, k []byte) error {
	if e := w.kvGate("Delete"); e != nil {
		return e
	}
	return w.inner.Delete(ctx, k)
}
func (w *W) PrefixAppend(ctx context.Context, p, c []byte) error {
	if e := w.kvGate("PrefixAppend"); e != nil {
		return e
	}
	return w.inner.PrefixAppend(ctx, p, c)
}
func (w *W) PrefixList(ctx context.Context, p []byte) ([][]byte, error) {
	if e := w.kvGate("PrefixList"); e != nil {
		return nil, e
	}
	return w.inner.PrefixList(ctx, p)
}
func (w *W) PrefixContains(ctx context.Context, p, c []byte) (bool, error) {
	if e := w.kvGate("PrefixContains"); e != nil {
		return false, e
	}
	return w.inner.PrefixContains(ctx, p, c)
}
func (w *W) PrefixRemove(ctx context.Context, p, c []byte) error {
	if e := w.kvGate("PrefixRemove"); e != nil {
		return e
	}
	return w.inner.PrefixRemove(ctx, p, c)
}
func (w *W) Acquire(ctx context.Context, l []byte, ttl time.Duration) (uint64, error) {
	if e := w.kvGate("Acquire"); e != nil {
		return 0, e
	}
	return w.inner.Acquire(ctx, l, ttl)
}
func (w *W) Renew(ctx context.Context, l []byte, ttl time.Duration, t uint64) (uint64, error) {
	if e := w.kvGate("Renew"); e != nil {
		return 0, e
	}
	return w.inner.Renew(ctx, l, ttl, t)
}
func (w *W) Release(ctx context.Context, l []byte, t uint64) error {
	if e := w.kvGate("Release"); e != nil {
		return e
	}
	return w.inner.Release(ctx, l, t)
}
func (w *W) Import(ctx context.Context, keys [][]byte, vals []*protocol.KVTransfer) error {
	e, lose := w.gate("Import")
	if e != nil {
		return e
	}
	err := w.inner.Import(ctx, keys, vals)
	if lose {
		return ErrUnreachable
	}
	return err
}
func (w *W) ListKeys(ctx context.Context, p []byte) ([]*protocol.KeyComposite, error) {
	if e := w.kvGate("ListKeys"); e != nil {
		return nil, e
	}
	return w.inner.ListKeys(ctx, p)
}

// ---- release signalling for Leave (which blocks in stopWg.Wait with 1h task intervals) ----

var relMu sync.Mutex
var relCh chan struct{}

func (r *Ring) signalRelease() {
	relMu.Lock()
	if relCh != nil {
		select {
		case relCh <- struct{}{}:
		default:
		}
	}
	relMu.Unlock()
}

// ---- canonical names ----

func ErrName(err error) string {
	switch {
	case err == nil:
		return "ok"
	case errors.Is(err, chord.ErrNodeNotStarted):
		return "err:ErrNodeNotStarted"
	case errors.Is(err, chord.ErrNodeGone):
		return "err:ErrNodeGone"
	case errors.Is(err, chord.ErrNodeNoSuccessor):
		return "err:ErrNodeNoSuccessor"
	case errors.Is(err, chord.ErrDuplicateJoinerID):
		return "err:ErrDuplicateJoinerID"
	case errors.Is(err, chord.ErrJoinInvalidState):
		return "err:ErrJoinInvalidState"
	case errors.Is(err, chord.ErrJoinInvalidSuccessor):
		return "err:ErrJoinInvalidSuccessor"
	case errors.Is(err, chord.ErrJoinTransferFailure):
		return "err:ErrJoinTransferFailure"
	case errors.Is(err, chord.ErrLeaveInvalidState):
		return "err:ErrLeaveInvalidState"
	case errors.Is(err, chord.ErrLeaveTransferFailure):
		return "err:ErrLeaveTransferFailure"
	case errors.Is(err, chord.ErrKVStaleOwnership):
		return "err:ErrKVStaleOwnership"
	case errors.Is(err, chord.ErrKVPrefixConflict):
		return "err:ErrKVPrefixConflict"
	case errors.Is(err, ErrUnreachable):
		return "err:Unreachable"
	case strings.Contains(err.Error(), "not Inactive"):
		return "err:NotInactive"
	case strings.Contains(err.Error(), "ring is unstable"):
		return "err:RingUnstable"
	}
	return "err:other(" + strings.ReplaceAll(err.Error(), " ", "_") + ")"
}

func stateName(s chord.State) string {
	switch s {
	case chord.Inactive:
		return "Inactive"
	case chord.Joining:
		return "Joining"
	case chord.Active:
		return "Active"
	case chord.Transferring:
		return "Transferring"
	case chord.Leaving:
		return "Leaving"
	case chord.Left:
		return "Left"
	}
	return "?"
}

func idOrNil(v chord.VNode) string {
	if v == nil {
		return "nil"
	}
	return strconv.FormatUint(v.ID(), 10)
}

func rle(xs []string) string {
	var out []string
	for i := 0; i < len(xs); {
		j := i
		for j < len(xs) && xs[j] == xs[i] {
			j++
		}
		out = append(out, fmt.Sprintf("%s*%d", xs[i], j-i))
		i = j
	}
	return strings.Join(out, ",")
}

// Dump prints every node in the model's canonical format.
func (r *Ring) Dump() string {
	var parts []string
	for _, id := range r.IDs() {
		n := r.Node(id)
		var succs []string
		for _, s := range n.VerifSuccs() {
			if s != nil {
				succs = append(succs, strconv.FormatUint(s.ID(), 10))
			}
		}
		var fs []string
		for _, f := range n.VerifFingers() {
			if f == nil {
				fs = append(fs, "n")
			} else {
				fs = append(fs, strconv.FormatUint(f.ID(), 10))
			}
		}
		parts = append(parts, fmt.Sprintf("%d:%s:%s:%s:%s:%s:%s", id, stateName(n.VerifState()), idOrNil(n.VerifPred()),
			strings.Join(succs, ","), idOrNil(n.VerifSurrogate()), rle(fs), r.StoreStr(id)))
	}
	return strings.Join(parts, " ; ")
}

func (r *Ring) StoreStr(id uint64) string {
	kv := r.Node(id).VerifKV()
	ctx := context.Background()
	keys, _ := kv.RangeKeys(ctx, 0, 0)
	var ks []string
	for _, k := range keys {
		ks = append(ks, string(k))
	}
	sort.Strings(ks)
	var out []string
	for _, k := range ks {
		v, _ := kv.Get(ctx, []byte(k))
		ch, _ := kv.PrefixList(ctx, []byte(k))
		var cs []string
		for _, c := range ch {
			cs = append(cs, string(c))
		}
		sort.Strings(cs)
		s := k + "="
		if v == nil {
			s += "~"
		} else {
			s += string(v)
		}
		for _, c := range cs {
			s += "+" + c
		}
		out = append(out, s)
	}
	if len(out) == 0 {
		return "-"
	}
	return strings.Join(out, ",")
}

// withTimeout runs f in a goroutine; "timeout" if it does not finish (a goroutine blocked in the
// repo's retry sleep or on a mutex).
func withTimeout(d time.Duration, f func() string) string {
	ch := make(chan string, 1)
	go func() {
		defer func() {
			if p := recover(); p != nil {
				ch <- "err:PANIC"
			}
		}()
		ch <- f()
	}()
	select {
	case s := <-ch:
		return s
	case <-time.After(d):
		return "timeout"
	}
}

const opTimeout = 4 * time.Second

// Exec executes one protocol op (lhs tokens) on the real nodes and returns the result token.
func (r *Ring) Exec(t []string) string {
	u := func(i int) uint64 { v, _ := strconv.ParseUint(t[i], 10, 64); return v }
	ctx := context.Background()
	switch t[0] {
	case "new":
		r.New(u(1))
		return "ok"
	case "create":
		return withTimeout(opTimeout, func() string {
			res := ErrName(r.Node(u(1)).Create())
			// let the freshly started tasks take their first turn now (the predecessor check runs once at start,
			// while pred == self: a no-op); left in the run queue it could run after later operations instead
			time.Sleep(2 * time.Millisecond)
			return res
		})
	case "join":
		return withTimeout(opTimeout, func() string {
			res := ErrName(r.Node(u(1)).Join(r.Wrap(u(2))))
			time.Sleep(2 * time.Millisecond) // let the freshly started predecessor check run
			return res
		})
	case "leave":
		return r.leave(u(1))
	case "reqleave":
		return withTimeout(opTimeout, func() string { return ErrName(r.Wrap(u(1)).RequestToLeave(r.Wrap(u(1)))) })
	case "execleave":
		return withTimeout(opTimeout, func() string {
			p, s, err := r.Node(u(1)).VerifExecuteLeave()
			if err != nil {
				if strings.Contains(err.Error(), "nil predecessor") {
					return "err:NilPredecessor"
				}
				if strings.Contains(err.Error(), "storing KV to successor") {
					return "err:ErrLeaveTransferFailure"
				}
				return ErrName(err)
			}
			if p != nil && s != nil && p.ID() == u(1) && s.ID() == u(1) {
				return "ok:alone"
			}
			return "ok:" + idOrNil(p) + ":" + idOrNil(s)
		})
	case "joinprobe":
		// joinprobe <j> <peer> <key>: Join(peer) at j; while its join request is on the way to the peer (j is Joining
		// and has no neighbour pointers yet) a lookup for <key> is made at j
		return withTimeout(3*opTimeout, func() string {
			at, resume := r.PauseNext(func(m string) bool { return m == "RequestToJoin" })
			done := make(chan string, 1)
			go func() {
				defer func() {
					if recover() != nil {
						done <- "err:PANIC"
					}
				}()
				done <- ErrName(r.Node(u(1)).Join(r.Wrap(u(2))))
			}()
			lres := "nopause"
			select {
			case <-at:
				lc := make(chan string, 1)
				go func() {
					defer func() {
						if recover() != nil {
							lc <- "err:PANIC"
						}
					}()
					v, err := r.Wrap(u(1)).FindSuccessor(u(3))
					if err != nil {
						lc <- ErrName(err)
					} else {
						lc <- "found:" + idOrNil(v)
					}
				}()
				select {
				case lres = <-lc:
				case <-time.After(opTimeout):
					lres = "timeout"
				}
			case res := <-done:
				resume()
				return "nopause;" + res
			case <-time.After(opTimeout):
				resume()
				return "timeout"
			}
			resume()
			select {
			case res := <-done:
				time.Sleep(2 * time.Millisecond)
				return lres + ";" + res
			case <-time.After(opTimeout):
				return lres + ";timeout"
			}
		})
	case "leavefinish":
		// leavefinish <l> <pre> <succ>: the tail of Leave() after a successful executeLeave (advisory to the
		// predecessor, local state Left, release of the successor's lock)
		return withTimeout(opTimeout, func() string {
			l, p, sc := u(1), u(2), u(3)
			if p != l {
				r.Wrap(p).FinishLeave(true, false)
			}
			r.Node(l).VerifSetState(chord.Left)
			if sc != l {
				r.Wrap(sc).FinishLeave(false, true)
			}
			r.Node(l).VerifStop()
			return "ok"
		})
	case "joinbegin":
		r.mu.Lock()
		r.pauseArmed, r.pauseSeen = true, false
		r.paused, r.resume, r.joinDone = make(chan struct{}), make(chan struct{}), make(chan string, 1)
		paused, done := r.paused, r.joinDone
		r.mu.Unlock()
		j, peer := r.Node(u(1)), r.Wrap(u(2))
		go func() {
			defer func() {
				if p := recover(); p != nil {
					done <- "err:PANIC"
				}
			}()
			done <- ErrName(j.Join(peer))
		}()
		select {
		case <-paused:
			return "ok"
		case res := <-done: // failed before reaching the pause point
			r.mu.Lock()
			r.pauseArmed = false
			r.mu.Unlock()
			done <- res
			return res
		case <-time.After(opTimeout):
			return "timeout"
		}
	case "jointasks", "joinadvise":
		// let the paused Join run up to (not including) its next FinishJoin call; report which call is pending
		r.mu.Lock()
		done := r.joinDone
		r.pauseMatch = func(m string) bool { return strings.HasPrefix(m, "FinishJoin") }
		r.pausedAt = make(chan string, 1)
		prevResume2 := r.resume2
		r.resume2 = make(chan struct{})
		at := r.pausedAt
		resume1 := r.resume
		r.mu.Unlock()
		if t[0] == "jointasks" {
			select {
			case <-r.paused:
				select {
				case <-resume1:
				default:
					close(resume1)
				}
			default:
			}
		} else if prevResume2 != nil {
			close(prevResume2)
		}
		select {
		case m := <-at:
			time.Sleep(3 * time.Millisecond) // let the freshly started predecessor check run
			return "pending:" + m
		case res := <-done:
			done <- res
			return "finished"
		case <-time.After(opTimeout):
			return "timeout"
		}
	case "joinend", "joinrelease":
		r.mu.Lock()
		resume, done := r.resume, r.joinDone
		if r.resume2 != nil {
			select {
			case <-r.resume2:
			default:
				close(r.resume2)
			}
			r.resume2 = nil
		}
		r.pauseMatch = nil
		r.mu.Unlock()
		select {
		case <-r.paused:
			select {
			case <-resume:
			default:
				close(resume)
			}
		default:
		}
		select {
		case res := <-done:
			time.Sleep(3 * time.Millisecond) // let the freshly started predecessor check run
			if res == "ok" {
				return "ok"
			}
			return "ok" // the model's joinend has no result of its own; a failed join was reported by joinbegin
		case <-time.After(opTimeout):
			return "timeout"
		}
	case "setpred":
		if t[2] == "nil" {
			r.Node(u(1)).VerifSetPred(nil)
		} else {
			r.Node(u(1)).VerifSetPred(r.Wrap(u(2)))
		}
		return "ok"
	case "setstate":
		for _, st := range []chord.State{chord.Inactive, chord.Joining, chord.Active, chord.Transferring, chord.Leaving, chord.Left} {
			if stateName(st) == t[2] {
				r.Node(u(1)).VerifSetState(st)
			}
		}
		return "ok"
	case "setfinger":
		k, _ := strconv.Atoi(t[2])
		if t[3] == "nil" {
			r.Node(u(1)).VerifSetFinger(k, nil)
		} else {
			r.Node(u(1)).VerifSetFinger(k, r.Wrap(u(3)))
		}
		return "ok"
	case "setsuccs":
		var l []chord.VNode
		if t[2] != "-" {
			for _, x := range strings.Split(t[2], ",") {
				id, _ := strconv.ParseUint(x, 10, 64)
				l = append(l, r.Wrap(id))
			}
		}
		r.Node(u(1)).VerifSetSuccs(l)
		return "ok"
	case "stabilize":
		return withTimeout(opTimeout, func() string { r.Node(u(1)).VerifStabilize(); return "ok" })
	case "stabilizex": // stabilize whose Notify to the successor is lost
		return withTimeout(opTimeout, func() string {
			old := r.Fault
			r.Fault = func(target uint64, method string) int {
				if method == "Notify" {
					return 1
				}
				return 0
			}
			r.Node(u(1)).VerifStabilize()
			r.Fault = old
			return "ok"
		})
	case "fixfinger":
		return withTimeout(opTimeout, func() string { r.Node(u(1)).VerifFixFinger(); return "ok" })
	case "checkpred":
		return withTimeout(opTimeout, func() string { r.Node(u(1)).VerifCheckPredecessor(); return "ok" })
	case "crash":
		r.Crash(u(1))
		return "ok"
	case "lookup", "lookupq": // lookupq: issued by a harness only after the repair rounds reached a fixpoint
		return withTimeout(opTimeout, func() string {
			v, err := r.Wrap(u(1)).FindSuccessor(u(2))
			if err != nil {
				return ErrName(err)
			}
			return "found:" + idOrNil(v)
		})
	case "reqjoin", "reqjoinfault": // reqjoinfault: the harness has armed a fault on the joiner's Import
		return withTimeout(opTimeout, func() string {
			p, s, err := r.Wrap(u(1)).RequestToJoin(r.Wrap(u(2)))
			if err != nil {
				return ErrName(err)
			}
			var ss []string
			for _, x := range s {
				ss = append(ss, idOrNil(x))
			}
			return "ok:" + idOrNil(p) + ":" + strings.Join(ss, ",")
		})
	case "reqjoinrace":
		// reqjoinrace <via> <joiner> <x>: x's checkPredecessor runs between the routing decision and the
		// membership lock of the node that handles the join
		return withTimeout(opTimeout, func() string {
			x := u(3)
			r.mu.Lock()
			r.onIdentityOf = u(2)
			r.onIdentity = func() { r.nodes[x].VerifCheckPredecessor() }
			r.mu.Unlock()
			p, s, err := r.Wrap(u(1)).RequestToJoin(r.Wrap(u(2)))
			r.mu.Lock()
			r.onIdentity = nil
			r.mu.Unlock()
			if err != nil {
				return ErrName(err)
			}
			var ss []string
			for _, x := range s {
				ss = append(ss, idOrNil(x))
			}
			return "ok:" + idOrNil(p) + ":" + strings.Join(ss, ",")
		})
	case "reqjoinjoin":
		// reqjoinjoin <via> <low> <high> <peer>: while <via>'s owner handles the join request of <low> (after it
		// decided that it is responsible, before it takes the membership lock) a complete Join of <high> through
		// <peer> runs
		return withTimeout(2*opTimeout, func() string {
			high, peer := u(3), u(4)
			r.mu.Lock()
			r.onIdentityOf = u(2)
			r.onIdentity = func() {
				func() {
					defer func() { recover() }()
					r.nodes[high].Join(r.Wrap(peer))
				}()
				time.Sleep(2 * time.Millisecond)
			}
			r.mu.Unlock()
			p, s, err := r.Wrap(u(1)).RequestToJoin(r.Wrap(u(2)))
			r.mu.Lock()
			r.onIdentity = nil
			r.mu.Unlock()
			if err != nil {
				return ErrName(err)
			}
			var ss []string
			for _, x := range s {
				ss = append(ss, idOrNil(x))
			}
			return "ok:" + idOrNil(p) + ":" + strings.Join(ss, ",")
		})
	case "finish":
		return withTimeout(opTimeout, func() string {
			r.Wrap(u(1)).FinishJoin(t[2] == "true", t[3] == "true")
			return "ok"
		})
	case "walk":
		return withTimeout(opTimeout, func() string { return r.walk(u(1)) })
	case "listkeys":
		return withTimeout(opTimeout, func() string {
			p := t[2]
			if p == "-" {
				p = ""
			}
			ks, err := r.Wrap(u(1)).ListKeys(ctx, []byte(p))
			if err != nil {
				return ErrName(err)
			}
			var out []string
			for _, k := range ks {
				switch k.GetType() {
				case protocol.KeyComposite_SIMPLE:
					out = append(out, "S:"+string(k.GetKey()))
				case protocol.KeyComposite_PREFIX:
					out = append(out, "P:"+string(k.GetKey()))
				case protocol.KeyComposite_LEASE:
					out = append(out, "L:"+string(k.GetKey()))
				}
			}
			sort.Strings(out)
			if len(out) == 0 {
				return "keys:-"
			}
			return "keys:" + strings.Join(out, ",")
		})
	case "put", "get", "del", "pappend", "premove", "pcontains", "plist":
		return withTimeout(opTimeout, func() string { return r.kv(t) })
	}
	return "err:unknown-op"
}

func (r *Ring) kv(t []string) string {
	n, _ := strconv.ParseUint(t[1], 10, 64)
	w := r.Wrap(n)
	ctx := context.Background()
	k := []byte(t[2])
	switch t[0] {
	case "put":
		return ErrName(w.Put(ctx, k, []byte(t[4])))
	case "get":
		v, err := w.Get(ctx, k)
		if err != nil {
			return ErrName(err)
		}
		if v == nil {
			return "nil"
		}
		return "val:" + string(v)
	case "del":
		return ErrName(w.Delete(ctx, k))
	case "pappend":
		return ErrName(w.PrefixAppend(ctx, k, []byte(t[4])))
	case "premove":
		return ErrName(w.PrefixRemove(ctx, k, []byte(t[4])))
	case "pcontains":
		b, err := w.PrefixContains(ctx, k, []byte(t[4]))
		if err != nil {
			return ErrName(err)
		}
		return strconv.FormatBool(b)
	case "plist":
		l, err := w.PrefixList(ctx, k)
		if err != nil {
			return ErrName(err)
		}
		var cs []string
		for _, c := range l {
			cs = append(cs, string(c))
		}
		sort.Strings(cs)
		if len(cs) == 0 {
			return "list:-"
		}
		return "list:" + strings.Join(cs, ",")
	}
	return "err:unknown-op"
}

// walk reproduces the ring walk of ListKeys through the public FindSuccessor (observation only).
func (r *Ring) walk(n uint64) string {
	start := r.Wrap(n)
	var ids []string
	seen := map[uint64]bool{}
	var next chord.VNode = start
	for i := 0; i < 1000; i++ {
		nx, err := start.FindSuccessor(chord.ModuloSum(next.ID(), 1))
		if err != nil {
			return ErrName(err)
		}
		if nx.ID() == n {
			ids = append(ids, strconv.FormatUint(n, 10))
			return "ok:" + strings.Join(ids, ",")
		}
		if seen[nx.ID()] {
			return "err:RingUnstable"
		}
		seen[nx.ID()] = true
		ids = append(ids, strconv.FormatUint(nx.ID(), 10))
		next = nx
	}
	return "err:FUEL"
}

// leave runs Leave in its own goroutine: with 1h task intervals Leave blocks in stopWg.Wait()
// after the protocol finished, so completion = goroutine returned, or the last protocol RPC
// (FinishLeave with release) returned, or the node is Left and had no distinct successor.
func (r *Ring) leave(id uint64) string {
	n := r.Node(id)
	relMu.Lock()
	relCh = make(chan struct{}, 1)
	ch := relCh
	relMu.Unlock()
	done := make(chan struct{})
	go func() {
		defer close(done)
		defer func() { recover() }()
		n.Leave()
	}()
	deadline := time.After(opTimeout)
	tick := time.NewTicker(2 * time.Millisecond)
	defer tick.Stop()
	for {
		select {
		case <-done:
			return r.leaveResult(n)
		case <-ch:
			// last RPC of the protocol returned; give the leaver a moment to fall into Wait()
			time.Sleep(2 * time.Millisecond)
			return r.leaveResult(n)
		case <-tick.C:
			if n.VerifState() == chord.Left {
				// single-node ring or successor == self: nothing else will happen
				s := n.VerifSuccs()
				if len(s) == 0 || s[0] == nil || s[0].ID() == id {
					time.Sleep(2 * time.Millisecond)
					return r.leaveResult(n)
				}
			}
		case <-deadline:
			return "timeout"
		}
	}
}

func (r *Ring) leaveResult(n *impl.LocalNode) string {
	if n.VerifState() == chord.Left || n.VerifState() == chord.Inactive {
		return "ok"
	}
	return "err:leave-failed"
}
