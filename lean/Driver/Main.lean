import SpecterModel.C01.Drv
import SpecterModel.C11.Drv
import SpecterModel.C12.Drv
import SpecterModel.C28.Drv
import SpecterModel.C34.Drv

def main (args : List String) : IO UInt32 := do
  match args with
  | ["C01"] => do Specter.C01.main; return 0
  | ["C11"] => do Specter.C11.main; return 0
  | ["C12"] => do Specter.C12.main; return 0
  | ["C28"] => do Specter.C28.main; return 0
  | ["C34"] => do Specter.C34.main; return 0
  | _ => do IO.eprintln "usage: modeld <property id>"; return 2
