// C44 tie: a real tunnel Client (real Config / router / proxy cache / handleIncomingDelegation /
// getHTTPProxy / RebuildTunnels / doReload / UnpublishTunnel) is driven through configuration
// changes; every "incoming" is a real HTTP exchange through the delegation pipe to local backends,
// so the observation is the backend that was actually reached, the Host header it saw and the
// proxy's header timeout. Two kinds of cases:
//   seq — operations strictly one after the other (the proved sequential theorem's quantifier)
//   win — a connection is injected at the mechanical yield point between closeOutdatedProxies and
//         buildRouter of the real RebuildTunnels (zap hook on "Shutting down proxy").
package main

import (
	"bufio"
	"fmt"
	"io"
	"net"
	"net/http"
	"net/http/httptest"
	"os"
	"path/filepath"
	"sort"
	"strconv"
	"strings"
	"time"

	"go.miragespace.co/specter/tun/client"
	"verif/harness/hlib"
)

type tun struct {
	host, target string // target = backend name b0.. / s0..
	insecure     bool
	timeout      int
	hdrHost      string
	hdrMode      string
}

func (t tun) tok() string {
	return fmt.Sprintf("%s;%s;%s;%d;%s;%s", t.host, t.target, b01(t.insecure), t.timeout, t.hdrHost, t.hdrMode)
}
func b01(b bool) string {
	if b {
		return "1"
	}
	return "0"
}
func toks(ts []tun) string {
	xs := make([]string, len(ts))
	for i, t := range ts {
		xs[i] = t.tok()
	}
	return list(xs)
}
func list(xs []string) string {
	if len(xs) == 0 {
		return "_"
	}
	return strings.Join(xs, ",")
}
func sortedList(xs []string) string {
	ys := append([]string{}, xs...)
	sort.Strings(ys)
	return list(ys)
}
func parseTuns(s string) []tun {
	if s == "_" {
		return nil
	}
	var ts []tun
	for _, it := range strings.Split(s, ",") {
		f := strings.Split(it, ";")
		to, _ := strconv.Atoi(f[3])
		ts = append(ts, tun{f[0], f[1], f[2] == "1", to, f[4], f[5]})
	}
	return ts
}

var (
	backendURL  = map[string]string{} // name -> URL
	backendHost = map[string]string{} // 127.0.0.1:port -> name
	workdir     string
	caseNo      int
)

func startBackends() {
	mk := func(name string, tls bool) {
		h := http.HandlerFunc(func(w http.ResponseWriter, r *http.Request) {
			w.Header().Set("Connection", "close")
			fmt.Fprintf(w, "id=%s;host=%s", name, r.Host)
		})
		var s *httptest.Server
		if tls {
			s = httptest.NewTLSServer(h)
		} else {
			s = httptest.NewServer(h)
		}
		s.Config.ErrorLog = nil
		backendURL[name] = s.URL
		backendHost[strings.TrimPrefix(strings.TrimPrefix(s.URL, "https://"), "http://")] = name
	}
	for _, n := range []string{"b0", "b1", "b2"} {
		mk(n, false)
	}
	for _, n := range []string{"s0", "s1"} {
		mk(n, true)
	}
}

func real(ts []tun) []client.Tunnel {
	out := make([]client.Tunnel, len(ts))
	for i, t := range ts {
		out[i] = client.Tunnel{Target: backendURL[t.target], Hostname: t.host, Insecure: t.insecure,
			ProxyHeaderTimeout: time.Duration(t.timeout) * time.Second, ProxyHeaderHost: t.hdrHost, ProxyHeaderMode: t.hdrMode}
	}
	return out
}

func symTarget(u string) string {
	for n, x := range backendURL {
		if x == u {
			return n
		}
	}
	return "?" + u
}

func dump(v *client.VerifC44) string {
	r := v.Router()
	var ks []string
	for k := range r {
		ks = append(ks, k)
	}
	sort.Strings(ks)
	var rs []string
	for _, k := range ks {
		e := r[k]
		d, _ := time.ParseDuration(e[2])
		rs = append(rs, fmt.Sprintf("%s=%s;%s;%d;%s;%s", k, symTarget(e[0]), e[1], int(d/time.Second), e[3], e[4]))
	}
	p := v.Proxies()
	ks = ks[:0]
	for k := range p {
		ks = append(ks, k)
	}
	sort.Strings(ks)
	var ps []string
	for _, k := range ks {
		ps = append(ps, fmt.Sprintf("%s:%d", k, int(p[k]/time.Second)))
	}
	return list(rs) + " " + list(ps)
}

// incoming performs one real connection for hostname h; returns the observation.
func incoming(v *client.VerifC44, h string, mayBlock bool) (obs string, late func() string) {
	c1, c2 := net.Pipe()
	errc := make(chan error, 1)
	go func() { errc <- v.Incoming(h, c2) }()
	exchange := func() string {
		defer c1.Close()
		c1.SetDeadline(time.Now().Add(10 * time.Second))
		if _, err := io.WriteString(c1, "GET /probe HTTP/1.1\r\nHost: public.example\r\nConnection: close\r\n\r\n"); err != nil {
			return "noresponse"
		}
		resp, err := http.ReadResponse(bufio.NewReader(c1), nil)
		if err != nil {
			return "noresponse"
		}
		body, _ := io.ReadAll(resp.Body)
		resp.Body.Close()
		r := int(v.Proxies()[h] / time.Second)
		if resp.StatusCode == http.StatusBadGateway {
			return fmt.Sprintf("bad;R=%d", r)
		}
		var id, host string
		for _, kv := range strings.Split(string(body), ";") {
			if strings.HasPrefix(kv, "id=") {
				id = kv[3:]
			}
			if strings.HasPrefix(kv, "host=") {
				host = kv[5:]
			}
		}
		if n, ok := backendHost[host]; ok {
			host = "@" + n
		}
		return fmt.Sprintf("T=%s;H=%s;R=%d", id, host, r)
	}
	finish := func(err error) string {
		if err != nil {
			c1.Close()
			return "nf"
		}
		return exchange()
	}
	if mayBlock {
		select {
		case err := <-errc:
			return finish(err), nil
		case <-time.After(400 * time.Millisecond):
			return "blocked", func() string { return finish(<-errc) }
		}
	}
	return finish(<-errc), nil
}

type caseRun struct {
	dir  string
	r    *hlib.Run
	v    *client.VerifC44
	cur  []tun
	kind string
}

func (c *caseRun) emit(lhs, obs string) {
	rhs := dump(c.v)
	if obs != "" {
		rhs = obs + " " + rhs
	}
	c.r.Emit(lhs, rhs)
}

func newCase(r *hlib.Run, kind string, ts []tun) *caseRun {
	caseNo++
	dir := filepath.Join(workdir, "c"+strconv.Itoa(caseNo))
	os.MkdirAll(dir, 0o755)
	v, err := client.VerifC44New(filepath.Join(dir, "client.yaml"), real(ts), "root.test")
	if err != nil {
		panic(err)
	}
	c := &caseRun{dir: dir, r: r, v: v, cur: ts, kind: kind}
	r.Raw("reset")
	c.emit("init "+toks(ts), "")
	return c
}

func (c *caseRun) close() { c.v.Shutdown(); os.RemoveAll(c.dir) }

func (c *caseRun) rebuild(ts []tun) {
	c.v.Rebuild(real(ts))
	c.cur = ts
	c.emit("rebuild "+toks(ts), "")
	c.r.Count("op:rebuild")
}
func (c *caseRun) reload(ts []tun) {
	if err := c.v.Reload(real(ts)); err != nil {
		panic(err)
	}
	c.cur = ts
	c.emit("reload "+toks(ts), "")
	c.r.Count("op:reload")
}
func (c *caseRun) unpublish(h string) {
	c.v.Unpublish(h)
	for i, t := range c.cur {
		if t.host == h {
			c.cur = append(append([]tun{}, c.cur[:i]...), c.cur[i+1:]...)
			break
		}
	}
	c.emit("unpublish "+h, "")
	c.r.Count("op:unpublish")
}
func (c *caseRun) incoming(h string) {
	if h == "" { // not a hostname (a tunnel whose hostname request failed): never probed
		return
	}
	obs, _ := incoming(c.v, h, false)
	c.emit("incoming "+h+" "+c.kind, obs)
	c.r.Count("op:incoming")
	c.r.Count("obs:" + strings.SplitN(strings.SplitN(obs, ";", 2)[0], "=", 2)[0])
	c.r.Case(c.kind + strconv.Itoa(caseNo) + ":" + h + ":" + toks(c.cur))
}

// window runs RebuildTunnels(ts) with the connections `during` injected at the yield point.
func (c *caseRun) window(ts []tun, during []string) {
	if !c.v.BeginRebuild(real(ts)) {
		// nothing to close: the rebuild ran to completion
		c.cur = ts
		c.emit("rebuild "+toks(ts), "")
		return
	}
	c.emit("wbegin "+toks(ts), "")
	var late []func() string
	var lateH []string
	for _, h := range during {
		obs, l := incoming(c.v, h, true)
		c.emit("incoming "+h+" "+c.kind, obs)
		c.r.Count("op:incoming-in-window")
		if l != nil {
			late, lateH = append(late, l), append(lateH, h)
		}
	}
	c.v.EndRebuild()
	c.cur = ts
	// connections that waited for the change are resolved as soon as the lock is released: collect
	// their observations first, then report the state (the wend line names them)
	obs := make([]string, len(late))
	for i, l := range late {
		obs[i] = l()
	}
	c.emit("wend "+list(lateH), "")
	for i := range late {
		c.emit("incoming "+lateH[i]+" "+c.kind, obs[i])
	}
	c.r.Count("op:window")
}

func main() {
	r := hlib.Start()
	r.Rule = "case = client on a random configuration + a sequence of RebuildTunnels / reload / UnpublishTunnel / incoming HTTP connections (real exchange with local backends); seq cases: operations strictly sequential; win cases: connections injected between closeOutdatedProxies and buildRouter of the real RebuildTunnels; evaluation = one incoming connection; non-trivial = distinct (configuration, hostname) probed; new lists differ from the old in exactly one of: target, insecure, header timeout, header host, header mode, removal, addition, duplicate hostname, order"
	rng := hlib.NewRng(r.Seed)
	wd, _ := os.Getwd()
	workdir = filepath.Join(wd, "c44work")
	os.MkdirAll(workdir, 0o755)
	defer os.RemoveAll(workdir)
	startBackends()

	if r.Replay != "" {
		var c *caseRun
		var pendingWin []tun
		var during []string
		inWin := false
		flush := func() {
			if inWin {
				c.window(pendingWin, during)
				inWin, during = false, nil
			}
		}
		for _, t := range r.ReplayLines() {
			switch t[0] {
			case "reset":
				if c != nil {
					flush()
					c.close()
				}
				c = nil
			case "init":
				c = newCase(r, "seq", parseTuns(t[1]))
			case "rebuild":
				c.rebuild(parseTuns(t[1]))
			case "reload":
				c.reload(parseTuns(t[1]))
			case "unpublish":
				c.unpublish(t[1])
			case "wbegin":
				pendingWin, inWin, during = parseTuns(t[1]), true, nil
			case "wend":
				flush()
			case "incoming":
				c.kind = t[2]
				if inWin {
					during = append(during, t[1])
				} else {
					c.incoming(t[1])
				}
			case "diff":
				r.Emit("diff "+t[1]+" "+t[2], sortedList(client.VerifC44Diff(real(parseTuns(t[1])), real(parseTuns(t[2])))))
			}
		}
		if c != nil {
			flush()
			c.close()
		}
		r.Finish()
		return
	}

	hosts := []string{"h1", "h2", "h3", "x.custom.dev"}
	plain := []string{"b0", "b1", "b2"}
	randTun := func(h string) tun {
		t := tun{host: h, target: hlib.Pick(rng, plain)}
		switch rng.Intn(8) {
		case 0:
			t.target, t.insecure = hlib.Pick(rng, []string{"s0", "s1"}), rng.Chance(70)
		case 1:
			t.timeout = hlib.Pick(rng, []int{5, 20})
		case 2:
			t.hdrHost = "hdr." + h
		case 3:
			t.hdrMode, t.hdrHost = "custom", "custom."+h
		case 4:
			t.hdrMode = hlib.Pick(rng, []string{"hostname", "target"})
		}
		return t
	}
	randList := func() []tun {
		var ts []tun
		for _, h := range hosts {
			if rng.Chance(65) {
				ts = append(ts, randTun(h))
			}
		}
		if rng.Chance(6) {
			ts = append(ts, tun{host: "", target: "b2"}) // a tunnel whose hostname request failed
		}
		return ts
	}
	// mutate changes exactly one aspect; returns the new list and the hostname concerned
	mutate := func(ts []tun) ([]tun, string, string) {
		n := append([]tun{}, ts...)
		if len(n) == 0 {
			h := hlib.Pick(rng, hosts)
			return append(n, randTun(h)), h, "add"
		}
		i := rng.Intn(len(n))
		h := n[i].host
		switch rng.Intn(10) {
		case 0:
			old := n[i].target
			for n[i].target == old {
				n[i].target = hlib.Pick(rng, plain)
			}
			n[i].insecure = false
			return n, h, "target"
		case 1:
			if strings.HasPrefix(n[i].target, "s") {
				n[i].insecure = !n[i].insecure
			} else {
				n[i].target, n[i].insecure = "s0", true
			}
			return n, h, "insecure"
		case 2:
			n[i].timeout = map[int]int{0: 5, 5: 20, 20: 0}[n[i].timeout]
			return n, h, "timeout"
		case 3:
			n[i].hdrHost = "hh" + strconv.Itoa(rng.Intn(100)) + "." + h
			return n, h, "headerHost"
		case 4:
			old := n[i].hdrMode
			for n[i].hdrMode == old {
				n[i].hdrMode = hlib.Pick(rng, []string{"", "hostname", "target", "custom"})
			}
			if n[i].hdrMode == "custom" && n[i].hdrHost == "" {
				n[i].hdrHost = "custom." + h
			}
			return n, h, "headerMode"
		case 5:
			return append(n[:i:i], n[i+1:]...), h, "remove"
		case 6:
			h2 := hlib.Pick(rng, hosts)
			return append(n, randTun(h2)), h2, "add-or-duplicate"
		case 7:
			for j := len(n) - 1; j > 0; j-- {
				k := rng.Intn(j + 1)
				n[j], n[k] = n[k], n[j]
			}
			return n, h, "reorder"
		case 8:
			return randList(), h, "replace-all"
		}
		return n, h, "same"
	}

	seqCase := func() {
		c := newCase(r, "seq", randList())
		defer c.close()
		c.rebuild(c.cur) // the initial SyncConfigTunnels
		steps := 6 + rng.Intn(10)
		for i := 0; i < steps; i++ {
			switch x := rng.Intn(100); {
			case x < 50:
				c.incoming(hlib.Pick(rng, hosts))
			case x < 75:
				n, h, what := mutate(c.cur)
				c.rebuild(n)
				r.Count("change:" + what)
				c.incoming(h)
			case x < 88:
				n, h, what := mutate(c.cur)
				c.reload(n)
				r.Count("change:" + what)
				c.incoming(h)
			default:
				h := hlib.Pick(rng, hosts)
				c.unpublish(h)
				c.incoming(h)
			}
		}
	}
	winCase := func() {
		ts := randList()
		if len(ts) == 0 {
			ts = []tun{randTun("h1")}
		}
		c := newCase(r, "win", ts)
		defer c.close()
		c.rebuild(c.cur)
		h := c.cur[rng.Intn(len(c.cur))].host
		c.incoming(h) // a proxy for h is cached
		// change (or remove) exactly h's tunnel(s): the only cached proxy in the diff is h's
		var n []tun
		removed := rng.Chance(30)
		for _, t := range c.cur {
			if t.host != h {
				n = append(n, t)
				continue
			}
			if removed {
				continue
			}
			t2 := t
			old := t2.target
			for t2.target == old {
				t2.target = hlib.Pick(rng, plain)
			}
			t2.insecure = false
			n = append(n, t2)
		}
		during := []string{h}
		if rng.Chance(30) {
			during = append(during, hlib.Pick(rng, hosts))
		}
		c.window(n, during)
		c.incoming(h)
		if removed { // configure it again, elsewhere
			t := randTun(h)
			c.rebuild(append(append([]tun{}, c.cur...), t))
			c.incoming(h)
		}
		r.Count("case:win")
	}
	diffLine := func() {
		a, b := randList(), randList()
		if rng.Chance(50) {
			b, _, _ = mutate(a)
		}
		if rng.Chance(20) {
			a = append(a, tun{host: "", target: "b0"})
		}
		r.Emit("diff "+toks(a)+" "+toks(b), sortedList(client.VerifC44Diff(real(a), real(b))))
		r.Count("op:diff")
	}

	nSeq, nWin, nDiff := 60, 6, 2000
	if r.Thorough() {
		nSeq, nWin, nDiff = 1200, 60, 60000
	}
	for i := 0; i < nDiff; i++ {
		diffLine()
	}
	for i := 0; i < nSeq; i++ {
		seqCase()
		r.Count("case:seq")
	}
	for i := 0; i < nWin; i++ {
		winCase()
	}
	r.Finish()
}
