import SpecterModel.Util
import SpecterModel.C45.Model
/-! C45 line-protocol driver (one case = one strace-recorded configuration save).

```
reset
scenario <hex json: how the harness re-creates this save>      => ok
init <hex old content> <hex stale tmp content | _> [n1 … nk]  => ok
       (no names: cfg is a regular file; names: cfg is a symbolic link to n1, n1 to n2, …, nk is the file)
op <openTrunc fd name | write fd hex | fsync fd | close fd | rename a b | unlink a | other what>
       => <content of cfg with everything written: hex|absent> <real reader: old|new|…>
          <content of cfg with unsynced data lost: hex|absent> <real reader: old|new|…>
shape  => atomic <hex of all bytes written>
```
The config path is the name `cfg`; it is read through symbolic links. Each `op` line is one prefix of the recorded list: the harness
rebuilt both crash images on disk with real system calls and parsed them with the real `NewConfig`;
the model computes the same two images (DIFF when the bytes differ); the verdict of the real reader
must be `old` or `new` (SPEC otherwise). `shape`: the recorded list must satisfy `isAtomicReplace`
and its temporary name must be private in the start state (`tmpPrivate`) — the hypotheses of
`atomic_replace_safe`. -/
namespace Specter.C45
open Specter.Util

structure St where
  fs0 : Fs             -- the start state of the save (for the state-dependent side condition of the shape)
  fs : Fs
  ops : List FsOp      -- reversed

def emptyFs : Fs := { dir := fun _ => none, file := fun _ => ⟨[], 0⟩, fd := fun _ => none, next := 0 }

/-- `a → b → … → last`: every name but the last is a symbolic link to the next, the last is the file 0 -/
def chainDir : List String → String → Option Entry
  | [], _ => none
  | [last], p => if p = last then some (.file 0) else none
  | a :: b :: r, p => if p = a then some (.link b) else chainDir (b :: r) p

def initFs (old : List Nat) (stale : Option (List Nat)) (chain : List String) : Fs :=
  { dir := fun p =>
      match chainDir ("cfg" :: chain) p with
      | some e => some e
      | none => if p = "tmp" ∧ stale.isSome then some (.file 1) else none,
    file := fun i => if i = 0 then ⟨old, old.length⟩ else
      match stale with
      | some st => if i = 1 then ⟨st, st.length⟩ else ⟨[], 0⟩
      | none => ⟨[], 0⟩,
    fd := fun _ => none, next := 2 }

def parseOp : List String → Option FsOp
  | ["openTrunc", fd, p] => fd.toNat?.map (.openTrunc · p)
  | ["write", fd, h] => do some (.write (← fd.toNat?) (← hexToBytes h))
  | ["fsync", fd] => fd.toNat?.map .fsync
  | ["close", fd] => fd.toNat?.map .close
  | ["rename", a, b] => some (.rename a b)
  | ["unlink", a] => some (.unlink a)
  | ["other", w] => some (.other w)
  | _ => none

def showImage : Option (List Nat) → String
  | none => "absent"
  | some bs => bytesToHex bs

def okVerdict (v : String) : Bool := v = "old" || v = "new"

def shapeName (fs0 : Fs) (ops : List FsOp) : String :=
  if isAtomicReplace "cfg" ops then
    (if tmpPrivate fs0 "cfg" ops then "atomic" else "atomic-but-temporary-name-not-private")
  else if isTruncateInPlace "cfg" ops then "truncate-in-place"
  else "other"

def showOp : FsOp → String
  | .openTrunc _ p => s!"open+truncate {p}"
  | .write _ bs => s!"write of {bs.length} bytes"
  | .fsync _ => "fsync"
  | .close _ => "close"
  | .rename a b => s!"rename {a} {b}"
  | .unlink p => s!"unlink {p}"
  | .other w => w

def step' (st : St) (toks : List String) (rhs : String) : St × Verdict :=
  match toks with
  | ["reset"] => (⟨emptyFs, emptyFs, []⟩, .ok)
  | ["scenario", _] => (st, .ok)          -- replay information for the harness only
  | "init" :: o :: stale :: chain =>
    match hexToBytes o, (if stale = "_" then some none else (hexToBytes stale).map some) with
    | some old, some st => (⟨initFs old st chain, initFs old st chain, []⟩, .ok)
    | _, _ => (st, .bad "init args")
  | "op" :: optoks =>
    match parseOp optoks, rhs.splitOn " " with
    | some op, [syncHex, syncV, lossyHex, lossyV] =>
      let fs := step st.fs op
      let st' : St := ⟨st.fs0, fs, op :: st.ops⟩
      let k := st'.ops.length
      let via := match st.fs0.dir "cfg" with
        | some (.link _) => "; the config path is a symbolic link"
        | _ => ""
      if !okVerdict syncV then
        (st', .spec s!"crash after operation {k} ({showOp op}{via}): the config file is neither the previous nor the new configuration (reader: {syncV})")
      else if !okVerdict lossyV then
        (st', .spec s!"crash after operation {k} ({showOp op}{via}) with unsynced data lost: the config file is neither the previous nor the new configuration (reader: {lossyV})")
      else
        let m := showImage (imageSync fs "cfg") ++ " " ++ showImage (imageLossy fs "cfg")
        if m ≠ syncHex ++ " " ++ lossyHex then (st', .diff m) else (st', .ok)
    | _, _ => (st, .bad "op args")
  | ["shape"] =>
    let ops := st.ops.reverse
    let m := shapeName st.fs0 ops ++ " " ++ bytesToHex (pending ops)
    if m ≠ rhs then (st, .diff m) else (st, .ok)
  | _ => (st, .bad "unknown op")

def main : IO Unit := runLoop (⟨emptyFs, emptyFs, []⟩ : St) step'

end Specter.C45
