import SpecterModel.Util
import SpecterModel.C30.Model
/-! C30 line-protocol driver: model output (DIFF) + spec oracle from the property statement (SPEC). -/
namespace Specter.C30
open Specter.Util
open Specter.C29 (Cfg State Client)

structure DState where
  cfg : Cfg
  kv : State
  cache : Cache

def dinit : DState := ⟨⟨"", ""⟩, State.init, fun _ => none⟩

def parseClient (s : String) : Option Client :=
  match s.splitOn ":" with
  | [i, t] => i.toNat?.map (⟨·, t⟩)
  | _ => none

def errStr : Err → String
  | .invHost => "inv:hostname" | .invPow => "inv:pow" | .denied => "permission_denied" | .kvErr => "err"
  | .provider => "provider" | .invAlgo => "inv:algo" | .invDigest => "inv:digest" | .internal => "internal"

def resStr (r : Option Err) : String := (r.map errStr).getD "ok"

def parseProv (s : String) : Option Provider :=
  if s = "cert" then some .cert else if s = "fail" then some .fail else if s = "empty" then some .empty else none

def parseReq (cl norm pow gf prov : String) : Option Req :=
  match parseClient cl, (if norm = "!" then some none else (hexToAscii norm).map some), parseProv prov with
  | some c, some n, some p => some ⟨c, n, pow.startsWith "1", gf = "1", p⟩
  | _, _, _ => none

def parseInt (s : String) : Option Int :=
  if s.startsWith "-" then (s.drop 1).toString.toNat?.map (fun n => -(n : Int)) else s.toNat?.map (fun n => (n : Int))

/-- spec: the caller is the client the (normalised) hostname is bound to, with a valid proof of work -/
def entitled (d : DState) (r : Req) : Bool :=
  r.powOk && (match r.norm with | some h => d.kv.bound h == some r.caller | none => false)

-- spec "never kept past its expiry minus the safety skew": `ttlAllowed` (Model.lean; proved for the model
-- in Props: `ttl_allowed`, `loader_run_allowed`)

/-- `-` or an integer -/
def parseOptInt (s : String) : Option (Option Int) :=
  if s = "-" then some none else (parseInt s).map some

/-- loader line: the harness reads the clock before the call (`d0 = NotAfter − t0`), inside the certificate
provider right before it returns (`dp`, after the scripted latency) and after the loader returned (`d1`).
The cache entry's lifetime starts after the provider returned, so by the statement the TTL must be allowed
at `dp` (SPEC, independent of the model); the model (`loaderRunTTL`: clock read after the provider
answered) puts `NotAfter − now` in `[d1, dp]` (DIFF). -/
def loaderVerdict (p : Provider) (l0 lp l1 : Option Int) (t : Int) (res : String) : Verdict :=
  let wantRes := if p = .cert then "cert" else "cachederr"
  let okT : Bool := match p, lp, l1 with
    | .cert, some ap, some a1 => ttlReachable a1 ap t
    | .cert, _, _ => t == computeTTL none
    | _, _, _ => t == Gen.C30.keylessFailedTTL
  let pastAt (l : Option Int) : Bool :=
    match l with | some dNs => decide (p = .cert) && !ttlAllowed dNs t | none => false
  if pastAt l0 then
    .spec "loader TTL keeps the certificate past NotAfter - skew"
  else if pastAt lp then
    .spec "loader TTL keeps the certificate past NotAfter - skew: lifetime counted from before the certificate provider returned (slow provider)"
  else if t ≤ 0 then .spec "loader TTL not positive (the cache would keep the entry forever)"
  else if !okT ∨ res ≠ wantRes then .diff s!"ttl not reachable in bracket; {wantRes}" else .ok

def dstep (d : DState) (toks : List String) (rhs : String) : DState × Verdict :=
  match toks with
  | ["reset"] => (⟨d.cfg, State.init, fun _ => none⟩, .ok)
  | ["reset", apex, acme] =>
    match hexToAscii apex, hexToAscii acme with
    | some a, some z => (⟨⟨a, z⟩, State.init, fun _ => none⟩, .ok)
    | _, _ => (d, .bad "reset args")
  | ["bind", cl, host] =>
    match parseClient cl, hexToAscii host with
    | some c, some h =>
      if rhs ≠ "ok" then (d, .bad "bind failed in the harness")
      else ({ d with kv := ⟨fun x => if x = h then some c else d.kv.bound x, d.kv.lists⟩ }, .ok)
    | _, _ => (d, .bad "bind args")
  | ["getcert", cl, _raw, norm, pow, gf, prov] =>
    match parseReq cl norm pow gf prov, rhs.splitOn " " with
    | some r, [res, n, called] =>
      let o := getCertificate d.cfg d.kv d.cache r
      let d' := { d with cache := o.cache }
      let m := s!"{resStr o.res} {if o.res.isNone then n else "-"} {if o.called then 1 else 0}"
      if res = "ok" ∧ !entitled d r then (d', .spec "certificate chain returned to a caller that is not the bound client with a valid proof")
      else if called ≠ "0" ∧ !entitled d r then (d', .spec "certificate provider consulted for a caller that is not entitled")
      else if res = "ok" ∧ (n = "0" ∨ n = "-") then (d', .spec "ok without a certificate chain")
      else if m ≠ rhs then (d', .diff m) else (d', .ok)
    | _, _ => (d, .bad "getcert args")
  | ["sign", cl, _raw, norm, pow, gf, prov, algo, dlen, _key, flags] =>
    match parseReq cl norm pow gf prov, algo.toNat?, dlen.toNat?, rhs.splitOn " " with
    | some r, some a, some dl, [res, called, ver] =>
      let o := sign d.cfg d.kv d.cache r a dl (flags.startsWith "1") (flags.endsWith "1")
      let d' := { d with cache := o.cache }
      let m := s!"{resStr o.res} {if o.called then 1 else 0} {if o.res.isNone then "1" else "-"}"
      let sizeOk : Bool := (a == 1 && dl == 32) || (a == 2 && dl == 48) || (a == 3 && dl == 64)
      if res = "ok" ∧ !entitled d r then (d', .spec "signature returned to a caller that is not the bound client with a valid proof")
      else if called ≠ "0" ∧ !entitled d r then (d', .spec "certificate provider consulted for a caller that is not entitled")
      else if res = "ok" ∧ !sizeOk then (d', .spec "signed with an unsupported hash or a digest of the wrong length")
      else if res = "ok" ∧ ver ≠ "1" then (d', .spec "returned signature does not verify under the certificate's key")
      else if m ≠ rhs then (d', .diff m) else (d', .ok)
    | _, _, _, _ => (d, .bad "sign args")
  | ["ttl", kind, dn] =>
    match (if dn = "-" then some none else (parseInt dn).map some), parseInt rhs with
    | some leaf, some t =>
      let m := computeTTL leaf
      let known := kind = "leaf" ∨ kind = "der"
      if known ∧ leaf.isNone then (d, .bad "ttl without d")
      else if (match leaf with | some dNs => !ttlAllowed dNs t | none => false : Bool) then
        (d, .spec "cache TTL keeps the certificate past NotAfter - skew")
      else if t ≤ 0 ∨ t > Gen.C30.keylessPositiveTTL then (d, .spec "cache TTL outside (0, 5 min]")
      else if m ≠ t then (d, .diff (toString m)) else (d, .ok)
    | _, _ => (d, .bad "ttl args")
  | ["loader", prov, d0, dp, d1, _lat] =>
    match parseProv prov, rhs.splitOn " " with
    | some p, [t, res] =>
      match parseInt t, parseOptInt d0, parseOptInt dp, parseOptInt d1 with
      | some t, some l0, some lp, some l1 =>
        if (match l0, lp, l1 with
            | some a0, some ap, some a1 => decide (a1 ≤ ap) && decide (ap ≤ a0)
            | none, none, none => true
            | _, _, _ => false : Bool) then (d, loaderVerdict p l0 lp l1 t res)
        else (d, .bad "loader clock readings out of order")
      | _, _, _, _ => (d, .bad "loader numbers")
    | _, _ => (d, .bad "loader args")
  | ["loader", prov, d0, d1] =>
    -- recorded lines of the older format (no reading inside the provider): bracket [d1, d0]
    match parseProv prov, rhs.splitOn " " with
    | some p, [t, res] =>
      match parseInt t, parseOptInt d0, parseOptInt d1 with
      | some t, some l0, some l1 => (d, loaderVerdict p l0 l0 l1 t res)
      | _, _, _ => (d, .bad "loader numbers")
    | _, _ => (d, .bad "loader args")
  | _ => (d, .bad "unknown op")

def main : IO Unit := runLoop dinit dstep

end Specter.C30
