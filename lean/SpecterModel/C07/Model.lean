import SpecterModel.C01.Model
/-!
# C07 model extension: the retry loop of `Leave()`

The shared ring model (`C01/Model.lean`) has one attempt of the leave protocol (`executeLeave`) and
`leave` = one attempt + advisories. `LocalNode.Leave()` wraps the attempt in
`retry.Do(…, Attempts(maxAttempts), Delay(StabilizeInterval), LastErrorOnly(true))` (every error is
retried, there is no `RetryIf`). Between two attempts the rest of the system keeps running: repair
tasks fire, other joins and leaves begin or conclude. The loop is modelled here with that environment
as a parameter.

What the (unchanged) code does and what is modelled: every attempt calls `executeLeave()` anew, which
reads the node's predecessor and successor pointers **at that moment**; nothing but the error is carried
from a failed attempt into the next one.
-/
namespace Specter.C07
open Specter.Ring

/-- `maxAttempts` of chord/local_membership.go -/
def maxAttempts : Nat := 10

/-- the result of one attempt: `ok none` = only node of the ring, `ok (some (pre, succ))` = locks held,
keys handed to `succ` -/
abbrev Attempt := Net × Except Err (Option (Nat × Nat))

/-- The retry loop of `Leave()` at node `l`. `more` = number of attempts still allowed after this one,
`k` = number of the retry delay that follows this attempt, `env k` = everything the rest of the system
does to the ring during that delay. A failed last attempt is the result (LastErrorOnly). -/
def leaveRetry (env : Nat → Net → Net) (l : Nat) : Nat → Nat → Net → Attempt
  | 0, _, net => executeLeave net l
  | more + 1, k, net =>
    match executeLeave net l with
    | (net', .ok r) => (net', .ok r)
    | (net', .error _) => leaveRetry env l more (k + 1) (env k net')

/-- the ring as attempt number `j` (counted from the current one) finds it -/
def ringBefore (env : Nat → Net → Net) (l : Nat) : Nat → Nat → Net → Net
  | 0, _, net => net
  | j + 1, k, net => ringBefore env l j (k + 1) (env k (executeLeave net l).1)

/-- the tail of `Leave()` after the retry loop: give up, or advisory to the predecessor, `Left`,
release of the successor's lock -/
def leaveFinish (l : Nat) : Attempt → Net × Option Err
  | (net', .error e) => (net', some e)
  | (net', .ok none) => (net'.upd l (fun nd => { nd with state := .left }), none)
  | (net', .ok (some (pre, succ))) =>
    let net' := if pre != l then finish net' pre true false else net'
    let net' := net'.upd l (fun nd => { nd with state := .left })
    let net' := if succ != l then finish net' succ false true else net'
    (net', none)

/-- `Leave()` at node `l` with `attempts` ≥ 1 attempts in environment `env` -/
def leaveWith (env : Nat → Net → Net) (attempts : Nat) (net : Net) (l : Nat) : Net × Option Err :=
  match net.get l with
  | none => (net, some .unreachable)
  | some nd =>
    match nd.state with
    | .inactive | .leaving | .left => (net, none)
    | _ => leaveFinish l (leaveRetry env l (attempts - 1) 0 net)

/-- `Leave()` as coded -/
def leaveWithRetries (env : Nat → Net → Net) (net : Net) (l : Nat) : Net × Option Err :=
  leaveWith env maxAttempts net l

/-! ### what the harness observes of the loop -/

/-- scenarios of the second harness family (a leave refused by a successor locked for a join in flight) -/
def windowScenario (sc : String) : Bool := sc == "leave-hi@join" || sc == "leave-lo@join"

/-- `handoff=<asked>/<successor at that call>`: the attempt that went through asked the node that was the
leaver's successor at that moment (`-` = the leaver did not leave) -/
def handoffConsistent (h : String) : Bool :=
  if h == "-" then true else
  match h.splitOn "/" with
  | [asked, cur] => asked == cur
  | _ => false

end Specter.C07
