import SpecterModel.Util
import SpecterModel.C12.Model
/-! C12 line-protocol driver.
`byid|byaddr <imm> <cands> <maxLen> => <out>`; node token `id.addr.tag`, `nil` = nil entry,
lists joined by `,`, `-` = empty list. -/
namespace Specter.C12
open Specter.Util

def parseNode (s : String) : Option Node :=
  match s.splitOn "." with
  | [i, a, t] => match i.toNat?, t.toNat? with
    | some i, some t => some ⟨i, a, t⟩
    | _, _ => none
  | _ => none

def parseCands (s : String) : Option (List (Option Node)) :=
  if s = "-" then some [] else
  (s.splitOn ",").mapM fun t => if t = "nil" then some none else (parseNode t).map some

def parseOut (s : String) : Option (List Node) :=
  if s = "-" then some [] else (s.splitOn ",").mapM parseNode

def showNode (n : Node) : String := s!"{n.id}.{n.addr}.{n.tag}"
def showOut (l : List Node) : String := if l.isEmpty then "-" else ",".intercalate (l.map showNode)

def run {κ : Type} [DecidableEq κ] (key : Node → κ) (imm cands maxLen rhs : String) : Verdict :=
  match parseNode imm, parseCands cands, maxLen.toNat?, parseOut rhs with
  | some imm, some cands, some maxLen, some out =>
    -- the property's quantifier: maxLen ≥ 1 (maxLen = 0 is compared with the model only)
    match (if 1 ≤ maxLen then wellFormed key imm cands maxLen out else none) with
    | some why => .spec why
    | none =>
      let m := makeSuccList key imm cands maxLen
      if m ≠ out then .diff (showOut m) else .ok
  | _, _, _, _ => if rhs = "panic" then .spec "panic" else .bad "args"

def step (_ : Unit) (toks : List String) (rhs : String) : Unit × Verdict :=
  match toks with
  | ["byid", imm, cands, maxLen] => ((), run Node.id imm cands maxLen rhs)
  | ["byaddr", imm, cands, maxLen] => ((), run Node.addr imm cands maxLen rhs)
  | _ => ((), .bad "unknown op")

def main : IO Unit := runLoop () step

end Specter.C12
