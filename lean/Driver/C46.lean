import SpecterModel.C46.Drv

def main : IO Unit := Specter.C46.main
