import SpecterModel.C29.Model
/-!
# C29 — A custom hostname is bound to one client, only after DNS proof

Theorems over the model of `AcmeValidate` / `checkAcme` / `ReleaseTunnel` (Model.lean), for all
configurations, KV states, requests and operation histories. Tie: harness/cmd/c29 runs the real RPC
handlers on an in-memory KV in random histories and compares every result, the name handed to the
resolver, the number of KV reads and the stored binding with the model.
-/
namespace Specter.C29

/-! ### `strings.Contains` -/

theorem hasInfix_iff (p s : List Char) : hasInfix p s = true ↔ ∃ a b, s = a ++ p ++ b := by
  induction s with
  | nil =>
    simp only [hasInfix, List.isEmpty_iff]
    constructor
    · rintro rfl; exact ⟨[], [], rfl⟩
    · rintro ⟨a, b, h⟩
      have := congrArg List.length h; simp at this
      exact List.eq_nil_of_length_eq_zero (by omega)
  | cons c cs ih =>
    simp only [hasInfix, Bool.or_eq_true, ih, List.isPrefixOf_iff_prefix]
    constructor
    · rintro (⟨t, ht⟩ | ⟨a, b, h⟩)
      · exact ⟨[], t, by simpa using ht.symm⟩
      · exact ⟨c :: a, b, by simp [h]⟩
    · rintro ⟨a, b, h⟩
      cases a with
      | nil => left; exact ⟨b, by simpa using h.symm⟩
      | cons x a => right; simp at h; exact ⟨a, b, by simpa using h.2⟩

/-- a zone itself and every name that ends with it (all its subdomains) contain it -/
theorem contains_of_suffix (pre zone : String) : contains (pre ++ zone) zone = true := by
  unfold contains
  rw [hasInfix_iff]
  exact ⟨pre.toList, [], by simp [String.toList_append]⟩

/-! ### single requests -/

theorem save_res (st : State) (h : String) (r : Req) (a : Option String) :
    ((save st h r a).2.res = .ok → (save st h r a).1 = bind st h r.caller)
      ∧ ((save st h r a).2.res ≠ .ok → (save st h r a).1 = st) := by
  unfold save; split <;> simp

/-- a request only ever changes the binding of its own (normalised) hostname, and only to the caller,
and only when it is answered `ok` -/
theorem validate_frame (cfg : Cfg) (st : State) (r : Req) (x : String) :
    (validate cfg st r).1.bound x = st.bound x
      ∨ (r.norm = some x ∧ (validate cfg st r).1.bound x = some r.caller ∧ (validate cfg st r).2.res = .ok) := by
  unfold validate
  cases hn : r.norm with
  | none => simp
  | some h =>
    simp only
    have key : ∀ a, (save st h r a).1.bound x = st.bound x ∨
        (some h = some x ∧ (save st h r a).1.bound x = some r.caller ∧ (save st h r a).2.res = .ok) := by
      intro a; unfold save; split
      · simp
      · by_cases hx : x = h
        · right; simp [bind, hx]
        · left; simp [bind, hx]
    split
    · simp
    · exact key _
    · split
      · simp
      · split
        · simp
        · exact key _

/-- **bind requires proof**: a validation that succeeds for a hostname not already bound to the caller
saw the challenge CNAME equal to the caller's token-specific target (and a valid proof of work, an
acceptable hostname, and no binding by anybody else). -/
theorem bind_requires_proof (cfg : Cfg) (st : State) (r : Req) (h : String)
    (hn : r.norm = some h) (hok : (validate cfg st r).2.res = .ok) (hnb : st.bound h ≠ some r.caller) :
    r.cname = some r.target ∧ r.powOk = true ∧ st.bound h = none
      ∧ contains h cfg.acme = false ∧ contains h cfg.apex = false ∧ 2 ≤ dots h := by
  unfold validate at hok
  simp only [hn] at hok
  unfold checkAcme at hok
  by_cases hp : r.powOk <;> simp only [hp, Bool.not_true, Bool.not_false, Bool.false_eq_true, if_true, if_false] at hok
  · by_cases hz : (contains h cfg.acme || contains h cfg.apex) = true
    · simp [hz] at hok
    · by_cases hd : dots h < 2
      · simp [hz, hd] at hok
      · by_cases hg : r.kvGetFail
        · simp [hz, hd, hg] at hok
        · simp only [hz, hd, hg, Bool.false_eq_true, if_false] at hok
          cases hb : st.bound h with
          | some c =>
            simp only [hb] at hok
            by_cases hc : c = r.caller
            · exact absurd (by rw [hb, hc]) hnb
            · simp [hc] at hok
          | none =>
            simp only [hb] at hok
            cases hcn : r.cname with
            | none => simp [hcn] at hok
            | some a =>
              simp only [hcn] at hok
              by_cases ha : a = r.target
              · simp at hz; exact ⟨by rw [ha], hp, rfl, hz.1, hz.2, by omega⟩
              · simp [ha] at hok
  · simp at hok

theorem checkAcme_other (cfg : Cfg) (st : State) (caller c : Client) (h : String) (p g : Bool)
    (hb : st.bound h = some c) (hc : c ≠ caller) : ∃ code n, checkAcme cfg st caller h p g = .refused code n := by
  unfold checkAcme
  simp only [hb, hc, if_false]
  split
  · exact ⟨_, _, rfl⟩
  · split
    · exact ⟨_, _, rfl⟩
    · split
      · exact ⟨_, _, rfl⟩
      · split <;> exact ⟨_, _, rfl⟩

/-- **another client is refused**: while a hostname is bound to `c`, a validation by anybody else fails
and leaves the whole KV state untouched. -/
theorem other_client_refused (cfg : Cfg) (st : State) (r : Req) (h : String) (c : Client)
    (hn : r.norm = some h) (hb : st.bound h = some c) (hc : c ≠ r.caller) :
    (validate cfg st r).2.res ≠ .ok ∧ (validate cfg st r).1 = st := by
  obtain ⟨code, n, e⟩ := checkAcme_other cfg st r.caller c h r.powOk r.kvGetFail hb hc
  unfold validate
  simp [hn, e]

/-- **apex / acme / bare refused**: hostnames containing the apex or the ACME zone, or with fewer than
two dots, are refused whatever else the request carries; nothing is stored. -/
theorem apex_acme_bare_refused (cfg : Cfg) (st : State) (r : Req) (h : String) (hn : r.norm = some h)
    (hbad : contains h cfg.apex = true ∨ contains h cfg.acme = true ∨ dots h < 2) :
    (validate cfg st r).2.res ≠ .ok ∧ (validate cfg st r).1 = st
      ∧ (instruction cfg st r).1 ≠ .ok := by
  unfold validate instruction
  simp only [hn]
  unfold checkAcme
  by_cases hp : r.powOk
  · rcases hbad with h1 | h1 | h1
    · simp [hp, h1]
    · simp [hp, h1]
    · by_cases hz : (contains h cfg.acme || contains h cfg.apex) = true
      · simp [hp, hz]
      · simp [hp, hz, h1]
  · simp [hp]

/-- corollary in the property's wording: the apex, the ACME zone and all their subdomains are refused -/
theorem zone_and_subdomains_refused (cfg : Cfg) (st : State) (r : Req) (pre : String)
    (hn : r.norm = some (pre ++ cfg.apex) ∨ r.norm = some (pre ++ cfg.acme)) :
    (validate cfg st r).2.res ≠ .ok ∧ (validate cfg st r).1 = st := by
  rcases hn with hn | hn
  · have := apex_acme_bare_refused cfg st r _ hn (Or.inl (contains_of_suffix pre cfg.apex))
    exact ⟨this.1, this.2.1⟩
  · have := apex_acme_bare_refused cfg st r _ hn (Or.inr (Or.inl (contains_of_suffix pre cfg.acme)))
    exact ⟨this.1, this.2.1⟩

/-- **proof of work required**: without a valid proof the request is refused before the KV is read or
the resolver asked, and nothing is stored. -/
theorem pow_required (cfg : Cfg) (st : State) (r : Req) (h : String) (hn : r.norm = some h)
    (hp : r.powOk = false) :
    validate cfg st r = (st, ⟨.refused .invPow, none, 0⟩) ∧ (instruction cfg st r).1 = .refused .invPow := by
  unfold validate instruction checkAcme; simp [hn, hp]

/-- **normalise first**: a hostname rejected by `acme.Normalize` is refused without any further step -/
theorem normalize_first (cfg : Cfg) (st : State) (r : Req) (hn : r.norm = none) :
    validate cfg st r = (st, ⟨.refused .invHost, none, 0⟩) ∧ instruction cfg st r = (.refused .invHost, none) := by
  unfold validate instruction; simp [hn]

/-- validation by the owner again keeps the binding (idempotent, no DNS needed) -/
theorem owner_revalidates (cfg : Cfg) (st : State) (r : Req) (h : String) (hn : r.norm = some h)
    (hb : st.bound h = some r.caller) (x : String) :
    (validate cfg st r).1.bound x = st.bound x := by
  rcases validate_frame cfg st r x with e | ⟨e1, e2, -⟩
  · exact e
  · rw [hn] at e1; injection e1 with e1; subst e1; rw [e2, hb]

/-! ### histories -/

/-- one operation changes the binding of `x` only in two ways: (none or anything →) `some caller` by a
successful validation of `x`, which `other_client_refused` restricts to an unbound or own hostname; or
(→ `none`) by a release of `x` by a holder of a token whose list contains `x`. -/
theorem step_binding (cfg : Cfg) (st : State) (op : Op) (x : String) (c : Client)
    (hb : st.bound x = some c) :
    (step cfg st op).bound x = some c
      ∨ (∃ caller, op = .release caller x ∧ st.lists caller.token x = true ∧ (step cfg st op).bound x = none) := by
  cases op with
  | instruction r => left; exact hb
  | validate r =>
    left
    simp only [step]
    rcases validate_frame cfg st r x with e | ⟨e1, e2, e3⟩
    · rw [e, hb]
    · by_cases hc : c = r.caller
      · rw [e2, hc]
      · exact absurd e3 (other_client_refused cfg st r x c e1 hb hc).1
  | release caller host =>
    simp only [step, release]
    by_cases hl : st.lists caller.token host = true
    · simp only [hl, if_true]
      by_cases hx : x = host
      · right; subst hx; exact ⟨caller, rfl, hl, by simp⟩
      · left; simp [hx, hb]
    · left; simp [hl, hb]

def isReleaseOf (x : String) : Op → Bool
  | .release _ h => h == x
  | _ => false

/-- **never rebinds**: once `x` is bound to `c`, no history of validations and instructions by any
clients (and releases of other hostnames) with any proofs, CNAME answers and KV failures changes that. -/
theorem never_rebinds (cfg : Cfg) (ops : List Op) (st : State) (x : String) (c : Client)
    (hb : st.bound x = some c) (hno : ∀ op ∈ ops, isReleaseOf x op = false) :
    (run cfg st ops).bound x = some c := by
  induction ops generalizing st with
  | nil => exact hb
  | cons op ops ih =>
    simp only [run, List.foldl_cons]
    apply ih
    · rcases step_binding cfg st op x c hb with e | ⟨caller, e, -, -⟩
      · exact e
      · have := hno op (List.mem_cons_self ..); simp [e, isReleaseOf] at this
    · intro o ho; exact hno o (List.mem_cons_of_mem _ ho)

/-- in arbitrary histories (releases included) the binding of `x` is at every moment the one `c` it had
or `none`, until a validation with DNS proof binds it again: stated for the first change. -/
theorem first_change_is_release (cfg : Cfg) (st : State) (op : Op) (x : String) (c : Client)
    (hb : st.bound x = some c) : (step cfg st op).bound x = some c ∨ (step cfg st op).bound x = none := by
  rcases step_binding cfg st op x c hb with e | ⟨_, _, _, e⟩
  · exact Or.inl e
  · exact Or.inr e

/-- a release by a client that does not hold a token whose list contains the hostname does nothing -/
theorem release_requires_listed (st : State) (caller : Client) (h : String)
    (hl : st.lists caller.token h = false) : release st caller h = (st, .refused .denied) := by
  unfold release; simp [hl]

/-! ### hostnames as DNS names: one owner per name, whatever the spelling

The property speaks about *hostnames*, and a hostname is a DNS name: `Shop.customer.org` and
`shop.customer.org` are the same one. The code compares bytes everywhere (KV key of the binding,
`strings.Contains` for the zones), so the statements above are statements about spellings. They become
statements about DNS names through the one fact the code relies on: `acme.Normalize` hands on the
canonical (lower-case) spelling only. That fact is the hypothesis `OpCanonical` below (checked by the
driver on every harness line: a normalised hostname with `fold h ≠ h` is reported). -/

theorem toLower_idem (c : Char) : c.toLower.toLower = c.toLower := by
  simp only [Char.toLower]
  split
  · rename_i h
    split
    · rename_i h2
      exfalso
      simp only [ge_iff_le, UInt32.le_iff_toNat_le, UInt32.toNat_add, UInt32.toNat_sub] at h h2
      simp at h h2
      omega
    · rfl
  · simp [*]

/-- every DNS name has a canonical spelling: `fold x` is canonical and names the same DNS name as `x` -/
theorem fold_canonical (x : String) : canonical (fold x) = true ∧ sameName (fold x) x = true := by
  have h : fold (fold x) = fold x := by
    unfold fold
    simp only [String.toList_ofList, List.map_map]
    congr 1
    apply List.map_congr_left
    intro c _
    exact toLower_idem c
  simp [canonical, sameName, h]

/-- ... and only one: two canonical spellings of one DNS name are the same string -/
theorem canonical_unique (x y : String) (hx : canonical x = true) (hy : canonical y = true)
    (h : sameName x y = true) : x = y := by
  simp only [canonical, sameName, beq_iff_eq] at hx hy h
  rw [← hx, ← hy, h]

/-- every key that carries a binding is the canonical spelling of its DNS name -/
def KeysCanonical (st : State) : Prop := ∀ x c, st.bound x = some c → canonical x = true

/-- the postcondition of `acme.Normalize` the code relies on: what it returns is canonical -/
def OpCanonical : Op → Prop
  | .validate r => ∀ h, r.norm = some h → canonical h = true
  | _ => True

theorem init_keysCanonical : KeysCanonical State.init := by
  intro x c h; simp [State.init] at h

theorem step_keysCanonical (cfg : Cfg) (st : State) (op : Op) (hk : KeysCanonical st)
    (ho : OpCanonical op) : KeysCanonical (step cfg st op) := by
  intro x c hb
  cases op with
  | instruction r => exact hk x c hb
  | validate r =>
    simp only [step] at hb
    rcases validate_frame cfg st r x with e | ⟨e1, -, -⟩
    · rw [e] at hb; exact hk x c hb
    · exact ho x e1
  | release caller host =>
    simp only [step, release] at hb
    split at hb
    · simp only at hb
      split at hb
      · simp at hb
      · exact hk x c hb
    · exact hk x c hb

/-- invariant over histories: bindings only ever sit under canonical spellings -/
theorem run_keysCanonical (cfg : Cfg) (ops : List Op) (st : State) (hk : KeysCanonical st)
    (ho : ∀ op ∈ ops, OpCanonical op) : KeysCanonical (run cfg st ops) := by
  induction ops generalizing st with
  | nil => exact hk
  | cons op ops ih =>
    simp only [run, List.foldl_cons]
    exact ih _ (step_keysCanonical cfg st op hk (ho op (List.mem_cons_self ..)))
      (fun o h => ho o (List.mem_cons_of_mem _ h))

/-- **one owner per DNS name**: after any history (validations, instructions, releases by anybody, any
proofs / CNAME answers / KV failures) two bound spellings of one DNS name are the same key, hence have
the same single owner. -/
theorem dns_name_single_owner (cfg : Cfg) (ops : List Op) (st : State) (hk : KeysCanonical st)
    (ho : ∀ op ∈ ops, OpCanonical op) (x y : String) (a b : Client) (hxy : sameName x y = true)
    (hx : (run cfg st ops).bound x = some a) (hy : (run cfg st ops).bound y = some b) : x = y ∧ a = b := by
  have hk' := run_keysCanonical cfg ops st hk ho
  have e := canonical_unique x y (hk' x a hx) (hk' y b hy) hxy
  subst e
  rw [hx] at hy
  exact ⟨rfl, by injection hy⟩

/-- **another client is refused under every spelling**: while the DNS name is bound to `c` (under key `x`),
a validation by anybody else of any spelling `h` of that name fails and changes nothing. -/
theorem other_client_refused_any_spelling (cfg : Cfg) (st : State) (r : Req) (h x : String) (c : Client)
    (hk : KeysCanonical st) (hn : r.norm = some h) (hcan : canonical h = true)
    (hb : st.bound x = some c) (hs : sameName h x = true) (hc : c ≠ r.caller) :
    (validate cfg st r).2.res ≠ .ok ∧ (validate cfg st r).1 = st := by
  have e := canonical_unique h x hcan (hk x c hb) hs
  subst e
  exact other_client_refused cfg st r h c hn hb hc

/-- **never rebinds, under any spelling**: once the DNS name of `x` is bound to `c`, no history without a
release of `x` ever binds any spelling `y` of that name to anybody but `c`. -/
theorem never_rebinds_any_spelling (cfg : Cfg) (ops : List Op) (st : State) (x : String) (c : Client)
    (hk : KeysCanonical st) (ho : ∀ op ∈ ops, OpCanonical op)
    (hb : st.bound x = some c) (hno : ∀ op ∈ ops, isReleaseOf x op = false)
    (y : String) (c' : Client) (hs : sameName y x = true) (hy : (run cfg st ops).bound y = some c') :
    c' = c := by
  have hx := never_rebinds cfg ops st x c hb hno
  exact (dns_name_single_owner cfg ops st hk ho y x c' c hs hy hx).2

/-- **apex / ACME zone refused under every spelling**: when the DNS name (folded) is the zone or lies
under it, the request is refused and nothing is stored. -/
theorem zone_refused_any_spelling (cfg : Cfg) (st : State) (r : Req) (h pre : String)
    (hn : r.norm = some h) (hcan : canonical h = true)
    (hz : fold h = pre ++ cfg.apex ∨ fold h = pre ++ cfg.acme) :
    (validate cfg st r).2.res ≠ .ok ∧ (validate cfg st r).1 = st := by
  have e : fold h = h := by simpa [canonical] using hcan
  rw [e] at hz
  exact zone_and_subdomains_refused cfg st r pre (by rcases hz with hz | hz <;> simp [hn, hz])

/-! ### non-vacuity -/

def cfgEx : Cfg := ⟨"hello.com", "acme.example.com"⟩
def alice : Client := ⟨1, "A"⟩
def bob : Client := ⟨2, "B"⟩
def reqEx (c : Client) (h : String) (cname : Option String) : Req := ⟨c, some h, true, cname, "t" ++ c.token, false, false⟩

example : (validate cfgEx State.init (reqEx alice "app.customer.org" (some "tA"))).2.res = .ok := by decide
example : (validate cfgEx State.init (reqEx alice "app.customer.org" (some "tB"))).2.res = .refused .failedPre := by decide
example : (validate cfgEx State.init (reqEx alice "x.hello.com" (some "tA"))).2.res = .refused .invHost := by decide
example : (validate cfgEx State.init (reqEx alice "customer.org" (some "tA"))).2.res = .refused .invHost := by decide
example :
    let st := (validate cfgEx State.init (reqEx alice "app.customer.org" (some "tA"))).1
    st.bound "app.customer.org" = some alice
      ∧ (validate cfgEx st (reqEx bob "app.customer.org" (some "tB"))).2.res = .refused .invHost
      ∧ (validate cfgEx st (reqEx alice "app.customer.org" none)).2.res = .ok
      ∧ (release st bob "app.customer.org").2 = .refused .denied
      ∧ ((release st alice "app.customer.org").1.bound "app.customer.org") = none := by decide


/- spellings -/
example : fold "Shop.Customer.ORG" = "shop.customer.org" ∧ canonical "shop.customer.org" = true
    ∧ canonical "Shop.customer.org" = false ∧ sameName "SHOP.customer.org" "shop.Customer.org" = true
    ∧ sameName "shop.customer.org" "shop.customer.net" = false := by decide
example : OpCanonical (.validate (reqEx alice "app.customer.org" (some "tA"))) := by
  intro h e; simp [reqEx] at e; subst e; decide
/-- the hypothesis is needed: the model (like the code) is byte-exact, so if `Normalize` ever handed on
a non-canonical spelling, one DNS name would get two owners -/
example :
    let st := (validate cfgEx State.init (reqEx alice "shop.customer.org" (some "tA"))).1
    let st' := (validate cfgEx st (reqEx bob "Shop.customer.org" (some "tB"))).1
    st'.bound "shop.customer.org" = some alice ∧ st'.bound "Shop.customer.org" = some bob
      ∧ (validate cfgEx State.init (reqEx bob "x.y.HELLO.com" (some "tB"))).2.res = .ok := by decide
/-- with canonical spellings the second client is refused and the zone is recognised -/
example :
    let st := (validate cfgEx State.init (reqEx alice "shop.customer.org" (some "tA"))).1
    (validate cfgEx st (reqEx bob (fold "Shop.customer.org") (some "tB"))).2.res = .refused .invHost
      ∧ (validate cfgEx State.init (reqEx bob (fold "x.y.HELLO.com") (some "tB"))).2.res = .refused .invHost := by decide

end Specter.C29
