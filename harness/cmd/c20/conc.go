// C20 tie, part 2: histories issued by CONCURRENT callers.
//
// A plan = an optional sequential preamble (first session of the child, stopped cleanly) followed by rounds;
// in a round 2–4 goroutines call the real store at the same time (released together by a spin barrier,
// their `issued` markers already written), each running a short program; conflicting calls on the same
// keys (identical prefix appends, puts, imports, key removals) are the rule. With `late` the writer
// goroutine (`DiskKV.Start`) is started only after the callers of round 0 are parked in the store.
//
// The child prints `issued t id` before and `acked t id result` after every call. As in part 1 the child
// runs (c) under strace — the image of the data directory is rebuilt and reopened after EVERY recorded
// file operation, in particular between a frame write(2) and whatever follows it (apply, END-file write,
// remove, rename of a roll-back) — and (b) is SIGKILLed at seeded protocol lines. The event stream
// (`cissue`, `cwal` = decoded frame of a completed segment write, `cack`, `ccrash`) goes to the driver: the
// oracle needs only issue/ack order, the writer-loop model must explain results, frames and images.
package main

import (
	"bufio"
	"context"
	"encoding/binary"
	"fmt"
	"os"
	"os/exec"
	"path/filepath"
	"runtime"
	"strconv"
	"strings"
	"sync"
	"sync/atomic"
	"time"

	"go.miragespace.co/specter/kv/aof"
	"go.miragespace.co/specter/kv/aof/proto"
	"go.miragespace.co/specter/spec/chord"
	"go.uber.org/zap"

	"verif/harness/cmd/c21/aofh"
	"verif/harness/hlib"
)

// ---------- plans ----------

type cop struct {
	id    int
	round int // -1 = preamble
	tid   int
	op    aofh.Op
}

type plan struct {
	late bool
	ops  []cop // preamble first, then rounds in order; program order within (round, tid)
}

func (p *plan) add(round, tid int, o aofh.Op) {
	p.ops = append(p.ops, cop{id: len(p.ops), round: round, tid: tid, op: o})
}

func (p *plan) rounds() int {
	n := 0
	for _, c := range p.ops {
		if c.round+1 > n {
			n = c.round + 1
		}
	}
	return n
}

// lines: `late` | `pre <op>` | `op <round> <tid> <op>`
func (p *plan) lines() []string {
	var ls []string
	if p.late {
		ls = append(ls, "late")
	}
	for _, c := range p.ops {
		if c.round < 0 {
			ls = append(ls, "pre "+c.op.Line())
		} else {
			ls = append(ls, fmt.Sprintf("op %d %d %s", c.round, c.tid, c.op.Line()))
		}
	}
	return ls
}

func parsePlan(lines [][]string) *plan {
	p := &plan{}
	for _, t := range lines {
		switch {
		case len(t) == 1 && t[0] == "late":
			p.late = true
		case len(t) >= 2 && t[0] == "pre":
			if o, ok := aofh.ParseOp(t[1:]); ok {
				p.add(-1, 0, o)
			}
		case len(t) >= 4 && t[0] == "op":
			r, e1 := strconv.Atoi(t[1])
			tid, e2 := strconv.Atoi(t[2])
			if o, ok := aofh.ParseOp(t[3:]); ok && e1 == nil && e2 == nil {
				p.add(r, tid, o)
			}
		}
	}
	return p
}

func (p *plan) allOps() []aofh.Op {
	res := make([]aofh.Op, len(p.ops))
	for i, c := range p.ops {
		res[i] = c.op
	}
	return res
}

// small alphabets: the callers of a round collide all the time
var (
	cKeys     = [][]byte{[]byte("a"), []byte("b")}
	cChildren = [][]byte{[]byte("c1"), []byte("c2")}
	cVals     = [][]byte{nil, []byte("v1"), []byte("v2")}
)

func cgenOp(rng *hlib.Rng) aofh.Op {
	switch x := rng.Intn(100); {
	case x < 20:
		return aofh.Op{Kind: "put", Key: hlib.Pick(rng, cKeys), Val: hlib.Pick(rng, cVals)}
	case x < 27:
		return aofh.Op{Kind: "del", Key: hlib.Pick(rng, cKeys)}
	case x < 62:
		return aofh.Op{Kind: "app", Key: hlib.Pick(rng, cKeys), Val: hlib.Pick(rng, cChildren)}
	case x < 77:
		return aofh.Op{Kind: "rem", Key: hlib.Pick(rng, cKeys), Val: hlib.Pick(rng, cChildren)}
	case x < 90:
		o := aofh.Op{Kind: "imp"}
		for n := 1 + rng.Intn(2); n > 0; n-- {
			o.Keys = append(o.Keys, hlib.Pick(rng, cKeys))
			t := aofh.Transfer{Value: hlib.Pick(rng, cVals)}
			for _, c := range cChildren {
				if rng.Chance(40) {
					t.Children = append(t.Children, c)
				}
			}
			if rng.Chance(25) {
				t.Lease = 3
			}
			o.Vals = append(o.Vals, t)
		}
		return o
	default:
		o := aofh.Op{Kind: "rmk"}
		for n := 1 + rng.Intn(2); n > 0; n-- {
			o.Keys = append(o.Keys, hlib.Pick(rng, cKeys))
		}
		return o
	}
}

func genPlan(rng *hlib.Rng, thorough bool) *plan {
	p := &plan{late: rng.Chance(35)}
	if rng.Chance(45) {
		for _, o := range aofh.Gen(rng, aofh.GenCfg{N: 1 + rng.Intn(6)}) {
			p.add(-1, 0, o)
		}
	}
	nr := 1 + rng.Intn(4)
	if thorough {
		nr = 1 + rng.Intn(7)
	}
	for r := 0; r < nr; r++ {
		nt := 2 + rng.Intn(3)
		same := rng.Chance(55) // every caller starts with the SAME call
		first := cgenOp(rng)
		if same && rng.Chance(60) {
			first = aofh.Op{Kind: "app", Key: hlib.Pick(rng, cKeys), Val: hlib.Pick(rng, cChildren)}
		}
		for t := 0; t < nt; t++ {
			n := 1 + rng.Intn(3)
			for i := 0; i < n; i++ {
				if i == 0 && same {
					p.add(r, t, first)
				} else {
					p.add(r, t, cgenOp(rng))
				}
			}
		}
	}
	return p
}

// ---------- child ----------

func openNoStart(dir string) (*aof.DiskKV, error) {
	return aof.New(aof.Config{
		Logger:        zap.NewNop(),
		HasnFn:        chord.Hash,
		DataDir:       dir,
		FlushInterval: time.Hour,
	})
}

func readPlanFile(path string) *plan {
	b, err := os.ReadFile(path)
	if err != nil {
		panic(err)
	}
	var ls [][]string
	for _, l := range strings.Split(string(b), "\n") {
		if f := strings.Fields(l); len(f) > 0 {
			ls = append(ls, f)
		}
	}
	return parsePlan(ls)
}

// `vh -cchild <dir> <planfile>`
func cchild(dir, planfile string) {
	p := readPlanFile(planfile)
	mark := func(s string) { os.Stdout.WriteString(s) } // one write(2) per marker
	call := func(kv *aof.DiskKV, c cop, before func()) {
		mark(fmt.Sprintf("issued %d %d\n", c.tid, c.id))
		if before != nil {
			before()
		}
		res := aofh.Exec(kv, c.op)
		mark(fmt.Sprintf("acked %d %d %s\n", c.tid, c.id, res))
	}
	var pre []cop
	for _, c := range p.ops {
		if c.round < 0 {
			pre = append(pre, c)
		}
	}
	if len(pre) > 0 {
		kv, err := aofh.Open(dir)
		if err != nil {
			mark("openfail\n")
			os.Exit(3)
		}
		mark("opened\n")
		for _, c := range pre {
			call(kv, c, nil)
		}
		kv.Stop()
		mark("stopped\n")
	}
	kv, err := openNoStart(dir)
	if err != nil {
		mark("openfail\n")
		os.Exit(3)
	}
	mark("opened\n")
	started := false
	start := func() {
		if !started {
			started = true
			go kv.Start()
		}
	}
	if !p.late {
		start()
	}
	for r := 0; r < p.rounds(); r++ {
		progs := map[int][]cop{}
		var tids []int
		for _, c := range p.ops {
			if c.round == r {
				if _, ok := progs[c.tid]; !ok {
					tids = append(tids, c.tid)
				}
				progs[c.tid] = append(progs[c.tid], c)
			}
		}
		var ready atomic.Int32
		var gate atomic.Bool
		var wg sync.WaitGroup
		for _, t := range tids {
			prog := progs[t]
			wg.Add(1)
			go func() {
				defer wg.Done()
				for i, c := range prog {
					var before func()
					if i == 0 {
						// the marker is out; now wait for the other callers of the round
						before = func() {
							ready.Add(1)
							for n := 1; !gate.Load(); n++ {
								if n%2000 == 0 {
									runtime.Gosched()
								}
							}
						}
					}
					call(kv, c, before)
				}
			}()
		}
		for int(ready.Load()) < len(tids) {
			time.Sleep(50 * time.Microsecond)
		}
		gate.Store(true)
		if !started {
			time.Sleep(30 * time.Millisecond) // the callers are parked in the store by now
			start()
		}
		wg.Wait()
	}
	start()
	kv.Stop()
	mark("stopped\n")
}

// ---------- parent ----------

// decodeFrames: a segment write in tidwall/wal's binary format = uvarint length + LogEntry, repeated
func decodeFrames(data []byte) ([]string, bool) {
	var lines []string
	for len(data) > 0 {
		n, k := binary.Uvarint(data)
		if k <= 0 || n > uint64(len(data)-k) {
			return nil, false
		}
		entry := data[k : k+int(n)]
		data = data[k+int(n):]
		le := &proto.LogEntry{}
		if err := le.UnmarshalVT(entry); err != nil {
			return nil, false
		}
		mu := &proto.Mutation{}
		if err := mu.UnmarshalVT(le.GetData()); err != nil {
			return nil, false
		}
		var o aofh.Op
		switch mu.GetType() {
		case proto.MutationType_SIMPLE_PUT:
			o = aofh.Op{Kind: "put", Key: mu.GetKey(), Val: mu.GetValue()}
		case proto.MutationType_SIMPLE_DELETE:
			o = aofh.Op{Kind: "del", Key: mu.GetKey()}
		case proto.MutationType_PREFIX_APPEND:
			o = aofh.Op{Kind: "app", Key: mu.GetKey(), Val: mu.GetValue()}
		case proto.MutationType_PREFIX_REMOVE:
			o = aofh.Op{Kind: "rem", Key: mu.GetKey(), Val: mu.GetValue()}
		case proto.MutationType_IMPORT:
			o = aofh.Op{Kind: "imp", Keys: mu.GetKeys()}
			for _, v := range mu.GetValues() {
				o.Vals = append(o.Vals, aofh.Transfer{Value: v.GetSimpleValue(), Children: v.GetPrefixChildren(), Lease: v.GetLeaseToken()})
			}
		case proto.MutationType_REMOVE_KEYS:
			o = aofh.Op{Kind: "rmk", Keys: mu.GetKeys()}
		default:
			return nil, false
		}
		lines = append(lines, o.Line())
	}
	return lines, true
}

type concRun struct {
	r    *hlib.Run
	rng  *hlib.Rng
	p    *plan
	keys [][]byte
	work string
	out  int // outstanding calls while walking a stream
}

func (c *concRun) planFile() string {
	path := filepath.Join(c.work, "plan.txt")
	os.WriteFile(path, []byte(strings.Join(c.p.lines(), "\n")+"\n"), 0o644)
	return path
}

func (c *concRun) begin(nolog bool) {
	c.r.Raw("reset")
	for _, l := range c.p.lines() {
		c.r.Emit("cplan "+l, "-")
	}
	if nolog {
		c.r.Emit("cnolog", "-")
	}
	c.out = 0
}

// marker text → protocol line
func (c *concRun) marker(text string) {
	f := strings.Fields(text)
	if len(f) < 3 {
		return
	}
	tid := f[1]
	id, err := strconv.Atoi(f[2])
	if err != nil || id < 0 || id >= len(c.p.ops) {
		panic("bad marker " + text)
	}
	o := c.p.ops[id]
	switch {
	case f[0] == "issued":
		c.r.Emit("cissue "+tid+" "+o.op.Line(), "-")
		if c.out > 0 {
			c.r.Count("conc:call-issued-while-others-outstanding")
		}
		c.out++
		c.r.Count("conc:op:" + o.op.Kind)
	case f[0] == "acked" && len(f) == 4:
		c.r.Emit("cack "+tid, f[3])
		c.out--
		if f[3] != "ok" {
			c.r.Count("conc:result:" + o.op.Kind + ":" + f[3])
		}
	}
}

func (c *concRun) emitCrash(tag, res string) {
	c.r.Emit(fmt.Sprintf("ccrash %s %s", aofh.ListTok(c.keys), tag), res)
	c.r.Count("conc:crash-result:" + map[bool]string{true: "state", false: res}[res != "error" && res != "panic"])
}

func (c *concRun) traceRun() bool {
	exe, _ := os.Executable()
	dir := filepath.Join(c.work, "cchild")
	markerF := filepath.Join(c.work, "cchild.out")
	trace := filepath.Join(c.work, "ctrace.txt")
	ctx, cancel := context.WithTimeout(context.Background(), 240*time.Second)
	defer cancel()
	var err error
	// --seccomp-bpf: only the traced calls stop the child, the goroutines really run in parallel;
	// an strace without that option runs the same trace the slow way
	for _, fast := range []bool{true, false} {
		os.RemoveAll(dir)
		os.MkdirAll(dir, 0o755)
		out, cerr := os.Create(markerF)
		if cerr != nil {
			panic(cerr)
		}
		args := []string{"-f"}
		if fast {
			args = append(args, "--seccomp-bpf")
		}
		args = append(args, "-qq", "-y", "-xx", "-s", "4000000",
			"-e", "trace=openat,write,pwrite64,ftruncate,rename,renameat,renameat2,unlink,unlinkat,mkdir,mkdirat,fsync,fdatasync,close",
			"-o", trace, exe, "-cchild", dir, c.planFile())
		cmd := exec.CommandContext(ctx, "strace", args...)
		cmd.Stdout = out
		if !fast {
			cmd.Stderr = os.Stderr
		}
		err = cmd.Run()
		out.Close()
		if st, serr := os.Stat(markerF); err == nil || (serr == nil && st.Size() > 0) {
			break
		}
	}
	mb, _ := os.ReadFile(markerF)
	complete := strings.HasSuffix(string(mb), "stopped\n")
	if err != nil && len(mb) == 0 {
		c.r.Count("conc:strace-failed")
		return false
	}
	if !complete {
		c.r.Count("conc:child-did-not-finish") // the stream up to its end is still a valid observation
	}
	evs, err := parseTrace(trace, dir, markerF)
	if err != nil {
		panic(err)
	}
	c.begin(false)
	im := &image{files: map[string][]byte{}}
	issued, acked, version := 0, 0, 0
	cache := map[int]string{}
	seen := map[string]bool{}
	recoverNow := func(k int, what string) {
		key := fmt.Sprintf("%d/%d/%d", version, acked, issued)
		if seen[key] {
			return
		}
		seen[key] = true
		res, ok := cache[version]
		if !ok {
			idir := filepath.Join(c.work, "cimg")
			os.RemoveAll(idir)
			im.materialize(idir)
			res = aofh.Recover(idir, c.keys)
			cache[version] = res
			c.r.Count("conc:distinct-crash-image")
		}
		c.emitCrash(fmt.Sprintf("trace:%d:%s:%s", k, what, im.describe()), res)
		c.r.Count("conc:crash-point:after-" + strings.SplitN(what, ":", 2)[0])
	}
	recoverNow(0, "start")
	lastWal := false
	for k, e := range evs {
		what := e.kind
		switch e.kind {
		case "marker-issued":
			issued++
			c.marker(e.path)
		case "marker-acked":
			acked++
			c.marker(e.path)
		case "marker-other":
		default:
			if im.apply(e) {
				version++
				if lastWal && c.out > 0 && !(e.kind == "write" && e.walSeg) {
					c.r.Count("conc:file-op-after-frame-write:" + e.kind)
				}
			}
			if e.kind == "write" && e.walSeg {
				lines, ok := decodeFrames(e.data)
				if !ok {
					c.r.Emit("cwal ?", "-")
				}
				for _, l := range lines {
					c.r.Emit("cwal "+l, "-")
				}
				what = "frame-write"
				lastWal = true
			} else if e.kind != "sync" && e.kind != "close" {
				lastWal = false
			}
		}
		recoverNow(k+1, what)
	}
	os.RemoveAll(dir)
	return true
}

func (c *concRun) killRun(afterLines int) {
	exe, _ := os.Executable()
	dir := filepath.Join(c.work, "ckill")
	os.RemoveAll(dir)
	os.MkdirAll(dir, 0o755)
	cmd := exec.Command(exe, "-cchild", dir, c.planFile())
	pipe, err := cmd.StdoutPipe()
	if err != nil {
		panic(err)
	}
	if err := cmd.Start(); err != nil {
		panic(err)
	}
	timer := time.AfterFunc(120*time.Second, func() { cmd.Process.Kill() })
	defer timer.Stop()
	c.begin(true)
	sc := bufio.NewScanner(pipe)
	n := 0
	killed := false
	for sc.Scan() {
		l := sc.Text()
		if strings.HasPrefix(l, "issued ") || strings.HasPrefix(l, "acked ") {
			c.marker(l)
		}
		n++
		if n >= afterLines && !killed {
			cmd.Process.Kill() // SIGKILL; lines already in the pipe are still read
			killed = true
		}
	}
	cmd.Wait()
	c.emitCrash(fmt.Sprintf("kill:%d", afterLines), aofh.Recover(dir, c.keys))
	c.r.Count("conc:crash-point:sigkill")
	os.RemoveAll(dir)
}

func (c *concRun) run(kills int) {
	c.work = aofh.TempDir("c20c-")
	defer os.RemoveAll(c.work)
	c.keys = aofh.Universe(c.p.allOps())
	if !c.traceRun() {
		kills += 6
	}
	for i := 0; i < kills; i++ {
		c.killRun(1 + c.rng.Intn(2*len(c.p.ops)+3))
	}
	if c.p.late {
		c.r.Count("conc:writer-started-late")
	}
	for r := 0; r < c.p.rounds(); r++ {
		nt := map[int]bool{}
		firsts := map[string]int{}
		for _, o := range c.p.ops {
			if o.round == r {
				if !nt[o.tid] {
					firsts[o.op.Line()]++
				}
				nt[o.tid] = true
			}
		}
		c.r.Count(fmt.Sprintf("conc:round-callers:%d", len(nt)))
		for l, n := range firsts {
			if n >= 2 {
				c.r.Count("conc:identical-concurrent-calls:" + strings.Fields(l)[0])
			}
		}
	}
	c.r.Case("conc;" + strings.Join(c.p.lines(), ";"))
}
