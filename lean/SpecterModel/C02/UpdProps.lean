import SpecterModel.C02.Upd
import SpecterModel.C02.GenUpd
/-!
C02, publication of the successor list by overlapping stabilize runs: theorems.

General part (any program, any number of overlapping runs, any views, any schedule): if the program obeys the
lock discipline (`lockDiscipline`, decidable) then "the lock is free → the stored hash is the hash of the stored
list" is an invariant (`hash_names_list_when_unlocked`); if in addition a run executing alone converges
(`soloConverges`, decidable) then, whenever the lock is free — in particular once all overlapping runs have
finished (`allDone_lock_free`) — ONE further run with the newest view leaves exactly that view published
(`repair_restores`, `converges_after_overlap`), and it stays published in all later rounds (`stays_converged`).
The node therefore cannot stay frozen on an older list "because the hash already names the newest one".

Instance: the program generated from the current chord/local_tasks.go satisfies both predicates (`decide`), hence
`stabilize_publication_converges`. Negative witness: for the program that swaps the hash BEFORE taking the lock the
discipline fails and a concrete schedule of two runs ends frozen for ever (`swap_before_lock_freezes`).
-/
namespace Specter.C02.Upd

/-! ### meaning of the abstract local states -/

def locSem (H : Nat → Nat) (l : Loc) (i v : Nat) (sh : Shared) : Prop :=
  match l with
  | .out => sh.owner ≠ some i
  | .inn false false => sh.owner = some i ∧ sh.hashVar = H sh.listVar
  | .inn true false => sh.owner = some i ∧ sh.hashVar = H v
  | .inn false true => sh.owner = some i ∧ sh.listVar = v
  | .inn true true => sh.owner = some i ∧ sh.hashVar = H v ∧ sh.listVar = v

theorem locSem_inn_owner {H : Nat → Nat} {wh wl : Bool} {i v : Nat} {sh : Shared}
    (h : locSem H (.inn wh wl) i v sh) : sh.owner = some i := by
  cases wh <;> cases wl <;> exact h.1

/-- the invariant, relative to an annotation of the program -/
structure Inv (H : Nat → Nat) (prog : Prog) (ann : Ann) (s : State) : Prop where
  cons : s.sh.owner = none → s.sh.hashVar = H s.sh.listVar
  loc : ∀ i t, s.ths[i]? = some t → t.pc ≤ prog.length ∧ ∃ l, l ∈ annAt ann t.pc ∧ locSem H l i t.view s.sh
  own : ∀ i, s.sh.owner = some i → i < s.ths.length

/-! ### what `checkAnn` gives -/

theorem checkAnn_start {prog : Prog} {ann : Ann} (h : checkAnn prog ann = true) : Loc.out ∈ annAt ann 0 := by
  simp only [checkAnn, Bool.and_eq_true] at h
  exact List.contains_iff_mem.mp h.1.1

theorem checkAnn_end {prog : Prog} {ann : Ann} (h : checkAnn prog ann = true) :
    ∀ l, l ∈ annAt ann prog.length → l = Loc.out := by
  simp only [checkAnn, Bool.and_eq_true] at h
  intro l hl
  have := List.all_eq_true.mp h.2 l hl
  simpa using this

theorem checkAnn_step {prog : Prog} {ann : Ann} (h : checkAnn prog ann = true)
    {pc : Nat} {a : Act} (ha : prog[pc]? = some a) {l : Loc} (hl : l ∈ annAt ann pc) :
    ∃ succs, transfer a pc l = some succs ∧
      ∀ p, p ∈ succs → p.1 ≤ prog.length ∧ p.2 ∈ annAt ann p.1 := by
  simp only [checkAnn, Bool.and_eq_true] at h
  have hpc : pc < prog.length := by
    rcases List.getElem?_eq_some_iff.mp ha with ⟨hlt, _⟩
    exact hlt
  have h1 := List.all_eq_true.mp h.1.2 pc (List.mem_range.mpr hpc)
  simp only [ha] at h1
  have h2 := List.all_eq_true.mp h1 l hl
  cases htr : transfer a pc l with
  | none => simp [htr] at h2
  | some succs =>
    refine ⟨succs, rfl, ?_⟩
    simp only [htr] at h2
    intro p hp
    have h3 := List.all_eq_true.mp h2 p hp
    simp only [Bool.and_eq_true, decide_eq_true_eq] at h3
    exact ⟨h3.1, List.contains_iff_mem.mp h3.2⟩

/-! ### one step of one run against the abstract transfer function -/

theorem stepT_transfer {H : Nat → Nat} {prog : Prog} {i : Nat} {t t' : Thread} {sh sh' : Shared}
    {a : Act} {l : Loc} {succs : List (Nat × Loc)}
    (ha : prog[t.pc]? = some a)
    (hl : locSem H l i t.view sh)
    (hcons : sh.owner = none → sh.hashVar = H sh.listVar)
    (hstep : stepT H prog i t sh = some (t', sh'))
    (htr : transfer a t.pc l = some succs) :
    t'.view = t.view ∧
    (∃ p, p ∈ succs ∧ p.1 = t'.pc ∧ locSem H p.2 i t.view sh') ∧
    (sh'.owner = none → sh'.hashVar = H sh'.listVar) ∧
    (∀ j v lj, j ≠ i → locSem H lj j v sh → locSem H lj j v sh') ∧
    (∀ k, sh'.owner = some k → k = i ∨ sh.owner = some k) := by
  unfold stepT at hstep
  rw [ha] at hstep
  cases a with
  | loadHashCmp k =>
    simp only [transfer, Option.some.injEq] at htr
    subst htr
    simp only at hstep
    split at hstep
    · simp only [Option.some.injEq, Prod.mk.injEq] at hstep
      obtain ⟨rfl, rfl⟩ := hstep
      exact ⟨rfl, ⟨(t.pc + 1 + k, l), by simp, rfl, hl⟩, hcons, fun _ _ _ _ h => h, fun _ h => Or.inr h⟩
    · simp only [Option.some.injEq, Prod.mk.injEq] at hstep
      obtain ⟨rfl, rfl⟩ := hstep
      exact ⟨rfl, ⟨(t.pc + 1, l), by simp, rfl, hl⟩, hcons, fun _ _ _ _ h => h, fun _ h => Or.inr h⟩
  | swapHashCmp k =>
    cases l with
    | out => simp [transfer] at htr
    | inn wh wl =>
      have hown := locSem_inn_owner hl
      simp only [transfer, Option.some.injEq] at htr
      subst htr
      have key : ∀ pc', (pc' = t.pc + 1 ∨ pc' = t.pc + 1 + k) →
          t' = { t with pc := pc' } → sh' = { sh with hashVar := H t.view } →
          t'.view = t.view ∧
          (∃ p, p ∈ [(t.pc + 1, Loc.inn true wl), (t.pc + 1 + k, Loc.inn true wl)] ∧ p.1 = t'.pc ∧
            locSem H p.2 i t.view sh') ∧
          (sh'.owner = none → sh'.hashVar = H sh'.listVar) ∧
          (∀ j v lj, j ≠ i → locSem H lj j v sh → locSem H lj j v sh') ∧
          (∀ k, sh'.owner = some k → k = i ∨ sh.owner = some k) := by
        intro pc' hpc ht hs
        subst ht hs
        refine ⟨rfl, ⟨(pc', Loc.inn true wl), ?_, rfl, ?_⟩, ?_, ?_, ?_⟩
        · rcases hpc with rfl | rfl <;> simp
        · cases wh <;> cases wl <;> simp_all [locSem]
        · intro h; simp [hown] at h
        · intro j v lj hne hj
          cases lj with
          | out => simpa [locSem] using hj
          | inn a b =>
            have := locSem_inn_owner hj
            rw [hown] at this
            exact absurd (Option.some.inj this).symm hne
        · intro k h; exact Or.inr h
      simp only at hstep
      split at hstep
      · simp only [Option.some.injEq, Prod.mk.injEq] at hstep
        exact key _ (Or.inr rfl) hstep.1.symm hstep.2.symm
      · simp only [Option.some.injEq, Prod.mk.injEq] at hstep
        exact key _ (Or.inl rfl) hstep.1.symm hstep.2.symm
  | storeHash =>
    cases l with
    | out => simp [transfer] at htr
    | inn wh wl =>
      have hown := locSem_inn_owner hl
      simp only [transfer, Option.some.injEq] at htr
      subst htr
      simp only [Option.some.injEq, Prod.mk.injEq] at hstep
      obtain ⟨rfl, rfl⟩ := hstep
      refine ⟨rfl, ⟨(t.pc + 1, Loc.inn true wl), by simp, rfl, ?_⟩, ?_, ?_, ?_⟩
      · cases wh <;> cases wl <;> simp_all [locSem]
      · intro h; simp [hown] at h
      · intro j v lj hne hj
        cases lj with
        | out => simpa [locSem] using hj
        | inn a b =>
          have := locSem_inn_owner hj
          rw [hown] at this
          exact absurd (Option.some.inj this).symm hne
      · intro k h; exact Or.inr h
  | assignList =>
    cases l with
    | out => simp [transfer] at htr
    | inn wh wl =>
      have hown := locSem_inn_owner hl
      simp only [transfer, Option.some.injEq] at htr
      subst htr
      simp only [Option.some.injEq, Prod.mk.injEq] at hstep
      obtain ⟨rfl, rfl⟩ := hstep
      refine ⟨rfl, ⟨(t.pc + 1, Loc.inn wh true), by simp, rfl, ?_⟩, ?_, ?_, ?_⟩
      · cases wh <;> cases wl <;> simp_all [locSem]
      · intro h; simp [hown] at h
      · intro j v lj hne hj
        cases lj with
        | out => simpa [locSem] using hj
        | inn a b =>
          have := locSem_inn_owner hj
          rw [hown] at this
          exact absurd (Option.some.inj this).symm hne
      · intro k h; exact Or.inr h
  | lock =>
    cases l with
    | inn wh wl => simp [transfer] at htr
    | out =>
      simp only [transfer, Option.some.injEq] at htr
      subst htr
      simp only at hstep
      split at hstep
      · rename_i hfree
        simp only [Option.some.injEq, Prod.mk.injEq] at hstep
        obtain ⟨rfl, rfl⟩ := hstep
        refine ⟨rfl, ⟨(t.pc + 1, Loc.inn false false), by simp, rfl, ?_⟩, ?_, ?_, ?_⟩
        · exact ⟨rfl, hcons hfree⟩
        · intro h; simp at h
        · intro j v lj hne hj
          cases lj with
          | out => simp only [locSem, ne_eq, Option.some.injEq]; exact fun h => hne h.symm
          | inn a b =>
            have := locSem_inn_owner hj
            rw [hfree] at this
            exact absurd this (by simp)
        · intro k h
          simp only [Option.some.injEq] at h
          exact Or.inl h.symm
      · simp at hstep
  | unlock =>
    cases l with
    | out => simp [transfer] at htr
    | inn wh wl =>
      have hown := locSem_inn_owner hl
      simp only [transfer] at htr
      split at htr
      · rename_i hww
        simp only [Option.some.injEq] at htr
        subst htr
        simp only [hown, ↓reduceIte, Option.some.injEq, Prod.mk.injEq] at hstep
        obtain ⟨rfl, rfl⟩ := hstep
        refine ⟨rfl, ⟨(t.pc + 1, Loc.out), by simp, rfl, by simp [locSem]⟩, ?_, ?_, ?_⟩
        · intro _
          subst hww
          cases wh <;> simp_all [locSem]
        · intro j v lj hne hj
          cases lj with
          | out => simp [locSem]
          | inn a b =>
            have := locSem_inn_owner hj
            rw [hown] at this
            exact absurd (Option.some.inj this).symm hne
        · intro k h; simp at h
      · simp at htr

/-! ### the invariant is inductive -/

theorem step_inv {H : Nat → Nat} {prog : Prog} {ann : Ann} (hchk : checkAnn prog ann = true)
    {s : State} (hinv : Inv H prog ann s) (i : Nat) : Inv H prog ann (step H prog s i) := by
  unfold step
  cases hti : s.ths[i]? with
  | none => exact hinv
  | some t =>
    simp only
    cases hst : stepT H prog i t s.sh with
    | none => exact hinv
    | some r =>
      obtain ⟨t', sh'⟩ := r
      simp only
      obtain ⟨hpcle, l, hlmem, hlsem⟩ := hinv.loc i t hti
      have hilt : i < s.ths.length := (List.getElem?_eq_some_iff.mp hti).1
      -- the run is not finished, otherwise it could not step
      cases ha : prog[t.pc]? with
      | none => simp [stepT, ha] at hst
      | some a =>
        obtain ⟨succs, htr, hsuccs⟩ := checkAnn_step hchk ha hlmem
        obtain ⟨hview, ⟨p, hp, hppc, hpsem⟩, hcons', hothers, hown'⟩ :=
          stepT_transfer ha hlsem hinv.cons hst htr
        refine ⟨hcons', ?_, ?_⟩
        · intro j tj hj
          rw [List.getElem?_set] at hj
          by_cases hij : i = j
          · subst hij
            simp only [hilt, ↓reduceIte, Option.some.injEq] at hj
            subst hj
            refine ⟨hppc ▸ (hsuccs p hp).1, p.2, hppc ▸ (hsuccs p hp).2, ?_⟩
            rw [hview]; exact hpsem
          · simp only [hij, ↓reduceIte] at hj
            obtain ⟨h1, lj, hljmem, hljsem⟩ := hinv.loc j tj hj
            exact ⟨h1, lj, hljmem, hothers j tj.view lj (fun h => hij h.symm) hljsem⟩
        · intro k hk
          simp only [List.length_set]
          rcases hown' k hk with rfl | hold
          · exact hilt
          · exact hinv.own k hold

theorem run_inv {H : Nat → Nat} {prog : Prog} {ann : Ann} (hchk : checkAnn prog ann = true)
    (sched : List Nat) : ∀ {s : State}, Inv H prog ann s → Inv H prog ann (run H prog s sched) := by
  induction sched with
  | nil => intro s h; exact h
  | cons i rest ih => intro s h; exact ih (step_inv hchk h i)

theorem init_inv {H : Nat → Nat} {prog : Prog} {ann : Ann} (hchk : checkAnn prog ann = true)
    (v0 : Nat) (views : List Nat) : Inv H prog ann (init H v0 views) := by
  refine ⟨fun _ => rfl, ?_, ?_⟩
  · intro i t hi
    simp only [init, List.getElem?_map] at hi
    cases hv : views[i]? with
    | none => simp [hv] at hi
    | some v =>
      simp only [hv, Option.map_some, Option.some.injEq] at hi
      subst hi
      exact ⟨Nat.zero_le _, Loc.out, checkAnn_start hchk, by simp [locSem, init]⟩
  · intro i hi; simp [init] at hi

/-- Every state reachable by any schedule of any number of overlapping runs satisfies the invariant. -/
theorem reachable_inv {H : Nat → Nat} {prog : Prog} (hld : lockDiscipline prog = true)
    (v0 : Nat) (views : List Nat) (sched : List Nat) :
    Inv H prog (infer prog) (run H prog (init H v0 views) sched) :=
  run_inv hld sched (init_inv hld v0 views)

/-- INVARIANT (any number of runs, any views, any schedule): whenever the lock is free, the stored hash is the
hash of the stored list. -/
theorem hash_names_list_when_unlocked {H : Nat → Nat} {prog : Prog} (hld : lockDiscipline prog = true)
    (v0 : Nat) (views : List Nat) (sched : List Nat) :
    let s := run H prog (init H v0 views) sched
    s.sh.owner = none → s.sh.hashVar = H s.sh.listVar :=
  (reachable_inv hld v0 views sched).cons

/-- once every overlapping run has finished, the lock is free -/
theorem allDone_lock_free {H : Nat → Nat} {prog : Prog} (hld : lockDiscipline prog = true)
    (v0 : Nat) (views : List Nat) (sched : List Nat) :
    let s := run H prog (init H v0 views) sched
    allDone prog s = true → s.sh.owner = none := by
  intro s hdone
  have hinv := reachable_inv (H := H) hld v0 views sched
  cases hown : s.sh.owner with
  | none => rfl
  | some i =>
    exfalso
    have hilt := hinv.own i hown
    have hti : s.ths[i]? = some s.ths[i] := List.getElem?_eq_getElem hilt
    obtain ⟨hle, l, hlmem, hlsem⟩ := hinv.loc i _ hti
    have hfin : finished prog s.ths[i] = true :=
      List.all_eq_true.mp hdone _ (List.getElem_mem hilt)
    simp only [finished, decide_eq_true_eq] at hfin
    have hpc : (s.ths[i]).pc = prog.length := Nat.le_antisymm hle hfin
    rw [hpc] at hlmem
    have := checkAnn_end hld l hlmem
    subst this
    exact hlsem hown

/-! ### a run executing alone: concrete execution against the abstract one -/

def SoloRel (H : Nat → Nat) (i v : Nat) (σ : SoloAbs) (sh : Shared) : Prop :=
  (σ.hm = true ↔ sh.hashVar = H v) ∧ (σ.lm = true → sh.listVar = v) ∧
  (σ.held = true → sh.owner = some i) ∧ (σ.held = false → sh.owner = none)

theorem soloStep_sim {H : Nat → Nat} {prog : Prog} {i : Nat} {t : Thread} {sh : Shared} {a : Act}
    {σ σ1 : SoloAbs} {pc' : Nat}
    (ha : prog[t.pc]? = some a) (hrel : SoloRel H i t.view σ sh) (hs : soloStep a t.pc σ = some (pc', σ1)) :
    ∃ t1 sh1, stepT H prog i t sh = some (t1, sh1) ∧ t1.pc = pc' ∧ t1.view = t.view ∧
      SoloRel H i t.view σ1 sh1 := by
  obtain ⟨hhm, hlm, hheld, hfree⟩ := hrel
  unfold stepT
  rw [ha]
  cases a with
  | loadHashCmp k =>
    simp only [soloStep, Option.some.injEq, Prod.mk.injEq] at hs
    obtain ⟨rfl, rfl⟩ := hs
    by_cases hb : σ.hm = true
    · have := hhm.mp hb
      simp only [this, ↓reduceIte, hb]
      exact ⟨_, _, rfl, rfl, rfl, ⟨hhm, hlm, hheld, hfree⟩⟩
    · have : ¬ sh.hashVar = H t.view := fun h => hb (hhm.mpr h)
      simp only [this, ↓reduceIte, hb]
      exact ⟨_, _, rfl, by simp, rfl, ⟨hhm, hlm, hheld, hfree⟩⟩
  | swapHashCmp k =>
    simp only [soloStep, Option.some.injEq, Prod.mk.injEq] at hs
    obtain ⟨rfl, rfl⟩ := hs
    by_cases hb : σ.hm = true
    · have := hhm.mp hb
      simp only [this, ↓reduceIte, hb]
      exact ⟨_, _, rfl, rfl, rfl, ⟨by simp, hlm, hheld, hfree⟩⟩
    · have : ¬ sh.hashVar = H t.view := fun h => hb (hhm.mpr h)
      simp only [this, ↓reduceIte, hb]
      exact ⟨_, _, rfl, by simp, rfl, ⟨by simp, hlm, hheld, hfree⟩⟩
  | storeHash =>
    simp only [soloStep, Option.some.injEq, Prod.mk.injEq] at hs
    obtain ⟨rfl, rfl⟩ := hs
    exact ⟨_, _, rfl, rfl, rfl, ⟨by simp, hlm, hheld, hfree⟩⟩
  | assignList =>
    simp only [soloStep, Option.some.injEq, Prod.mk.injEq] at hs
    obtain ⟨rfl, rfl⟩ := hs
    exact ⟨_, _, rfl, rfl, rfl, ⟨hhm, by simp, hheld, hfree⟩⟩
  | lock =>
    simp only [soloStep] at hs
    split at hs
    · simp at hs
    · rename_i hnh
      simp only [Option.some.injEq, Prod.mk.injEq] at hs
      obtain ⟨rfl, rfl⟩ := hs
      have hfr : sh.owner = none := hfree (by simpa using hnh)
      simp only [hfr, ↓reduceIte]
      exact ⟨_, _, rfl, rfl, rfl, ⟨hhm, hlm, by simp, by simp⟩⟩
  | unlock =>
    simp only [soloStep] at hs
    split at hs
    · rename_i hh
      simp only [Option.some.injEq, Prod.mk.injEq] at hs
      obtain ⟨rfl, rfl⟩ := hs
      have ho : sh.owner = some i := hheld hh
      simp only [ho, ↓reduceIte]
      exact ⟨_, _, rfl, rfl, rfl, ⟨hhm, hlm, by simp, by simp⟩⟩
    · simp at hs

theorem solo_sim {H : Nat → Nat} {prog : Prog} {i : Nat} :
    ∀ (f : Nat) (t : Thread) (sh : Shared) (σ σ' : SoloAbs),
      SoloRel H i t.view σ sh → soloRun prog f t.pc σ = some σ' →
      SoloRel H i t.view σ' (solo H prog i f t sh).2 ∧ (solo H prog i f t sh).1.view = t.view ∧
        prog.length ≤ (solo H prog i f t sh).1.pc := by
  intro f
  induction f with
  | zero =>
    intro t sh σ σ' hrel hrun
    simp only [soloRun] at hrun
    split at hrun
    · rename_i hle
      simp only [Option.some.injEq] at hrun
      subst hrun
      exact ⟨hrel, rfl, hle⟩
    · simp at hrun
  | succ f ih =>
    intro t sh σ σ' hrel hrun
    simp only [soloRun] at hrun
    cases ha : prog[t.pc]? with
    | none =>
      simp only [ha, Option.some.injEq] at hrun
      subst hrun
      have hst : stepT H prog i t sh = none := by simp [stepT, ha]
      simp only [solo, hst]
      exact ⟨hrel, trivial, List.getElem?_eq_none_iff.mp ha⟩
    | some a =>
      simp only [ha] at hrun
      cases hs : soloStep a t.pc σ with
      | none => simp [hs] at hrun
      | some r =>
        obtain ⟨pc', σ1⟩ := r
        simp only [hs] at hrun
        obtain ⟨t1, sh1, hst, hpc, hview, hrel1⟩ := soloStep_sim (H := H) (i := i) (sh := sh) ha hrel hs
        simp only [solo, hst]
        rw [← hpc] at hrun
        rw [← hview] at hrel1
        have := ih t1 sh1 σ1 σ' hrel1 hrun
        rw [hview] at this
        exact this

/-- A run with view `v` executing alone from a consistent state (lock free, hash = hash of the list) ends with
its own list and hash published and the lock free. -/
theorem solo_of_consistent {H : Nat → Nat} (hinj : ∀ a b, H a = H b → a = b) {prog : Prog}
    (hsolo : soloConverges prog = true) (i v : Nat) (sh : Shared)
    (hfree : sh.owner = none) (hcons : sh.hashVar = H sh.listVar) :
    let r := (solo H prog i prog.length { view := v, pc := 0 } sh).2
    r.listVar = v ∧ r.hashVar = H v ∧ r.owner = none := by
  intro r
  simp only [soloConverges, List.all_cons, List.all_nil, Bool.and_true, Bool.and_eq_true] at hsolo
  have hrel : SoloRel H i v { hm := decide (sh.hashVar = H v), lm := decide (sh.hashVar = H v), held := false } sh := by
    refine ⟨by simp, ?_, by simp, fun _ => hfree⟩
    intro h
    simp only [decide_eq_true_eq] at h
    exact hinj _ _ (hcons.symm.trans h)
  have hgo : ∀ b : Bool, b = decide (sh.hashVar = H v) →
      ∃ σ', soloRun prog prog.length 0 { hm := b, lm := b, held := false } = some σ' ∧
        σ'.hm = true ∧ σ'.lm = true ∧ σ'.held = false := by
    intro b _
    have hb : (match soloRun prog prog.length 0 { hm := b, lm := b, held := false } with
        | some σ => σ.hm && σ.lm && !σ.held
        | none => false) = true := by
      cases b
      · exact hsolo.2
      · exact hsolo.1
    cases hr : soloRun prog prog.length 0 { hm := b, lm := b, held := false } with
    | none => simp [hr] at hb
    | some σ' =>
      simp only [hr, Bool.and_eq_true, Bool.not_eq_true'] at hb
      exact ⟨σ', rfl, hb.1.1, hb.1.2, hb.2⟩
  obtain ⟨σ', hrun, hhm, hlm, hheld⟩ := hgo _ rfl
  obtain ⟨⟨h1, h2, _, h4⟩, _, _⟩ :=
    solo_sim (H := H) (prog := prog) (i := i) prog.length { view := v, pc := 0 } sh _ σ' hrel hrun
  exact ⟨h2 hlm, h1.mp hhm, h4 hheld⟩

/-! ### the property -/

/-- MAIN THEOREM (any program with the lock discipline whose solo run converges; any number of overlapping runs
with any views under any schedule): whenever the lock is free, one further stabilize run with view `v` leaves
`v` published — list AND hash — and the lock free. -/
theorem repair_restores {H : Nat → Nat} (hinj : ∀ a b, H a = H b → a = b) {prog : Prog}
    (hld : lockDiscipline prog = true) (hsolo : soloConverges prog = true)
    (v0 : Nat) (views : List Nat) (sched : List Nat) (v : Nat) :
    let s := run H prog (init H v0 views) sched
    s.sh.owner = none →
    let r := (repair H prog s v).2
    r.listVar = v ∧ r.hashVar = H v ∧ r.owner = none := by
  intro s hfree
  exact solo_of_consistent hinj hsolo _ v s.sh hfree (hash_names_list_when_unlocked hld v0 views sched hfree)

/-- … in particular after all overlapping runs have finished -/
theorem converges_after_overlap {H : Nat → Nat} (hinj : ∀ a b, H a = H b → a = b) {prog : Prog}
    (hld : lockDiscipline prog = true) (hsolo : soloConverges prog = true)
    (v0 : Nat) (views : List Nat) (sched : List Nat) (v : Nat) :
    let s := run H prog (init H v0 views) sched
    allDone prog s = true → ((repair H prog s v).2).listVar = v := by
  intro s hdone
  exact (repair_restores hinj hld hsolo v0 views sched v (allDone_lock_free hld v0 views sched hdone)).1

/-- further rounds with the same view (the quiet period) keep it published -/
def rounds (H : Nat → Nat) (prog : Prog) (i v : Nat) : Nat → Shared → Shared
  | 0, sh => sh
  | n + 1, sh => rounds H prog i v n (solo H prog i prog.length { view := v, pc := 0 } sh).2

theorem stays_converged {H : Nat → Nat} (hinj : ∀ a b, H a = H b → a = b) {prog : Prog}
    (hsolo : soloConverges prog = true) (i v : Nat) :
    ∀ (n : Nat) (sh : Shared), sh.owner = none → sh.hashVar = H sh.listVar →
      (rounds H prog i v (n + 1) sh).listVar = v := by
  intro n
  induction n with
  | zero =>
    intro sh hf hc
    exact (solo_of_consistent hinj hsolo i v sh hf hc).1
  | succ n ih =>
    intro sh hf hc
    obtain ⟨h1, h2, h3⟩ := solo_of_consistent hinj hsolo i v sh hf hc
    have := ih (solo H prog i prog.length { view := v, pc := 0 } sh).2 h3 (by rw [h2, h1])
    exact this

/-! ### instance: the program generated from the current source -/

theorem updateProg_lockDiscipline : lockDiscipline Gen.C02.updateProg = true := by decide

theorem updateProg_soloConverges : soloConverges Gen.C02.updateProg = true := by decide

/-- The stabilize of the current source: after ANY overlap of ANY number of runs with ANY views, once they have
finished, one further run with the newest view `v` publishes `v`; the lock is free and the hash names `v`. -/
theorem stabilize_publication_converges {H : Nat → Nat} (hinj : ∀ a b, H a = H b → a = b)
    (v0 : Nat) (views : List Nat) (sched : List Nat) (v : Nat) :
    let s := run H Gen.C02.updateProg (init H v0 views) sched
    allDone Gen.C02.updateProg s = true →
    let r := (repair H Gen.C02.updateProg s v).2
    r.listVar = v ∧ r.hashVar = H v ∧ r.owner = none := by
  intro s hdone
  exact repair_restores hinj updateProg_lockDiscipline updateProg_soloConverges v0 views sched v
    (allDone_lock_free updateProg_lockDiscipline v0 views sched hdone)

theorem lineHash_injective : ∀ a b, lineHash a = lineHash b → a = b := by
  intro a b h; simp only [lineHash] at h; omega

/-- the shape of the current source, fixed here so that the examples do not depend on the generated text -/
def publishUnderLock : Prog := [.loadHashCmp 4, .lock, .storeHash, .assignList, .unlock]

/-- non-vacuity: the hypotheses of the general theorems hold for that shape, and two overlapping runs (older view 1,
newer view 2) in the order "the newer one publishes first, the older one last" do finish and leave the OLDER list
published with ITS hash — the repair round then has work to do and does it. -/
example :
    lockDiscipline publishUnderLock = true ∧ soloConverges publishUnderLock = true ∧
    (let s := run lineHash publishUnderLock (init lineHash 0 [1, 2]) [0, 1, 1, 1, 1, 1, 0, 0, 0, 0]
     allDone publishUnderLock s = true ∧ s.sh = { hashVar := 101, listVar := 1, owner := none } ∧
      (repair lineHash publishUnderLock s 2).2 = { hashVar := 102, listVar := 2, owner := none }) := by
  decide

/-- non-vacuity of the discipline predicate: a double-checked variant is accepted as well -/
example : lockDiscipline [.loadHashCmp 5, .lock, .loadHashCmp 2, .storeHash, .assignList, .unlock] = true ∧
    soloConverges [.loadHashCmp 5, .lock, .loadHashCmp 2, .storeHash, .assignList, .unlock] = true := by
  decide

/-! ### negative witness: hash published before the lock is taken -/

/-- `if succListHash.Swap(listHash) != listHash { Lock; successors = succList; Unlock }` -/
def swapBeforeLock : Prog := [.swapHashCmp 3, .lock, .assignList, .unlock]

/-- executed alone it is fine, but it does not obey the discipline, and two overlapping runs — the older view swaps,
the newer view swaps and publishes, the older view publishes last — end with hash = hash of the NEWER list and
list = the OLDER one; the repair round with the newest view finds "its" hash, changes nothing, and so does every
later round: the node is frozen on the older list. -/
theorem swap_before_lock_freezes :
    soloConverges swapBeforeLock = true ∧ lockDiscipline swapBeforeLock = false ∧
    (let s := run lineHash swapBeforeLock (init lineHash 0 [1, 2]) [0, 1, 1, 1, 1, 0, 0, 0]
     allDone swapBeforeLock s = true ∧ s.sh = { hashVar := 102, listVar := 1, owner := none } ∧
     ∀ n, rounds lineHash swapBeforeLock 2 2 n s.sh = s.sh) := by
  refine ⟨by decide, by decide, by decide, by decide, ?_⟩
  intro n
  induction n with
  | zero => rfl
  | succ n ih =>
    have h1 : (solo lineHash swapBeforeLock 2 swapBeforeLock.length { view := 2, pc := 0 }
        (run lineHash swapBeforeLock (init lineHash 0 [1, 2]) [0, 1, 1, 1, 1, 0, 0, 0]).sh).2 =
        (run lineHash swapBeforeLock (init lineHash 0 [1, 2]) [0, 1, 1, 1, 1, 0, 0, 0]).sh := by decide
    simp only [rounds]
    rw [h1]
    exact ih

end Specter.C02.Upd
