/-!
# C33 — model of `spec/acme.Normalize` and the challenge record names

Core Lean only.  Strings are lists of Unicode code points (`[]rune(s)`).
Library calls are parameters: `isIP` (`net.ParseIP(·) != nil`), `qualifies` (`certmagic.SubjectQualifiesForPublicCert`),
`toASCII` (`idna.ToASCII`, `none` = error), `sha224`, `dns.IsFqdn` (as Booleans of the record functions).
-/
namespace Specter.C33

abbrev Runes := List Nat
abbrev Bytes := List Nat

/-- `unicode.IsSpace`: Latin-1 space characters and the Unicode White_Space property -/
def isSpace (c : Nat) : Bool :=
  c == 9 || c == 10 || c == 11 || c == 12 || c == 13 || c == 32 || c == 0x85 || c == 0xA0 ||
  c == 0x1680 || (0x2000 ≤ c && c ≤ 0x200a) || c == 0x2028 || c == 0x2029 || c == 0x202f || c == 0x205f || c == 0x3000

/-- `removeSpace` -/
def removeSpace (z : Runes) : Runes := z.filter (fun c => !isSpace c)

/-- complement of the character class of `nonDnsRegex = [^a-z0-9-.]+` -/
def isLDH (c : Nat) : Bool := (97 ≤ c && c ≤ 122) || (48 ≤ c && c ≤ 57) || c == 45 || c == 46

def star : Nat := 42

def dot : Nat := 46

/-- `strings.Contains(s, "..")` -/
def dotdot : Runes → Bool
  | a :: b :: rest => (a == dot && b == dot) || dotdot (b :: rest)
  | _ => false

/-- `strings.HasPrefix(uni, ".") || strings.HasSuffix(uni, ".") || strings.Contains(uni, "..")` -/
def emptyLabel (u : Runes) : Bool := u.head? == some dot || u.getLast? == some dot || dotdot u

inductive NErr | ip | qualify | wildcard | idna | emptyLabel | chars
  deriving DecidableEq, Repr

/-- `Normalize` (order of checks as in the Go code) -/
def normalize (isIP qualifies : Runes → Bool) (toASCII : Runes → Option Runes) (zone : Runes) : Except NErr Runes :=
  let trimmed := removeSpace zone
  if isIP trimmed then .error .ip else
  if !qualifies trimmed then .error .qualify else
  if star ∈ trimmed then .error .wildcard else
  match toASCII trimmed with
  | none => .error .idna
  | some uni =>
    if emptyLabel uni then .error .emptyLabel else
    if uni.all isLDH then .ok uni else .error .chars

/-! ## records -/

def hexDigit (n : Nat) : Nat := if n < 10 then 48 + n else 87 + n      -- '0'..'9', 'a'..'f'

/-- `hex.EncodeToString` -/
def hexEncode : Bytes → Runes
  | [] => []
  | b :: bs => hexDigit (b / 16) :: hexDigit (b % 16) :: hexEncode bs

def acmePrefix : Runes := [95, 97, 99, 109, 101, 45, 99, 104, 97, 108, 108, 101, 110, 103, 101, 46]   -- "_acme-challenge."
def managed : Runes := [109, 97, 110, 97, 103, 101, 100]   -- "managed"

/-- `generateRecord`; `zfq`/`dfq` = `dns.IsFqdn(zone)` / `dns.IsFqdn(delegation)` -/
def generateRecord (zone delegation subdomain : Runes) (zfq dfq : Bool) : Runes × Runes :=
  (acmePrefix ++ zone ++ (if zfq then [] else [dot]),
   subdomain ++ dot :: delegation ++ (if dfq then [] else [dot]))

/-- `EncodeClientToken` -/
def encodeClientToken (sha224 : Bytes → Bytes) (token : Bytes) : Runes := hexEncode (sha224 token)

/-- `GenerateCustomRecord` -/
def customRecord (sha224 : Bytes → Bytes) (zone delegation : Runes) (token : Bytes) (zfq dfq : Bool) : Runes × Runes :=
  generateRecord zone delegation (encodeClientToken sha224 token) zfq dfq

def managedRecord (zone delegation : Runes) (zfq dfq : Bool) : Runes × Runes :=
  generateRecord zone delegation managed zfq dfq

end Specter.C33
