import SpecterModel.Util
import SpecterModel.C29.Model
/-! C29 line-protocol driver: model output (DIFF) + spec oracle from the property statement (SPEC). -/
namespace Specter.C29
open Specter.Util

structure DState where
  cfg : Cfg
  st : State
  keys : List String := []     -- every KV key (normalised hostname) a validation has touched in this case
  /-- what the implementation itself reported last as the binding stored under each key ("id:tok" / "-").
  The spec oracle judges against this observed history, not against the model's state, so that it stays
  meaningful after the model and the code have parted (a DIFF on an earlier line). -/
  obs : List (String × String) := []

def parseClient (s : String) : Option Client :=
  match s.splitOn ":" with
  | [i, t] => i.toNat?.map (⟨·, t⟩)
  | _ => none

def clientStr (c : Client) : String := s!"{c.id}:{c.token}"
def boundStr (b : Option Client) : String := (b.map clientStr).getD "-"

def asciiHex (s : String) : String := bytesToHex (s.toList.map Char.toNat)

def codeStr : Code → String
  | .invHost => "inv:hostname" | .invPow => "inv:pow" | .failedPre => "failed_precondition"
  | .internal => "internal" | .denied => "permission_denied" | .kvErr => "err"

def resStr : Res → String
  | .ok => "ok" | .refused c => codeStr c

/-- spec: the zone itself or a subdomain of it -/
def zoneOrSub (h z : String) : Bool := h == z || h.endsWith ("." ++ z)

/-- spec: hostnames that must always be refused. A hostname is a DNS name, so the comparison with the
zones is ASCII-case-insensitive (`fold`): `x.HELLO.com` lies under the apex `hello.com`. -/
def restricted (cfg : Cfg) (h : String) : Bool :=
  let n := fold h
  zoneOrSub n (fold cfg.apex) || zoneOrSub n (fold cfg.acme) || decide ((n.toList.filter (· == '.')).length < 2)

/-- spec + model: the clients that own the DNS name of `h` (any spelling of it among `keys`) in `st` -/
def nameOwners (st : State) (keys : List String) (h : String) : List Client :=
  ((keys.filter (sameName · h)).filterMap st.bound).eraseDups

def ownersStr (l : List Client) : String :=
  if l.isEmpty then "-" else ",".intercalate ((l.map clientStr).mergeSort (fun a b => decide (a ≤ b)))

def obsGet (obs : List (String × String)) (h : String) : String :=
  ((obs.find? (·.1 == h)).map (·.2)).getD "-"

def obsSet (obs : List (String × String)) (h v : String) : List (String × String) :=
  (h, v) :: obs.filter (·.1 != h)

/-- spec: owners the implementation reported for any spelling of the DNS name of `h` -/
def obsOwners (obs : List (String × String)) (h : String) : List String :=
  ((obs.filter (fun kv => sameName kv.1 h && kv.2 != "-")).map (·.2)).eraseDups

def addKey (keys : List String) (h : Option String) : List String :=
  match h with
  | some h => if keys.contains h then keys else h :: keys
  | none => keys

def parseNorm (s : String) : Option (Option String) :=
  if s = "!" then some none else (hexToAscii s).map some

def parseReq (cl norm pow cname target flags : String) : Option Req :=
  match parseClient cl, parseNorm norm, hexToAscii target with
  | some c, some n, some t =>
    let cn : Option (Option String) :=
      match cname.splitOn ":" with
      | a :: _ => if a = "!" then some none else (hexToAscii a).map some
      | _ => none
    match cn with
    | some cn => some ⟨c, n, pow.startsWith "1", cn, t, flags.startsWith "1", flags.endsWith "1" ∧ flags.length = 2⟩
    | none => none
  | _, _, _ => none

def dstep (d : DState) (toks : List String) (rhs : String) : DState × Verdict :=
  match toks with
  | ["reset"] => (⟨d.cfg, State.init, [], []⟩, .ok)
  | ["reset", apex, acme] =>
    match hexToAscii apex, hexToAscii acme with
    | some a, some z => (⟨⟨a, z⟩, State.init, [], []⟩, .ok)
    | _, _ => (d, .bad "reset args")
  | ["validate", cl, _raw, norm, pow, cname, target, flags] =>
    match parseReq cl norm pow cname target flags, rhs.splitOn " " with
    | some r, [res, asked, kvr, bound, dns] =>
      let (st', o) := validate d.cfg d.st r
      let keys := addKey d.keys r.norm
      -- model output
      let mb := boundStr (r.norm.bind st'.bound)
      let mdns := ownersStr ((r.norm.map (nameOwners st' keys)).getD [])
      let m := s!"{resStr o.res} {(o.asked.map asciiHex).getD "-"} {o.kvReads} {mb} {mdns}"
      -- spec oracle: binding of this key / owners of this DNS name (all spellings) before the request, as observed
      let pre : String := (r.norm.map (obsGet d.obs)).getD "-"
      let preOwners := (r.norm.map (obsOwners d.obs)).getD []
      let callerS := clientStr r.caller
      let obs' := match r.norm with | some h => obsSet d.obs h bound | none => d.obs
      let d' : DState := ⟨d.cfg, st', keys, obs'⟩
      let bad : Option String :=
        if res = "ok" ∧ r.norm.isNone then some "accepted a hostname that does not normalise"
        else if res = "ok" ∧ !r.powOk then some "accepted without a valid proof of work"
        else if res = "ok" ∧ (r.norm.map (restricted d.cfg)).getD false then some "accepted an apex / acme-zone / bare domain"
        else if res = "ok" ∧ pre ≠ callerS ∧ r.cname ≠ some r.target then
          some "bound without the challenge CNAME pointing at the caller's target"
        else if pre ≠ "-" ∧ pre ≠ callerS ∧ (res = "ok" ∨ bound ≠ pre) then
          some "hostname bound to one client was validated / rebound by another"
        else if res = "ok" ∧ preOwners.any (· ≠ callerS) then
          some "hostname (DNS name, another spelling) bound to one client was validated by another"
        else if bound ≠ pre ∧ (res ≠ "ok" ∨ bound ≠ callerS) then some "binding changed without a successful validation by the new owner"
        else if res = "ok" ∧ bound ≠ callerS then some "validated but not bound to the caller"
        else if (dns.splitOn ",").length > 1 then some "one hostname (DNS name) is bound to more than one client"
        else none
      match bad with
      | some why => (d', .spec why)
      | none =>
        if m ≠ s!"{res} {asked} {kvr} {bound} {dns}" then (d', .diff m)
        else if (r.norm.map (fun h => !canonical h)).getD false then
          (d', .diff "Normalize returned a non-canonical spelling (fold h ≠ h): hypothesis OpCanonical of the *_any_spelling theorems fails")
        else (d', .ok)
    | _, _ => (d, .bad "validate args")
  | ["instr", cl, _raw, norm, pow, target, gf] =>
    match parseReq cl norm pow "!" target (gf ++ "0"), rhs.splitOn " " with
    | some r, [res, name, content] =>
      let (mr, mo) := instruction d.cfg d.st r
      let m := s!"{resStr mr} {(mo.map (asciiHex ·.1)).getD "-"} {(mo.map (asciiHex ·.2)).getD "-"}"
      if res = "ok" ∧ (r.norm.isNone ∨ !r.powOk ∨ (r.norm.map (restricted d.cfg)).getD false) then
        (d, .spec "instructions handed out for a refused hostname / without proof of work")
      else if res = "ok" ∧ content ≠ asciiHex r.target then (d, .spec "instruction target is not the caller's token target")
      else if m ≠ s!"{res} {name} {content}" then (d, .diff m)
      else if (r.norm.map (fun h => !canonical h)).getD false then
        (d, .diff "Normalize returned a non-canonical spelling (fold h ≠ h): hypothesis OpCanonical of the *_any_spelling theorems fails")
      else (d, .ok)
    | _, _ => (d, .bad "instr args")
  | ["release", cl, host] =>
    match parseClient cl, hexToAscii host, rhs.splitOn " " with
    | some c, some h, [res, bound] =>
      let (st', mr) := release d.st c h
      let m := s!"{resStr mr} {boundStr (st'.bound h)}"
      let pre := obsGet d.obs h
      let d' : DState := ⟨d.cfg, st', d.keys, obsSet d.obs h bound⟩
      let stranger : Bool := match parseClient pre with | some o => decide (o.token ≠ c.token ∧ bound ≠ pre) | none => false
      if stranger then (d', .spec "binding removed by a client that does not hold the owner's token")
      else if bound ≠ "-" ∧ bound ≠ pre then (d', .spec "release created / changed a binding")
      else if m ≠ s!"{res} {bound}" then (d', .diff m) else (d', .ok)
    | _, _, _ => (d, .bad "release args")
  | _ => (d, .bad "unknown op")

def main : IO Unit := runLoop ⟨⟨"", ""⟩, State.init, [], []⟩ dstep

end Specter.C29
