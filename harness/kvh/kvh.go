// Package kvh: shared plumbing of the KV back-end harnesses (C16, C17, C19).
//
// One Env = one independent case: fresh real stores (kv/memory, kv/aof, kv/sqlite3) created lazily by
// name ("mem", "aof", "sql", and "mem2"… for second instances), all with the SAME degenerate hash
// function (a table declared per case, default 0 — forces collisions and boundary hashes).
// Exec interprets one lhs token line on the real store and emits `lhs => canonical result`; generators
// and replay both go through Exec, so a recorded case replays by feeding its lhs lines back.
//
// Token formats (no spaces): keys/children/values hex ("-" = empty, "nil" = Go nil value);
// entry = value/children/leaseABS[/leaseREF]; child lists comma separated, "[]" = none.
// Lease token references (resolved per store at execution time, so that the same line means the same
// thing on every back-end and in a replay): abs:N | last:D (last token granted/planted for this key
// on this store, plus D) | old:J:D (J-th most recent, plus D) | rel:D (now + D ns; import plants).
package kvh

import (
	"context"
	"errors"
	"fmt"
	"os"
	"path/filepath"
	"sort"
	"strconv"
	"strings"
	"time"

	"go.miragespace.co/specter/kv/aof"
	"go.miragespace.co/specter/kv/memory"
	"go.miragespace.co/specter/kv/sqlite3"
	"go.miragespace.co/specter/spec/chord"
	"go.miragespace.co/specter/spec/protocol"
	"go.uber.org/zap"

	"verif/harness/hlib"
)

const M = uint64(1) << 48

var Backends = []string{"mem", "aof", "sql"}

type store struct {
	kv     chord.KVProvider
	close  func()
	grants map[string][]uint64 // key -> tokens granted / planted, oldest first
}

type Env struct {
	R      *hlib.Run
	hashes map[string]uint64
	stores map[string]*store
	dir    string
	ncase  int
}

var sqlInit bool

func NewEnv(r *hlib.Run) *Env {
	base := os.Getenv("VERIF_SCRATCH")
	if base == "" {
		base = os.TempDir()
	}
	dir, err := os.MkdirTemp(base, "kvh")
	if err != nil {
		panic(err)
	}
	if !sqlInit {
		cache := os.Getenv("WAZERO_CACHE")
		if cache == "" {
			cache = filepath.Join(base, "wazero")
		}
		os.MkdirAll(cache, 0o755)
		if err := sqlite3.Initialize(cache); err != nil {
			panic(err)
		}
		sqlInit = true
	}
	return &Env{R: r, dir: dir, hashes: map[string]uint64{}, stores: map[string]*store{}}
}

func (e *Env) Hash(key []byte) uint64 { return e.hashes[string(key)] }

// Reset starts a new case: closes all stores, forgets the hash table, emits `reset`.
func (e *Env) Reset() {
	for _, s := range e.stores {
		s.close()
	}
	e.stores = map[string]*store{}
	e.hashes = map[string]uint64{}
	os.RemoveAll(filepath.Join(e.dir, strconv.Itoa(e.ncase)))
	e.ncase++
	e.R.Raw("reset")
}

func (e *Env) Close() {
	for _, s := range e.stores {
		s.close()
	}
	os.RemoveAll(e.dir)
}

func (e *Env) open(name string) *store {
	if s, ok := e.stores[name]; ok {
		return s
	}
	dir := filepath.Join(e.dir, strconv.Itoa(e.ncase), name)
	os.MkdirAll(dir, 0o755)
	s := &store{grants: map[string][]uint64{}}
	switch {
	case strings.HasPrefix(name, "mem"):
		s.kv = memory.WithHashFn(e.Hash)
		s.close = func() {}
	case strings.HasPrefix(name, "aof"):
		kv, err := aof.New(aof.Config{Logger: zap.NewNop(), HasnFn: e.Hash, DataDir: dir, FlushInterval: time.Second})
		if err != nil {
			panic(err)
		}
		go kv.Start()
		s.kv = kv
		s.close = kv.Stop
	case strings.HasPrefix(name, "sql"):
		kv, err := sqlite3.New(sqlite3.Config{Logger: zap.NewNop(), HashFn: e.Hash, DataDir: dir})
		if err != nil {
			panic(err)
		}
		s.kv = kv
		s.close = kv.Close
	default:
		panic("unknown store " + name)
	}
	e.stores[name] = s
	return s
}

// ---- encoding ----

func Val(b []byte) string {
	if b == nil {
		return "nil"
	}
	return hlib.Hex(b)
}

func unVal(s string) []byte {
	if s == "nil" {
		return nil
	}
	if s == "-" {
		return []byte{}
	}
	return hlib.UnHex(s)
}

func unKey(s string) []byte {
	if s == "-" {
		return []byte{}
	}
	return hlib.UnHex(s)
}

func List(bs [][]byte) string {
	if len(bs) == 0 {
		return "[]"
	}
	xs := make([]string, len(bs))
	for i, b := range bs {
		xs[i] = hlib.Hex(b)
	}
	sort.Strings(xs)
	return strings.Join(xs, ",")
}

func unList(s string) [][]byte {
	if s == "[]" {
		return [][]byte{}
	}
	var res [][]byte
	for _, x := range strings.Split(s, ",") {
		res = append(res, unKey(x))
	}
	return res
}

func Entry(t *protocol.KVTransfer) string {
	return Val(t.GetSimpleValue()) + "/" + List(t.GetPrefixChildren()) + "/" + strconv.FormatUint(t.GetLeaseToken(), 10)
}

func errTok(err error) string {
	switch {
	case err == nil:
		return "ok"
	case errors.Is(err, chord.ErrKVPrefixConflict), errors.Is(err, chord.ErrKVLeaseConflict):
		return "conflict"
	case errors.Is(err, chord.ErrKVLeaseExpired):
		return "expired"
	case errors.Is(err, chord.ErrKVLeaseInvalidTTL):
		return "invalidttl"
	case errors.Is(err, chord.ErrKVSimpleConflict):
		return "err:simpleconflict"
	}
	return "err:" + strings.ReplaceAll(fmt.Sprintf("%T", err), " ", "")
}

func u(x uint64) string { return strconv.FormatUint(x, 10) }

// resolve a lease token reference for (store, key)
func (s *store) resolve(key, ref string, now uint64) uint64 {
	g := s.grants[key]
	p := strings.Split(ref, ":")
	num := func(x string) int64 { v, _ := strconv.ParseInt(x, 10, 64); return v }
	switch p[0] {
	case "abs":
		v, _ := strconv.ParseUint(p[1], 10, 64)
		return v
	case "last":
		if len(g) == 0 {
			return uint64(num(p[1]))
		}
		return g[len(g)-1] + uint64(num(p[1]))
	case "old":
		j := int(num(p[1]))
		if j >= len(g) {
			return uint64(num(p[2]))
		}
		return g[len(g)-1-j] + uint64(num(p[2]))
	case "rel":
		return now + uint64(num(p[1]))
	}
	panic("bad token ref " + ref)
}

// Exec runs one lhs line on the real store(s) and emits it with the result. Returns the rhs.
func (e *Env) Exec(t []string) (rhs string) {
	ctx := context.Background()
	if t[0] == "hash" {
		v, _ := strconv.ParseUint(t[2], 10, 64)
		e.hashes[string(unKey(t[1]))] = v
		e.R.Emit("hash "+t[1]+" "+t[2], "ok")
		return "ok"
	}
	if t[0] == "sleep" {
		ms, _ := strconv.Atoi(t[1])
		time.Sleep(time.Duration(ms) * time.Millisecond)
		e.R.Emit("sleep "+t[1], "ok")
		return "ok"
	}
	st := e.open(t[1])
	kv := st.kv
	lhs := strings.Join(t, " ")
	defer func() {
		if p := recover(); p != nil {
			rhs = "panic"
		}
		e.R.Emit(lhs, rhs)
		e.R.Count("op:" + t[0])
		if rhs == "conflict" || rhs == "expired" || rhs == "invalidttl" || strings.HasPrefix(rhs, "err:") || rhs == "panic" {
			e.R.Count("result:" + t[0] + ":" + rhs)
		}
	}()
	switch t[0] {
	case "put":
		return errTok(kv.Put(ctx, unKey(t[2]), unVal(t[3])))
	case "get":
		v, err := kv.Get(ctx, unKey(t[2]))
		if err != nil {
			return errTok(err)
		}
		return Val(v)
	case "del":
		return errTok(kv.Delete(ctx, unKey(t[2])))
	case "pappend":
		return errTok(kv.PrefixAppend(ctx, unKey(t[2]), unKey(t[3])))
	case "premove":
		return errTok(kv.PrefixRemove(ctx, unKey(t[2]), unKey(t[3])))
	case "pcontains":
		b, err := kv.PrefixContains(ctx, unKey(t[2]), unKey(t[3]))
		if err != nil {
			return errTok(err)
		}
		return hlib.B(b)
	case "plist":
		cs, err := kv.PrefixList(ctx, unKey(t[2]))
		if err != nil {
			return errTok(err)
		}
		return List(cs)
	case "listkeys":
		ks, err := kv.ListKeys(ctx, unKey(t[2]))
		if err != nil {
			return errTok(err)
		}
		var xs []string
		for _, k := range ks {
			switch k.GetType() {
			case protocol.KeyComposite_SIMPLE:
				// annotate with what Get returns for the listed key (length only)
				v, _ := kv.Get(ctx, k.GetKey())
				xs = append(xs, "S:"+hlib.Hex(k.GetKey())+":"+strconv.Itoa(len(v)))
			case protocol.KeyComposite_PREFIX:
				xs = append(xs, "P:"+hlib.Hex(k.GetKey()))
			case protocol.KeyComposite_LEASE:
				xs = append(xs, "L:"+hlib.Hex(k.GetKey()))
			default:
				xs = append(xs, "X:"+hlib.Hex(k.GetKey()))
			}
		}
		if len(xs) == 0 {
			return "[]"
		}
		sort.Strings(xs)
		return strings.Join(xs, ",")
	case "acquire":
		ttl, _ := strconv.ParseInt(t[3], 10, 64)
		t0 := uint64(time.Now().UnixNano())
		tok, err := kv.Acquire(ctx, unKey(t[2]), time.Duration(ttl))
		t1 := uint64(time.Now().UnixNano())
		lhs = strings.Join(t[:4], " ") + " " + u(t0) + " " + u(t1)
		if err != nil {
			return errTok(err)
		}
		st.grants[t[2]] = append(st.grants[t[2]], tok)
		return "tok:" + u(tok)
	case "renew":
		ttl, _ := strconv.ParseInt(t[3], 10, 64)
		t0 := uint64(time.Now().UnixNano())
		prev := st.resolve(t[2], t[4], t0)
		tok, err := kv.Renew(ctx, unKey(t[2]), time.Duration(ttl), prev)
		t1 := uint64(time.Now().UnixNano())
		lhs = strings.Join(t[:5], " ") + " " + u(prev) + " " + u(t0) + " " + u(t1)
		if err != nil {
			return errTok(err)
		}
		st.grants[t[2]] = append(st.grants[t[2]], tok)
		return "tok:" + u(tok)
	case "release":
		tok := st.resolve(t[2], t[3], uint64(time.Now().UnixNano()))
		lhs = strings.Join(t[:4], " ") + " " + u(tok)
		return errTok(kv.Release(ctx, unKey(t[2]), tok))
	case "import":
		var keys [][]byte
		var vals []*protocol.KVTransfer
		now := uint64(time.Now().UnixNano())
		out := []string{"import", t[1]}
		for _, kvs := range t[2:] {
			i := strings.Index(kvs, "=")
			k, f := kvs[:i], strings.Split(kvs[i+1:], "/")
			lease, _ := strconv.ParseUint(f[2], 10, 64)
			ref := "abs:" + f[2]
			if len(f) > 3 && !strings.HasPrefix(f[3], "abs") {
				ref = f[3]
				lease = st.resolve(k, ref, now)
			}
			keys = append(keys, unKey(k))
			tr := &protocol.KVTransfer{SimpleValue: unVal(f[0]), LeaseToken: lease}
			if f[1] != "[]" {
				tr.PrefixChildren = unList(f[1])
			}
			vals = append(vals, tr)
			if lease != 0 {
				st.grants[k] = append(st.grants[k], lease)
			}
			out = append(out, k+"="+f[0]+"/"+f[1]+"/"+u(lease)+"/"+ref)
		}
		lhs = strings.Join(out, " ")
		return errTok(kv.Import(ctx, keys, vals))
	case "export":
		vals, err := kv.Export(ctx, unList(t[2]))
		if err != nil {
			return errTok(err)
		}
		if len(vals) == 0 {
			return "[]"
		}
		xs := make([]string, len(vals))
		for i, v := range vals {
			xs[i] = Entry(v)
		}
		return strings.Join(xs, ";")
	case "range":
		lo, _ := strconv.ParseUint(t[2], 10, 64)
		hi, _ := strconv.ParseUint(t[3], 10, 64)
		ks, err := kv.RangeKeys(ctx, lo, hi)
		if err != nil {
			return errTok(err)
		}
		return List(ks)
	case "remove":
		return errTok(kv.RemoveKeys(ctx, unList(t[2])))
	}
	panic("unknown op " + t[0])
}

// All runs the same line on every back-end (store names = Backends + suffix).
func (e *Env) All(suffix string, op string, args ...string) []string {
	res := make([]string, len(Backends))
	for i, b := range Backends {
		res[i] = e.Exec(append([]string{op, b + suffix}, args...))
	}
	return res
}

// Replay feeds recorded lhs lines back through Exec.
func (e *Env) Replay(lines [][]string) {
	for _, t := range lines {
		if len(t) == 0 {
			continue
		}
		if t[0] == "reset" {
			e.Reset()
			continue
		}
		e.Exec(t)
	}
}
