import SpecterModel.C19.Drv

def main : IO Unit := Specter.C19.main
