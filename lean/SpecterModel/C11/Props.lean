import SpecterModel.C11.Gen
import SpecterModel.C11.Spec
/-!
# C11 — Identifier arithmetic implements the 2^48 ring exactly

Property theorems over the *generated* translation of `spec/chord/chord.go`
(`Gen.C11`, regenerated from /repo on every run; when the regenerated text differs from the
committed one, this file is re-checked against the new text).

Spec: clockwise distance on the ring `dist a b = (b + M - a) % M`, `M = 2^48`.
`inOpen l t h`  : t lies strictly inside the arc that starts after l and ends before h;
                  when l = h the arc is the full circle minus l.
-/
namespace Specter.C11
open Gen.C11

theorem maxId_toNat : MaxIdentitifer.toNat = 2^48 := by decide

/-- Nat-level view of the generated `Between`. -/
def natBetween (low target high : Nat) (incl : Bool) : Bool :=
  if high > low then (decide (low < target) && decide (target < high)) || (incl && target == high)
  else decide (low < target) || decide (target < high) || (incl && target == high)

theorem beq_toNat (t h : BitVec 64) : (t == h) = (t.toNat == h.toNat) := by
  rw [Bool.eq_iff_iff]; simp [BitVec.toNat_inj]

/-- Bridge: the generated BitVec definition is the Nat definition on `toNat`. -/
theorem between_nat (l t h : BitVec 64) (i : Bool) :
    Between l t h i = natBetween l.toNat t.toNat h.toNat i := by
  unfold Between natBetween
  simp only [BitVec.lt_def, gt_iff_lt, beq_toNat]
  rw [Bool.eq_iff_iff]   -- semantic, so that harmless re-orderings of the Go expression still re-check
  cases i <;> by_cases c : l.toNat < h.toNat <;> simp [c] <;> omega

theorem natBetween_open_iff (l t h : Nat) (hl : l < M) (ht : t < M) (hh : h < M) :
    natBetween l t h false = true ↔ inOpen l t h := by
  unfold natBetween inOpen dist; simp only [M] at *
  by_cases c : h > l
  · simp [c]; omega
  · simp [c]; omega

theorem natBetween_closed_iff (l t h : Nat) (hl : l < M) (ht : t < M) (hh : h < M) :
    natBetween l t h true = true ↔ inClosed l t h := by
  unfold natBetween inClosed inOpen dist; simp only [M] at *
  by_cases c : h > l
  · simp [c]; omega
  · simp [c]; omega

/-- C11 (open interval): for all ring identifiers, `Between … false` is exactly membership in the
open circular interval, including wrap-around and the full-circle case `low = high`. -/
theorem between_open_spec (l t h : BitVec 64) (hl : l.toNat < M) (ht : t.toNat < M) (hh : h.toNat < M) :
    Between l t h false = true ↔ inOpen l.toNat t.toNat h.toNat := by
  rw [between_nat]; exact natBetween_open_iff _ _ _ hl ht hh

/-- C11 (right-closed interval). -/
theorem between_closed_spec (l t h : BitVec 64) (hl : l.toNat < M) (ht : t.toNat < M) (hh : h.toNat < M) :
    Between l t h true = true ↔ inClosed l.toNat t.toNat h.toNat := by
  rw [between_nat]; exact natBetween_closed_iff _ _ _ hl ht hh

/-- full circle, open: everything except `l` itself (no range hypothesis needed) -/
theorem between_full_circle_open (l t : BitVec 64) : Between l t l false = true ↔ t ≠ l := by
  rw [between_nat]; unfold natBetween
  have : t ≠ l ↔ t.toNat ≠ l.toNat := by simp [BitVec.toNat_inj]
  rw [this]; simp; omega

/-- full circle, right-closed: everything -/
theorem between_full_circle_closed (l t : BitVec 64) : Between l t l true = true := by
  rw [between_nat]; unfold natBetween; simp; omega

/-- `ModuloSum` never overflows and equals `(x+y) mod 2^48` for ALL uint64 x, y. -/
theorem moduloSum_exact (x y : BitVec 64) :
    (ModuloSum x y).toNat = (x.toNat + y.toNat) % 2^48 := by
  unfold ModuloSum
  simp only [BitVec.toNat_umod, BitVec.toNat_add, maxId_toNat]
  have hx := x.isLt; have hy := y.isLt
  omega

theorem moduloSum_lt (x y : BitVec 64) : (ModuloSum x y).toNat < M := by
  rw [moduloSum_exact]; unfold M; omega

/-- Whatever 64-bit digest xxh3 returns, `Hash` lands in the identifier space and is the digest mod 2^48. -/
theorem hash_in_space (digest : BitVec 64) :
    (Hash digest).toNat < M ∧ (Hash digest).toNat = digest.toNat % 2^48 := by
  have h : (Hash digest).toNat = digest.toNat % 2^48 := by
    unfold Hash; rw [BitVec.toNat_umod, maxId_toNat]
  refine ⟨?_, h⟩
  rw [h]; exact Nat.mod_lt _ (by decide)

/-- non-vacuity: concrete wrap-around instances satisfy the hypotheses and both directions. -/
example : Between (2^48-1 : Nat) 0 5 false = true ∧ inOpen (2^48-1) 0 5 := by decide
example : Between 5#64 5#64 5#64 false = false ∧ ¬ inOpen 5 5 5 := by decide
example : (ModuloSum (BitVec.ofNat 64 (2^64-1)) (BitVec.ofNat 64 (2^64-1))).toNat = (2^64-1 + (2^64-1)) % 2^48 := by decide

end Specter.C11
