import SpecterModel.C36.Model
/-!
# C36 — The gateway reports tunnel failures with the right status

HTTP: theorems about `classify` (the generated `errorHandler` chain) for EVERY error value = any stack of
`fmt.Errorf %w` / `net.OpError` / `url.Error` wrappers around any innermost error. Streams: theorems about the status
frames of `forwardTCP` and the HTTP statuses of `httpConnect` for every combination of stage outcomes.

`IsTimeout` was repaired in /repo (errors.As instead of a type assertion): `http_timeout` now holds for every
stack of `%w` layers; `prefix_wrapped_net_timeout_is_502` records the defect of the pre-fix variant.
-/
namespace Specter.C36
open Gen.C36

theorem timeoutMethod_eq (ws : List Wrap) (k : Kind) :
    timeoutMethod ws k = (ws.all Wrap.isNet && (decide (k = .deadline) || decide (k = .netTimeout))) := by
  induction ws with
  | nil => simp [timeoutMethod]
  | cons w t ih => cases w <;> simp [timeoutMethod, ih, Wrap.isNet]

theorem asNet_eq (ws : List Wrap) (k : Kind) :
    asNetErrorTimeout ws k = ((ws.dropWhile (fun w => decide (w = .fmt))).all Wrap.isNet &&
      (decide (k = .deadline) || decide (k = .netTimeout))) := by
  induction ws with
  | nil => simp [asNetErrorTimeout]
  | cons w t ih => cases w <;> simp [asNetErrorTimeout, ih, timeoutMethod_eq, List.dropWhile, Wrap.isNet]

/-- `tun.IsTimeout`, completely: a context deadline under ANY wrapper stack; any other net timeout exactly when,
below the leading `%w` layers, only `net.Error` wrappers (OpError / url.Error) remain. -/
theorem isTimeout_iff (ws : List Wrap) (k : Kind) :
    isTimeout ⟨ws, k⟩ = (decide (k = .deadline) ||
      (decide (k = .netTimeout) && (ws.dropWhile (fun w => decide (w = .fmt))).all Wrap.isNet)) := by
  cases k <;> simp [isTimeout, Err.is, asNet_eq]

/-- `tun.IsTimeout` answers true for `context.DeadlineExceeded` however it is wrapped — including inside a
`net.OpError` / `url.Error` whose own `Timeout()` says false because its direct inner error is a `%w` layer. -/
theorem isTimeout_deadline (e : Err) (h : e.leaf = .deadline) : isTimeout e = true := by
  cases e with | mk ws k => subst h; simp [isTimeout, Err.is]

/-- Complete decision table of `errorHandler`, for every wrapper stack. -/
theorem classify_table (ws : List Wrap) (k : Kind) :
    classify ⟨ws, k⟩ =
      match k with
      | .notFound => .status 404
      | .notConnected => .status 503
      | .canceled | .eof => .silent
      | .deadline => .status 504
      | .netTimeout =>
        if (ws.dropWhile (fun w => decide (w = .fmt))).all Wrap.isNet then .status 504 else .status 502
      | .noDirect | .netOther | .other => .status 502 := by
  cases k <;>
    simp [classify, classifyWith, errorChain, errorDefault, evalCond, Err.is, isTimeout, List.find?, asNet_eq]
  cases hb : (List.dropWhile (fun w => decide (w = Wrap.fmt)) ws).all Wrap.isNet <;>
    simp_all

/-- missing tunnel → 404, however deeply the error is wrapped -/
theorem http_not_found (e : Err) (h : e.leaf = .notFound) : classify e = .status 404 := by
  cases e with | mk ws k => subst h; rw [classify_table]

/-- tunnel client offline → 503, however deeply wrapped -/
theorem http_not_connected (e : Err) (h : e.leaf = .notConnected) : classify e = .status 503 := by
  cases e with | mk ws k => subst h; rw [classify_table]

/-- a timeout → 504: a context deadline or any other net timeout (possibly nested in `net.OpError`s / `url.Error`s)
under ANY number of `%w` layers. -/
theorem http_timeout (fs os : List Wrap) (k : Kind) (hk : k = .deadline ∨ k = .netTimeout)
    (hf : ∀ w ∈ fs, w = .fmt) (ho : ∀ w ∈ os, w.isNet = true) :
    classify ⟨fs ++ os, k⟩ = .status 504 := by
  rw [classify_table]
  rcases hk with rfl | rfl
  · rfl
  · have hd : (fs ++ os).dropWhile (fun w => decide (w = .fmt)) = os := by
      induction fs with
      | nil =>
        cases os with
        | nil => rfl
        | cons o t =>
          have := ho o (by simp)
          cases o <;> simp_all [Wrap.isNet]
      | cons f t ih =>
        have := hf f (by simp); subst this
        simp only [List.cons_append, List.dropWhile, decide_true]
        exact ih (fun w hw => hf w (List.mem_cons_of_mem _ hw))
    have : os.all Wrap.isNet = true := by simpa using ho
    simp [hd, this]

/-- a context deadline → 504 under every wrapper stack whatsoever -/
theorem http_deadline (e : Err) (h : e.leaf = .deadline) : classify e = .status 504 := by
  cases e with | mk ws k => subst h; rw [classify_table]

/-- The timeout clause for a context deadline, spelled out for the shape that defeats `errors.As` alone: the
deadline sits under `%w` layers INSIDE a `net.Error` wrapper `n` (OpError / url.Error), itself under any stack.
The gateway still answers 504. (Instance of `http_deadline`; kept separately because this is the shape the
harness judges with a SPEC verdict and that `deadline_clause_is_needed` shows to be the delicate one.) -/
theorem http_deadline_inside_net_wrapper (pre post : List Wrap) (n : Wrap) :
    classify ⟨pre ++ n :: .fmt :: post, .deadline⟩ = .status 504 := by
  rw [classify_table]

/-- Why the first clause of `tun.IsTimeout` (`errors.Is(err, context.DeadlineExceeded)`) is needed: with only the
`errors.As(err, &netErr)` → `Timeout()` branch, a deadline that is `%w`-wrapped inside a `net.OpError` / `url.Error`
(under any number of outer `%w` layers) would be reported as 502, not 504. -/
theorem deadline_clause_is_needed (fs post : List Wrap) (n : Wrap) (hf : ∀ w ∈ fs, w = .fmt) (hn : n.isNet = true) :
    classifyWith isTimeoutAsOnly ⟨fs ++ n :: .fmt :: post, .deadline⟩ = .status 502 ∧
    classify ⟨fs ++ n :: .fmt :: post, .deadline⟩ = .status 504 := by
  refine ⟨?_, by rw [classify_table]⟩
  have hd : (fs ++ n :: .fmt :: post).dropWhile (fun w => decide (w = .fmt)) = n :: .fmt :: post := by
    induction fs with
    | nil => cases n <;> simp_all [Wrap.isNet]
    | cons f t ih =>
      have := hf f (by simp); subst this
      simp only [List.cons_append, List.dropWhile, decide_true]
      exact ih (fun w hw => hf w (List.mem_cons_of_mem _ hw))
  simp [classifyWith, errorChain, errorDefault, evalCond, Err.is, isTimeoutAsOnly, List.find?, asNet_eq, hd, Wrap.isNet]

/-- Residual corner (outside the property's quantifier for net timeouts OTHER than the context deadline; recorded
as an observation): a `net.OpError` / `url.Error` directly around a `%w` layer answers `Timeout() = false` itself,
so `errors.As` stops there. -/
theorem operror_over_fmt_hides_net_timeout (ws : List Wrap) (n : Wrap) (hn : n.isNet = true) :
    classify ⟨n :: .fmt :: ws, .netTimeout⟩ = .status 502 := by
  rw [classify_table]; cases n <;> simp_all [List.dropWhile, Wrap.isNet]

/-- The defect that was fixed by commit "fix: detect wrapped network timeouts", as a theorem about the PRE-FIX
`IsTimeout` (type assertion on the outermost value): any `%w` layer turned a net timeout into 502. -/
theorem prefix_wrapped_net_timeout_is_502 (ws : List Wrap) (h : .fmt ∈ ws) :
    classifyWith isTimeoutPreFix ⟨ws, .netTimeout⟩ = .status 502 := by
  have : ws.all Wrap.isNet = false := by
    rw [List.all_eq_false]; exact ⟨.fmt, h, by decide⟩
  simp [classifyWith, errorChain, errorDefault, evalCond, Err.is, isTimeoutPreFix, List.find?, timeoutMethod_eq, this]

/-- any other forwarding failure → 502 -/
theorem http_other (e : Err) (h : e.leaf = .noDirect ∨ e.leaf = .netOther ∨ e.leaf = .other) :
    classify e = .status 502 := by
  cases e with | mk ws k => rcases h with h | h | h <;> subst h <;> rw [classify_table]

/-- fact of the code: a caller that went away (context.Canceled / io.EOF) gets nothing written -/
theorem http_canceled_eof_silent (e : Err) (h : e.leaf = .canceled ∨ e.leaf = .eof) : classify e = .silent := by
  cases e with | mk ws k => rcases h with h | h <;> subst h <;> rw [classify_table]

/-- wrapping with `%w` never changes the class of the four sentinel-based outcomes -/
theorem http_wrap_invariant (e : Err) (w : Wrap) (h : e.leaf ≠ .netTimeout) :
    classify ⟨w :: e.wraps, e.leaf⟩ = classify e := by
  cases e with | mk ws k => rw [classify_table, classify_table]; cases k <;> simp_all

/-! ### raw TCP -/
def failed (drain : Option Err) (hostOk : Bool) (dial : Option Err) : Prop :=
  drain ≠ none ∨ hostOk = false ∨ dial ≠ none

/-- Any failing stage: the caller is sent exactly one failure status frame (never OK), immediately followed by
the close, and nothing is piped. -/
theorem tcp_failure_status_before_close (drain : Option Err) (hostOk : Bool) (dial : Option Err)
    (h : failed drain hostOk dial) :
    ∃ pre f, forwardTCP drain hostOk dial = pre ++ [.send f, .close] ∧ f ≠ .ok ∧
      (∀ g, Ev.send g ∉ pre) ∧ Ev.pipe ∉ forwardTCP drain hostOk dial := by
  have hs : ∀ e, statusOf e ≠ .ok := by intro e; unfold statusOf; split <;> simp
  unfold failed at h
  unfold forwardTCP
  cases drain with
  | some e => exact ⟨[], statusOf e, rfl, hs e, by simp, by simp⟩
  | none =>
    cases hostOk with
    | false => exact ⟨[], _, rfl, hs _, by simp, by simp⟩
    | true =>
      cases dial with
      | some e => exact ⟨[.dial], statusOf e, rfl, hs e, by simp, by simp⟩
      | none => simp at h

/-- the failure frame is NO_DIRECT exactly for `ErrNoDirect` / `ErrTunnelClientNotConnected` (any wrapping) -/
theorem tcp_dial_failure_frame (e : Err) :
    forwardTCP none true (some e) = [.dial, .send (if e.leaf = .noDirect ∨ e.leaf = .notConnected then .noDirect else .unknownError), .close] := by
  simp [forwardTCP, statusOf, isNoDirect, Err.is]

/-- Success: bytes are relayed only when every stage succeeded, i.e. a client connection exists; the gateway
itself never originates a status frame then — in particular never a success status. -/
theorem tcp_success_only_with_client (drain : Option Err) (hostOk : Bool) (dial : Option Err)
    (h : Ev.pipe ∈ forwardTCP drain hostOk dial) :
    drain = none ∧ hostOk = true ∧ dial = none ∧ Ev.dial ∈ forwardTCP drain hostOk dial ∧
      ∀ f, Ev.send f ∉ forwardTCP drain hostOk dial := by
  unfold forwardTCP at *
  cases drain <;> cases hostOk <;> cases dial <;> simp_all

theorem tcp_never_originates_ok (drain : Option Err) (hostOk : Bool) (dial : Option Err) :
    Ev.send .ok ∉ forwardTCP drain hostOk dial := by
  unfold forwardTCP statusOf
  cases drain <;> cases hostOk <;> cases dial <;> simp <;> split <;> simp

/-- DialClient is not attempted after an earlier stage failed -/
theorem tcp_no_dial_after_early_failure (drain : Option Err) (hostOk : Bool) (dial : Option Err)
    (h : drain ≠ none ∨ hostOk = false) : Ev.dial ∉ forwardTCP drain hostOk dial := by
  unfold forwardTCP
  cases drain <;> cases hostOk <;> simp_all

/-! ### HTTP CONNECT -/
/-- 200 is sent exactly when a client connection exists AND it reported STATUS_OK (and the stream could be taken over). -/
theorem connect_success_iff (addrOk : Bool) (dial : Option Err) (recvOk : Bool) (st : Frame) (hj : Bool) :
    (httpConnect addrOk dial recvOk st hj).status = 200 ↔
      (addrOk = true ∧ dial = none ∧ recvOk = true ∧ st = .ok ∧ hj = true) := by
  unfold httpConnect
  cases addrOk <;> cases dial <;> cases recvOk <;> cases hj <;> cases st <;> simp

/-- Every failure: the caller gets a failure status (404 / 502 / 503 / 500), nothing is piped, and a remote
stream that was opened is closed by the gateway. -/
theorem connect_failure_status (addrOk : Bool) (dial : Option Err) (recvOk : Bool) (st : Frame) (hj : Bool)
    (h : ¬ (addrOk = true ∧ dial = none ∧ recvOk = true ∧ st = .ok ∧ hj = true)) :
    let o := httpConnect addrOk dial recvOk st hj
    o.status ∈ [404, 502, 503, 500] ∧ o.piped = false ∧ ((addrOk = true ∧ dial = none) → o.remoteClosed = true) := by
  unfold httpConnect
  cases addrOk <;> cases dial <;> cases recvOk <;> cases hj <;> cases st <;> simp_all

theorem connect_piped_iff_200 (addrOk : Bool) (dial : Option Err) (recvOk : Bool) (st : Frame) (hj : Bool) :
    (httpConnect addrOk dial recvOk st hj).piped = true ↔ (httpConnect addrOk dial recvOk st hj).status = 200 := by
  unfold httpConnect
  cases addrOk <;> cases dial <;> cases recvOk <;> cases hj <;> cases st <;> simp

/-! ## Non-vacuity -/
example : classify ⟨[.fmt, .fmt], .notFound⟩ = .status 404 := by decide
example : classify ⟨[.fmt], .notConnected⟩ = .status 503 := by decide
example : classify ⟨[.fmt, .op], .deadline⟩ = .status 504 := by decide
example : classify ⟨[.op, .op], .netTimeout⟩ = .status 504 := by decide
example : classify ⟨[.fmt, .fmt, .op], .netTimeout⟩ = .status 504 := by decide
example : classifyWith isTimeoutPreFix ⟨[.fmt], .netTimeout⟩ = .status 502 := by decide   -- the repaired defect
example : classify ⟨[.op, .fmt], .netTimeout⟩ = .status 502 := by decide
example : classify ⟨[.url, .fmt], .deadline⟩ = .status 504 := by decide           -- http_deadline_inside_net_wrapper
example : classify ⟨[.fmt, .op, .fmt], .deadline⟩ = .status 504 := by decide
example : isTimeout ⟨[.op, .fmt], .deadline⟩ = true ∧ isTimeoutAsOnly ⟨[.op, .fmt], .deadline⟩ = false := by decide
example : classifyWith isTimeoutAsOnly ⟨[.fmt, .url, .fmt], .deadline⟩ = .status 502 := by decide   -- deadline_clause_is_needed
example : classify ⟨[.fmt, .url, .op], .netTimeout⟩ = .status 504 := by decide
example : classify ⟨[], .other⟩ = .status 502 := by decide
example : failed none true (some ⟨[.fmt], .notConnected⟩) ∧
    forwardTCP none true (some ⟨[.fmt], .notConnected⟩) = [.dial, .send .noDirect, .close] := by
  refine ⟨by simp [failed], by decide⟩
example : forwardTCP none true none = [.dial, .pipe] := by decide
example : httpConnect true none true .ok true = ⟨200, true, false, true⟩ := by decide
example : httpConnect true none true .noDirect true = ⟨503, true, true, false⟩ := by decide

end Specter.C36
