#!/usr/bin/env python3
"""
tools/seedcheck.py <Cxx> <dir with patch.diff, demo/, meta.json> [--tier quick|thorough] [--checks C01,C09]

Confirms a seeded change independently (scratch worktree of /repo outside /repo and /verif): the patch
applies, the touched packages build, their EXISTING tests pass, the demonstration fails with the patch and
passes without it. Then runs the registered check(s) of the property against the change (the changed files
shadow /repo through VERIF_MUTANT_DIR, equivalent to `git -C /repo apply` for the build, without touching the
shared /repo while other runs use it) and records everything in /verif/seeded/<id>/.
"""
import json, os, re, shutil, subprocess, sys, tempfile, time

ROOT = os.path.dirname(os.path.dirname(os.path.abspath(__file__)))
REPO = "/repo"


def sh(cmd, cwd=None, env=None, timeout=3600):
    p = subprocess.run(cmd, cwd=cwd, env=env, shell=isinstance(cmd, str), stdout=subprocess.PIPE,
                       stderr=subprocess.STDOUT, text=True, timeout=timeout)
    return p.returncode, p.stdout


def goenv(extra=None):
    e = dict(os.environ)
    e["GOFLAGS"] = "-mod=mod"
    e["GOPROXY"] = "off"
    e.pop("GOTOOLCHAIN", None)
    e.pop("GOSUMDB", None)
    if extra:
        e.update(extra)
    return e


def main():
    pid, src = sys.argv[1], os.path.abspath(sys.argv[2])
    tier = "quick"
    checks = [pid]
    for i, a in enumerate(sys.argv):
        if a == "--tier":
            tier = sys.argv[i + 1]
        if a == "--checks":
            checks = sys.argv[i + 1].split(",")
    checks_only = "--checks-only" in sys.argv  # re-run the checks against an already confirmed seed
    seed_id = os.environ.get("SEED_ID", pid + "-1")
    out = os.path.join(ROOT, "seeded", seed_id)
    os.makedirs(out, exist_ok=True)
    patch = os.path.join(src, "patch.diff")
    meta = json.load(open(os.path.join(src, "meta.json"))) if os.path.exists(os.path.join(src, "meta.json")) else {}
    if "agent_meta" in meta:  # re-run on an already recorded seed: keep the original description
        meta = meta["agent_meta"]
    res = {"property": pid, "seed_id": seed_id, "agent_meta": meta, "confirmed": {}, "checks": {}}
    prev_meta = {}
    try:  # keep the outcomes of checks that are not re-run now
        prev_meta = json.load(open(os.path.join(out, "meta.json")))
        res["checks"] = dict(prev_meta.get("checks", {}))
    except Exception:
        pass
    wt = tempfile.mkdtemp(prefix="seedcheck-", dir="/tmp")
    os.rmdir(wt)
    rc, o = sh(["git", "-C", REPO, "worktree", "add", "--detach", wt, "HEAD"])
    try:
        ov = os.path.join(wt, ".ov.json")
        ph = os.path.join(wt, ".ov.index.html")
        open(ph, "w").write("<html></html>\n")
        json.dump({"Replace": {os.path.join(wt, "tun/client/ui/build/index.html"): ph}}, open(ov, "w"))
        rc, o = sh(["git", "apply", "--check", patch], cwd=wt)
        res["confirmed"]["applies"] = rc == 0
        if rc != 0:
            res["confirmed"]["apply_error"] = o[-500:]
            raise SystemExit(finish(res, out, src))
        sh(["git", "apply", patch], cwd=wt)
        rc, files = sh(["git", "diff", "--name-only"], cwd=wt)
        files = [f for f in files.split() if f]
        res["touched_files"] = files
        pkgs = sorted(set("./" + os.path.dirname(f) for f in files if f.endswith(".go")))
        if checks_only:
            res["confirmed"] = prev_meta.get("confirmed", {})
            res["demo_run"] = prev_meta.get("demo_run")
            res["demo_files"] = prev_meta.get("demo_files")
        rc, o = (0, "") if checks_only else sh(["go", "build", "-overlay", ov] + pkgs, cwd=wt, env=goenv())
        if not checks_only:
            res["confirmed"]["builds"] = rc == 0
        # the chord package's own concurrent tests are flaky under machine load on the unchanged tree too:
        # "pass" = passes in one of up to three runs (the number of runs is recorded)
        for attempt in range(1, 4 if not checks_only else 1):
            rc, o = sh(["go", "test", "-overlay", ov, "-vet=off", "-count=1", "-timeout", "20m", "-p", "4"] + pkgs, cwd=wt, env=goenv(), timeout=2400)
            res["confirmed"]["existing_tests_runs"] = attempt
            if rc == 0:
                break
        if not checks_only:
            res["confirmed"]["existing_tests_pass"] = rc == 0
            res["confirmed"]["existing_tests_tail"] = o[-600:]
        # demonstration
        demo = os.path.join(src, "demo") if not checks_only else os.path.join(src, ".no-demo")
        run_txt = open(os.path.join(demo, "RUN.txt")).read().strip() if os.path.exists(os.path.join(demo, "RUN.txt")) else ""
        if not checks_only:
            res["demo_run"] = run_txt
        copied = []
        for dp, _, fns in os.walk(demo):
            for fn in fns:
                if fn == "RUN.txt" or not fn.endswith(".go"):
                    continue
                # place test files where RUN.txt / meta says; default: find a matching path hint in the file header
                srcf = os.path.join(dp, fn)
                head = open(srcf).read(400)
                m = re.search(r"^package (\w+)", head, re.M)
                dest_dir = None
                rel0 = os.path.relpath(dp, demo)
                if rel0 != ".":
                    dest_dir = rel0
                hint = None if dest_dir else re.search(r"cp\s+\S*" + re.escape(fn) + r"\s+(\S+)", run_txt)
                if hint:
                    dest_dir = re.sub(r"/tmp/seed\d*/%s/" % pid, "", hint.group(1)).strip("/")
                    if dest_dir.endswith(".go"):
                        dest_dir = os.path.dirname(dest_dir)
                if dest_dir is None:
                    hint = re.search(re.escape(fn) + r"\s+(?:copied\s+|placed\s+|moved\s+)?(?:in)?to\s+((?:[\w.-]+/)+)" + re.escape(fn), run_txt)
                    if hint:
                        dest_dir = hint.group(1).strip("/")
                if dest_dir is None:
                    hint = re.search(r"((?:[\w.-]+/)+)" + re.escape(fn), run_txt.replace(".seed/demo/", ""))
                    if hint:
                        dest_dir = re.sub(r"/tmp/seed\d*/%s/" % pid, "", hint.group(1)).strip("/")
                if dest_dir is None:
                    rel = os.path.relpath(dp, demo)
                    dest_dir = rel if rel != "." else (os.path.dirname(files[0]) if files else ".")
                if not os.path.isdir(os.path.join(wt, dest_dir)) and os.path.isdir(os.path.join(wt, dest_dir.replace("_", "/"))):
                    dest_dir = dest_dir.replace("_", "/")  # demo/kv_memory/... stands for kv/memory/...
                d = os.path.join(wt, dest_dir)
                os.makedirs(d, exist_ok=True)
                shutil.copy(srcf, os.path.join(d, fn))
                copied.append(os.path.join(dest_dir, fn))
        if not checks_only:
            res["demo_files"] = copied
        cmd = ""
        for line in reversed(run_txt.splitlines()):
            segs = [x.strip() for x in line.split("&&")]
            gos = [x for x in segs if re.search(r"\bgo (test|run)\b", x)]
            if gos:
                cmd = gos[-1]
                cmd = cmd[cmd.index("go "):] if not cmd.startswith("go ") else cmd
                break
        cmd = re.sub(r"/tmp/seed\d*/%s" % pid, wt, cmd)
        if cmd:
            # the demo's own overlay only supplies the embedded UI placeholder: use ours
            cmd = re.sub(r"-overlay\s+\S+", "-overlay %s" % ov, cmd)
            if "-overlay" not in cmd and ("go test" in cmd or "go run" in cmd):
                cmd = cmd.replace("go test", "go test -overlay %s" % ov).replace("go run", "go run -overlay %s" % ov)
            rc1, o1 = sh(cmd, cwd=wt, env=goenv(), timeout=1800)
            res["confirmed"]["demo_fails_with_change"] = rc1 != 0
            res["confirmed"]["demo_with_tail"] = o1[-500:]
            sh(["git", "apply", "-R", patch], cwd=wt)
            rc2, o2 = sh(cmd, cwd=wt, env=goenv(), timeout=1800)
            res["confirmed"]["demo_passes_without_change"] = rc2 == 0
            res["confirmed"]["demo_without_tail"] = o2[-500:]
            sh(["git", "apply", patch], cwd=wt)
        # mutant mirror for the checks
        mut = tempfile.mkdtemp(prefix="seedmut-", dir="/tmp")
        for f in files:
            os.makedirs(os.path.join(mut, os.path.dirname(f)), exist_ok=True)
            shutil.copy(os.path.join(wt, f), os.path.join(mut, f))
        for c in checks:
            t0 = time.time()
            for fn in os.listdir(os.path.join(ROOT, "replays")) if os.path.isdir(os.path.join(ROOT, "replays")) else []:
                if fn.startswith(c + "-"):
                    os.remove(os.path.join(ROOT, "replays", fn))
            rc, o = sh([os.path.join(ROOT, "check"), c, "--tier", tier], cwd=ROOT,
                       env=dict(os.environ, VERIF_MUTANT_DIR=mut), timeout=7200)
            viol = [l for l in o.splitlines() if l.startswith("VIOLATION")]
            kind = "missed"
            replay = None
            if viol:
                kind = "no-failing-input-found" if "no-failing-input-found" in viol[0] else "failing-input"
                m = re.search(r"replay=(\S+)", viol[0])
                if m and os.path.exists(os.path.join(ROOT, m.group(1))):
                    replay = json.load(open(os.path.join(ROOT, m.group(1))))
                    shutil.copy(os.path.join(ROOT, m.group(1)), os.path.join(out, "replay-%s.json" % c))
            res["checks"][c] = {"tier": tier, "exit": rc, "outcome": kind, "wall_s": round(time.time() - t0, 1),
                                "violation_line": viol[0] if viol else None,
                                "failing_line": (replay or {}).get("failing_line", "")[:300] if replay else None,
                                "spec_verdict": (replay or {}).get("spec_verdict", "")[:300] if replay else None,
                                "broken": (replay or {}).get("broken", [])[:3] if replay else None,
                                "tail": o[-400:]}
        shutil.rmtree(mut, ignore_errors=True)
    finally:
        sh(["git", "-C", REPO, "worktree", "remove", "--force", wt])
        shutil.rmtree(wt, ignore_errors=True)
    finish(res, out, src)


def finish(res, out, src):
    same = os.path.realpath(src) == os.path.realpath(out)
    if not same:
        shutil.copy(os.path.join(src, "patch.diff"), os.path.join(out, "patch.diff"))
    if not same and os.path.isdir(os.path.join(src, "demo")):
        shutil.rmtree(os.path.join(out, "demo"), ignore_errors=True)
        shutil.copytree(os.path.join(src, "demo"), os.path.join(out, "demo"))
    json.dump(res, open(os.path.join(out, "meta.json"), "w"), indent=1)
    c = res["confirmed"]
    print(res["seed_id"], "confirmed:", {k: v for k, v in c.items() if isinstance(v, bool)},
          "checks:", {k: v["outcome"] for k, v in res["checks"].items()})
    return 0


if __name__ == "__main__":
    main()
