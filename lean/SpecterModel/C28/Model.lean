import SpecterModel.C28.Gen
import SpecterModel.C28.GenTun
/-!
# C28 — model of `(*Server).routeCacheLoader` (tun/server/route_cache.go)

One lookup job per route slot `1..NumRedundantLinks`; each job ends in one of the outcomes below.
The loader counts `fs.ErrNotExist` errors and other errors, classifies, filters the non-nil
routes (slot order) and runs `sort.SliceStable` with the ONE-SIDED comparator
`less(i,j) = (filtered[i] is a route through the local node)`.
For `n ≤ 20` elements `sort.SliceStable` is exactly `insertionSort_func`:
`for i := 1; i < n; i++ { for j := i; j > 0 && less(j, j-1); j-- { swap(j, j-1) } }`.
Core Lean only.
-/
namespace Specter.C28

/-- A decoded route: the slot it came from (identity), the tunnel address it points to, and the
byte length of the stored value (cost). -/
structure Route where
  slot : Nat
  addr : String
  len  : Nat
deriving DecidableEq, Repr

/-- Outcome of one lookup job. -/
inductive Slot where
  | route (r : Route)   -- value present and decodable
  | empty               -- `len(val) == 0`  → job returns fs.ErrNotExist
  | error               -- `Chord.Get` failed (any error other than the fs.ErrNotExist sentinel)
  | undecodable         -- value present, `UnmarshalVT` failed
  | errNotExist         -- `Chord.Get` itself returned the fs.ErrNotExist sentinel (outside the property's table)
deriving DecidableEq, Repr

inductive Res where
  | notFound                       -- tun.ErrDestinationNotFound
  | lookupFailed                   -- tun.ErrLookupFailed
  | routes (rs : List Route)
deriving DecidableEq, Repr

structure Loaded where
  res  : Res
  ttl  : Int
  cost : Nat
deriving DecidableEq, Repr

def Slot.isNotFound : Slot → Bool
  | .empty | .errNotExist => true
  | _ => false

def Slot.isError : Slot → Bool
  | .error | .undecodable => true
  | _ => false

def Slot.route? : Slot → Option Route
  | .route r => some r
  | _ => none

/-- inner loop of Go's insertion sort. `revLeft` is the already processed prefix, nearest element
first; `x` is the element being moved left: swap while `less x y`. Returns the new reversed prefix. -/
def insertLeft {α} (less : α → α → Bool) : List α → α → List α
  | [], x => [x]
  | y :: ys, x => if less x y then y :: insertLeft less ys x else x :: y :: ys

/-- `insertionSort_func` (= `sort.SliceStable` for at most 20 elements). -/
def isort {α} (less : α → α → Bool) (xs : List α) : List α :=
  (xs.foldl (insertLeft less) []).reverse

/-- the comparator of the loader: looks at its FIRST argument only. -/
def lessLocal (self : String) (a _b : Route) : Bool := a.addr == self

def loader (numLookup : Nat) (self : String) (slots : List Slot) : Loaded :=
  let numNotFound := slots.countP Slot.isNotFound
  let numError := slots.countP Slot.isError
  if numLookup == numNotFound then
    { res := .notFound, ttl := Gen.C28.routeNegativeTTL, cost := 8 }
  else if numLookup == numError then
    { res := .lookupFailed, ttl := Gen.C28.routeFailedTTL, cost := 16 }
  else
    let filtered := slots.filterMap Slot.route?
    { res := .routes (isort (lessLocal self) filtered),
      ttl := Gen.C28.routePositiveTTL,
      cost := (filtered.map Route.len).sum }

def numLinks : Nat := Gen.C28Tun.NumRedundantLinks.toNat

end Specter.C28
