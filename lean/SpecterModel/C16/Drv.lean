import SpecterModel.Util
import SpecterModel.C16.Spec
/-!
Line-protocol driver shared by C16 / C17 / C19 (`Specter.C17.main`, `Specter.C19.main` call `mainFor`).

Every line names a store instance (`mem…`, `aof…`, `sql…`; the prefix selects the back-end model, a
suffix such as `sql2` gives a second, independent store for import targets). Per instance the driver
carries the back-end model state and the contract state. Per line:
* `DIFF`  — the implementation's answer differs from the back-end model's (exact, nil ≠ empty);
* `SPEC`  — the implementation's answer does not conform to the contract (only for the operations
  that belong to the property being checked: C16 simple/prefix/listing, C17 range/export/import/
  remove, C19 leases).
`hash K H` declares the (degenerate) hash of a key for the current case; `reset` starts a new case.
Lease lines carry the wall-clock bracket `[T0, T1]` (UnixNano before/after the call): for a granted
token the instant is reconstructed as `token - ⌊ttl⌋`, and must lie in the bracket; for a refusal the
answer must be right for one end of the bracket.
-/
namespace Specter.C16
open Specter.Util Specter.Kv

inductive Which where
  | c16 | c17 | c19
deriving DecidableEq

structure Inst where
  name : String
  b : Backend
  m : Store
  s : Store

structure DState where
  insts : List Inst := []
  hashes : List (Key × Nat) := []
  /-- (store, key) pairs whose last simple write may have left an EMPTY value behind (Put / Import of an
  empty or nil value): such a key may or may not be listed by RangeKeys (empty ≡ absent); a Delete,
  a non-empty Put or RemoveKeys clears the mark. -/
  maybeEmpty : List (String × Key) := []

def backendOf (name : String) : Option Backend :=
  if name.startsWith "mem" then some .memory
  else if name.startsWith "aof" then some .aof
  else if name.startsWith "sql" then some .sqlite
  else none

def DState.hash (st : DState) (k : Key) : Nat := (st.hashes.lookup k).getD 0

def DState.get (st : DState) (name : String) : Option Inst :=
  match st.insts.find? (·.name == name) with
  | some i => some i
  | none => (backendOf name).map fun b => ⟨name, b, Store.init, Store.init⟩

def DState.set (st : DState) (i : Inst) : DState :=
  { st with insts := i :: st.insts.filter (·.name != i.name) }

/-! rendering (canonical: lists sorted by their hex text) -/

def hx (b : Bytes) : String := bytesToHex b

def renderVal : Option Bytes → String
  | none => "nil"
  | some b => hx b

def sortStrs (l : List String) : List String := l.mergeSort (fun a b => !(b < a))

def renderList (l : List String) : String :=
  if l.isEmpty then "[]" else ",".intercalate (sortStrs l)

def renderSeq (l : List String) : String :=
  if l.isEmpty then "[]" else ";".intercalate l

def renderEntry (nrm : Bool) (e : Entry) : String :=
  renderVal (if nrm then norm e.simple else e.simple) ++ "/" ++ renderList (e.children.map hx) ++ "/" ++
    toString e.lease

def renderKind : Key × Kind → String
  | (k, .simple) => "S:" ++ hx k
  | (k, .pfx) => "P:" ++ hx k
  | (k, .lease) => "L:" ++ hx k

def renderOut (nrm : Bool) : Out → String
  | .ok => "ok"
  | .value v => renderVal (if nrm then norm v else v)
  | .children cs => renderList (cs.map hx)
  | .bool b => boolStr b
  | .kinds l => renderList (l.map renderKind)
  | .token t => "tok:" ++ toString t
  | .entries es => renderSeq (es.map (renderEntry nrm))
  | .keys ks => renderList (ks.map hx)
  | .prefixConflict => "conflict"
  | .leaseConflict => "conflict"
  | .leaseExpired => "expired"
  | .invalidTTL => "invalidttl"

/-! parsing -/

def parseVal (s : String) : Option (Option Bytes) :=
  if s = "nil" then some none else (hexToBytes s).map some

def parseBytesList (s : String) : Option (List Bytes) :=
  if s = "[]" then some [] else (s.splitOn ",").mapM hexToBytes

def parseEntry (s : String) : Option Entry :=
  match s.splitOn "/" with
  | v :: cs :: l :: _ =>
    match parseVal v, parseBytesList cs, l.toNat? with
    | some v, some cs, some l => some ⟨v, cs, l⟩
    | _, _, _ => none
  | _ => none

def parseEntries (s : String) : Option (List Entry) :=
  if s = "[]" then some [] else (s.splitOn ";").mapM parseEntry

def parseKV (s : String) : Option (Key × Entry) :=
  match s.splitOn "=" with
  | [k, e] => match hexToBytes k, parseEntry e with
    | some k, some e => some (k, e)
    | _, _ => none
  | _ => none

/-- `S:key:len` / `P:key` / `L:key`; returns the kinds and the (key, len) annotations of SIMPLE items -/
def parseKinds (s : String) : Option (List (Key × Kind) × List (Key × Nat)) :=
  if s = "[]" then some ([], []) else
  (s.splitOn ",").foldlM (fun (acc : List (Key × Kind) × List (Key × Nat)) item =>
    match item.splitOn ":" with
    | ["S", k, n] => match hexToBytes k, n.toNat? with
      | some k, some n => some (acc.1 ++ [(k, Kind.simple)], acc.2 ++ [(k, n)])
      | _, _ => none
    | ["P", k] => (hexToBytes k).map fun k => (acc.1 ++ [(k, Kind.pfx)], acc.2)
    | ["L", k] => (hexToBytes k).map fun k => (acc.1 ++ [(k, Kind.lease)], acc.2)
    | _ => none) ([], [])

def parseErrOr (s : String) (okOut : Out) (errs : List (String × Out)) : Option Out :=
  if s = "ok" then some okOut else errs.lookup s

def parseTok (s : String) (errs : List (String × Out)) : Option Out :=
  if s.startsWith "tok:" then ((s.drop 4).toString.toNat?).map Out.token else errs.lookup s

/-! verdicts -/

def judged (w : Which) : Op → Bool
  | .put .. | .get .. | .delete .. | .pappend .. | .plist .. | .pcontains .. | .premove .. | .listKeys .. => w == .c16
  | .acquire .. | .renew .. | .release .. => w == .c19
  | .exportKV .. => w == .c17 || w == .c19
  | .importKV .. | .removeKeys .. => w == .c17
  -- C19 "through the DHT": the hand-off selects keys with RangeKeys; a key holding a lease must be selected
  | .rangeKeys .. => w == .c17 || w == .c19

def ringM : Nat := 2^48

/-- C17 range verdict from the statement: every key holding (non-empty) data with hash in (lo, hi]
is listed; nothing outside the range and nothing that was never written / was removed is listed.
Keys whose only content is an empty simple value may or may not be listed (empty ≡ absent). -/
def rangeSpecFail (st : DState) (iname : String) (s : Store) (lo hi : Nat) (impl : List Key) : Option String :=
  let inQ := lo < ringM && hi < ringM && s.dom.all (fun k => st.hash k < ringM) && impl.all (fun k => st.hash k < ringM)
  if !inQ then none else
  let required := s.dom.filter fun k => (s.ent k).held && Spec.inRing lo (st.hash k) hi
  match required.find? (fun k => !impl.contains k) with
  | some k => some s!"range: key {hx k} holds data, hash {st.hash k} in range, not listed"
  | none =>
    match impl.find? (fun k => !Spec.inRing lo (st.hash k) hi) with
    | some k => some s!"range: listed key {hx k} has hash {st.hash k} outside the range"
    | none =>
      match impl.find? (fun k => !s.dom.contains k) with
      | some k => some s!"range: listed key {hx k} holds no data"
      | none =>
        match impl.find? (fun k => !(s.ent k).held && !st.maybeEmpty.contains (iname, k)) with
        | some k => some s!"range: listed key {hx k} holds no data any more (its data was deleted)"
        | none => if impl.eraseDups.length ≠ impl.length then some "range: key listed twice" else none

/-- generic (non-lease) operation: run model and contract, compare -/
def runOp (w : Which) (st : DState) (i : Inst) (op : Op) (impl : Out) (extra : Option String := none) :
    DState × Verdict :=
  let (m', mo) := Kv.step i.b st.hash i.m op
  let (s', so) := Spec.step i.b.policy st.hash i.s op
  let st' := st.set { i with m := m', s := s' }
  let specFail : Option String :=
    if !judged w op then none else
    match op, impl with
    | .rangeKeys lo hi, .keys ks => rangeSpecFail st i.name i.s lo hi ks
    | _, _ => if renderOut true impl = renderOut true so then none else some ("contract=" ++ renderOut true so)
  match specFail with
  | some why => (st', .spec why)
  | none =>
    if renderOut false mo ≠ renderOut false impl then (st', .diff (renderOut false mo))
    else match extra with
      | some e => (st', .diff e)
      | none => (st', .ok)

/-- lease operation with a clock bracket: `mk now` builds the operation -/
def runLease (w : Which) (st : DState) (i : Inst) (ttl : Int) (t0 t1 : Nat) (mk : Nat → Op) (impl : Out) :
    DState × Verdict :=
  let go (now : Nat) : (Inst × Out × Out) :=
    let (m', mo) := Kv.step i.b st.hash i.m (mk now)
    let (s', so) := Spec.step i.b.policy st.hash i.s (mk now)
    ({ i with m := m', s := s' }, mo, so)
  match impl with
  | .token t =>
    match Spec.grant ttl with
    | none =>
      let (i', mo, _) := go t0
      if w == .c19 then (st.set i', .spec "ttl below one second accepted")
      else (st.set i', .diff (renderOut false mo))
    | some d =>
      let now := t - d
      let (i', mo, so) := go now
      if w == .c19 ∧ so ≠ impl then (st.set i', .spec ("contract=" ++ renderOut true so))
      else if t < d ∨ now < t0 ∨ t1 < now then (st.set i', .diff s!"token-not-now+ttl now∈[{t0},{t1}] d={d}")
      else if mo ≠ impl then (st.set i', .diff (renderOut false mo))
      else (st.set i', .ok)
  | _ =>
    let (i0, mo0, so0) := go t0
    let (i1, mo1, so1) := go t1
    if w == .c19 ∧ so0 ≠ impl ∧ so1 ≠ impl then (st.set i0, .spec ("contract=" ++ renderOut true so0))
    else if mo0 = impl then (st.set i0, .ok)
    else if mo1 = impl then (st.set i1, .ok)
    else (st.set i0, .diff (renderOut false mo0))

def leaseErrs : List (String × Out) :=
  [("conflict", .leaseConflict), ("expired", .leaseExpired), ("invalidttl", .invalidTTL)]

/-- bookkeeping of `maybeEmpty` for one acknowledged operation -/
def markEmpty (st : DState) (toks : List String) (rhs : String) : DState :=
  if rhs.startsWith "err" || rhs = "panic" then st else
  match toks with
  | ["put", name, k, v] =>
    match hexToBytes k with
    | some k =>
      let cleared := st.maybeEmpty.filter (· != (name, k))
      if v = "nil" || v = "-" then { st with maybeEmpty := (name, k) :: cleared } else { st with maybeEmpty := cleared }
    | none => st
  | ["del", name, k] =>
    match hexToBytes k with
    | some k => { st with maybeEmpty := st.maybeEmpty.filter (· != (name, k)) }
    | none => st
  | ["remove", name, ks] =>
    let l := if ks = "[]" then [] else (ks.splitOn ",").filterMap hexToBytes
    { st with maybeEmpty := st.maybeEmpty.filter fun p => !(p.1 == name && l.contains p.2) }
  | "import" :: name :: kvs =>
    kvs.foldl (fun st kv =>
      match kv.splitOn "=" with
      | [k, e] =>
        match hexToBytes k with
        | some k =>
          let v := (e.splitOn "/").headD ""
          -- an imported nil / empty value may leave an empty value (or keep an older empty one)
          if v = "nil" || v = "-" then { st with maybeEmpty := (name, k) :: st.maybeEmpty }
          else { st with maybeEmpty := st.maybeEmpty.filter (· != (name, k)) }
        | none => st
      | _ => st) st
  | _ => st

def stepW0 (w : Which) (st : DState) (toks : List String) (rhs : String) : DState × Verdict :=
  match toks with
  | ["reset"] => ({}, .ok)
  | ["sleep", _] => (st, .ok)
  | ["hash", k, h] =>
    match hexToBytes k, h.toNat? with
    | some k, some h => ({ st with hashes := (k, h) :: st.hashes }, .ok)
    | _, _ => (st, .bad "hash args")
  | opn :: name :: args =>
    match st.get name with
    | none => (st, .bad "unknown store")
    | some i =>
      let bad := (st, Verdict.bad (opn ++ " args"))
      -- an error / panic no model predicts: correspondence broken (never silently accepted)
      if rhs.startsWith "err:" || rhs = "panic" then (st, .diff "no-error-expected") else
      match opn, args with
      | "put", [k, v] =>
        match hexToBytes k, parseVal v, parseErrOr rhs .ok [] with
        | some k, some v, some o => runOp w st i (.put k v) o
        | _, _, _ => bad
      | "get", [k] =>
        match hexToBytes k, parseVal rhs with
        | some k, some v => runOp w st i (.get k) (.value v)
        | _, _ => bad
      | "del", [k] =>
        match hexToBytes k, parseErrOr rhs .ok [] with
        | some k, some o => runOp w st i (.delete k) o
        | _, _ => bad
      | "pappend", [k, c] =>
        match hexToBytes k, hexToBytes c, parseErrOr rhs .ok [("conflict", .prefixConflict)] with
        | some k, some c, some o => runOp w st i (.pappend k c) o
        | _, _, _ => bad
      | "plist", [k] =>
        match hexToBytes k, parseBytesList rhs with
        | some k, some cs => runOp w st i (.plist k) (.children cs)
        | _, _ => bad
      | "pcontains", [k, c] =>
        match hexToBytes k, hexToBytes c, parseBool rhs with
        | some k, some c, some r => runOp w st i (.pcontains k c) (.bool r)
        | _, _, _ => bad
      | "premove", [k, c] =>
        match hexToBytes k, hexToBytes c, parseErrOr rhs .ok [] with
        | some k, some c, some o => runOp w st i (.premove k c) o
        | _, _, _ => bad
      | "listkeys", [p] =>
        match hexToBytes p, parseKinds rhs with
        | some p, some (kinds, lens) =>
          -- the SIMPLE items are annotated with the length `Get` returns: must agree with the model
          let wrong := lens.find? fun (k, n) => ((i.m.ent k).simple.getD []).length ≠ n
          runOp w st i (.listKeys p) (.kinds kinds) (wrong.map fun (k, _) => s!"get-length of {hx k} differs from the model")
        | _, _ => bad
      | "acquire", [k, ttl, t0, t1] =>
        match hexToBytes k, ttl.toInt?, t0.toNat?, t1.toNat?, parseTok rhs leaseErrs with
        | some k, some ttl, some t0, some t1, some o => runLease w st i ttl t0 t1 (fun now => .acquire k ttl now) o
        | _, _, _, _, _ => bad
      | "renew", [k, ttl, _ref, prev, t0, t1] =>
        match hexToBytes k, ttl.toInt?, prev.toNat?, t0.toNat?, t1.toNat?, parseTok rhs leaseErrs with
        | some k, some ttl, some prev, some t0, some t1, some o =>
          runLease w st i ttl t0 t1 (fun now => .renew k ttl prev now) o
        | _, _, _, _, _, _ => bad
      | "release", [k, _ref, tok] =>
        match hexToBytes k, tok.toNat?, parseErrOr rhs .ok leaseErrs with
        | some k, some tok, some o => runOp w st i (.release k tok) o
        | _, _, _ => bad
      | "import", kvs =>
        match kvs.mapM parseKV, parseErrOr rhs .ok [] with
        | some kvs, some o => runOp w st i (.importKV kvs) o
        | _, _ => bad
      | "export", [ks] =>
        match parseBytesList ks, parseEntries rhs with
        | some ks, some es => runOp w st i (.exportKV ks) (.entries es)
        | _, _ => bad
      | "range", [lo, hi] =>
        match lo.toNat?, hi.toNat?, parseBytesList rhs with
        | some lo, some hi, some ks => runOp w st i (.rangeKeys lo hi) (.keys ks)
        | _, _, _ => bad
      | "remove", [ks] =>
        match parseBytesList ks, parseErrOr rhs .ok [] with
        | some ks, some o => runOp w st i (.removeKeys ks) o
        | _, _ => bad
      | _, _ => (st, .bad "unknown op")
  | _ => (st, .bad "unknown line")

def stepW (w : Which) (st : DState) (toks : List String) (rhs : String) : DState × Verdict :=
  let (st', v) := stepW0 w st toks rhs
  (markEmpty st' toks rhs, v)

def mainFor (w : Which) : IO Unit := runLoop ({} : DState) (stepW w)

def main : IO Unit := mainFor .c16

end Specter.C16
