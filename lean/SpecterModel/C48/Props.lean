import SpecterModel.C48.Model
/-!
# C48 — The ACME DNS responder answers exactly the stored challenges

All theorems are about `answer`/`serve` of `Model.lean` (acme/dns.go as it is after the repair "ACME DNS
responder matches its zone on a label boundary"), for ALL query names / stores / static record sets.

* `txt_exact`   TXT for `label.zone` in any letter case ⇒ exactly the static TXT records (none in practice) plus
                one TXT per NON-EMPTY stored value of the lower-cased label; NOERROR, or authoritative NXDOMAIN
                when that list is empty. No well-formedness hypothesis on the zone is needed any more.
* `storage_failure_servfail`, `static_records`, `any_not_implemented`, `deep_name_nxdomain_soa`, `serve_soa_iff`,
  `no_challenge_outside_zone` (a name that is not below the zone on a label boundary never receives TXT data).
* pre-fix variant (`answerOld`, with `strings.Index` and the boundary-less `HasSuffix`): the two defects as
  theorems (`old_index_first_occurrence_defect`, `old_suffix_without_boundary_leaks`), the repaired answers on
  the same inputs, and `wellFormed_of_distinct_labels` (when the old code was right).
-/
namespace Specter.C48

/-! ## strings -/

theorem numParts_label (l zone : Name) (hl : '.' ∉ l) : numParts (l ++ '.' :: zone) = numParts zone + 1 := by
  unfold numParts
  rw [List.count_append, List.count_cons, List.count_eq_zero.mpr hl]
  simp

theorem dotZone_suffix (l zone : Name) : ('.' :: zone).isSuffixOf (l ++ '.' :: zone) = true := by
  rw [List.isSuffixOf_iff_suffix]; exact ⟨l, rfl⟩

theorem txtLabel_label (zone q l : Name) (hq : lower q = l ++ '.' :: zone) : txtLabel zone q = some l := by
  unfold txtLabel
  simp only [hq, dotZone_suffix, if_true]
  congr 1
  have : (l ++ '.' :: zone).length - zone.length - 1 = l.length := by simp; omega
  rw [this, List.take_left]

theorem isImmediate_label (zone q l : Name) (hq : lower q = l ++ '.' :: zone) (hl : '.' ∉ l) :
    isImmediate zone q = true := by
  unfold isImmediate
  simp only [hq, numParts_label l zone hl, dotZone_suffix]
  simp

/-! ## the property -/

/-- **C48 (TXT).** A TXT query for `label.zone`, spelled in any letter case, is answered with exactly the
non-empty challenge values stored for the lower-cased label (each as a TXT record owned by the name as
queried), after the static TXT records of that name; authoritative; NOERROR, or NXDOMAIN when there is nothing. -/
theorem txt_exact (cfg : Cfg) (store : Name → Option (List Bytes)) (q l : Name) (vals : List Bytes)
    (hq : lower q = l ++ '.' :: cfg.zone) (hl : '.' ∉ l)
    (hs : store l = some vals) :
    answer cfg store q tTXT =
      (statics cfg q tTXT ++ (vals.filter (· ≠ [])).map (Ans.txt q),
       if (statics cfg q tTXT ++ (vals.filter (· ≠ [])).map (Ans.txt q)).isEmpty then rcNameError else rcSuccess,
       true) := by
  unfold answer
  simp only [isImmediate_label cfg.zone q l hq hl, txtLabel_label cfg.zone q l hq, hs]
  have : tTXT ≠ tANY := by decide
  simp only [Bool.not_true, Bool.false_eq_true, if_false, this, if_true]
  have hne : (rcSuccess != rcServFail) = true := by decide
  simp only [hne, Bool.and_true]
  generalize statics cfg q tTXT ++ (vals.filter (· ≠ [])).map (Ans.txt q) = rr
  by_cases h : rr.isEmpty = true <;> simp [h]

/-- **C48 (storage failure).** If the storage lookup of the label fails, the answer is a server failure
(and carries no challenge values). -/
theorem storage_failure_servfail (cfg : Cfg) (store : Name → Option (List Bytes)) (q l : Name)
    (hq : lower q = l ++ '.' :: cfg.zone) (hl : '.' ∉ l)
    (hs : store l = none) :
    answer cfg store q tTXT = (statics cfg q tTXT, rcServFail, true) := by
  unfold answer
  simp only [isImmediate_label cfg.zone q l hq hl, txtLabel_label cfg.zone q l hq, hs]
  have : tTXT ≠ tANY := by decide
  simp only [Bool.not_true, Bool.false_eq_true, if_false, this, if_true]
  have hne : (rcServFail != rcServFail) = false := by decide
  simp [hne]

/-- **C48 (static records).** For a name at or directly below the zone and a type other than ANY/TXT the
answer is exactly the static records of that name and type; NXDOMAIN when there are none. -/
theorem static_records (cfg : Cfg) (store : Name → Option (List Bytes)) (q : Name) (qtype : Nat)
    (hi : isImmediate cfg.zone q = true) (h1 : qtype ≠ tANY) (h2 : qtype ≠ tTXT) :
    answer cfg store q qtype =
      (statics cfg q qtype, if (statics cfg q qtype).isEmpty then rcNameError else rcSuccess, true) := by
  unfold answer
  simp only [hi, h1, h2, Bool.not_true, Bool.false_eq_true, if_false]
  have hne : (rcSuccess != rcServFail) = true := by decide
  simp only [hne, Bool.and_true]
  split <;> rename_i h <;> simp [h]

/-- **C48 (ANY).** ANY queries for a name at or directly below the zone are refused as not implemented. -/
theorem any_not_implemented (cfg : Cfg) (store : Name → Option (List Bytes)) (q : Name)
    (hi : isImmediate cfg.zone q = true) :
    answer cfg store q tANY = ([], rcNotImp, true) := by
  unfold answer; simp [hi]

/-- **C48 (deep names).** A name more than one label below the zone — `pre.l.zone` — is answered, for every
query type and whatever the storage holds, with an authoritative name error, no answers, SOA in the authority section. -/
theorem deep_name_nxdomain_soa (cfg : Cfg) (store : Name → Option (List Bytes)) (q pre l : Name) (qtype : Nat)
    (hq : lower q = pre ++ '.' :: l ++ '.' :: cfg.zone) :
    serve cfg store q qtype none true =
      { rcode := rcNameError, auth := true, answers := [], soa := true, opt := false } := by
  have hni : isImmediate cfg.zone q = false := by
    unfold isImmediate numParts
    simp only [hq, List.count_append, List.count_cons, List.cons_append]
    simp
    intro _ _; omega
  unfold serve answer
  simp [hni, rcNameError]

/-- the SOA accompanies exactly the authoritative name errors -/
theorem serve_soa_iff (cfg : Cfg) (store : Name → Option (List Bytes)) (q : Name) (qtype : Nat) :
    (serve cfg store q qtype none true).soa = true ↔
      (serve cfg store q qtype none true).rcode = rcNameError ∧ (serve cfg store q qtype none true).auth = true := by
  unfold serve
  simp only [Bool.not_true, Bool.false_eq_true, if_false]
  generalize answer cfg store q qtype = a
  obtain ⟨rr, rc, auth⟩ := a
  simp [and_comm]

/-- **C48 (exactly).** A name that is not below the zone on a label boundary (in particular a name merely
sharing a string suffix with the zone) never receives challenge values, whatever is stored. -/
theorem no_challenge_outside_zone (cfg : Cfg) (store : Name → Option (List Bytes)) (q : Name) (qtype : Nat)
    (ho : ('.' :: cfg.zone).isSuffixOf (lower q) = false) :
    ∀ a ∈ (answer cfg store q qtype).1, ∃ r, a = .static r := by
  have hl : txtLabel cfg.zone q = none := by unfold txtLabel; simp [ho]
  have hst : ∀ a ∈ statics cfg q qtype, ∃ r, a = Ans.static r := by
    intro a ha; unfold statics at ha
    obtain ⟨x, _, rfl⟩ := List.mem_map.mp ha; exact ⟨_, rfl⟩
  unfold answer
  by_cases h1 : isImmediate cfg.zone q = true
  · by_cases h2 : qtype = tANY
    · simp [h1, h2]
    · simp only [h1, h2, hl, Bool.not_true, Bool.false_eq_true, if_false]
      split <;> split <;> simpa using hst
  · simp [h1]

/-! ## the pre-fix variant: `strings.Index` + `HasSuffix` without dot boundary -/

/-- `strings.Index(s, pat)`: offset of the FIRST occurrence -/
def indexOf (pat : Name) : Name → Option Nat
  | [] => if pat.isPrefixOf [] then some 0 else none
  | c :: t => if pat.isPrefixOf (c :: t) then some 0 else (indexOf pat t).map (· + 1)


def isImmediateOld (zone q : Name) : Bool :=
  let qn := lower q
  zone.isSuffixOf qn && decide (numParts qn ≥ numParts zone) && decide (numParts qn - numParts zone ≤ 1)

def txtLabelOld (zone q : Name) : Option Name :=
  match indexOf zone (lower q) with
  | some idx => if idx = 0 then none else some ((lower q).take (idx - 1))
  | none => none

/-- `answer` before the repair -/
def answerOld (cfg : Cfg) (store : Name → Option (List Bytes)) (q : Name) (qtype : Nat) : List Ans × Nat × Bool :=
  if !isImmediateOld cfg.zone q then ([], rcNameError, true)
  else if qtype = tANY then ([], rcNotImp, true)
  else
    let rr := statics cfg q qtype
    let (rr, rc) :=
      if qtype = tTXT then
        match txtLabelOld cfg.zone q with
        | none => (rr, rcSuccess)
        | some l =>
          match store l with
          | none => (rr, rcServFail)
          | some vals => (rr ++ (vals.filter (· ≠ [])).map (Ans.txt q), rcSuccess)
      else (rr, rcSuccess)
    if rr.isEmpty && rc != rcServFail then (rr, rcNameError, true) else (rr, rc, true)

/-- the zone does not occur inside `l.zone` before its proper place -/
def WellFormedAt (zone l : Name) : Prop :=
  ∀ i, i ≤ l.length → ¬ zone <+: (l ++ '.' :: zone).drop i

theorem indexOf_first (pat pre post : Name)
    (h : ∀ i, i < pre.length → ¬ pat <+: (pre ++ (pat ++ post)).drop i) :
    indexOf pat (pre ++ (pat ++ post)) = some pre.length := by
  induction pre with
  | nil =>
    simp only [List.nil_append, List.length_nil]
    have hp : pat.isPrefixOf (pat ++ post) = true := by simp
    generalize pat ++ post = s at hp
    cases s with
    | nil => simp [indexOf, hp]
    | cons c t => simp [indexOf, hp]
  | cons c t ih =>
    have h0 : ¬ pat <+: c :: (t ++ (pat ++ post)) := by simpa using h 0 (by simp)
    have h0' : pat.isPrefixOf (c :: (t ++ (pat ++ post))) = false := by
      rw [Bool.eq_false_iff]; intro hh
      exact h0 (List.isPrefixOf_iff_prefix.mp hh)
    have iht := ih (fun i hi => by simpa using h (i + 1) (by simp; omega))
    simp only [List.cons_append, indexOf, h0', List.length_cons, iht]
    simp

theorem txtLabelOld_label (zone q l : Name) (hq : lower q = l ++ '.' :: zone) (hwf : WellFormedAt zone l) :
    txtLabelOld zone q = some l := by
  unfold txtLabelOld
  have hidx : indexOf zone (lower q) = some (l ++ ['.']).length := by
    have e : lower q = (l ++ ['.']) ++ (zone ++ []) := by simp [hq]
    rw [e]; apply indexOf_first
    intro i hi
    have := hwf i (by simp at hi; omega)
    simpa using this
  rw [hidx]
  simp [hq]

theorem prefix_first_dot (a l' R S : Name) (ha : '.' ∉ a) (hl : '.' ∉ l')
    (h : (a ++ '.' :: R) <+: (l' ++ '.' :: S)) : a = l' ∧ R <+: S := by
  induction a generalizing l' with
  | nil =>
    cases l' with
    | nil => simpa using h
    | cons c t =>
      obtain ⟨r, hr⟩ := h
      simp at hr
      exact absurd (hr.1 ▸ List.mem_cons_self) hl
  | cons x a ih =>
    cases l' with
    | nil =>
      obtain ⟨r, hr⟩ := h
      simp at hr
      exact absurd (hr.1 ▸ List.mem_cons_self) ha
    | cons c t =>
      obtain ⟨r, hr⟩ := h
      simp only [List.cons_append, List.cons.injEq] at hr
      have := ih t (fun m => ha (List.mem_cons_of_mem _ m)) (fun m => hl (List.mem_cons_of_mem _ m)) ⟨r, hr.2⟩
      exact ⟨by rw [hr.1, this.1], this.2⟩

/-- If the first two labels of the zone differ (e.g. `acme.example.com.`), the zone is well-formed for
EVERY single label: `strings.Index` then finds the zone at its proper place. -/
theorem wellFormed_of_distinct_labels (a b rest l : Name) (ha : '.' ∉ a) (hb : '.' ∉ b) (hab : a ≠ b)
    (hl : '.' ∉ l) : WellFormedAt (a ++ '.' :: b ++ '.' :: rest) l := by
  intro i hi hpre
  have hd : (l ++ '.' :: (a ++ '.' :: b ++ '.' :: rest)).drop i = l.drop i ++ '.' :: (a ++ '.' :: b ++ '.' :: rest) := by
    rw [List.drop_append_of_le_length hi]
  rw [hd] at hpre
  have hl' : '.' ∉ l.drop i := fun m => hl (List.mem_of_mem_drop m)
  have h1 := prefix_first_dot a (l.drop i) (b ++ '.' :: rest) (a ++ '.' :: b ++ '.' :: rest) ha hl'
    (by simpa [List.append_assoc] using hpre)
  have h2 := prefix_first_dot b a rest (b ++ '.' :: rest) hb ha (by simpa [List.append_assoc] using h1.2)
  exact hab h2.1.symm

/-- on well-formed zones the old label extraction agreed with the repaired one -/
theorem old_label_agrees (zone q l : Name) (hq : lower q = l ++ '.' :: zone) (hwf : WellFormedAt zone l) :
    txtLabelOld zone q = txtLabel zone q := by
  rw [txtLabelOld_label zone q l hq hwf, txtLabel_label zone q l hq]

def zAcme : Name := "acme.".toList
def zFull : Name := "acme.example.com.".toList
def storeOf (label : String) (v : Bytes) : Name → Option (List Bytes) :=
  fun l => if l = label.toList then some [v] else some []

/-- pre-fix: `strings.Index` took the FIRST occurrence: with the single-label zone `acme.`, the TXT query for
`xacme.acme.` looked up label "" instead of `xacme`; the stored challenge was not served. -/
theorem old_index_first_occurrence_defect :
    answerOld ⟨zAcme, []⟩ (storeOf "xacme" [1]) "xacme.acme.".toList tTXT = ([], rcNameError, true) := by decide

/-- pre-fix: `HasSuffix` without a dot boundary and `qname[0:idx-1]`: `tokenxacme.example.com.` (not in the
zone) was answered with the challenge stored for label `token`. -/
theorem old_suffix_without_boundary_leaks :
    answerOld ⟨zFull, []⟩ (storeOf "token" [1]) "tokenxacme.example.com.".toList tTXT =
      ([.txt "tokenxacme.example.com.".toList [1]], rcSuccess, true) := by decide

/-- the repaired code on the same two inputs -/
theorem fixed_on_witnesses :
    answer ⟨zAcme, []⟩ (storeOf "xacme" [1]) "xacme.acme.".toList tTXT =
      ([.txt "xacme.acme.".toList [1]], rcSuccess, true) ∧
    answer ⟨zFull, []⟩ (storeOf "token" [1]) "tokenxacme.example.com.".toList tTXT = ([], rcNameError, true) := by
  decide

/-! ## non-vacuity -/

example : lower "ManaGed.ACME.example.COM.".toList = "managed".toList ++ '.' :: zFull := by decide
example : answer ⟨zFull, []⟩ (fun _ => some [[104, 105], [], [120]]) "ManaGed.ACME.example.COM.".toList tTXT =
    ([.txt "ManaGed.ACME.example.COM.".toList [104, 105], .txt "ManaGed.ACME.example.COM.".toList [120]], rcSuccess, true) := by
  decide
example : isImmediate zFull "ns.acme.example.com.".toList = true := by decide
example : lower "a.b.acme.example.com.".toList = "a".toList ++ '.' :: "b".toList ++ '.' :: zFull := by decide
example : ('.' :: zFull).isSuffixOf (lower "tokenxacme.example.com.".toList) = false := by decide
example : WellFormedAt zFull "managed".toList :=
  wellFormed_of_distinct_labels "acme".toList "example".toList "com.".toList _ (by decide) (by decide) (by decide) (by decide)

end Specter.C48
