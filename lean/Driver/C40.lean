import SpecterModel.C40.Drv

def main : IO Unit := Specter.C40.main
