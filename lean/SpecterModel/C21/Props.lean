import SpecterModel.C21.Model
/-!
# C21 — A clean restart of the append-only log store reproduces its data

All theorems are about `Specter.Aof` (Model.lean): arbitrary mutation histories (every mutation kind,
conflicting prefix appends, imports with overlapping keys, removals, unknown types), any number of
clean stop/reopen cycles at arbitrary positions.
-/
namespace Specter.Aof

/-- the numeric MutationType tags (unfolded by `simp [tags]`) -/
theorem tags : tPut = 1 ∧ tDelete = 3 ∧ tAppend = 5 ∧ tRemove = 7 ∧ tImport = 20 ∧ tRemoveKeys = 21 :=
  ⟨rfl, rfl, rfl, rfl, rfl, rfl⟩

/-- decoding into a fresh (`Reset`) message yields exactly the logged message -/
theorem unmarshalInto_fresh (w : Mutation) : unmarshalInto {} w = w := by
  cases w with
  | mk t k v ks vs =>
    simp only [unmarshalInto, List.nil_append, Mutation.mk.injEq, and_true]
    refine ⟨?_, ?_, ?_⟩
    · by_cases h : t = 0 <;> simp [h]
    · by_cases h : k = [] <;> simp [h]
    · by_cases h : v = [] <;> simp [h]

/-- `replayLogs` with `mut.Reset()` is a left fold of `handleMutation` that stops at the first error -/
theorem replayG_reset_cons (m : Mem) (w : Mutation) (rest : List Mutation) :
    replayG true {} m (w :: rest) =
      match handle m w with
      | .error e => .error e
      | .ok m' => replayG true {} m' rest := by
  simp only [replayG, unmarshalInto_fresh, if_true]
  cases handle m w <;> rfl

theorem replayG_reset_append (m : Mem) (l : List Mutation) (w : Mutation) :
    replayG true {} m (l ++ [w]) =
      match replayG true {} m l with
      | .error e => .error e
      | .ok m' => handle m' w := by
  induction l generalizing m with
  | nil =>
    rw [List.nil_append, replayG_reset_cons]
    simp only [replayG]
    cases handle m w <;> rfl
  | cons x xs ih =>
    rw [List.cons_append, replayG_reset_cons, replayG_reset_cons]
    cases h : handle m x with
    | error e => rfl
    | ok m' => exact ih m'

/-- The restart invariant: replaying the log reproduces the live memory, and the next WAL index is
`LastIndex + 1`. -/
def Inv (s : Store) : Prop := replay s.log = .ok s.mem ∧ s.counter = s.log.length + 1

theorem inv_init : Inv Store.init := ⟨rfl, rfl⟩

/-- One writer-loop iteration preserves the invariant — for every mutation (accepted, rejected by the
pre-check, rejected after logging and rolled back), for the current code and for the pre-repair code. -/
theorem submit_preserves_replay_inv (pre : Bool) (s : Store) (mu : Mutation) (h : Inv s) :
    Inv (submitG pre s mu).1 := by
  obtain ⟨hr, hc⟩ := h
  unfold submitG
  cases hchk : (if pre = true then check s.mem mu else none) with
  | some e => exact ⟨hr, hc⟩
  | none =>
    simp only
    cases hh : handle s.mem mu with
    | ok m' =>
      refine ⟨?_, ?_⟩
      · show replay (s.log ++ [mu]) = .ok m'
        unfold replay at hr ⊢
        rw [replayG_reset_append, hr]; exact hh
      · simp [hc]
    | error e =>
      refine ⟨?_, ?_⟩
      · simpa using hr
      · simp [hc]

/-- C21 invariant on every reachable state. -/
theorem replay_inv (hist : List Mutation) : Inv (runHist Store.init hist) := by
  suffices h : ∀ s, Inv s → Inv (runHist s hist) from h _ inv_init
  induction hist with
  | nil => intro s h; exact h
  | cons mu rest ih => intro s h; exact ih _ (submit_preserves_replay_inv true s mu h)

theorem counter_inv (hist : List Mutation) :
    (runHist Store.init hist).counter = (runHist Store.init hist).log.length + 1 := (replay_inv hist).2

theorem reopen_of_inv (s : Store) (h : Inv s) : s.reopen = .ok s := by
  obtain ⟨hr, hc⟩ := h
  cases s with
  | mk log mem counter =>
    simp only [Store.reopen, reopenLog] at *
    rw [hr]; simp [hc]

/-- **C21.** After any history and a clean stop, `aof.New` succeeds and yields exactly the same store:
same simple values, prefix children and lease tokens for every key, same log, same next index. -/
theorem clean_restart_reproduces (hist : List Mutation) :
    (runHist Store.init hist).reopen = .ok (runHist Store.init hist) :=
  reopen_of_inv _ (replay_inv hist)

/-- reopening an already reopened store changes nothing -/
theorem reopen_idempotent (s s' : Store) (h : s.reopen = .ok s') : s'.reopen = .ok s' := by
  apply reopen_of_inv
  simp only [Store.reopen, reopenLog] at h
  cases hr : replay s.log with
  | error e => rw [hr] at h; cases h
  | ok m =>
    rw [hr] at h
    injection h with h
    subst h
    exact ⟨hr, rfl⟩

/-- histories with clean stop/reopen cycles at arbitrary positions -/
inductive Op where
  | submit (mu : Mutation)
  | restart

def runOps (s : Store) : List Op → Except Err Store
  | [] => .ok s
  | .submit mu :: rest => runOps (submit s mu).1 rest
  | .restart :: rest =>
    match s.reopen with
    | .ok s' => runOps s' rest
    | .error e => .error e

def eraseRestarts : List Op → List Mutation
  | [] => []
  | .submit mu :: rest => mu :: eraseRestarts rest
  | .restart :: rest => eraseRestarts rest

/-- **C21, several cycles.** Restarts are invisible: a history with any number of clean stop/reopen
cycles never fails to reopen and ends in the same store as the history without them. -/
theorem restart_cycles_transparent (ops : List Op) :
    runOps Store.init ops = .ok (runHist Store.init (eraseRestarts ops)) := by
  suffices h : ∀ s, Inv s → runOps s ops = .ok (runHist s (eraseRestarts ops)) from h _ inv_init
  induction ops with
  | nil => intro s _; rfl
  | cons op rest ih =>
    intro s h
    cases op with
    | submit mu => exact ih _ (submit_preserves_replay_inv true s mu h)
    | restart =>
      simp only [runOps, eraseRestarts, reopen_of_inv s h]
      exact ih s h

/-- a rejected mutation leaves log, memory and index unchanged (both code variants) -/
theorem rejected_no_effect (pre : Bool) (s : Store) (mu : Mutation) (e : Err)
    (h : (submitG pre s mu).2 = some e) :
    (submitG pre s mu).1.log = s.log ∧ (submitG pre s mu).1.mem = s.mem ∧
      (submitG pre s mu).1.counter = s.counter := by
  unfold submitG at h ⊢
  cases hchk : (if pre = true then check s.mem mu else none) with
  | some e' => simp
  | none =>
    rw [hchk] at h
    simp only at h ⊢
    cases hh : handle s.mem mu with
    | ok m' => rw [hh] at h; cases h
    | error e' => simp

theorem check_some_handle_error (m : Mem) (mu : Mutation) (e : Err) (h : check m mu = some e) :
    handle m mu = .error e := by
  unfold check at h
  split at h
  · rename_i hc
    injection h with h; subst h
    simp [handle, hc.1, hc.2, tags]
  · cases h

theorem importAll_ok (m : Mem) (ks : List Bytes) (ts : List Transfer) (h : ks.length ≤ ts.length) :
    ∃ m', importAll m ks ts = .ok m' := by
  induction ks generalizing m ts with
  | nil => exact ⟨m, by simp [importAll]⟩
  | cons k ks ih =>
    cases ts with
    | nil => simp at h
    | cons t ts => simp only [importAll]; exact ih _ ts (by simpa using h)

/-- In the code as it is now the rollback branch is dead for well-formed mutations: whatever passes
`checkMutation` is applied successfully. -/
theorem rollback_unreachable (m : Mem) (mu : Mutation) (hwf : mu.WF) (h : check m mu = none) :
    ∃ m', handle m mu = .ok m' := by
  unfold check at h
  unfold handle
  by_cases h1 : mu.type = tPut; · simp [h1]
  by_cases h2 : mu.type = tDelete; · simp [h2, tags]
  by_cases h3 : mu.type = tAppend
  · have : mu.value ∉ (m.get mu.key).children := by
      intro hc; simp [h3, hc] at h
    simp [h3, this, tags]
  by_cases h4 : mu.type = tRemove; · simp [h4, tags]
  by_cases h5 : mu.type = tImport
  · have := importAll_ok m _ _ (hwf h5)
    simpa [h5, tags] using this
  by_cases h6 : mu.type = tRemoveKeys
  · simp [h6, tags]
  · simp [h1, h2, h3, h4, h5, h6]

/-- the live memory is the reference semantics of the history: accepted mutations apply in order,
rejected ones contribute nothing -/
theorem mem_is_spec (hist : List Mutation) :
    (runHist Store.init hist).mem = specState Mem.empty hist := by
  suffices h : ∀ s : Store, (runHist s hist).mem = specState s.mem hist from h Store.init
  induction hist with
  | nil => intro s; rfl
  | cons mu rest ih =>
    intro s
    simp only [runHist, specState, List.foldl_cons]
    rw [ih]
    congr 1
    unfold submit submitG specStep
    cases hchk : check s.mem mu with
    | some e => simp [check_some_handle_error _ _ _ hchk]
    | none =>
      simp only [if_true]
      cases hh : handle s.mem mu <;> simp

/-! ### The regression `mut.Reset()` protects against -/

def valAt (r : Except Err Mem) (k : Bytes) : Option Bytes :=
  match r with
  | .ok m => some (m.get k).val
  | .error _ => none

def reuseWitness : List Mutation :=
  [{ type := tPut, key := [1], value := [9] }, { type := tPut, key := [2], value := [] }]

/-- Replaying into a message that is not reset between entries does NOT reproduce the store: after
`Put(k1, v); Put(k2, empty)` the second entry has no `value` field on the wire, the stale `v` stays
in the decode buffer and `k2` comes back with `v`. -/
theorem replay_reusing_buffers_violates :
    valAt (replayG false {} Mem.empty (runHist Store.init reuseWitness).log) [2] = some [9] ∧
    valAt (.ok (runHist Store.init reuseWitness).mem) [2] = some [] := by
  decide

/-! ### Non-vacuity -/

def exHist : List Mutation :=
  [ { type := tAppend, key := [1], value := [7] },
    { type := tAppend, key := [1], value := [7] },            -- rejected: conflict
    { type := tPut, key := [2], value := [5, 6] },
    { type := tImport, keys := [[1], [3]], values := [{ value := [4], children := [[7], [8]], lease := 3 }, {}] },
    { type := tRemoveKeys, keys := [[2]] },
    { type := tRemove, key := [1], value := [7] } ]

example : (submit (submit Store.init exHist[0]).1 exHist[1]).2 = some .conflict := by decide
example : (runHist Store.init exHist).log.length = 5 := by decide
example : ((runHist Store.init exHist).mem.get [1]).children = [[8]] ∧ ((runHist Store.init exHist).mem.get [1]).val = [4]
    ∧ ((runHist Store.init exHist).mem.get [2]).val = [] := by decide
example : ∀ mu ∈ exHist, mu.WF := by decide
example : (runOps Store.init [.submit exHist[0], .restart, .submit exHist[1], .restart, .restart, .submit exHist[2]]).toOption.map
    (fun s => (s.log.length, s.counter)) = some (2, 3) := by decide

end Specter.Aof
