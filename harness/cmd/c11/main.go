// C11 correspondence: real spec/chord.Between / ModuloSum / Hash vs the generated Lean defs and the ring spec.
package main

import (
	"strconv"

	"github.com/zeebo/xxh3"
	"go.miragespace.co/specter/spec/chord"
	"verif/harness/hlib"
)

const M = uint64(1) << 48

var lattice = []uint64{0, 1, 2, M/2 - 1, M / 2, M - 2, M - 1, M, M + 1, 1 << 63, ^uint64(0)}

func u(x uint64) string { return strconv.FormatUint(x, 10) }

func main() {
	r := hlib.Start()
	r.Rule = "tuples (low,target,high,incl) / (x,y) / byte strings; non-trivial = distinct tuple; boundary lattice {0,1,2,M/2±,M-2,M-1,M,M+1,2^63,2^64-1}^3 enumerated first, then random values biased to boundaries, equal pairs and ±1 neighbours"
	rng := hlib.NewRng(r.Seed)
	between := func(l, t, h uint64, incl bool) {
		res := chord.Between(l, t, h, incl)
		r.Emit("between "+u(l)+" "+u(t)+" "+u(h)+" "+hlib.B(incl), hlib.B(res))
		r.Case("b" + u(l) + "," + u(t) + "," + u(h) + hlib.B(incl))
		if l < M && t < M && h < M {
			r.Count("between:in-ring")
		} else {
			r.Count("between:outside-ring")
		}
		if l == h {
			r.Count("between:low==high")
		}
		if h < l {
			r.Count("between:wrap")
		}
	}
	modsum := func(x, y uint64) {
		r.Emit("modsum "+u(x)+" "+u(y), u(chord.ModuloSum(x, y)))
		r.Case("m" + u(x) + "," + u(y))
		r.Count("modsum")
	}
	if r.Replay != "" {
		for _, t := range r.ReplayLines() {
			p := func(i int) uint64 { v, _ := strconv.ParseUint(t[i], 10, 64); return v }
			switch t[0] {
			case "between":
				between(p(1), p(2), p(3), t[4] == "true")
			case "modsum":
				modsum(p(1), p(2))
			case "hash":
				b := hlib.UnHex(t[1])
				r.Emit("hash "+hlib.Hex(b)+" "+u(xxh3.Hash(b)), u(chord.Hash(b)))
			}
		}
		r.Finish()
		return
	}
	for _, l := range lattice {
		for _, t := range lattice {
			for _, h := range lattice {
				between(l, t, h, false)
				between(l, t, h, true)
			}
		}
	}
	for _, x := range lattice {
		for _, y := range lattice {
			modsum(x, y)
		}
	}
	val := func() uint64 {
		switch rng.Intn(6) {
		case 0:
			return hlib.Pick(rng, lattice)
		case 1:
			return rng.U64() // any uint64
		case 2:
			return rng.U64() % 16
		case 3:
			return M - 1 - rng.U64()%16
		default:
			return rng.U64() % M
		}
	}
	n := 200_000
	if r.Thorough() {
		n = 3_000_000
	}
	for i := 0; i < n; i++ {
		l, t, h := val(), val(), val()
		switch rng.Intn(8) {
		case 0:
			h = l
		case 1:
			t = l
		case 2:
			t = h
		case 3:
			t = l + 1
		case 4:
			t = h - 1
		}
		between(l, t, h, rng.Bool())
		if i%4 == 0 {
			modsum(val(), val())
		}
		if i%16 == 0 {
			b := rng.Bytes(rng.Intn(65))
			r.Emit("hash "+hlib.Hex(b)+" "+u(xxh3.Hash(b)), u(chord.Hash(b)))
			r.Case("h" + hlib.Hex(b))
			r.Count("hash")
		}
	}
	r.Finish()
}
