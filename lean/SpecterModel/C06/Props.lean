import SpecterModel.C08.Props
/-!
# C06 — A node takes part in at most one membership change at a time

The membership lock of a node IS its lifecycle state (`Active → Transferring / Leaving / Joining`
by compare-and-swap, proved atomic under every schedule in C13). Here, on the ring model:

* a node that is not `Active` refuses every further join hand-off, leave request and own leave with
  a retryable error and changes nothing (`busy_refuses_*`);
* every failing branch of a join or leave attempt returns EVERY node to the lifecycle state it had
  before the attempt (`join_failure_restores`, `executeLeave_failure_restores`): refused or cleanly
  failed attempts leave the touched nodes serving requests.
-/
namespace Specter.C06
open Specter.Ring Specter.C08

/-! ### a busy node refuses -/

/-- a node holding a membership change refuses a join hand-off: retryable, nothing changes -/
theorem busy_refuses_join (net : Net) (s j : Nat) (nd : Node) (hg : net.get s = some nd)
    (hb : nd.state ≠ .active) : handOff net s j = (net, .error .joinInvalidState) := by
  rcases handOff_cases net s j with ⟨hn, _⟩ | ⟨_, _, _, hh⟩ | ⟨nd', hg', ha, _⟩ | ⟨nd', _, hg', ha, _⟩ |
      ⟨nd', _, hg', ha, _⟩ | ⟨nd', _, _, hg', ha, _⟩
  · rw [hg] at hn; simp at hn
  · exact hh
  all_goals (rw [hg] at hg'; injection hg' with hg'; subst hg'; exact absurd ha hb)

/-- a node holding a membership change refuses a leave request: retryable, nothing changes -/
theorem busy_refuses_leave_request (net : Net) (s : Nat) (nd : Node) (hg : net.get s = some nd)
    (hup : nd.crashed = false) (hb : nd.state ≠ .active) :
    requestToLeave net s = (net, some .leaveInvalidState) := by
  unfold requestToLeave
  simp only [hg, hup]
  have : (nd.state == .active) = false := by simpa using hb
  simp [this]

theorem refusals_are_retryable :
    Err.joinInvalidState.retryable = true ∧ Err.leaveInvalidState.retryable = true := ⟨rfl, rfl⟩

/-! ### failed attempts restore every lifecycle state -/

theorem requestToLeave_fail (net net' : Net) (s : Nat) (e : Err)
    (h : requestToLeave net s = (net', some e)) : net' = net := by
  unfold requestToLeave at h
  cases hg : net.get s with
  | none => simp [hg] at h; exact h.1.symm
  | some nd =>
    simp only [hg] at h
    split at h
    · simp at h; exact h.1.symm
    · split at h
      · simp at h
      · simp at h; exact h.1.symm

theorem requestToLeave_ok (net net' : Net) (s : Nat)
    (h : requestToLeave net s = (net', none)) :
    ∃ nd, net.get s = some nd ∧ nd.crashed = false ∧ nd.state = .active ∧
      net' = net.upd s (fun nd => { nd with state := .transferring }) := by
  unfold requestToLeave at h
  cases hg : net.get s with
  | none => simp [hg] at h
  | some nd =>
    simp only [hg] at h
    split at h
    · simp at h
    · rename_i hc
      split at h
      · rename_i ha
        simp at h
        exact ⟨nd, rfl, by simpa using hc, by simpa using ha, h.symm⟩
      · simp at h

/-- releasing the membership lock of a live node -/
theorem finish_release (net : Net) (s : Nat) (nd : Node) (hg : net.get s = some nd) (hup : nd.crashed = false) :
    finish net s false true =
      net.upd s (fun nd => if nd.state == .transferring then { nd with state := .active } else nd) := by
  unfold finish; simp [hg, hup]

/-- lock then release of the successor gives back every lifecycle state -/
theorem lock_release_states (net : Net) (s : Nat) (nd : Node) (hg : net.get s = some nd)
    (hup : nd.crashed = false) (ha : nd.state = .active) (n : Nat) :
    stateOf (finish (net.upd s (fun nd => { nd with state := .transferring })) s false true) n = stateOf net n := by
  have hg' : (net.upd s (fun nd => { nd with state := .transferring })).get s =
      some { nd with state := .transferring } := by rw [get_upd_same, hg]; rfl
  rw [finish_release _ s _ hg' (by simpa using hup), stateOf_upd]
  by_cases hn : n = s
  · subst hn; simp [hg', stateOf, hg, ha]
  · simp only [hn, if_false]; rw [stateOf_upd]; simp [hn]

theorem leaveLocks_fail (net net' : Net) (l succ : Nat) (e : Err)
    (h : leaveLocks net l succ = (net', some e)) : ∀ n, stateOf net' n = stateOf net n := by
  intro n
  unfold leaveLocks at h
  by_cases hgt : l > succ
  · simp only [hgt, if_true] at h
    cases hr : requestToLeave net succ with
    | mk n1 r =>
      cases r with
      | some e' => simp [hr] at h; rw [← h.1, requestToLeave_fail net n1 succ e' hr]
      | none =>
        obtain ⟨nd, hg, hup, ha, hn1⟩ := requestToLeave_ok net n1 succ hr
        simp only [hr] at h
        split at h
        · simp at h
        · simp at h
          rw [← h.1, hn1]
          exact lock_release_states net succ nd hg hup ha n
  · simp only [hgt, if_false] at h
    split at h
    · simp at h; rw [← h.1]
    · rename_i hact
      have hact' : stateOf net l = some .active := by simpa [stateOf] using hact
      cases hr : requestToLeave (net.upd l fun nd => { nd with state := .leaving }) succ with
      | mk n1 r =>
        cases r with
        | none => simp [hr] at h
        | some e' =>
          simp only [hr] at h
          simp at h
          rw [← h.1, requestToLeave_fail _ n1 succ e' hr, stateOf_upd]
          by_cases hn : n = l
          · subst hn
            simp only [if_true]
            rw [get_upd_same]
            unfold stateOf at hact'
            cases hgl : net.get n with
            | none => simp [hgl] at hact'
            | some ndl => simp [hgl] at hact' ⊢; simp [stateOf, hgl, hact']
          · simp only [hn, if_false]; rw [stateOf_upd]; simp [hn]

/-- what a successful lock acquisition looks like: two distinct live Active nodes, the leaver becomes
Leaving, the successor Transferring, nothing else changes -/
theorem leaveLocks_ok (net net' : Net) (l succ : Nat) (h : leaveLocks net l succ = (net', none)) :
    l ≠ succ ∧ stateOf net l = some .active ∧
    ∃ nds, net.get succ = some nds ∧ nds.crashed = false ∧ nds.state = .active ∧
      ∀ m, net'.get m =
        if m = l then (net.get l).map (fun nd => { nd with state := .leaving })
        else if m = succ then some { nds with state := .transferring } else net.get m := by
  unfold leaveLocks at h
  by_cases hgt : l > succ
  · simp only [hgt, if_true] at h
    cases hr : requestToLeave net succ with
    | mk n1 r =>
      cases r with
      | some e' => simp [hr] at h
      | none =>
        obtain ⟨nd, hg, hup, ha, hn1⟩ := requestToLeave_ok net n1 succ hr
        simp only [hr] at h
        have hls : l ≠ succ := by omega
        split at h
        · rename_i hact
          simp at h
          have hgl : n1.get l = net.get l := by rw [hn1, get_upd_other _ _ _ _ hls]
          have hact' : stateOf net l = some .active := by
            unfold stateOf; rw [← hgl]; simpa using hact
          refine ⟨hls, hact', nd, hg, hup, ha, ?_⟩
          intro m
          rw [← h, get_upd]
          by_cases hm : m = l
          · subst hm; simp [hgl]
          · simp only [hm, if_false]
            rw [hn1, get_upd]
            by_cases hs : m = succ
            · subst hs; simp [hg]
            · simp [hs]
        · simp at h
  · simp only [hgt, if_false] at h
    split at h
    · simp at h
    · rename_i hact
      have hact' : stateOf net l = some .active := by simpa [stateOf] using hact
      cases hr : requestToLeave (net.upd l fun nd => { nd with state := .leaving }) succ with
      | mk n1 r =>
        cases r with
        | some e' => simp [hr] at h
        | none =>
          obtain ⟨nd, hg, hup, ha, hn1⟩ := requestToLeave_ok _ n1 succ hr
          simp only [hr] at h
          simp at h
          have hls : l ≠ succ := by
            intro e; subst e
            rw [get_upd_same] at hg
            cases hgl : net.get l with
            | none => simp [hgl] at hg
            | some x => simp [hgl] at hg; rw [← hg] at ha; simp at ha
          rw [get_upd_other _ _ _ _ (Ne.symm hls)] at hg
          refine ⟨hls, hact', nd, hg, hup, ha, ?_⟩
          intro m
          rw [← h, hn1, get_upd]
          by_cases hs : m = succ
          · subst hs
            simp only [if_true, Ne.symm hls, if_false]
            rw [get_upd_other _ _ _ _ (Ne.symm hls), hg]; rfl
          · simp only [hs, if_false]
            rw [get_upd]

theorem transferDown_states (net net' : Net) (l succ : Nat) (store : List KEntry)
    (h : transferDown net l succ store = some net') : ∀ n, stateOf net' n = stateOf net n := by
  intro n
  unfold transferDown at h
  simp only at h
  split at h
  · simp at h; rw [← h]
  · cases hi : importAt net succ (rangeKeys store 0 0) with
    | none => simp [hi] at h
    | some n2 =>
      simp only [hi] at h; simp at h
      rw [← h, stateOf_upd]
      have himp : ∀ m, stateOf n2 m = stateOf net m := by
        intro m
        unfold importAt at hi
        cases hgs : net.get succ with
        | none => simp [hgs] at hi
        | some nds =>
          simp only [hgs] at hi
          split at hi
          · simp at hi
          · split at hi <;> simp at hi
            all_goals (rw [← hi, stateOf_upd]; by_cases hm : m = succ <;> simp [hm, stateOf, hgs])
      by_cases hn : n = l
      · subst hn
        simp only [if_true]
        have := himp n
        unfold stateOf at this ⊢
        cases hg2 : n2.get n with
        | none => simp [hg2] at this ⊢; exact this
        | some x => simp [hg2] at this ⊢; exact this
      · simp only [hn, if_false]; exact himp n

/-- **C06 (leave).** Whatever goes wrong in a leave attempt — nil predecessor, no successor, a busy
successor, a busy leaver, either lock order, a failed key transfer — every node of the ring ends in
the lifecycle state it had before the attempt: all locks taken on the way are released. -/
theorem executeLeave_failure_restores (net net' : Net) (l : Nat) (e : Err)
    (h : executeLeave net l = (net', .error e)) : ∀ n, stateOf net' n = stateOf net n := by
  intro n
  unfold executeLeave at h
  cases hg : net.get l with
  | none => simp [hg] at h; rw [← h.1]
  | some nd =>
    simp only [hg] at h
    cases hp : nd.pred with
    | none => simp [hp] at h; rw [← h.1]
    | some pre =>
      simp only [hp] at h
      cases hs : nd.succs.head? with
      | none => simp [hs] at h; rw [← h.1]
      | some succ =>
        simp only [hs] at h
        split at h
        · simp at h
        · cases hl : leaveLocks net l succ with
          | mk n1 r =>
            cases r with
            | some e' =>
              simp [hl] at h; rw [← h.1]; exact leaveLocks_fail net n1 l succ e' hl n
            | none =>
              simp only [hl] at h
              obtain ⟨hls, hact, nds, hgs, hups, hsa, hget⟩ := leaveLocks_ok net n1 l succ hl
              cases ht : transferDown n1 l succ nd.store with
              | some n2 => simp [ht] at h
              | none =>
                simp only [ht] at h; simp at h
                rw [← h.1]
                -- release: the leaver back to Active, then the successor's lock
                have hg1s : (n1.upd l fun nd => { nd with state := .active }).get succ =
                    some { nds with state := .transferring } := by
                  rw [get_upd_other _ _ _ _ (Ne.symm hls), hget]; simp [Ne.symm hls]
                rw [finish_release _ succ _ hg1s (by simpa using hups), stateOf_upd]
                by_cases hn : n = succ
                · subst hn; simp [hg1s, stateOf, hgs, hsa]
                · simp only [hn, if_false]
                  rw [stateOf_upd]
                  by_cases hnl : n = l
                  · subst hnl
                    simp only [if_true]
                    rw [hget]; simp only [if_true]
                    unfold stateOf at hact ⊢
                    cases hgl : net.get n with
                    | none => simp [hgl] at hact
                    | some x => simp [hgl] at hact ⊢; exact hact.symm
                  · simp only [hnl, if_false]
                    unfold stateOf; rw [hget]; simp [hnl, hn]

/-- **C06 (join).** A failed join attempt leaves every node in the lifecycle state it had before
(the joiner is Inactive again; no node stays locked). -/
theorem join_failure_restores (net net' : Net) (j peer : Nat) (e : Err)
    (h : joinBegin net j peer = (net', some e)) : ∀ n, stateOf net' n = stateOf net n := by
  intro n
  unfold joinBegin at h
  cases hg : net.get j with
  | none => simp [hg] at h; rw [← h.1]
  | some nd =>
    simp only [hg] at h
    split at h
    · simp at h; rw [← h.1]
    · rename_i hin
      have hin' : nd.state = .inactive := by simpa using hin
      cases hr : requestToJoin (net.upd j fun nd => { nd with state := .joining }) FUEL peer j with
      | mk n1 r =>
        cases r with
        | ok v => simp [hr] at h
        | error e' =>
          simp only [hr] at h; simp at h
          have := refusal_changes_nothing (net.upd j fun nd => { nd with state := .joining }) FUEL peer j e'
            (by rw [hr]; rfl)
          rw [hr] at this; simp at this
          rw [← h.1, this, stateOf_upd]
          by_cases hn : n = j
          · subst hn; simp [get_upd_same, hg, stateOf, hin']
          · simp only [hn, if_false]; rw [stateOf_upd]; simp [hn]

/-- non-vacuity: a busy (Transferring) successor makes the leave of node 100 fail with a retryable
error and every node keeps its state. -/
def busyNet : Net :=
  [(100, { state := .active, pred := some 200, succs := [200, 100], fingers := List.replicate 48 (some 200) }),
   (200, { state := .transferring, pred := some 100, succs := [100, 200], fingers := List.replicate 48 (some 100) })]

example : errOf (executeLeave busyNet 100).2 = some .leaveInvalidState := by decide
example : stateOf (executeLeave busyNet 100).1 100 = some .active ∧ stateOf (executeLeave busyNet 100).1 200 = some .transferring := by
  decide

end Specter.C06
