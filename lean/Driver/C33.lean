import SpecterModel.C33.Drv

def main : IO Unit := Specter.C33.main
