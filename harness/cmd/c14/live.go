// LIVE part of the C14 correspondence: REAL local nodes behind the real handlers (see the head of main.go).
package main

import (
	"context"
	"errors"
	"fmt"
	"math"
	"strconv"
	"time"

	"github.com/stretchr/testify/mock"
	"github.com/twitchtv/twirp"
	"go.uber.org/zap"

	chordImpl "go.miragespace.co/specter/chord"
	"go.miragespace.co/specter/kv/memory"
	"go.miragespace.co/specter/spec/chord"
	"go.miragespace.co/specter/spec/mocks"
	"go.miragespace.co/specter/spec/protocol"
	"go.miragespace.co/specter/spec/rtt"
	"verif/harness/hlib"
)

type liveNode struct {
	node   *chordImpl.LocalNode
	caller *chordImpl.RemoteNode
}

type live struct {
	g     *rig
	nodes map[string]*liveNode // active / inactive / left
}

func newRealNode(id uint64) *chordImpl.LocalNode {
	m := new(mocks.Measurement)
	m.On("Snapshot", mock.Anything, mock.Anything).Return(&rtt.Statistics{})
	return chordImpl.NewLocalNode(chordImpl.NodeConfig{
		BaseLogger:               zap.NewNop(),
		ChordClient:              new(mocks.ChordClient),
		Identity:                 &protocol.Node{Id: id, Address: "127.0.0.1:" + strconv.FormatUint(id, 10)},
		KVProvider:               memory.WithHashFn(chord.Hash),
		StabilizeInterval:        time.Hour, // a single-node ring needs no background repair
		FixFingerInterval:        time.Hour,
		PredecessorCheckInterval: time.Hour,
		NodesRTT:                 m,
	})
}

func setupLive(g *rig) *live {
	L := &live{g: g, nodes: map[string]*liveNode{}}
	active := newRealNode(5001)
	if err := active.Create(); err != nil {
		panic(err)
	}
	inactive := newRealNode(5002)
	left := newRealNode(5003)
	if err := left.Create(); err != nil {
		panic(err)
	}
	go left.Leave() // returns only when the (sleeping) background tasks wake up; the state is Left long before
	for i := 0; left.Ping() != chord.ErrNodeGone; i++ {
		if i > 5000 {
			panic("the leaving node never reached the Left state")
		}
		time.Sleep(2 * time.Millisecond)
	}
	for name, n := range map[string]*chordImpl.LocalNode{"active": active, "inactive": inactive, "left": left} {
		L.nodes[name] = &liveNode{node: n, caller: g.serve(n.Identity(), n)}
	}
	return L
}

// one request, as both the node itself and a remote caller can be asked (both are chord.VNode)
type liveArgs struct {
	key   []byte
	ttl   time.Duration
	token uint64
	peer  chord.VNode
}

type liveMethod struct {
	name   string
	kv     bool
	hasTTL bool
	call   func(ctx context.Context, n chord.VNode, a liveArgs) (uint64, error)
}

func e0(err error) (uint64, error) { return 0, err }

var liveMethods = []liveMethod{
	{"Ping", false, false, func(_ context.Context, n chord.VNode, _ liveArgs) (uint64, error) { return e0(n.Ping()) }},
	{"Notify", false, false, func(_ context.Context, n chord.VNode, a liveArgs) (uint64, error) { return e0(n.Notify(a.peer)) }},
	{"FindSuccessor", false, false, func(_ context.Context, n chord.VNode, _ liveArgs) (uint64, error) {
		_, e := n.FindSuccessor(42)
		return e0(e)
	}},
	{"GetSuccessors", false, false, func(_ context.Context, n chord.VNode, _ liveArgs) (uint64, error) {
		_, e := n.GetSuccessors()
		return e0(e)
	}},
	{"GetPredecessor", false, false, func(_ context.Context, n chord.VNode, _ liveArgs) (uint64, error) {
		_, e := n.GetPredecessor()
		return e0(e)
	}},
	{"RequestToJoin", false, false, func(_ context.Context, n chord.VNode, a liveArgs) (uint64, error) {
		_, _, e := n.RequestToJoin(a.peer)
		return e0(e)
	}},
	// stabilize=false: only the state transition (refused unless the node is Transferring)
	{"FinishJoin", false, false, func(_ context.Context, n chord.VNode, _ liveArgs) (uint64, error) {
		return e0(n.FinishJoin(false, true))
	}},
	{"RequestToLeave", false, false, func(_ context.Context, n chord.VNode, a liveArgs) (uint64, error) {
		return e0(n.RequestToLeave(a.peer))
	}},
	{"FinishLeave", false, false, func(_ context.Context, n chord.VNode, _ liveArgs) (uint64, error) {
		return e0(n.FinishLeave(false, true))
	}},
	{"Put", true, false, func(c context.Context, n chord.VNode, a liveArgs) (uint64, error) {
		return e0(n.Put(c, a.key, []byte("v")))
	}},
	{"Get", true, false, func(c context.Context, n chord.VNode, a liveArgs) (uint64, error) {
		_, e := n.Get(c, a.key)
		return e0(e)
	}},
	{"Delete", true, false, func(c context.Context, n chord.VNode, a liveArgs) (uint64, error) { return e0(n.Delete(c, a.key)) }},
	{"Append", true, false, func(c context.Context, n chord.VNode, a liveArgs) (uint64, error) {
		return e0(n.PrefixAppend(c, a.key, []byte("c")))
	}},
	{"List", true, false, func(c context.Context, n chord.VNode, a liveArgs) (uint64, error) {
		_, e := n.PrefixList(c, a.key)
		return e0(e)
	}},
	{"Contains", true, false, func(c context.Context, n chord.VNode, a liveArgs) (uint64, error) {
		_, e := n.PrefixContains(c, a.key, []byte("c"))
		return e0(e)
	}},
	{"Remove", true, false, func(c context.Context, n chord.VNode, a liveArgs) (uint64, error) {
		return e0(n.PrefixRemove(c, a.key, []byte("c")))
	}},
	{"Acquire", true, true, func(c context.Context, n chord.VNode, a liveArgs) (uint64, error) { return n.Acquire(c, a.key, a.ttl) }},
	{"Renew", true, true, func(c context.Context, n chord.VNode, a liveArgs) (uint64, error) {
		return n.Renew(c, a.key, a.ttl, a.token)
	}},
	{"Release", true, false, func(c context.Context, n chord.VNode, a liveArgs) (uint64, error) {
		return e0(n.Release(c, a.key, a.token))
	}},
	{"Import", false, false, func(c context.Context, n chord.VNode, _ liveArgs) (uint64, error) {
		return e0(n.Import(c, [][]byte{[]byte("k")}, []*protocol.KVTransfer{{SimpleValue: []byte("v")}}))
	}},
	{"ListKeys", true, false, func(c context.Context, n chord.VNode, a liveArgs) (uint64, error) {
		_, e := n.ListKeys(c, a.key)
		return e0(e)
	}},
}

func liveMethodByName(name string) (liveMethod, bool) {
	for _, m := range liveMethods {
		if m.name == name {
			return m, true
		}
	}
	return liveMethod{}, false
}

// which (method, scenario) pairs exist per node state; everything else is refused (replay of foreign lines)
func liveScenarioOK(ns string, m liveMethod, sc string) bool {
	if ns != "active" {
		return sc == "plain" // everything fails before it reaches any state
	}
	switch m.name {
	case "Acquire":
		return sc == "free" || sc == "held" || sc == "lapsed"
	case "Renew":
		return sc == "free" || sc == "heldmine" || sc == "heldother" || sc == "lapsed"
	case "Release":
		return sc == "free" || sc == "heldmine" || sc == "heldother"
	case "Append":
		return sc == "dup"
	case "Get", "List", "Contains", "ListKeys", "Ping", "FindSuccessor", "GetSuccessors", "GetPredecessor",
		"FinishJoin", "FinishLeave", "RequestToJoin":
		return sc == "plain" // these leave an active single-node ring as it is
	}
	return false
}

// a lease taken ahead of time whose time will be up when the case runs
type lapsedLease struct {
	token uint64
	at    time.Time
}

// run puts one request to the node itself and, in the same state, to the node through the real RPC path.
// The case is self-contained: it prepares the lease / prefix state it names and restores it afterwards.
func (L *live) run(r *hlib.Run, ns string, m liveMethod, sc string, ttl time.Duration, ktok string, pre *lapsedLease) {
	ln := L.nodes[ns]
	if ln == nil || !liveScenarioOK(ns, m, sc) || (m.name == "Acquire" && sc == "lapsed" && ttl >= time.Second) {
		return
	}
	ctx := L.g.ctx
	a := liveArgs{ttl: ttl, token: 1}
	if m.kv {
		var ok bool
		if a.key, ok = makeKey(ktok); !ok {
			return
		}
	} else {
		ktok = "-"
	}
	ttlTok := "-"
	if m.hasTTL {
		ttlTok = strconv.FormatInt(int64(ttl), 10)
	}
	switch m.name {
	case "RequestToJoin":
		if ns == "active" { // a joiner with the node's own id: refused without touching the ring
			a.peer = &stub{id: &protocol.Node{Id: ln.node.ID(), Address: "127.0.0.1:77"}}
		} else {
			a.peer = L.g.peerVN
		}
	default:
		a.peer = L.g.peerVN
	}
	prepFailed := func(what string, err error) {
		r.Emit(fmt.Sprintf("liveprep %s %s %s %s", m.name, ns, sc, ktok), fmt.Sprintf("failed:%s:%s", what, identify(err)))
	}
	// ---- the state the scenario names (set up on the node directly) ----
	var heldTok uint64
	holding := false
	switch sc {
	case "held", "heldmine", "heldother":
		t, err := ln.node.Acquire(ctx, a.key, time.Minute)
		if err != nil {
			prepFailed("acquire", err)
			return
		}
		heldTok, holding = t, true
	case "lapsed":
		if pre == nil {
			t, err := ln.node.Acquire(ctx, a.key, time.Second)
			if err != nil {
				prepFailed("acquire", err)
				return
			}
			pre = &lapsedLease{t, time.Now()}
		}
		if d := 1100*time.Millisecond - time.Since(pre.at); d > 0 {
			time.Sleep(d)
		}
		heldTok, holding = pre.token, true
	case "dup":
		if err := ln.node.PrefixAppend(ctx, a.key, []byte("c")); err != nil {
			prepFailed("append", err)
			return
		}
	}
	switch sc {
	case "heldmine", "lapsed":
		a.token = heldTok
	case "heldother":
		a.token = heldTok + 1
	}
	// a granted request changes the lease: put it back so that the other side meets the same state
	settle := func(name string, got uint64) bool {
		switch name {
		case "Acquire": // granted on a free / lapsed lease: give it back
			if err := ln.node.Release(ctx, a.key, got); err != nil {
				prepFailed("undo-acquire", err)
				return false
			}
			if sc == "lapsed" {
				holding = false
			}
		case "Renew": // granted: the lease goes on under the new token
			heldTok, a.token = got, got
		case "Release": // granted: take it again
			t, err := ln.node.Acquire(ctx, a.key, time.Minute)
			if err != nil {
				prepFailed("re-acquire", err)
				return false
			}
			heldTok, a.token = t, t
		}
		return true
	}
	// ---- the origin: the node's own answer ----
	var oerr error
	var otok uint64
	func() {
		defer func() {
			if p := recover(); p != nil {
				oerr = fmt.Errorf("panic: %v", p)
			}
		}()
		otok, oerr = m.call(ctx, ln.node, a)
	}()
	oid, omsg := "noerror", ""
	if oerr != nil {
		omsg = oerr.Error()
		oid = identify(oerr)
		if oid == "other" || len(oid) > 3 && oid[:3] == "tw:" {
			oid = "x" + hlib.HexS(omsg)
		}
	} else if !settle(m.name, otok) {
		return
	}
	lhs := fmt.Sprintf("live %s %s %s %s %s %s %s", m.name, ns, sc, ttlTok, oid, hlib.B(chord.ErrorIsRetryable(oerr)), ktok)
	// ---- the same request through the real handler / twirp / RemoteNode path ----
	attempt := func() (res string, transport bool) {
		defer func() {
			if p := recover(); p != nil {
				res = "panic"
			}
		}()
		rtok, err := m.call(ctx, ln.caller, a)
		if err == nil {
			settle(m.name, rtok)
			return "noerror", false
		}
		id := identify(err)
		msg, kv := "-", "-"
		if te, ok := err.(twirp.Error); ok {
			msg = hlib.B(te.Msg() == omsg)
			if v, has := te.MetaMap()["kv"]; !has {
				kv = "none"
			} else if v == string(a.key) {
				kv = "same"
			} else {
				kv = "diff"
			}
			// not the handler's answer to this request (client-side timeout / transport hiccup): try again
			transport = te.Msg() != omsg
		}
		return fmt.Sprintf("id=%s retry=%s msgsame=%s kv=%s", id, hlib.B(chord.ErrorIsRetryable(err)), msg, kv), transport
	}
	var res string
	for try := 0; try < 4; try++ {
		var transport bool
		res, transport = attempt()
		if !transport || transportRetries >= 30 {
			break
		}
		transportRetries++
		r.Count("transport-level-failure-retried")
		time.Sleep(200 * time.Millisecond)
	}
	r.Emit(lhs, res)
	r.Case(lhs + "|" + res)
	r.Count("live:node-" + ns)
	r.Count("live:method:" + m.name)
	r.Count("live:scenario:" + sc)
	r.Count("live:origin:" + map[bool]string{true: "noerror", false: identify(oerr)}[oerr == nil])
	if m.hasTTL {
		r.Count("live:ttl:" + ttlBucket(ttl))
	}
	if m.kv {
		r.Count("live:keylen:" + lenBucket(len(a.key)))
	}
	// ---- restore ----
	if holding {
		ln.node.Release(ctx, a.key, heldTok)
	}
	if sc == "dup" {
		ln.node.PrefixRemove(ctx, a.key, []byte("c"))
	}
}

func ttlBucket(d time.Duration) string {
	switch {
	case d < 0:
		return "negative"
	case d == 0:
		return "0"
	case d < time.Second:
		return "(0,1s)"
	case d == time.Second:
		return "1s"
	case d < 2*time.Second:
		return "(1s,2s)"
	default:
		return ">=2s"
	}
}

// ttls around the provider's bound (a ttl truncated to whole seconds must be at least one second) and far from it
var boundaryTTLs = []time.Duration{
	0, 1, time.Millisecond, 500 * time.Millisecond, time.Second - 1, -1, -time.Second, -time.Minute, math.MinInt64,
	time.Second, time.Second + 1, 1500 * time.Millisecond, 2*time.Second - 1, 2 * time.Second, time.Minute, time.Hour,
}

func (L *live) replay(r *hlib.Run, t []string) {
	// live <method> <node state> <scenario> <ttl> <origin> <origin retryable> <key token>
	if len(t) != 8 {
		return
	}
	m, ok := liveMethodByName(t[1])
	if !ok {
		return
	}
	var ttl time.Duration
	if t[4] != "-" {
		n, err := strconv.ParseInt(t[4], 10, 64)
		if err != nil {
			return
		}
		ttl = time.Duration(n)
	}
	L.run(r, t[2], m, t[3], ttl, t[7], nil)
}

func (L *live) all(r *hlib.Run, rng *hlib.Rng, boundaryKey, randKey func() string) {
	act := L.nodes["active"].node
	ctx := L.g.ctx
	mm := func(name string) liveMethod { m, _ := liveMethodByName(name); return m }
	acquire, renew, release := mm("Acquire"), mm("Renew"), mm("Release")
	randTTL := func() time.Duration {
		switch rng.Intn(4) {
		case 0: // sub-second
			return time.Duration(rng.Intn(int(time.Second)))
		case 1: // negative
			return -time.Duration(rng.U64() >> uint(1+rng.Intn(62)))
		case 2: // [1s, 3s)
			return time.Second + time.Duration(rng.Intn(int(2*time.Second)))
		default: // large (up to ~2 years: the lease's end must stay a representable time)
			return time.Duration(rng.U64() >> uint(8+rng.Intn(33)))
		}
	}
	keys := []string{"a1", "a0", "u9"}
	nk, nr := 3, 6
	if r.Thorough() {
		nk, nr = 12, 40
	}
	for i := 0; i < nk; i++ {
		keys = append(keys, boundaryKey(), randKey())
	}
	// leases whose time will be up: taken now (lease names of distinct lengths nobody else uses), used at the end
	type lapsedCase struct {
		ktok string
		pre  *lapsedLease
	}
	var lapsed []lapsedCase
	nl := 8
	if r.Thorough() {
		nl = 24
	}
	for i := 0; i < nl; i++ {
		ktok := fmt.Sprintf("%s%d", string("au"[i%2]), 300+i)
		key, _ := makeKey(ktok)
		if t, err := act.Acquire(ctx, key, time.Second); err == nil {
			lapsed = append(lapsed, lapsedCase{ktok, &lapsedLease{t, time.Now()}})
		} else {
			r.Emit(fmt.Sprintf("liveprep Acquire active lapsed %s", ktok), "failed:acquire:"+identify(err))
		}
	}
	ttls := append([]time.Duration{}, boundaryTTLs...)
	for i := 0; i < nr; i++ {
		ttls = append(ttls, randTTL())
	}
	// ---- the active node: lease requests, every ttl x every lease state ----
	for ki, ktok := range keys {
		for ti, ttl := range ttls {
			// the full product on the first keys, a sample on the others
			if ki >= 3 && !r.Thorough() && (ti+ki)%4 != 0 {
				continue
			}
			L.run(r, "active", acquire, "free", ttl, ktok, nil)
			L.run(r, "active", acquire, "held", ttl, ktok, nil)
			L.run(r, "active", renew, "free", ttl, ktok, nil)
			L.run(r, "active", renew, "heldmine", ttl, ktok, nil)
			L.run(r, "active", renew, "heldother", ttl, ktok, nil)
		}
		L.run(r, "active", release, "free", 0, ktok, nil)
		L.run(r, "active", release, "heldmine", 0, ktok, nil)
		L.run(r, "active", release, "heldother", 0, ktok, nil)
		for _, name := range []string{"Append", "Get", "List", "Contains", "ListKeys"} {
			sc := "plain"
			if name == "Append" {
				sc = "dup"
			}
			L.run(r, "active", mm(name), sc, 0, ktok, nil)
		}
	}
	for _, name := range []string{"Ping", "FindSuccessor", "GetSuccessors", "GetPredecessor", "FinishJoin", "FinishLeave", "RequestToJoin"} {
		L.run(r, "active", mm(name), "plain", 0, "-", nil)
	}
	// ---- the nodes that are not part of a ring: every method ----
	for _, ns := range []string{"inactive", "left"} {
		for _, m := range liveMethods {
			if !m.kv {
				L.run(r, ns, m, "plain", 0, "-", nil)
				continue
			}
			for ki, ktok := range keys {
				if ki >= 4 && !r.Thorough() {
					break
				}
				if !m.hasTTL {
					L.run(r, ns, m, "plain", 0, ktok, nil)
					continue
				}
				for ti, ttl := range ttls {
					if ki > 0 && (ti+ki)%3 != 0 {
						continue
					}
					L.run(r, ns, m, "plain", ttl, ktok, nil)
				}
			}
		}
	}
	// ---- the leases whose time is up by now ----
	for i, lc := range lapsed {
		ttl := ttls[(i*5)%len(ttls)]
		if i%3 == 2 { // refused ttls only: a granted Acquire would leave another state for the second call
			if ttl >= time.Second {
				ttl = boundaryTTLs[i%9]
			}
			L.run(r, "active", acquire, "lapsed", ttl, lc.ktok, lc.pre)
		} else {
			if i%3 == 1 && ttl < time.Second {
				ttl = time.Minute
			}
			L.run(r, "active", renew, "lapsed", ttl, lc.ktok, lc.pre)
		}
	}
}

var _ = errors.New
