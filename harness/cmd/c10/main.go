// C10: ring-wide ListKeys on stabilized rings of real LocalNodes with mixed simple / prefix content,
// from every member, for prefixes that are shared, nested, empty or absent.
package main

import (
	"verif/harness/hlib"
	"verif/harness/ringh"
)

var prefixes = []string{"-", "a", "ab", "abc", "abcd", "b", "b1", "c/", "c/x", "z", "zz", "k", "nope", "q"}

func main() {
	hlib.Guarded(func(run *hlib.Run) {
		run.Rule = "rings of 1..8 real LocalNodes (adversarial ids) and one ring of 11..16 members per run (more nodes than the listing's concurrent fan-out), populated through random entry nodes with simple values and prefix children over 12 keys that share prefixes / are prefixes of each other (plus deletes and child removals so that some keys hold only one kind or nothing), optionally followed by a join and a leave, repaired to a fixpoint; then ListKeys for 14 prefixes (empty, shared, nested, absent) from every member; non-trivial = distinct (ring, content, start, prefix) with at least two members"
		rng := hlib.NewRng(run.Seed)
		if run.Replay != "" {
			s := ringh.NewSession(run, rng)
			for _, t := range run.ReplayLines() {
				switch t[0] {
				case "reset":
				case "defkey":
					run.Raw("defkey " + t[1] + " " + t[2])
				case "quiet":
					s.Quiet()
				default:
					s.Do(t...)
				}
			}
			return
		}
		cases := 8
		if run.Thorough() {
			cases = 60
		}
		for c := 0; c < cases; c++ {
			n := 1 + rng.Intn(8)
			if c == 0 {
				n = 1
			}
			if c == 2 {
				n = 11 + rng.Intn(6) // more members than the fan-out of the ring-wide listing runs at once
			}
			backend := "memory"
			if c%2 == 1 {
				backend = "sqlite"
			}
			s := ringh.NewSessionBackend(run, rng, backend)
			defer s.R.Close()
			for _, k := range ringh.KeyTokens {
				run.Raw("defkey " + k + " " + ringh.U(ringh.HashOf(k)))
			}
			ids := ringh.AdversarialIDs(rng, n+1)
			members := s.BuildRing(ids[:n])
			s.Repair(members, 6)
			for i := 0; i < 40+rng.Intn(40); i++ {
				s.KvOp(members)
			}
			if rng.Chance(50) {
				s.Do("new", ringh.U(ids[n]))
				if s.Do("join", ringh.U(ids[n]), ringh.U(hlib.Pick(rng, members))) == "ok" {
					members = append(members, ids[n])
				}
				if len(members) > 2 && rng.Bool() {
					s.Repair(members, 4)
					l := hlib.Pick(rng, members)
					if s.Do("leave", ringh.U(l)) == "ok" {
						var rest []uint64
						for _, m := range members {
							if m != l {
								rest = append(rest, m)
							}
						}
						members = rest
					}
				}
			}
			s.Repair(members, 8)
			s.Quiet()
			for _, m := range members {
				s.Do("walk", ringh.U(m))
				for _, p := range prefixes {
					s.Do("listkeys", ringh.U(m), p)
					key := ""
					if len(members) >= 2 {
						key = hlib.F("%d|%v|%d|%s", c, members, m, p)
					}
					run.Case(key)
				}
			}
		}
	})
}
