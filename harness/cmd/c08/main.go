// C08: RequestToJoin delivered to real LocalNodes in every neighbour-pointer state: nil predecessor
// (after failure detection, with and without a delivered Notify), predecessor == self, joiner ids
// adjacent to / equal to existing ids, busy (Transferring) nodes; plus the sole survivor of a two-node ring whose
// stabilize round stores the collapsed successor list inside the key transfer of a join request (two real
// goroutines, forced interleaving: survivorJoin).
package main

import (
	"strings"
	"time"

	"verif/harness/hlib"
	"verif/harness/ringh"
)

// survivorJoin forces, on real nodes and with two real goroutines, the one interleaving in which a join request
// and the contacted node's own stabilize round hold LocalNode's mutexes at the same time: the sole survivor b of
// the ring {a,b} (a crashed, nothing detected yet: b still lists [a,b] with predecessor a) is asked to admit j,
// a < j < b, while its stabilize round — which has already read b's pointers and is waiting for the dead a — finds
// out that b is alone and stores the collapsed successor list [b] INSIDE the request's key transfer:
//
//	stabilize(b): GetPredecessor@a x, GetSuccessors@a x, GetPredecessor@b, GetSuccessors@b, GetSuccessors@a … parked
//	RequestToJoin(j) at b: membership lock, predecessor lock, key in (a,j] → Import@j … parked
//	stabilize resumes (call fails, list [b] stored, Notify to itself waits for the request), 100 ms,
//	the request resumes (Import, hand-off answer built from the successor list).
//
// Emits `reqjoinstab <b> <j> => <answer of the join request>`; judged by the oracle only (see Drv.lean). The
// session is not used afterwards.
func survivorJoin(run *hlib.Run, s *ringh.Session, b, j uint64) string {
	lhs := "reqjoinstab " + ringh.U(b) + " " + ringh.U(j)
	run.Begin(lhs)
	r := s.R
	ownList := "GetSuccessors@" + ringh.U(b)
	r.LogRPC = true
	// 1. stabilize of b up to the call that follows the read of its own successor list
	at1, resume1 := r.PauseNext(func(m string) bool {
		c := r.Calls // evaluated inside the ring's call gate, under its lock
		return m == "GetSuccessors" && len(c) > 0 && c[len(c)-1] == ownList
	})
	stabDone := make(chan string, 1)
	go func() { stabDone <- r.Exec([]string{"stabilize", ringh.U(b)}) }()
	parked1 := false
	select {
	case <-at1:
		parked1 = true
	case res := <-stabDone: // the round ended without that call (changed code): the request is still made and judged
		stabDone <- res
	case <-time.After(2 * time.Second):
	}
	// 2. the join request up to the delivery of the keys to the joiner
	at2, resume2 := r.PauseNext(func(m string) bool { return m == "Import" })
	joinDone := make(chan string, 1)
	go func() { joinDone <- r.Exec([]string{"reqjoin", ringh.U(b), ringh.U(j)}) }()
	parked2 := false
	res := ""
	select {
	case <-at2:
		parked2 = true
	case res = <-joinDone:
	case <-time.After(2 * time.Second):
	}
	// 3. stabilize stores its list while the request holds its locks; then the request goes on
	resume1()
	if parked1 && parked2 {
		time.Sleep(100 * time.Millisecond)
	}
	resume2()
	if res == "" {
		res = <-joinDone // "timeout" after ringh's op timeout when the request is never answered
	}
	if res != "timeout" {
		select {
		case <-stabDone:
		case <-time.After(5 * time.Second):
		}
	}
	run.Count(hlib.F("survivor:stabilize-parked=%v,join-parked=%v", parked1, parked2))
	if strings.HasPrefix(res, "err:") || res == "timeout" {
		run.Count("result:" + res)
	}
	run.Count("op:reqjoinstab")
	run.Emit(lhs, res)
	s.Dead = true
	return res
}

// survivorCases: rings {a,b} around the hash h of a stored key, a < h <= j < b, a crashed.
func survivorCases(run *hlib.Run, n int) {
	rng := hlib.NewRng(run.Seed ^ 0x5a17e5c08)
	dist := func() uint64 {
		switch rng.Intn(3) {
		case 0:
			return 1
		case 1:
			return 1 + uint64(rng.Intn(1000))
		}
		return 1 + rng.U64()%(ringh.M/8)
	}
	for c := 0; c < n; c++ {
		k := hlib.Pick(rng, ringh.KeyTokens)
		h := ringh.HashOf(k)
		a := (h + ringh.M - dist()) % ringh.M
		j := (h + dist() - 1) % ringh.M
		b := (j + dist()) % ringh.M
		s := ringh.NewSession(run, rng)
		ids := []uint64{a, b}
		if rng.Bool() {
			ids = []uint64{b, a}
		}
		members := s.BuildRing(ids)
		if len(members) != 2 {
			continue
		}
		s.Repair(members, 6)
		s.Do("put", ringh.U(b), k, ringh.U(h), hlib.Pick(rng, ringh.ValTokens))
		s.Do("crash", ringh.U(a))
		s.Do("new", ringh.U(j))
		s.Do("setstate", ringh.U(j), "Joining") // a joiner that is inside Join(): it accepts the transferred keys
		if s.Dead {
			continue
		}
		res := survivorJoin(run, s, b, j)
		run.Case(hlib.F("survivor|%d|%d|%d|%s", a, b, j, k))
		if res == "timeout" {
			break // the ring is wedged; one failing input is enough
		}
	}
}

func main() {
	hlib.Guarded(func(run *hlib.Run) {
		run.Rule = "RequestToJoin(joiner) sent to a random live node of rings of 1..6 real LocalNodes in states: stable; predecessor crashed + checkPredecessor (pred nil) + neighbour's stabilize with lost Notify; busy node; joiner id random / adjacent (±1) / equal to a member; joiner Inactive or Joining; non-trivial = distinct (ring state, target, joiner id) where the handling node has pred nil, pred self or is busy; plus forced two-goroutine interleavings on the sole survivor of a two-node ring: its stabilize stores the collapsed successor list inside the key transfer of a join request (reqjoinstab, oracle only)"
		rng := hlib.NewRng(run.Seed)
		if run.Replay != "" {
			s := ringh.NewSession(run, rng)
			for _, t := range run.ReplayLines() {
				if t[0] == "reset" {
					continue
				}
				if t[0] == "reqjoinstab" && len(t) == 3 {
					var b, j uint64
					for _, c := range t[1] {
						b = b*10 + uint64(c-'0')
					}
					for _, c := range t[2] {
						j = j*10 + uint64(c-'0')
					}
					survivorJoin(run, s, b, j)
					continue
				}
				run.Begin(strings.Join(t, " "))
				s.Do(t...)
			}
			return
		}
		cases := 25
		survivors := 4
		if run.Thorough() {
			cases = 200
			survivors = 24
		}
		for c := 0; c < cases; c++ {
			n := 1 + rng.Intn(6)
			ids := ringh.AdversarialIDs(rng, n)
			s := ringh.NewSession(run, rng)
			members := s.BuildRing(ids)
			s.Repair(members, 6)
			live := append([]uint64{}, members...)
			tag := "stable"
			race := false
			var victimID uint64
			var raceX uint64
			if len(members) >= 3 && rng.Chance(70) {
				// kill one node; its successor detects it; its predecessor repairs its list, Notify lost
				victim := hlib.Pick(rng, members)
				victimID = victim
				s.Do("crash", ringh.U(victim))
				live = live[:0]
				for _, m := range members {
					if m != victim {
						live = append(live, m)
					}
				}
				// the victim's successor: the node whose predecessor pointer now names a dead node
				raceX = members[0]
				best := uint64(0)
				for _, m := range live {
					if d := (m + ringh.M - victim) % ringh.M; best == 0 || d < best {
						best, raceX = d, m
					}
				}
				if rng.Chance(35) {
					// failure detection has NOT run yet: it will run concurrently with the join requests below,
					// between the routing decision and the membership lock (reqjoinrace)
					race = true
					tag = "pred-race"
				} else {
					for _, m := range live {
						s.Do("checkpred", ringh.U(m))
					}
				}
				if race {
				} else if rng.Chance(70) {
					for _, m := range live {
						s.Do("stabilizex", ringh.U(m))
					}
					tag = "pred-nil+lost-notify"
				} else {
					tag = "pred-nil"
				}
				if rng.Chance(30) {
					for _, m := range live {
						s.Do("fixfinger", ringh.U(m))
					}
				}
			} else if len(members) == 1 {
				tag = "pred-self"
			}
			run.Count("state:" + tag)
			// a join request whose key hand-off fails: data is stored first, the joiner's id is the hash of a stored
			// key (so the hand-off range is not empty) and its Import is made to fail
			if tag == "stable" && rng.Chance(50) {
				for _, k := range ringh.KeyTokens[:6] {
					s.Do("put", ringh.U(hlib.Pick(rng, live)), k, ringh.U(ringh.HashOf(k)), "v")
				}
				k := ringh.KeyTokens[rng.Intn(6)]
				j := ringh.HashOf(k)
				known := false
				for _, m := range ids {
					known = known || m == j
				}
				if !known {
					ids = append(ids, j)
					s.Do("new", ringh.U(j))
					s.Do("setstate", ringh.U(j), "Joining")
					s.R.Fault = func(target uint64, method string) int {
						if target == j && method == "Import" {
							return 1
						}
						return 0
					}
					target := hlib.Pick(rng, live)
					run.Begin("reqjoinfault " + ringh.U(target) + " " + ringh.U(j))
					res := s.Do("reqjoinfault", ringh.U(target), ringh.U(j))
					s.R.Fault = nil
					run.Case(hlib.F("handoff-fault|%v|%d|%d", members, target, j))
					run.Count("handoff-fault:" + strings.SplitN(res, ":", 3)[0])
					if strings.HasPrefix(res, "ok:") {
						for _, m := range live {
							s.Do("finish", ringh.U(m), "false", "true")
						}
					}
					s.Do("setstate", ringh.U(j), "Inactive")
				}
			}
			for k := 0; k < 6; k++ {
				var j uint64
				switch rng.Intn(4) {
				case 0:
					j = rng.U64() % ringh.M
				case 1:
					j = (hlib.Pick(rng, members) + 1) % ringh.M
				case 2:
					j = (hlib.Pick(rng, members) + ringh.M - 1) % ringh.M
				default:
					j = hlib.Pick(rng, members) // duplicate id: refused as ErrDuplicateJoinerID or routed elsewhere
				}
				fresh := true
				for _, m := range ids {
					if m == j {
						fresh = false
					}
				}
				if fresh {
					ids = append(ids, j)
					s.Do("new", ringh.U(j))
					if rng.Bool() {
						s.Do("setstate", ringh.U(j), "Joining")
					}
				}
				target := hlib.Pick(rng, live)
				// a member that is in the middle of its own departure (state Leaving: it still answers lookups) or
				// has just departed (Left) is asked as well
				var parked uint64
				parkedState := ""
				if !race && len(live) >= 2 && rng.Chance(25) {
					parked = hlib.Pick(rng, live)
					parkedState = "Leaving"
					if rng.Chance(30) {
						parkedState = "Left"
					}
					s.Do("setstate", ringh.U(parked), parkedState)
					run.Count("state:member-" + parkedState)
				}
				var res string
				if race {
					// only the first request of the case races with the failure detection (afterwards the predecessor
					// pointer is nil already): make that one count
					if k == 0 || rng.Chance(60) {
						// a joiner in the dead node's range, i.e. one the racing node is responsible for
						j = (victimID + 1 + uint64(rng.Intn(3))) % ringh.M
						if gap := (raceX + ringh.M - victimID) % ringh.M; k == 0 && gap >= 2 && gap <= 3 {
							j = (victimID + 1 + uint64(rng.Intn(int(gap)-1))) % ringh.M // strictly between the two
						}
						if k == 0 || rng.Chance(60) {
							// asked directly at the racing node: the request is not routed through the dead node
							// (whose failure nobody has detected yet), so it does reach the hand-off
							target = raceX
						}
						if j != victimID {
							known := false
							for _, m := range ids {
								known = known || m == j
							}
							if !known {
								ids = append(ids, j)
								s.Do("new", ringh.U(j))
							}
						}
					}
					run.Begin("reqjoinrace " + ringh.U(target) + " " + ringh.U(j) + " " + ringh.U(raceX))
					res = s.Do("reqjoinrace", ringh.U(target), ringh.U(j), ringh.U(raceX))
				} else {
					run.Begin("reqjoin " + ringh.U(target) + " " + ringh.U(j))
					res = s.Do("reqjoin", ringh.U(target), ringh.U(j))
				}
				run.Case(hlib.F("%s|%v|%d|%d", tag, members, target, j))
				if parkedState != "" {
					s.Do("setstate", ringh.U(parked), "Active")
				}
				if strings.HasPrefix(res, "ok:") {
					// release the membership lock so that further requests see an Active node again
					for _, m := range live {
						s.Do("finish", ringh.U(m), "false", "true")
					}
				}
				if s.Dead {
					break
				}
			}
		}
		survivorCases(run, survivors)
	})
}
