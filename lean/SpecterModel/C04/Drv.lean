import SpecterModel.C18.Drv
/-!
C04 driver: histories of concurrent client calls through a ring under churn.
`ev dht <key>/<s|c> <inv> <ret> <op…> => <result>`; a result `err:<Name>` is a failed call: it must be a
retryable DHT error and gets NO linearization point (if it did take effect the remaining history is not
linearizable). `check` decides per-key linearizability with the Lean Wing–Gong search of C18.
-/
namespace Specter.C04
open Specter.Util

def retryableErrs : List String :=
  ["err:ErrKVStaleOwnership", "err:ErrKVPendingTransfer", "err:ErrJoinInvalidState", "err:ErrLeaveInvalidState",
   "err:deadline"]

def step (recs : List Specter.C18.Rec) (toks : List String) (rhs : String) : List Specter.C18.Rec × Verdict :=
  match toks with
  | "ev" :: _ =>
    if rhs.startsWith "err:" then
      if retryableErrs.contains rhs then (recs, .ok)
      else (recs, .spec s!"KV operation failed with a non-retryable error during churn: {rhs}")
    else Specter.C18.step recs toks rhs
  | _ => Specter.C18.step recs toks rhs

def main : IO Unit := runLoop ([] : List Specter.C18.Rec) step

end Specter.C04
