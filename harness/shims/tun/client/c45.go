//go:build verif

package client

import (
	"go.miragespace.co/specter/spec/protocol"

	"github.com/zhangyunhao116/skipmap"
	"go.uber.org/atomic"
	"go.uber.org/zap"
)

// VerifC45Save writes cfg to path with the real Config.writeFile.
func VerifC45Save(path string, cfg Config) error {
	cfg.path = path
	cfg.router = skipmap.NewString[route]()
	return cfg.writeFile()
}

// VerifC45WriteFile calls the real (unexported) writeFile of a loaded configuration
// (what Register / certificate renewal do after storing the certificate).
func VerifC45WriteFile(cfg *Config) error { return cfg.writeFile() }

// VerifC45NewClient builds the minimal Client needed to call the public UpdateApex / RebuildTunnels.
func VerifC45NewClient(cfg *Config) *Client {
	return &Client{
		ClientConfig: ClientConfig{Logger: zap.NewNop(), Configuration: cfg},
		rootDomain:   atomic.NewString(""),
		proxies:      skipmap.NewString[*httpProxy](),
		connections:  skipmap.NewString[*protocol.Node](),
		closeCh:      make(chan struct{}),
	}
}
