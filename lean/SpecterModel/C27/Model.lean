/-!
# C27 — model of the gateway's `DialClient` / `getConn` / `handleProxyConn` (tun/server/server.go)
Core Lean only. The environment (KV lookups, transports, remote node) is an explicit input:
`Slot` = what `Chord.Get(RoutingKey(H, i+1))` yields, `Env` = how dialling slot i's route behaves.
-/
namespace Specter.C27

/-- result of one of the `NumRedundantLinks` KV lookups of `routeCacheLoader` -/
inductive Slot where
  | empty                                   -- no value (fs.ErrNotExist)
  | lookupErr                               -- Chord.Get failed
  | undecodable                             -- value does not unmarshal
  | route (isLocal : Bool) (client : Nat)   -- TunnelDestination.Address == / != our tunnel address
deriving DecidableEq, Repr

/-- what `Transport.DialStream` returns -/
inductive DialRes where
  | conn | noDirect | err
deriving DecidableEq, Repr

/-- behaviour of the world when the route of one slot is used -/
structure Env where
  dial : DialRes              -- TunnelTransport (local route) / ChordTransport (remote route) DialStream
  sendRouteFails : Bool       -- remote only: rpc.Send(conn, route) fails
  status : Option Nat         -- remote only: none = status frame cannot be received, some c = TunnelStatusCode
  linkFails : Bool            -- rpc.Send(clientConn, link) fails
deriving DecidableEq, Repr

inductive ConnRes where
  | conn | noDirect | err
deriving DecidableEq, Repr

/-- `switch status.GetStatus()` in getConn: STATUS_OK = 0, UNKNOWN_ERROR = 1, NO_DIRECT = 2 -/
def decodeStatus : Nat → ConnRes
  | 0 => .conn
  | 2 => .noDirect
  | _ => .err

/-- `getConn`: direct stream for a local route, proxied stream + status frame for a remote one;
the three-way classification is the one `tun.IsNoDirect` makes on the returned error -/
def getConn (isLocal : Bool) (e : Env) : ConnRes :=
  match e.dial with
  | .noDirect => .noDirect
  | .err => .err
  | .conn =>
    if isLocal then .conn
    else if e.sendRouteFails then .err
    else match e.status with
      | none => .err
      | some c => decodeStatus c

structure Route where
  idx : Nat
  isLocal : Bool
  client : Nat
deriving DecidableEq, Repr

inductive Lookup where
  | notFound | failed | routes (rs : List Route)
deriving DecidableEq, Repr

def slotRoute : Slot × Nat → Option Route
  | (.route l c, i) => some ⟨i, l, c⟩
  | _ => none

def slotRoutes (slots : List Slot) : List Route := slots.zipIdx.filterMap slotRoute

def isErrSlot : Slot → Bool
  | .lookupErr => true | .undecodable => true | _ => false

/-- the lookup produced a route published for the hostname -/
def isRoute : Slot → Bool | .route _ _ => true | _ => false

/-- `sort.SliceStable(filtered, func(i, j) { return filtered[i] is local })` on < 12 elements is an
insertion sort whose comparator only looks at the moving element: every local route travels to the
very front (also past earlier local routes), remote routes keep their order. -/
def order (rs : List Route) : List Route :=
  rs.foldl (fun acc r => if r.isLocal then r :: acc else acc ++ [r]) []

/-- `routeCacheLoader` (what `DialClient` sees of it). In the third case the loader filters the nil
entries out of the lookup results in place (`filtered := routes[:0]`), so with no route at all — some
lookups absent, some failed — it caches an EMPTY (but non-nil) route slice: `.routes []`. -/
def lookup (slots : List Slot) : Lookup :=
  if slots.length = slots.countP (· == .empty) then .notFound
  else if slots.length = slots.countP isErrSlot then .failed
  else .routes (order (slotRoutes slots))

inductive Try where
  | ok | noDirect | hard (closed : Bool)
deriving DecidableEq, Repr

/-- one iteration of the route loop of `DialClient` -/
def tryRoute (isLocal : Bool) (e : Env) : Try :=
  match getConn isLocal e with
  | .noDirect => .noDirect
  | .err => .hard false
  | .conn => if e.linkFails then .hard true else .ok

inductive Outcome where
  | found (idx : Nat) | notFound | notConnected | lookupFailed
deriving DecidableEq, Repr

structure Result where
  outcome : Outcome
  tried : List Nat     -- slots whose route was dialled, in order
  closed : List Nat    -- connections closed again because the link could not be sent
deriving DecidableEq, Repr

/-- the route loop of `DialClient`; `total = len(ret.routes)` is what the final classification looks at:
`if isNoRoute || len(ret.routes) > 0 { not connected } else { not found }` -/
def loop (env : Nat → Env) (total : Nat) : List Route → Bool → Result
  | [], noRoute => ⟨if noRoute || decide (total > 0) then .notConnected else .notFound, [], []⟩
  | r :: rs, noRoute =>
    match tryRoute r.isLocal (env r.idx) with
    | .ok => ⟨.found r.idx, [r.idx], []⟩
    | .noDirect => let x := loop env total rs true; ⟨x.outcome, r.idx :: x.tried, x.closed⟩
    | .hard c => let x := loop env total rs noRoute
                 ⟨x.outcome, r.idx :: x.tried, if c then r.idx :: x.closed else x.closed⟩

def dialClient (slots : List Slot) (env : Nat → Env) : Result :=
  match lookup slots with
  | .notFound => ⟨.notFound, [], []⟩
  | .failed => ⟨.lookupFailed, [], []⟩
  | .routes rs => loop env rs.length rs false

/-! ### remote side: `handleProxyConn` -/

/-- what the remote node reads from the proxy stream -/
inductive Recv where
  | bad                                        -- no / oversized / undecodable route frame
  | route (destIsMe : Bool) (client : Nat)
deriving DecidableEq, Repr

structure ProxyOut where
  status : Nat               -- TunnelStatusCode written back
  dialed : Option Nat        -- client dialled on the tunnel transport
  piped : Bool               -- true: streams are piped; false: delegation closed
deriving DecidableEq, Repr

/-- `tun.SendStatusProto` classification of the dial result -/
def statusOf : DialRes → Nat
  | .conn => 0 | .noDirect => 2 | .err => 1

def handleProxy (r : Recv) (clientDial : DialRes) : ProxyOut :=
  match r with
  | .bad => ⟨1, none, false⟩
  | .route false _ => ⟨1, none, false⟩            -- ErrDestinationNotFound, client never dialled
  | .route true c => ⟨statusOf clientDial, some c, clientDial == .conn⟩

end Specter.C27
