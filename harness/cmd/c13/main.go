// C13 correspondence: the real chord.nodeState (through the verif shim) —
// (a) sequential Transition/Set/Get streams, diffed exactly against the word-level Lean model built from the
// generated packing expressions; (b) concurrent rounds: k goroutines released together race Transition/Set
// on one nodeState; results + final History()/word/Get() + mid-round observations are validated by the
// Lean round checker (chain of transitions, one winner per consumed state, Get = last).
package main

import (
	"os"
	"runtime"
	"strconv"
	"strings"
	"sync"
	"sync/atomic"
	"time"

	rchord "go.miragespace.co/specter/chord"
	"go.miragespace.co/specter/spec/chord"
	"verif/harness/hlib"
)

func u(x uint64) string { return strconv.FormatUint(x, 10) }

func hist(ns *rchord.VerifNodeState) string {
	h := ns.History()
	xs := make([]string, len(h))
	for i, s := range h {
		xs[i] = u(uint64(s))
	}
	return hlib.Join(xs, ",")
}

// guarded runs f; false when f has not returned within 5 s (a spinning Set: the goroutine cannot be
// killed, so the caller reports `hang`, flushes and exits).
func guarded(f func()) bool {
	done := make(chan struct{})
	go func() { defer close(done); f() }()
	select {
	case <-done:
		return true
	case <-time.After(5 * time.Second):
		return false
	}
}

func bail(r *hlib.Run) {
	r.Count("hang")
	r.Finish()
	os.Exit(0)
}

type op struct {
	set      bool
	exp, nxt uint64
	got      uint64
	ok       bool
}

func (o op) lhs() string {
	if o.set {
		return "s:" + u(o.nxt)
	}
	return "t:" + u(o.exp) + ":" + u(o.nxt)
}
func (o op) rhs() string {
	if o.set {
		return "-"
	}
	return u(o.got) + ":" + hlib.B(o.ok)
}

// runRound releases all ops at once on ns and returns mid-round observations.
func runRound(ns *rchord.VerifNodeState, ops []op, observe bool) ([]string, bool) {
	var start atomic.Bool
	var wg sync.WaitGroup
	var running atomic.Int32
	for i := range ops {
		wg.Add(1)
		go func(o *op) {
			defer wg.Done()
			defer func() {
				if recover() != nil {
					o.got, o.ok = 99, false
				}
			}()
			running.Add(1)
			for i := 1; !start.Load(); i++ { // bounded spin: stay on the P so that the release is simultaneous
				if i%2000 == 0 {
					runtime.Gosched()
				}
			}
			if o.set {
				ns.Set(chord.State(o.nxt))
			} else {
				g, ok := ns.Transition(chord.State(o.exp), chord.State(o.nxt))
				o.got, o.ok = uint64(g), ok
			}
		}(&ops[i])
	}
	var obs []string
	var owg sync.WaitGroup
	if observe {
		owg.Add(1)
		go func() {
			defer owg.Done()
			for i := 1; !start.Load(); i++ { // bounded spin: stay on the P so that the release is simultaneous
				if i%2000 == 0 {
					runtime.Gosched()
				}
			}
			for k := 0; k < 3; k++ {
				// history first, then the word: every entry seen must be at an index <= the later word's index
				keys, vals := ns.HistoryKV()
				w := ns.Word()
				kv := make([]string, len(keys))
				for i := range keys {
					kv[i] = u(keys[i]) + "=" + u(uint64(vals[i]))
				}
				if len(kv) > 6 {
					kv = kv[len(kv)-6:]
				}
				obs = append(obs, u(w)+"/"+hlib.Join(kv, ","))
				runtime.Gosched()
			}
		}()
	}
	for int(running.Load()) < len(ops) {
		runtime.Gosched()
	}
	start.Store(true)
	if !guarded(wg.Wait) {
		return nil, false
	}
	owg.Wait()
	return obs, true
}

func emitRound(r *hlib.Run, ns *rchord.VerifNodeState, ops []op, observe bool) {
	obs, fin := runRound(ns, ops, observe)
	if !fin {
		l := make([]string, len(ops))
		for i, o := range ops {
			l[i] = o.lhs()
		}
		r.Emit("round "+strings.Join(l, " "), "hang")
		bail(r)
	}
	l := make([]string, len(ops))
	rs := make([]string, len(ops))
	wins := 0
	for i, o := range ops {
		l[i], rs[i] = o.lhs(), o.rhs()
		if o.set || o.ok {
			wins++
		}
	}
	r.Emit("round "+strings.Join(l, " "), strings.Join(rs, " ")+" ; "+u(ns.Word())+" "+hist(ns)+" "+u(uint64(ns.Get()))+" ; "+hlib.Join(obs, " "))
	r.Case("r" + strings.Join(l, " "))
	r.Count("round:winners=" + strconv.Itoa(min(wins, 4)))
	r.Count("round:goroutines=" + strconv.Itoa(len(ops)))
}

func main() {
	r := hlib.Start()
	r.Rule = "sequential: op streams (Transition/Set/Get over states 0..5, sometimes up to 15) per fresh nodeState; concurrent: rounds of 2..16 goroutines released together on one real nodeState (all-from-current-state races, mixed expectations, forced Sets, self-transitions), non-trivial = distinct op tuple"
	rng := hlib.NewRng(r.Seed)
	st := func() uint64 {
		if rng.Chance(8) {
			return uint64(rng.Intn(16))
		}
		return uint64(rng.Intn(6))
	}
	if r.Replay != "" {
		var ns *rchord.VerifNodeState
		for _, t := range r.ReplayLines() {
			p := func(s string) uint64 { v, _ := strconv.ParseUint(s, 10, 64); return v }
			switch t[0] {
			case "reset":
				r.Raw("reset")
			case "new":
				ns = rchord.VerifNewNodeState(chord.State(p(t[1])))
				r.Emit("new "+t[1], u(ns.Word())+" "+hist(ns))
			case "tr":
				g, ok := ns.Transition(chord.State(p(t[1])), chord.State(p(t[2])))
				r.Emit("tr "+t[1]+" "+t[2], u(uint64(g))+" "+hlib.B(ok)+" "+u(ns.Word())+" "+hist(ns))
			case "set":
				if !guarded(func() { ns.Set(chord.State(p(t[1]))) }) {
					r.Emit("set "+t[1], "hang")
					bail(r)
				}
				r.Emit("set "+t[1], u(ns.Word())+" "+hist(ns))
			case "get":
				r.Emit("get", u(uint64(ns.Get())))
			case "round":
				var ops []op
				for _, o := range t[1:] {
					f := strings.Split(o, ":")
					if f[0] == "s" {
						ops = append(ops, op{set: true, nxt: p(f[1])})
					} else {
						ops = append(ops, op{exp: p(f[1]), nxt: p(f[2])})
					}
				}
				// a race is a schedule property: repeat the round to give the schedule a chance to recur
				for k := 0; k < 200; k++ {
					cp := append([]op{}, ops...)
					emitRound(r, ns, cp, true)
				}
			}
		}
		r.Finish()
		return
	}
	// (a) sequential streams
	nseq := 3000
	if r.Thorough() {
		nseq = 60000
	}
	for c := 0; c < nseq; c++ {
		r.Raw("reset")
		s0 := st()
		ns := rchord.VerifNewNodeState(chord.State(s0))
		r.Emit("new "+u(s0), u(ns.Word())+" "+hist(ns))
		cur := s0
		for k, n := 0, 1+rng.Intn(12); k < n; k++ {
			switch x := rng.Intn(10); {
			case x < 6:
				exp, nxt := st(), st()
				if rng.Chance(60) {
					exp = cur
				}
				g, ok := ns.Transition(chord.State(exp), chord.State(nxt))
				r.Emit("tr "+u(exp)+" "+u(nxt), u(uint64(g))+" "+hlib.B(ok)+" "+u(ns.Word())+" "+hist(ns))
				r.Case("tr" + u(cur) + ":" + u(exp) + ":" + u(nxt) + "@" + strconv.Itoa(k))
				r.Count("seq:transition:" + hlib.B(ok))
				if ok {
					cur = nxt
				}
			case x < 8:
				v := st()
				if !guarded(func() { ns.Set(chord.State(v)) }) {
					r.Emit("set "+u(v), "hang")
					bail(r)
				}
				cur = v
				r.Emit("set "+u(v), u(ns.Word())+" "+hist(ns))
				r.Case("")
				r.Count("seq:set")
			default:
				r.Emit("get", u(uint64(ns.Get())))
				r.Case("")
				r.Count("seq:get")
			}
		}
	}
	// (b) concurrent rounds
	ncase := 6000
	if r.Thorough() {
		ncase = 60000
	}
	for c := 0; c < ncase; c++ {
		r.Raw("reset")
		s0 := uint64(rng.Intn(6))
		ns := rchord.VerifNewNodeState(chord.State(s0))
		r.Emit("new "+u(s0), u(ns.Word())+" "+hist(ns))
		for k, n := 0, 1+rng.Intn(8); k < n; k++ {
			cur := uint64(ns.Get())
			g := 2 + rng.Intn(15)
			ops := make([]op, g)
			kind := rng.Intn(5)
			for i := range ops {
				switch kind {
				case 0, 1: // everybody races from the current state to some other state
					nxt := uint64(rng.Intn(6))
					if kind == 0 && nxt == cur {
						nxt = (cur + 1) % 6
					}
					ops[i] = op{exp: cur, nxt: nxt}
				case 2: // chains: expectations spread over a few states so that later CASes can win too
					ops[i] = op{exp: (cur + uint64(rng.Intn(3))) % 6, nxt: (cur + uint64(rng.Intn(3))) % 6}
				case 3: // forced Sets mixed with transitions
					if rng.Chance(40) {
						ops[i] = op{set: true, nxt: st()}
					} else {
						ops[i] = op{exp: st(), nxt: st()}
					}
				default:
					ops[i] = op{exp: st(), nxt: st()}
					if rng.Chance(50) {
						ops[i].exp = cur
					}
				}
			}
			r.Count("round:kind=" + []string{"race-distinct", "race-any", "chain", "sets+transitions", "mixed"}[kind])
			emitRound(r, ns, ops, rng.Chance(50))
		}
	}
	r.Finish()
}
