import SpecterModel.Util
import SpecterModel.C47.Model
/-!
C47 line-protocol driver.
  parse <xPROTO> <base> <overrides> <oracle>  =>  ok <xADDR|xHOST|xNET|ver>;…  |  err:none | err:split | err:host
Strings are `x` + hex of the UTF-8 bytes; lists are comma separated, `-` = empty list.
oracle = comma list of `xADDR:class:xHOST` for every trimmed non-empty input entry (class from the real
net.SplitHostPort / net.ParseIP / To4 / the repo's Fly constant).
-/
namespace Specter.C47
open Specter.Util

def strOfTok (t : String) : Option Str :=
  if !t.startsWith "x" then none else
  let h := (t.drop 1).toString
  match hexToBytes (if h = "" then "-" else h) with
  | none => none
  | some bs => (String.fromUTF8? (ByteArray.mk (bs.map UInt8.ofNat).toArray)).map (·.toList)

def listOfTok (t : String) : Option (List Str) :=
  if t = "-" then some [] else (t.splitOn ",").mapM strOfTok

def classOfTok : String → Option Class
  | "bad" => some .bad | "empty" => some .empty | "v4" => some .v4 | "v6" => some .v6
  | "fly" => some .fly | "other" => some .other | _ => none

def oracleOfTok (t : String) : Option (List (Str × Class × Str)) :=
  if t = "-" then some [] else
  (t.splitOn ",").mapM fun e =>
    match e.splitOn ":" with
    | [a, c, h] => match strOfTok a, classOfTok c, strOfTok h with
      | some a, some c, some h => some (a, c, h)
      | _, _, _ => none
    | _ => none

def versionOfTok : String → Option Version
  | "0" => some .any | "1" => some .v4 | "2" => some .v6 | _ => none

def resultOfTok (r : String) : Option (Except Err (List Address)) :=
  if r = "err:none" then some (.error .none_)
  else if r = "err:split" then some (.error .split)
  else if r = "err:host" then some (.error .host)
  else match r.splitOn " " with
    | ["ok", l] =>
      ((l.splitOn ";").mapM fun (e : String) =>
        match e.splitOn "|" with
        | [a, h, n, v] => match strOfTok a, strOfTok h, strOfTok n, versionOfTok v with
          | some a, some h, some n, some v => some (Address.mk a h n v)
          | _, _, _, _ => none
        | _ => none).map .ok
    | _ => none

def showResult : Except Err (List Address) → String
  | .error .none_ => "err:none" | .error .split => "err:split" | .error .host => "err:host"
  | .ok l => "ok " ++ ";".intercalate (l.map fun a =>
      s!"{String.ofList a.address}|{String.ofList a.host}|{String.ofList a.network}|{repr a.version}")

def sameResult (a b : Except Err (List Address)) : Bool :=
  match a, b with
  | .error x, .error y => x == y
  | .ok x, .ok y => x == y
  | _, _ => false

def step (_ : Unit) (toks : List String) (rhs : String) : Unit × Verdict :=
  match toks with
  | ["reset"] => ((), .ok)
  | ["parse", p, b, v, orc] =>
    match strOfTok p, listOfTok b, listOfTok v, oracleOfTok orc, resultOfTok rhs with
    | some p, some b, some v, some tab, some impl =>
      let o : Oracle := fun a => match tab.find? (·.1 == a) with
        | some (_, c, h) => (c, h)
        | none => (.bad, [])
      -- the model trims by itself; every address it looks at must have been classified by the library
      if (effective b v).any (fun a => !(tab.any (·.1 == a))) then
        ((), .diff "model trims differently from strings.TrimSpace (address without oracle entry)")
      else
        let want := spec p o b v
        if !sameResult want impl then ((), .spec (showResult want))
        else
          let m := parse p o b v
          if !sameResult m impl then ((), .diff (showResult m)) else ((), .ok)
    | _, _, _, _, _ => ((), .bad "parse args")
  | _ => ((), .bad "unknown op")

def main : IO Unit := runLoop () step

end Specter.C47
