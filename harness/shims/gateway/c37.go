//go:build verif

package gateway

import (
	"net/http"

	"go.miragespace.co/specter/spec/tun"

	"github.com/go-chi/chi/v5"
)

// VerifApex builds the apex router exactly as gateway.New does (header middleware, apexServer.Mount with the
// real internal proxy middleware, cgi mount), with the given admin credentials and internal handlers. The only
// substitution is the rate limiter (10 req/s in New), replaced by a pass-through.
func VerifApex(ts tun.Server, user, pass string, h InternalHandlers) http.Handler {
	g := verifGateway(ts, []string{"example.com"}, 443)
	g.AdminUser, g.AdminPass, g.Handlers = user, pass, h
	apex := chi.NewRouter()
	apex.Use(func(h http.Handler) http.Handler {
		return http.HandlerFunc(func(w http.ResponseWriter, r *http.Request) {
			g.appendHeaders(r.ProtoAtLeast(3, 0))(w.Header())
			h.ServeHTTP(w, r)
		})
	})
	g.apexServer = &apexServer{
		handlers:      h,
		limiter:       func(next http.Handler) http.Handler { return next },
		internalProxy: g.getInternalProxyHandler(),
		pkiServer:     nil,
		authUser:      user,
		authPass:      pass,
	}
	g.apexServer.Mount(apex)
	g.mountCgiHandler(apex)
	return apex
}

// VerifEndpointsDoc is the body of the /_internal catch-all helper.
func VerifEndpointsDoc() string { return endpointsDoc }
