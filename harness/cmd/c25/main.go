// C25 correspondence: every TunnelService / KeylessService method x caller kind x token-record state x body,
// served by the REAL attachRPC stack (chi middlewares + twirp servers + verifyClientIdentity hook) over
// fabricated stream delegates; the DHT (recording in-memory KV) is snapshotted before and after each call.
package main

import (
	"bytes"
	"context"
	"crypto/x509"
	"encoding/json"
	"errors"
	"io"
	"net"
	"net/http"
	"strings"
	"time"

	"github.com/twitchtv/twirp"
	"github.com/twitchtv/twirp/ctxsetters"
	"go.miragespace.co/specter/spec/chord"
	"go.miragespace.co/specter/spec/protocol"
	"go.miragespace.co/specter/spec/transport"
	"go.miragespace.co/specter/spec/tun"
	"go.miragespace.co/specter/tun/server"
	"go.uber.org/zap"
	"verif/harness/cmd/c25/rig"
	"verif/harness/hlib"
)

type failResolver struct{}

func (failResolver) LookupCNAME(ctx context.Context, host string) (string, error) {
	return "", errors.New("no such host")
}

type vtMsg interface{ MarshalVT() ([]byte, error) }

var tunnelMethods = []string{"Ping", "RegisterIdentity", "GetNodes", "GenerateHostname", "RegisteredHostnames",
	"PublishTunnel", "UnpublishTunnel", "ReleaseTunnel", "AcmeInstruction", "AcmeValidate"}
var keylessMethods = []string{"GetCertificate", "Sign"}

const victimHost = "alice-host-one-two-three"
const customHost = "app.customer.net"

var retryableKVErrs = []error{chord.ErrKVStaleOwnership, chord.ErrKVPendingTransfer, context.DeadlineExceeded}
var retryableIdx int

func hlibPickErr() error {
	retryableIdx++
	return retryableKVErrs[retryableIdx%len(retryableKVErrs)]
}

func main() {
	r := hlib.Start()
	r.Rule = "one case = (method, caller kind, state of the caller's token record, request body kind, datagram outcome); non-trivial = distinct tuple + token text; " +
		"all 12 service methods + an unknown one x {no delegation, no certificate, malformed subject, unknown subject version, non-numeric id, token} x " +
		"{absent, empty, undecodable, Get error, registered, old-format} x {valid, empty, garbage, json} bodies; the DHT is pre-loaded with a victim client " +
		"(token record, hostnames, routes, custom hostname) and compared before/after"
	rng := hlib.NewRng(r.Seed)
	logger := zap.NewNop()
	ctx, cancel := context.WithCancel(context.Background())
	defer cancel()

	tunnelID := &protocol.Node{Id: 11, Address: "tunnel:1"}
	chordID := &protocol.Node{Id: 12, Address: "chord:1"}
	node := rig.NewRecNode(chordID)
	tt := rig.NewTransport(tunnelID)
	ct := rig.NewTransport(chordID)
	srv := server.New(server.Config{
		ParentContext: ctx, Logger: logger, Chord: node, TunnelTransport: tt, ChordTransport: ct,
		Resolver: failResolver{}, Apex: "example.com", Acme: "acme.example.com",
	})
	router := transport.NewStreamRouter(logger, nil, tt)
	go router.Accept(ctx)
	srv.AttachRouter(ctx, router)

	var curCert *x509.Certificate
	client := &http.Client{
		Timeout: 20 * time.Second,
		Transport: &http.Transport{
			DisableKeepAlives: true,
			DialContext: func(ctx context.Context, _, _ string) (net.Conn, error) {
				return tt.Dial(curCert), nil
			},
		},
	}

	victimTok := &protocol.ClientToken{Token: []byte("alice-token")}
	victim := &protocol.Node{Id: 500, Address: "alice-token", Rendezvous: true}
	put := func(k string, v []byte) { node.KV.Put(ctx, []byte(k), v) }
	mustVT := func(m vtMsg) []byte { b, _ := m.MarshalVT(); return b }
	seed := func(callerTok string, rec string) {
		node.Reset()
		dst := &protocol.TunnelDestination{Chord: chordID, Tunnel: tunnelID}
		put(tun.DestinationByChordKey(chordID), mustVT(dst))
		put(tun.DestinationByTunnelKey(tunnelID), mustVT(dst))
		put(tun.ClientTokenKey(victimTok), mustVT(victim))
		node.KV.PrefixAppend(ctx, []byte(tun.ClientHostnamesPrefix(victimTok)), []byte(victimHost))
		node.KV.PrefixAppend(ctx, []byte(tun.ClientHostnamesPrefix(victimTok)), []byte(customHost))
		route := &protocol.TunnelRoute{ClientDestination: victim, ChordDestination: chordID, TunnelDestination: tunnelID, Hostname: victimHost}
		put(tun.RoutingKey(victimHost, 1), mustVT(route))
		put(tun.CustomHostnameKey(customHost), mustVT(&protocol.CustomHostname{ClientIdentity: victim, ClientToken: victimTok}))
		key := tun.ClientTokenKey(&protocol.ClientToken{Token: []byte(callerTok)})
		switch rec {
		case "empty":
			put(key, []byte{})
		case "undecodable":
			put(key, []byte{0xff, 0xff, 0xff})
		case "kverr":
			node.FailGet[key] = errors.New("ring unavailable")
		case "kverr-retryable": // what the lookup returns during a join/leave hand-off or on a timeout
			node.FailGet[key] = hlibPickErr()
		case "client":
			put(key, mustVT(&protocol.Node{Id: 42, Address: callerTok, Rendezvous: true}))
		case "oldclient":
			put(key, mustVT(&protocol.Node{Id: 42}))
		}
		node.Mut.Store(0)
	}

	request := func(m string, hostname string) vtMsg {
		switch m {
		case "Ping":
			return &protocol.ClientPingRequest{}
		case "RegisterIdentity":
			return &protocol.RegisterIdentityRequest{}
		case "GetNodes":
			return &protocol.GetNodesRequest{}
		case "GenerateHostname":
			return &protocol.GenerateHostnameRequest{}
		case "RegisteredHostnames":
			return &protocol.RegisteredHostnamesRequest{}
		case "PublishTunnel":
			return &protocol.PublishTunnelRequest{Hostname: hostname, Servers: []*protocol.Node{tunnelID}}
		case "UnpublishTunnel":
			return &protocol.UnpublishTunnelRequest{Hostname: hostname}
		case "ReleaseTunnel":
			return &protocol.ReleaseTunnelRequest{Hostname: hostname}
		case "AcmeInstruction":
			return &protocol.InstructionRequest{Hostname: customHost}
		case "AcmeValidate":
			return &protocol.ValidateRequest{Hostname: customHost}
		case "GetCertificate":
			return &protocol.KeylessGetCertificateRequest{Hostname: customHost}
		case "Sign":
			return &protocol.KeylessSignRequest{Hostname: customHost, Digest: make([]byte, 32)}
		}
		return &protocol.ClientPingRequest{}
	}

	call := func(m, caller, rec, body string, dgramOK bool, tok string, garbage []byte) {
		if caller != "tok" {
			rec = "na"
		}
		seed(tok, rec)
		tt.DatagramOK.Store(dgramOK)
		var cert *x509.Certificate
		switch caller {
		case "badsubject":
			cert = rig.Cert("not-a-specter-subject")
		case "badversion":
			cert = rig.Cert("v9:42:" + tok)
		case "panicid":
			cert = rig.Cert("v1:notanumber:" + tok)
		case "tok":
			cert = rig.Cert("v1:42:" + tok)
		}
		before := node.Snapshot()
		code := "?"
		if caller == "nodeleg" {
			// no HTTP path can produce this context: call the hook directly
			func() {
				defer func() {
					if e := recover(); e != nil {
						code = "panic"
					}
				}()
				err := server.VerifHook(srv, ctxsetters.WithMethodName(context.Background(), m))
				if err == nil {
					code = "ok"
				} else if te, ok := err.(twirp.Error); ok {
					code = string(te.Code())
				} else {
					code = "nontwirp"
				}
			}()
			known := false
			for _, x := range append(append([]string{}, tunnelMethods...), keylessMethods...) {
				known = known || x == m
			}
			if !known {
				code = "bad_route" // twirp would not have routed, the hook would not have run
			}
		} else {
			svc := "TunnelService"
			for _, k := range keylessMethods {
				if k == m {
					svc = "KeylessService"
				}
			}
			var payload []byte
			ctype := "application/protobuf"
			switch body {
			case "valid":
				payload = mustVT(request(m, victimHost))
			case "empty":
			case "garbage":
				payload = garbage
			case "json":
				ctype = "application/json"
				payload = []byte(`{"hostname":"` + victimHost + `"}`)
			}
			curCert = cert
			req, _ := http.NewRequest("POST", "http://tunnel/twirp/protocol."+svc+"/"+m, bytes.NewReader(payload))
			req.Header.Set("Content-Type", ctype)
			resp, err := client.Do(req)
			if err != nil {
				code = "transport-error"
			} else {
				b, _ := io.ReadAll(resp.Body)
				resp.Body.Close()
				var te struct {
					Code string `json:"code"`
				}
				switch {
				case resp.StatusCode == 200:
					code = "ok"
				case json.Unmarshal(b, &te) == nil && te.Code != "":
					code = te.Code
				case resp.StatusCode == 500:
					code = "panic"
				default:
					code = "http" + hlib.F("%d", resp.StatusCode)
				}
			}
		}
		changed := "0"
		if node.Snapshot() != before || node.Mut.Load() != 0 {
			changed = "1"
		}
		d := "ok"
		if !dgramOK {
			d = "fail"
		}
		lhs := "call " + m + " " + caller + " " + rec + " " + body + " " + d
		r.Emit(lhs, code+" "+changed)
		r.Case(lhs + " " + tok + hlib.Hex(garbage))
		r.Count("method:" + m)
		r.Count("caller:" + caller + "/" + rec)
		r.Count("code:" + code)
	}

	if r.Replay != "" {
		for _, t := range r.ReplayLines() {
			if t[0] == "call" && len(t) == 6 {
				call(t[1], t[2], t[3], t[4], t[5] == "ok", "replay-token", []byte{0xff, 0x01})
			}
		}
		r.Finish()
		return
	}

	methods := append(append(append([]string{}, tunnelMethods...), keylessMethods...), "Nope")
	callers := []string{"nodeleg", "nocert", "badsubject", "badversion", "panicid"}
	recs := []string{"absent", "empty", "undecodable", "kverr", "kverr-retryable", "client", "oldclient"}
	bodies := []string{"valid", "empty", "garbage", "json"}
	rounds := 1
	if r.Thorough() {
		rounds = 12
	}
	for round := 0; round < rounds; round++ {
		for _, m := range methods {
			for _, b := range bodies {
				tok := "mallory-" + hlib.Hex(rng.Bytes(4))
				if rng.Chance(20) {
					tok = "alice-token" // the victim's own token text in a different certificate state is still just a token
				}
				for _, c := range callers {
					if c == "nodeleg" && b != "valid" {
						continue
					}
					call(m, c, "na", b, rng.Bool(), tok, rng.Bytes(1+rng.Intn(40)))
				}
				for _, rc := range recs {
					if tok == "alice-token" && rc != "client" {
						tok = "mallory-" + hlib.Hex(rng.Bytes(4))
					}
					call(m, "tok", rc, b, true, tok, rng.Bytes(1+rng.Intn(40)))
					if m == "RegisterIdentity" {
						call(m, "tok", rc, b, false, tok, rng.Bytes(1+rng.Intn(40)))
					}
				}
			}
		}
	}
	_ = strings.TrimSpace
	r.Finish()
}
