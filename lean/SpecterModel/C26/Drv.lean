import SpecterModel.Util
import SpecterModel.C26.Model
/-!
C26 line-protocol driver (stateful; `reset` starts a fresh DHT).

  dest <addr> <chord> <tunnel>                      => ok            a destination record exists for server <addr>
  gen <tok> <id>                                    => <hostname> D  GenerateHostname by the caller (name chosen by the implementation)
  bind <tok> <id> <host>                            => ok D          outcome of a successful AcmeValidate (custom binding + registration)
  pub <tok> <id> <host> <servers> <failing slots>   => <code> <published> D
  unpub <tok> <id> <host> <failing slots>           => <code> - D
  rel <tok> <id> <host> <failing slots> <customDelFails 0|1> => <code> - D
  hold <tok> <0|1>                                  => ok D          a concurrent call holds / drops the client's lease
D = `<routes> <owns> <custom>` = the implementation's DHT after the call, each a `;`-joined sorted list (`-` if empty):
  route `h|k|tok|id|chord|tunnel|hostname`, owns `tok|h`, custom `h|tok|id`.
servers: `-` | comma list of `n` (nil node) / `a<addr>`; failing slots: `-` | comma list of slot numbers.
Strings are from [a-z0-9:.-] (no separators).
-/
namespace Specter.C26
open Specter.Util

structure DSt where
  st : St
  toks : List String := []
  hosts : List String := []
  ids : List (String × Nat) := []
  prevRoutes : List String := []
  prevOwns : List String := []

def dinit : DSt := { st := init (fun _ => none) }

def insertS (x : String) : List String → List String
  | [] => [x]
  | y :: ys => if x ≤ y then x :: y :: ys else y :: insertS x ys
def sortS (xs : List String) : List String := xs.foldr insertS []

def joinL (xs : List String) : String := if xs.isEmpty then "-" else ";".intercalate xs
def splitL (s : String) : List String := if s = "-" then [] else s.splitOn ";"

def addU (x : String) (l : List String) : List String := if l.contains x then l else x :: l

def renderRoutes (d : DSt) : List String :=
  sortS (d.hosts.flatMap fun h => (List.range 8).filterMap fun k =>
    (d.st.route h k).map fun r => s!"{h}|{k}|{r.client.token}|{r.client.id}|{r.chord}|{r.tunnel}|{r.hostname}")
def renderOwns (d : DSt) : List String :=
  sortS (d.toks.flatMap fun t => d.hosts.filterMap fun h => if d.st.owns t h then some s!"{t}|{h}" else none)
def renderCustom (d : DSt) : List String :=
  sortS (d.hosts.filterMap fun h => (d.st.custom h).map fun c => s!"{h}|{c.token}|{c.id}")
def digest (d : DSt) : String := s!"{joinL (renderRoutes d)} {joinL (renderOwns d)} {joinL (renderCustom d)}"

def codeOf : Out → String
  | .ok _ => "ok" | .invalidArgument => "invalid_argument" | .permissionDenied => "permission_denied"
  | .internal => "internal" | .unavailable => "unavailable" | .conflict => "conflict"
def pubOf : Out → String
  | .ok p => if p.isEmpty then "-" else ",".intercalate p
  | _ => "-"

def parseServers (t : String) : Option (List (Option String)) :=
  if t = "-" then some [] else (t.splitOn ",").mapM fun x =>
    if x = "n" then some none else if x.startsWith "a" then some (some (x.drop 1).toString) else none

def parseSlots (t : String) : Option (List Nat) :=
  if t = "-" then some [] else (t.splitOn ",").mapM String.toNat?

def faultsOf (slots : List Nat) (customFail : Bool) : Faults :=
  { failRoute := fun _ k => slots.contains k, failCustomDel := fun _ => customFail }

def field (s : String) (i : Nat) : String := (s.splitOn "|").getD i ""

/-- statement-level oracle on the IMPLEMENTATION's own before/after digests. -/
def specCheck (op tok id h : String) (servers : List (Option String)) (failing : List Nat) (customFail : Bool)
    (dest : String → Option Dest) (prevRoutes prevOwns : List String)
    (code : String) (routes owns custom : List String) : Option String :=
  let owned := prevOwns.contains s!"{tok}|{h}"
  -- every stored route names a client to whom its hostname is registered
  match routes.find? (fun r => !(owns.contains s!"{field r 2}|{field r 0}") || field r 6 ≠ field r 0) with
  | some r => some s!"route {r} does not point to an owner of its hostname"
  | none =>
  -- other hostnames' routes and other clients' registrations are untouched
  if routes.filter (fun r => field r 0 ≠ h) ≠ prevRoutes.filter (fun r => field r 0 ≠ h) then
    some "routes of another hostname changed" else
  if owns.filter (fun o => field o 0 ≠ tok) ≠ prevOwns.filter (fun o => field o 0 ≠ tok) then
    some "registrations of another client changed" else
  if code = "ok" ∧ !owned then some s!"{op} succeeded for a hostname not registered to the caller" else
  if !owned ∧ (routes ≠ prevRoutes ∨ owns ≠ prevOwns) then some s!"refused {op} changed the DHT" else
  if op = "pub" ∧ code = "ok" then
    let req := (servers.filterMap (fun x => x)).eraseDups
    if req.length > 3 ∨ req.length < 1 then some "publish accepted a bad server list" else
    let bad := (List.range req.length).find? fun i =>
      !(failing.contains (i + 1)) &&
      match dest (req.getD i "") with
      | some d => !(routes.contains s!"{h}|{i+1}|{tok}|{id}|{d.chord}|{d.tunnel}|{h}")
      | none => true
    match bad with
    | some i => some s!"slot {i+1} does not hold the caller's route to the requested server"
    | none => none
  else if op = "rel" ∧ code = "ok" then
    if routes.any (fun r => field r 0 = h) then some "release left routes behind" else
    if owns.contains s!"{tok}|{h}" then some "release left the registration behind" else
    if !customFail ∧ custom.any (fun c => field c 0 = h) then some "release left the custom-hostname binding behind" else none
  else if op = "unpub" ∧ code = "ok" then
    if routes.any (fun r => field r 0 = h) then some "unpublish left routes behind" else none
  else none

def finish (d : DSt) (st' : St) (out : Out) (rhs : String) (toks : List String)
    (spec : String → List String → List String → List String → Option String) : DSt × Verdict :=
  let d' := { d with st := st' }
  match rhs.splitOn " " with
  | [code, pub, rts, own, cus] =>
    let d'' := { d' with prevRoutes := splitL rts, prevOwns := splitL own }
    match spec code (splitL rts) (splitL own) (splitL cus) with
    | some why => (d'', .spec why)
    | none =>
      let m := s!"{codeOf out} {pubOf out} {digest d'}"
      let _ := toks
      if m ≠ s!"{code} {pub} {rts} {own} {cus}" then (d'', .diff m) else (d'', .ok)
  | _ => (d', .bad "rhs shape")

def dstep (d : DSt) (toks : List String) (rhs : String) : DSt × Verdict :=
  match toks with
  | ["reset"] => (dinit, .ok)
  | ["dest", a, c, t] =>
    let st := d.st
    ({ d with st := { st with dest := fun x => if x = a then some ⟨c, t⟩ else st.dest x } }, .ok)
  | ["hold", tok, b] =>
    let (st', out) := Specter.C26.step d.st (.hold tok (b == "1"))
    finish { d with toks := addU tok d.toks } st' out ("ok - " ++ (rhs.drop 3).toString) toks (fun _ _ _ _ => none)
  | ["gen", tok, id] =>
    match id.toNat?, rhs.splitOn " " with
    | some n, [h, rts, own, cus] =>
      let c : Client := ⟨tok, n⟩
      let d1 := { d with toks := addU tok d.toks, hosts := addU h d.hosts }
      let (st', out) := Specter.C26.step d1.st (.generate c h)
      finish d1 st' out s!"ok - {rts} {own} {cus}" toks
        (fun code r o cu => specCheck "gen" tok id h [] [] false d.st.dest d.prevRoutes (addU s!"{tok}|{h}" d.prevOwns) code r o cu)
    | _, _ => (d, .bad "gen")
  | ["bind", tok, id, h] =>
    match id.toNat? with
    | some n =>
      let d1 := { d with toks := addU tok d.toks, hosts := addU h d.hosts }
      let (st', out) := Specter.C26.step d1.st (.bindCustom ⟨tok, n⟩ h)
      finish d1 st' out ("ok - " ++ (rhs.drop 3).toString) toks (fun _ _ _ _ => none)
    | none => (d, .bad "bind")
  | ["pub", tok, id, h, servers, failing] =>
    match id.toNat?, parseServers servers, parseSlots failing with
    | some n, some ss, some fs =>
      let d1 := { d with toks := addU tok d.toks, hosts := addU h d.hosts }
      let (st', out) := Specter.C26.step d1.st (.publish (faultsOf fs false) ⟨tok, n⟩ h ss)
      finish d1 st' out rhs toks (specCheck "pub" tok id h ss fs false d.st.dest d.prevRoutes d.prevOwns)
    | _, _, _ => (d, .bad "pub")
  | ["unpub", tok, id, h, failing] =>
    match id.toNat?, parseSlots failing with
    | some n, some fs =>
      let d1 := { d with toks := addU tok d.toks, hosts := addU h d.hosts }
      let (st', out) := Specter.C26.step d1.st (.unpublish (faultsOf fs false) ⟨tok, n⟩ h)
      finish d1 st' out rhs toks (specCheck "unpub" tok id h [] fs false d.st.dest d.prevRoutes d.prevOwns)
    | _, _ => (d, .bad "unpub")
  | ["rel", tok, id, h, failing, cf] =>
    match id.toNat?, parseSlots failing with
    | some n, some fs =>
      let d1 := { d with toks := addU tok d.toks, hosts := addU h d.hosts }
      let (st', out) := Specter.C26.step d1.st (.release (faultsOf fs (cf == "1")) ⟨tok, n⟩ h)
      finish d1 st' out rhs toks (specCheck "rel" tok id h [] fs (cf == "1") d.st.dest d.prevRoutes d.prevOwns)
    | _, _ => (d, .bad "rel")
  | _ => (d, .bad "unknown op")

def main : IO Unit := runLoop dinit dstep

end Specter.C26
