import SpecterModel.C11.Props
