// C26 correspondence: random multi-client histories of GenerateHostname / custom binding / PublishTunnel /
// UnpublishTunnel / ReleaseTunnel (+ a concurrently held lease, failing Put/Delete calls) run against the real
// handlers of tun/server over one recording in-memory DHT; after every call the whole DHT (routes, hostname
// registrations, custom bindings) is printed and compared with the Lean model and the executable statement.
//
// Every request reaches the handlers the way the transport delivers it: a StreamDelegate carrying the verified
// certificate AND the identity the peer claims on the stream. The claimed identity is absent, honest, or spoofed
// (the caller's own Id with another client's token as address, a cleared rendezvous flag, another client's whole
// identity, a foreign Id with the caller's own address, …); the stored routes must name the certificate identity.
//
// Concurrency: two or three requests (of the same or of different clients) run CONCURRENTLY through the real
// handlers while a deterministic scheduler sits in front of the DHT: every KV call of an in-flight request
// (Acquire / PrefixContains / Get / Put / Delete / PrefixRemove / Release — the natural yield points of the
// handlers) blocks until the scheduler grants it, one call at a time. The scheduler waits until every goroutine of
// the process is parked, then picks the request and which of its pending promise.All jobs runs next. Plans: a
// WINDOW (request 0 executes p KV calls, then the other requests run entirely, then request 0 continues) for every
// p, and random fine-grained interleavings. Each granted call is one `cs` line (call, result, whole DHT), the end of
// the scenario a `cend` line (returned codes, whole DHT) on which the statement is judged.
package main

import (
	"context"
	"errors"
	"os"
	"sort"
	"strconv"
	"strings"
	"sync/atomic"
	"time"

	"github.com/twitchtv/twirp"
	"go.miragespace.co/specter/spec/protocol"
	"go.miragespace.co/specter/spec/rpc"
	"go.miragespace.co/specter/spec/transport"
	"go.miragespace.co/specter/spec/tun"
	"go.miragespace.co/specter/tun/server"
	"go.uber.org/zap"
	"verif/harness/cmd/c25/rig"
	"verif/harness/hlib"
)

type client struct {
	tok string // the token as extractAuthenticated derives it
	id  uint64
	cn  string // certificate CommonName
}

// claim is the identity a peer claims on the stream (StreamDelegate.Identity); nil = none.
type claim = *protocol.Node

func claimTok(cl claim) string {
	if cl == nil {
		return "-"
	}
	rdv := "0"
	if cl.GetRendezvous() {
		rdv = "1"
	}
	return strconv.FormatUint(cl.GetId(), 10) + "|" + cl.GetAddress() + "|" + rdv
}

func parseClaim(t string) claim {
	f := strings.Split(t, "|")
	if len(f) != 3 {
		return nil
	}
	id, _ := strconv.ParseUint(f[0], 10, 64)
	return &protocol.Node{Id: id, Address: f[1], Rendezvous: f[2] == "1"}
}

// spoofKinds is the number of claim shapes of mkClaim.
const spoofKinds = 9

// mkClaim builds the claimed identity of shape `kind` for caller c; o is some other client (the victim).
func mkClaim(kind int, c, o client) claim {
	switch kind % spoofKinds {
	case 0: // honest: what the certificate says
		return &protocol.Node{Id: c.id, Address: c.tok, Rendezvous: true}
	case 1: // no identity on the stream
		return nil
	case 2: // own Id, the victim's token as address
		return &protocol.Node{Id: c.id, Address: o.tok, Rendezvous: true}
	case 3: // own Id and address, not a rendezvous node
		return &protocol.Node{Id: c.id, Address: c.tok, Rendezvous: false}
	case 4: // own Id, an address nobody has
		return &protocol.Node{Id: c.id, Address: "mallory", Rendezvous: true}
	case 5: // the victim's whole identity
		return &protocol.Node{Id: o.id, Address: o.tok, Rendezvous: true}
	case 6: // the victim's Id with the caller's own address
		return &protocol.Node{Id: o.id, Address: c.tok, Rendezvous: true}
	case 7: // own Id, the victim's token, not a rendezvous node
		return &protocol.Node{Id: c.id, Address: o.tok, Rendezvous: false}
	default: // an Id nobody has
		return &protocol.Node{Id: 99, Address: c.tok, Rendezvous: true}
	}
}

// creq is one request of a concurrent scenario.
type creq struct {
	tid     int
	op      string // pub | unpub | rel
	c       client
	cl      claim // identity claimed on the stream
	h       string
	srvToks []string
	code    string
	pubd    string
}

func main() {
	r := hlib.Start()
	r.Rule = "one case = a history of 10..40 calls by 2..4 clients over one DHT; non-trivial = distinct call line (op, caller, hostname kind, server list, faults) in a distinct history position; " +
		"hostnames: own (generated or custom-bound), foreign (another client's), never registered, already released; server lists: 0..6 entries with nil nodes, duplicates, " +
		"unknown servers and spoofed Id/Rendezvous fields; identity claimed on the stream of every call: none, honest, own Id with another client's token / an unknown address / cleared rendezvous flag, " +
		"another client's whole identity, a foreign Id with the own address; faults: failing Put/Delete per route slot, failing custom-hostname Delete, lease held by a concurrent call; " +
		"concurrent scenarios: 2..3 overlapping publish/unpublish/release requests of the same or of different clients, interleaved at KV-call granularity by a deterministic scheduler " +
		"(every window position p of request 0 x {publish 1..3 servers, unpublish, release} x {publish, unpublish, release} x {same client, other client} x {routes present or not}, plus random interleavings)"
	rng := hlib.NewRng(r.Seed)
	logger := zap.NewNop()
	ctx := context.Background()

	tunnelID := &protocol.Node{Id: 11, Address: "s1"}
	chordID := &protocol.Node{Id: 12, Address: "c1"}
	node := rig.NewRecNode(chordID)
	gate := &gateNode{RecNode: node}
	srv := server.New(server.Config{
		ParentContext: ctx, Logger: logger, Chord: gate, TunnelTransport: rig.NewTransport(tunnelID),
		ChordTransport: rig.NewTransport(chordID), Apex: "example.com", Acme: "acme.example.com",
	})

	clients := []client{
		{"alice", 1, "v1:1:alice"}, {"bob", 2, "v1:2:bob"},
		{"v2:3:carolhash", 3, "v2:3:carolhash"}, {"dave", 4, "v1:4:dave"},
	}
	servers := map[string]string{"s1": "c1", "s2": "c2", "s3": "c3", "s4": "c4"} // tunnel address -> chord address; s9 has no record
	callCtx := func(c client, cl claim) context.Context {
		return rpc.WithDelegation(ctx, &transport.StreamDelegate{Certificate: rig.Cert(c.cn), Identity: cl, Kind: protocol.Stream_RPC})
	}
	countClaim := func(c client, cl claim) {
		switch {
		case cl == nil:
			r.Count("claim:none")
		case cl.GetId() == c.id && cl.GetAddress() == c.tok && cl.GetRendezvous():
			r.Count("claim:honest")
		case cl.GetId() == c.id:
			r.Count("claim:own-id-spoofed")
		default:
			r.Count("claim:foreign-id")
		}
	}
	codeOf := func(err error) string {
		if err == nil {
			return "ok"
		}
		if te, ok := err.(twirp.Error); ok {
			return string(te.Code())
		}
		return "nontwirp"
	}
	digest := func() string {
		var routes, owns, custom []string
		for _, e := range node.Entries() {
			switch {
			case strings.HasPrefix(e.Key, "/tunnel/bundle/"):
				rest := strings.TrimPrefix(e.Key, "/tunnel/bundle/")
				i := strings.LastIndex(rest, "/")
				if len(e.Simple) == 0 {
					continue
				}
				rt := &protocol.TunnelRoute{}
				if rt.UnmarshalVT(e.Simple) != nil {
					routes = append(routes, rest[:i]+"|"+rest[i+1:]+"|undecodable")
					continue
				}
				cd := rt.GetClientDestination()
				rdv := "0"
				if cd.GetRendezvous() {
					rdv = "1"
				}
				routes = append(routes, rest[:i]+"|"+rest[i+1:]+"|"+cd.GetAddress()+"|"+strconv.FormatUint(cd.GetId(), 10)+"|"+
					rt.GetChordDestination().GetAddress()+"|"+rt.GetTunnelDestination().GetAddress()+"|"+rt.GetHostname()+"|"+rdv)
			case strings.HasPrefix(e.Key, "/tunnel/client/hostnames/"):
				t := strings.TrimPrefix(e.Key, "/tunnel/client/hostnames/")
				for _, h := range e.Children {
					owns = append(owns, t+"|"+h)
				}
			case strings.HasPrefix(e.Key, "/tunnel/client/custom/"):
				if len(e.Simple) == 0 {
					continue
				}
				ch := &protocol.CustomHostname{}
				ch.UnmarshalVT(e.Simple)
				custom = append(custom, strings.TrimPrefix(e.Key, "/tunnel/client/custom/")+"|"+string(ch.GetClientToken().GetToken())+"|"+
					strconv.FormatUint(ch.GetClientIdentity().GetId(), 10))
			}
		}
		sort.Strings(routes)
		sort.Strings(owns)
		sort.Strings(custom)
		return hlib.Join(routes, ";") + " " + hlib.Join(owns, ";") + " " + hlib.Join(custom, ";")
	}

	leases := map[string]uint64{}
	reset := func() {
		node.Reset()
		leases = map[string]uint64{}
		r.Raw("reset")
		addrs := make([]string, 0)
		for a := range servers {
			addrs = append(addrs, a)
		}
		sort.Strings(addrs)
		for _, a := range addrs {
			d := &protocol.TunnelDestination{Chord: &protocol.Node{Address: servers[a], Id: 70}, Tunnel: &protocol.Node{Address: a, Id: 71}}
			b, _ := d.MarshalVT()
			node.KV.Put(ctx, []byte(tun.DestinationByTunnelKey(&protocol.Node{Address: a})), b)
			r.Emit("dest "+a+" "+servers[a]+" "+a, "ok")
		}
	}
	setFaults := func(h string, slots []int, customFail bool) {
		node.FailPut = map[string]error{}
		for _, k := range slots {
			node.FailPut[tun.RoutingKey(h, k)] = errors.New("injected kv failure")
		}
		if customFail {
			node.FailPut[tun.CustomHostnameKey(h)] = errors.New("injected kv failure")
		}
	}
	slotTok := func(slots []int) string {
		s := make([]string, len(slots))
		for i, k := range slots {
			s[i] = strconv.Itoa(k)
		}
		return hlib.Join(s, ",")
	}
	guard := func(f func() string) (out string) {
		defer func() {
			if e := recover(); e != nil {
				out = "panic"
			}
		}()
		return f()
	}

	// --- operations (each prints one line) ---
	gen := func(c client, cl claim) string {
		var h string
		code := guard(func() string {
			resp, err := srv.GenerateHostname(callCtx(c, cl), &protocol.GenerateHostnameRequest{})
			if err == nil {
				h = resp.GetHostname()
			}
			return codeOf(err)
		})
		if code != "ok" {
			h = "err:" + code
		}
		r.Emit("gen "+c.tok+" "+strconv.FormatUint(c.id, 10)+" "+claimTok(cl), h+" "+digest())
		r.Count("op:gen")
		countClaim(c, cl)
		return h
	}
	bind := func(c client, h string) {
		tun.SaveCustomHostname(ctx, node.KV, h, &protocol.CustomHostname{
			ClientIdentity: &protocol.Node{Id: c.id, Address: c.tok, Rendezvous: true}, ClientToken: &protocol.ClientToken{Token: []byte(c.tok)}})
		node.KV.PrefixAppend(ctx, []byte(tun.ClientHostnamesPrefix(&protocol.ClientToken{Token: []byte(c.tok)})), []byte(h))
		r.Emit("bind "+c.tok+" "+strconv.FormatUint(c.id, 10)+" "+h, "ok "+digest())
		r.Count("op:bind")
	}
	pub := func(c client, cl claim, h string, srvToks []string, slots []int, kind string) {
		var nodes []*protocol.Node
		for i, t := range srvToks {
			if t == "n" {
				nodes = append(nodes, nil)
				continue
			}
			// only the address matters: Id / Rendezvous are attacker-controlled noise
			nodes = append(nodes, &protocol.Node{Address: t[1:], Id: uint64(1000*i) + c.id, Rendezvous: i%2 == 0})
		}
		setFaults(h, slots, false)
		published := "-"
		code := guard(func() string {
			resp, err := srv.PublishTunnel(callCtx(c, cl), &protocol.PublishTunnelRequest{Hostname: h, Servers: nodes})
			if err == nil {
				var p []string
				for _, n := range resp.GetPublished() {
					p = append(p, n.GetAddress())
				}
				published = hlib.Join(p, ",")
			}
			return codeOf(err)
		})
		node.FailPut = map[string]error{}
		lhs := "pub " + c.tok + " " + strconv.FormatUint(c.id, 10) + " " + h + " " + hlib.Join(srvToks, ",") + " " + slotTok(slots) + " " + claimTok(cl)
		r.Emit(lhs, code+" "+published+" "+digest())
		r.Case(lhs)
		countClaim(c, cl)
		r.Count("op:pub/" + kind + "/" + code)
	}
	unpub := func(c client, cl claim, h string, slots []int, kind string) {
		setFaults(h, slots, false)
		code := guard(func() string {
			_, err := srv.UnpublishTunnel(callCtx(c, cl), &protocol.UnpublishTunnelRequest{Hostname: h})
			return codeOf(err)
		})
		node.FailPut = map[string]error{}
		lhs := "unpub " + c.tok + " " + strconv.FormatUint(c.id, 10) + " " + h + " " + slotTok(slots) + " " + claimTok(cl)
		r.Emit(lhs, code+" - "+digest())
		r.Case(lhs)
		r.Count("op:unpub/" + kind + "/" + code)
	}
	rel := func(c client, cl claim, h string, slots []int, customFail bool, kind string) {
		setFaults(h, slots, customFail)
		code := guard(func() string {
			_, err := srv.ReleaseTunnel(callCtx(c, cl), &protocol.ReleaseTunnelRequest{Hostname: h})
			return codeOf(err)
		})
		node.FailPut = map[string]error{}
		cf := "0"
		if customFail {
			cf = "1"
		}
		lhs := "rel " + c.tok + " " + strconv.FormatUint(c.id, 10) + " " + h + " " + slotTok(slots) + " " + cf + " " + claimTok(cl)
		r.Emit(lhs, code+" - "+digest())
		r.Case(lhs)
		r.Count("op:rel/" + kind + "/" + code)
	}
	hold := func(c client, on bool) {
		key := []byte(tun.ClientLeaseKey(&protocol.ClientToken{Token: []byte(c.tok)}))
		b := "0"
		if on {
			if _, held := leases[c.tok]; held {
				return
			}
			t, err := node.KV.Acquire(ctx, key, 10*time.Minute)
			if err != nil {
				return
			}
			leases[c.tok] = t
			b = "1"
		} else {
			t, held := leases[c.tok]
			if !held {
				return
			}
			node.KV.Release(ctx, key, t)
			delete(leases, c.tok)
		}
		r.Emit("hold "+c.tok+" "+b, "ok "+digest())
		r.Count("op:hold")
	}

	// --- concurrent scenarios ---
	leaseKeys, prefixKeys, destKeys := map[string]string{}, map[string]string{}, map[string]string{}
	for _, c := range clients {
		t := &protocol.ClientToken{Token: []byte(c.tok)}
		leaseKeys[tun.ClientLeaseKey(t)] = c.tok
		prefixKeys[tun.ClientHostnamesPrefix(t)] = c.tok
	}
	for _, a := range []string{"s1", "s2", "s3", "s4", "s9"} {
		destKeys[tun.DestinationByTunnelKey(&protocol.Node{Address: a})] = a
	}
	gate.name = func(op string, key, child []byte) string {
		k := string(key)
		switch op {
		case "acquire", "unlock":
			if t, ok := leaseKeys[k]; ok {
				return op + " " + t
			}
		case "contains", "premove":
			if t, ok := prefixKeys[k]; ok && len(child) > 0 && !strings.ContainsAny(string(child), " \n") {
				return op + " " + t + " " + string(child)
			}
		case "get":
			if a, ok := destKeys[k]; ok {
				return "get " + a
			}
		case "put", "del":
			if rest, ok := strings.CutPrefix(k, "/tunnel/bundle/"); ok {
				if i := strings.LastIndex(rest, "/"); i > 0 {
					return op + " " + rest[:i] + " " + rest[i+1:]
				}
			}
			if h, ok := strings.CutPrefix(k, "/tunnel/client/custom/"); ok && op == "del" {
				return "delcustom " + h
			}
		}
		return "other " + op + " " + hlib.HexS(k) + " " + hlib.Hex(child)
	}
	// conc runs the requests concurrently under the plan; the injected faults hold for the whole scenario.
	// It returns the number of KV calls request 0 executed.
	conc := func(reqs []*creq, slots []int, cf bool, pl plan, label string) int {
		node.FailPut = map[string]error{}
		for _, q := range reqs {
			for _, k := range slots {
				node.FailPut[tun.RoutingKey(q.h, k)] = errors.New("injected kv failure")
			}
			if cf {
				node.FailPut[tun.CustomHostnameKey(q.h)] = errors.New("injected kv failure")
			}
		}
		cfTok := "0"
		if cf {
			cfTok = "1"
		}
		key := label
		for _, q := range reqs {
			lhs := "creq " + strconv.Itoa(q.tid) + " " + q.op + " " + q.c.tok + " " + strconv.FormatUint(q.c.id, 10) + " " + q.h
			switch q.op {
			case "pub":
				lhs += " " + hlib.Join(q.srvToks, ",") + " " + slotTok(slots)
			case "unpub":
				lhs += " " + slotTok(slots)
			default:
				lhs += " " + slotTok(slots) + " " + cfTok
			}
			lhs += " " + claimTok(q.cl)
			countClaim(q.c, q.cl)
			r.Emit(lhs, "ok")
			key += "|" + lhs
		}
		var fin atomic.Int32
		gate.active.Store(true)
		for _, q := range reqs {
			q := q
			go func() {
				rctx := withTid(callCtx(q.c, q.cl), q.tid)
				q.pubd = "-"
				q.code = guard(func() string {
					switch q.op {
					case "pub":
						var nodes []*protocol.Node
						for i, t := range q.srvToks {
							if t == "n" {
								nodes = append(nodes, nil)
								continue
							}
							nodes = append(nodes, &protocol.Node{Address: t[1:], Id: uint64(1000*i) + q.c.id, Rendezvous: i%2 == 0})
						}
						resp, err := srv.PublishTunnel(rctx, &protocol.PublishTunnelRequest{Hostname: q.h, Servers: nodes})
						if err == nil {
							var p []string
							for _, n := range resp.GetPublished() {
								p = append(p, n.GetAddress())
							}
							q.pubd = hlib.Join(p, ",")
						}
						return codeOf(err)
					case "unpub":
						_, err := srv.UnpublishTunnel(rctx, &protocol.UnpublishTunnelRequest{Hostname: q.h})
						return codeOf(err)
					default:
						_, err := srv.ReleaseTunnel(rctx, &protocol.ReleaseTunnelRequest{Hostname: q.h})
						return codeOf(err)
					}
				})
				fin.Add(1)
			}()
		}
		steps0 := 0
		hang := gate.schedule(len(reqs), func() int { return int(fin.Load()) }, pl, func(sr stepRec) {
			if sr.tid == 0 {
				steps0++
			}
			r.Emit("cs "+strconv.Itoa(sr.tid)+" "+sr.desc, sr.res+" "+digest())
			key += "|" + strconv.Itoa(sr.tid) + ":" + sr.desc
			r.Count("kv:" + strings.Fields(sr.desc)[0] + "/" + sr.res)
		})
		gate.drain()
		if hang {
			for i := 0; i < 5000 && int(fin.Load()) < len(reqs); i++ {
				time.Sleep(time.Millisecond)
			}
			if int(fin.Load()) < len(reqs) {
				r.Emit("cend", "hang "+digest())
				r.Finish()
				os.Exit(0)
			}
		}
		node.FailPut = map[string]error{}
		var outs, kinds []string
		oks := 0
		for _, q := range reqs {
			outs = append(outs, strconv.Itoa(q.tid)+":"+q.code+":"+q.pubd)
			kinds = append(kinds, q.op)
			if q.code == "ok" {
				oks++
			}
			r.Count("conc-result:" + q.op + "/" + q.code)
		}
		r.Emit("cend", hlib.Join(outs, ";")+" "+digest())
		r.Case(key)
		r.Count("conc:" + label + "/" + hlib.Join(kinds, "+") + "/ok=" + strconv.Itoa(oks))
		return steps0
	}

	if r.Replay != "" {
		byTok := map[string]client{}
		for _, c := range clients {
			byTok[c.tok] = c
		}
		ren := map[string]string{} // recorded generated hostname -> hostname generated now
		name := func(h string) string {
			if n, ok := ren[h]; ok {
				return n
			}
			return h
		}
		slotsOf := func(s string) []int {
			var out []int
			if s != "-" {
				for _, x := range strings.Split(s, ",") {
					k, _ := strconv.Atoi(x)
					out = append(out, k)
				}
			}
			return out
		}
		claimAt := func(t []string, i int) claim { // recordings made before claims existed have no such token
			if len(t) > i {
				return parseClaim(t[i])
			}
			return nil
		}
		lines, _ := readReplay(r.Replay)
		started := false
		var creqs []*creq
		var script [][2]string
		var cslots []int
		ccf := false
		for _, ln := range lines {
			t := strings.Fields(ln.lhs)
			if len(t) == 0 {
				continue
			}
			if !started && t[0] != "reset" {
				reset()
			}
			started = true
			switch t[0] {
			case "reset":
				reset()
			case "gen":
				h := gen(byTok[t[1]], claimAt(t, 3))
				if f := strings.Fields(ln.rhs); len(f) > 0 {
					ren[f[0]] = h
				}
			case "bind":
				bind(byTok[t[1]], name(t[3]))
			case "pub":
				var st []string
				if t[4] != "-" {
					st = strings.Split(t[4], ",")
				}
				pub(byTok[t[1]], claimAt(t, 6), name(t[3]), st, slotsOf(t[5]), "replay")
			case "unpub":
				unpub(byTok[t[1]], claimAt(t, 5), name(t[3]), slotsOf(t[4]), "replay")
			case "rel":
				rel(byTok[t[1]], claimAt(t, 6), name(t[3]), slotsOf(t[4]), t[5] == "1", "replay")
			case "hold":
				hold(byTok[t[1]], t[2] == "1")
			case "creq":
				if len(t) < 7 {
					continue
				}
				tid, _ := strconv.Atoi(t[1])
				q := &creq{tid: tid, op: t[2], c: byTok[t[3]], h: name(t[5])}
				switch q.op {
				case "pub":
					if t[6] != "-" {
						q.srvToks = strings.Split(t[6], ",")
					}
					if len(t) > 7 {
						cslots = slotsOf(t[7])
					}
					q.cl = claimAt(t, 8)
				case "unpub":
					cslots = slotsOf(t[6])
					q.cl = claimAt(t, 7)
				default:
					cslots = slotsOf(t[6])
					ccf = len(t) > 7 && t[7] == "1"
					q.cl = claimAt(t, 8)
				}
				creqs = append(creqs, q)
			case "cs":
				if len(t) >= 3 {
					d := t[2:]
					for i := range d { // generated hostnames are renamed
						d[i] = name(d[i])
					}
					script = append(script, [2]string{t[1], strings.Join(d, " ")})
				}
			case "cend":
				if len(creqs) > 0 {
					conc(creqs, cslots, ccf, scriptPlan(script), "replay")
				}
				creqs, script, cslots, ccf = nil, nil, nil, false
			}
		}
		if len(creqs) > 0 { // the recorded case ended inside a scenario
			conc(creqs, cslots, ccf, scriptPlan(script), "replay")
		}
		r.Finish()
		return
	}

	// --- directed: every shape of claimed stream identity on every kind of call, one call at a time ---
	for kind := 0; kind < spoofKinds; kind++ {
		for _, ci := range []int{0, 2} { // a v1 token and a v2 token
			reset()
			c, o := clients[ci], clients[1]
			cl, ocl := mkClaim(kind, c, o), mkClaim(kind, o, c)
			h := gen(c, cl)
			if strings.HasPrefix(h, "err:") {
				continue
			}
			gen(o, mkClaim(0, o, c))
			pub(c, cl, h, []string{"as1", "as2", "as3"}, nil, "own")
			pub(o, ocl, h, []string{"as4"}, nil, "foreign") // the non-owner claims (parts of) the owner's identity
			unpub(o, ocl, h, nil, "foreign")
			unpub(c, cl, h, nil, "own")
			pub(c, cl, h, []string{"as2", "n", "as2", "as4"}, []int{1}, "own")
			rel(o, ocl, h, nil, false, "foreign")
			rel(c, cl, h, nil, false, "own")
			pub(c, cl, h, []string{"as1"}, nil, "released")
		}
	}

	// --- directed concurrent scenarios: every window position of request 0 ---
	type akind struct {
		op  string
		srv []string
	}
	aKinds := []akind{{"pub", []string{"as1"}}, {"pub", []string{"as2", "as1"}}, {"pub", []string{"as3", "n", "as1", "as3", "as2"}}, {"unpub", nil}, {"rel", nil}}
	bKinds := []akind{{"pub", []string{"as4", "as2"}}, {"unpub", nil}, {"rel", nil}}
	directed := func(ak, bk akind, other, pre, custom bool, mode int, third *akind) {
		for p := 0; ; p++ {
			reset()
			alice, bob := clients[0], clients[1]
			var h string
			if custom {
				h = "shop.customer.net"
				bind(alice, h)
			} else if h = gen(alice, mkClaim(p+mode, alice, bob)); strings.HasPrefix(h, "err:") {
				return
			}
			gen(bob, mkClaim(0, bob, alice))
			if pre {
				pub(alice, mkClaim(2*((p+mode)%2), alice, bob), h, []string{"as2", "as3"}, nil, "own")
			}
			bc := alice
			if other {
				bc = bob
			}
			// the claimed identities rotate with the window position: own Id + the other client's token first
			k0 := []int{2, 0, 7, 3, 1, 4}[(p+mode)%6]
			bo := bob
			if other {
				bo = alice
			}
			reqs := []*creq{{tid: 0, op: ak.op, c: alice, cl: mkClaim(k0, alice, bob), h: h, srvToks: ak.srv},
				{tid: 1, op: bk.op, c: bc, cl: mkClaim(2*p+mode+5, bc, bo), h: h, srvToks: bk.srv}}
			if third != nil {
				reqs = append(reqs, &creq{tid: 2, op: third.op, c: alice, cl: mkClaim(p+2, alice, bob), h: h, srvToks: third.srv})
			}
			label := "window"
			if other {
				label = "window-other"
			}
			n0 := conc(reqs, nil, false, windowPlan(p, mode), label)
			// afterwards the hostname can be claimed again (custom) or is gone for good: a sequential epilogue
			pub(alice, mkClaim(p+mode+2, alice, bob), h, []string{"as1"}, nil, "after")
			if custom && !strings.Contains(digest(), alice.tok+"|"+h) {
				bind(bob, h) // the released custom hostname is claimed by another client
				pub(bob, mkClaim(p+mode+2, bob, alice), h, []string{"as4"}, nil, "after")
			}
			if p >= n0 {
				return
			}
		}
	}
	for ai, ak := range aKinds {
		for bi, bk := range bKinds {
			for _, other := range []bool{false, true} {
				for _, pre := range []bool{false, true} {
					if other && !pre && !r.Thorough() {
						continue
					}
					custom := (ai+bi)%2 == 1 && !other
					directed(ak, bk, other, pre, custom, (ai+bi)%3, nil)
					if r.Thorough() {
						directed(ak, bk, other, pre, !custom && !other, (ai+bi+1)%3, nil)
						directed(ak, bk, other, pre, custom, (ai+bi+2)%3, &bKinds[(ai+bi)%3])
					}
				}
			}
		}
	}

	histories := 150
	if r.Thorough() {
		histories = 5000
	}
	srvPool := []string{"as1", "as2", "as3", "as4", "as9", "n"}
	for hi := 0; hi < histories; hi++ {
		reset()
		nc := 2 + rng.Intn(3)
		cs := clients[:nc]
		// the identity a call claims on its stream: mostly honest or the caller's own Id with somebody else's address
		pickClaim := func(c client) claim {
			o := hlib.Pick(rng, cs)
			for o.tok == c.tok {
				o = hlib.Pick(rng, cs)
			}
			kind := 0
			switch k := rng.Intn(100); {
			case k < 30:
				kind = 0
			case k < 40:
				kind = 1
			case k < 60:
				kind = 2
			case k < 68:
				kind = 3
			case k < 74:
				kind = 4
			case k < 82:
				kind = 5
			case k < 88:
				kind = 6
			case k < 95:
				kind = 7
			default:
				kind = 8
			}
			return mkClaim(kind, c, o)
		}
		owned := map[string][]string{} // token -> hostnames currently registered (harness bookkeeping for generation only)
		released := []string{}
		customN := 0
		// every client starts with a hostname or two
		for _, c := range cs {
			for k := 0; k < 1+rng.Intn(2); k++ {
				if h := gen(c, pickClaim(c)); !strings.HasPrefix(h, "err:") {
					owned[c.tok] = append(owned[c.tok], h)
				}
			}
		}
		steps := 10 + rng.Intn(30)
		for s := 0; s < steps; s++ {
			c := hlib.Pick(rng, cs)
			// choose a hostname and remember what kind it is
			kind, h := "own", ""
			switch k := rng.Intn(100); {
			case k < 55 && len(owned[c.tok]) > 0:
				h = hlib.Pick(rng, owned[c.tok])
			case k < 80:
				o := hlib.Pick(rng, cs)
				if o.tok != c.tok && len(owned[o.tok]) > 0 {
					kind, h = "foreign", hlib.Pick(rng, owned[o.tok])
				}
			case k < 90 && len(released) > 0:
				kind, h = "released", hlib.Pick(rng, released)
			}
			if h == "" {
				kind, h = "unregistered", "ghost-"+strconv.Itoa(rng.Intn(3))+".example.org"
			}
			var slots []int
			if rng.Chance(15) {
				for k := 1; k <= 3; k++ {
					if rng.Chance(45) {
						slots = append(slots, k)
					}
				}
			}
			if rng.Chance(10) {
				// overlapping requests, mostly of the same client on the same hostname
				nreq := 2
				if rng.Chance(25) {
					nreq = 3
				}
				var reqs []*creq
				for i := 0; i < nreq; i++ {
					q := &creq{tid: i, c: c, h: h}
					if i > 0 && rng.Chance(25) {
						q.c = hlib.Pick(rng, cs)
					}
					q.cl = pickClaim(q.c)
					if i > 0 && rng.Chance(20) {
						if len(owned[q.c.tok]) > 0 {
							q.h = hlib.Pick(rng, owned[q.c.tok])
						} else {
							q.h = "ghost-" + strconv.Itoa(rng.Intn(3)) + ".example.org"
						}
					}
					switch k := rng.Intn(100); {
					case k < 50:
						q.op = "pub"
						n := 1 + rng.Intn(3)
						if rng.Chance(10) {
							n = rng.Intn(6)
						}
						for j := 0; j < n; j++ {
							t := hlib.Pick(rng, srvPool)
							if t == "as9" && rng.Chance(70) {
								t = "as1"
							}
							q.srvToks = append(q.srvToks, t)
						}
					case k < 70:
						q.op = "unpub"
					default:
						q.op = "rel"
					}
					reqs = append(reqs, q)
				}
				var pl plan
				label := "random"
				if rng.Chance(50) {
					label = "window"
					pl = windowPlan(rng.Intn(12), rng.Intn(9))
				} else {
					pl = func(step int, ready map[int][]*pendingCall) *pendingCall {
						tids := make([]int, 0, len(ready))
						for t := range ready {
							tids = append(tids, t)
						}
						sort.Ints(tids)
						cs := ready[hlib.Pick(rng, tids)]
						return cs[rng.Intn(len(cs))]
					}
				}
				conc(reqs, slots, rng.Chance(10), pl, label)
				// bookkeeping from the DHT itself
				d := digest()
				for _, cl := range cs {
					xs := owned[cl.tok][:0]
					for _, x := range owned[cl.tok] {
						if strings.Contains(d, cl.tok+"|"+x) {
							xs = append(xs, x)
						} else {
							released = append(released, x)
						}
					}
					owned[cl.tok] = xs
				}
				continue
			}
			switch op := rng.Intn(100); {
			case op < 8:
				if hn := gen(c, pickClaim(c)); !strings.HasPrefix(hn, "err:") {
					owned[c.tok] = append(owned[c.tok], hn)
				}
			case op < 12:
				customN++
				hn := "app" + strconv.Itoa(customN) + ".customer.net"
				bind(c, hn)
				owned[c.tok] = append(owned[c.tok], hn)
			case op < 60:
				n := rng.Intn(7)
				if rng.Chance(60) {
					n = 1 + rng.Intn(3)
				}
				st := make([]string, n)
				for i := range st {
					st[i] = hlib.Pick(rng, srvPool)
					if i > 0 && rng.Chance(25) {
						st[i] = st[i-1]
					}
					if rng.Chance(70) && st[i] == "as9" {
						st[i] = "as2"
					}
				}
				pub(c, pickClaim(c), h, st, slots, kind)
			case op < 75:
				unpub(c, pickClaim(c), h, slots, kind)
			case op < 92:
				cf := rng.Chance(10)
				before := digest()
				rel(c, pickClaim(c), h, slots, cf, kind)
				if kind == "own" && before != digest() {
					// bookkeeping: the registration is gone when the digest no longer lists it
					if !strings.Contains(digest(), c.tok+"|"+h) {
						xs := owned[c.tok][:0]
						for _, x := range owned[c.tok] {
							if x != h {
								xs = append(xs, x)
							}
						}
						owned[c.tok] = xs
						released = append(released, h)
					}
				}
			case op < 96:
				hold(c, true)
			default:
				hold(c, false)
			}
		}
	}
	r.Finish()
}

type replayLine struct{ lhs, rhs string }

func readReplay(path string) ([]replayLine, error) {
	b, err := os.ReadFile(path)
	if err != nil {
		return nil, err
	}
	var out []replayLine
	for _, l := range strings.Split(string(b), "\n") {
		l = strings.TrimSpace(l)
		if l == "" || strings.HasPrefix(l, "#") {
			continue
		}
		rl := replayLine{lhs: l}
		if i := strings.Index(l, " => "); i >= 0 {
			rl.lhs, rl.rhs = l[:i], l[i+4:]
		}
		out = append(out, rl)
	}
	return out, nil
}
