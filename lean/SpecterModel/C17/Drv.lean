import SpecterModel.C16.Drv
/-! C17 line-protocol driver: the shared KV driver (`SpecterModel/C16/Drv.lean`) judging the C17 operations. -/
namespace Specter.C17

def main : IO Unit := Specter.C16.mainFor .c17

end Specter.C17
