// C12 correspondence: real chord.MakeSuccListByID / MakeSuccListByAddress over fake VNodes vs the Lean
// model (makeSuccList) and the statement's well-formedness predicate.
package main

import (
	"fmt"
	"strconv"
	"strings"

	"go.miragespace.co/specter/spec/chord"
	"go.miragespace.co/specter/spec/protocol"
	"verif/harness/hlib"
)

// fake is a minimal chord.VNode: only ID() and Identity() are implemented; any other method call
// hits the nil embedded interface and panics (reported as `panic`).
type fake struct {
	chord.VNode
	id    uint64
	ident *protocol.Node
	tag   int
}

func (f *fake) ID() uint64               { return f.id }
func (f *fake) Identity() *protocol.Node { return f.ident }

func mk(id uint64, addr string, tag int) *fake {
	return &fake{id: id, ident: &protocol.Node{Id: id, Address: addr}, tag: tag}
}

func tok(v chord.VNode) string {
	if v == nil {
		return "nil"
	}
	f, ok := v.(*fake)
	if !ok {
		return "foreign"
	}
	return strconv.FormatUint(f.id, 10) + "." + f.ident.Address + "." + strconv.Itoa(f.tag)
}

func toks(vs []chord.VNode) string {
	if len(vs) == 0 {
		return "-"
	}
	var sb strings.Builder
	for i, v := range vs {
		if i > 0 {
			sb.WriteByte(',')
		}
		sb.WriteString(tok(v))
	}
	return sb.String()
}

var r *hlib.Run

func eval(op string, imm chord.VNode, cands []chord.VNode, maxLen int) {
	res := func() (s string) {
		defer func() {
			if e := recover(); e != nil {
				s = "panic"
			}
		}()
		var out []chord.VNode
		if op == "byid" {
			out = chord.MakeSuccListByID(imm, cands, maxLen)
		} else {
			out = chord.MakeSuccListByAddress(imm, cands, maxLen)
		}
		return toks(out)
	}()
	lhs := op + " " + tok(imm) + " " + toks(cands) + " " + strconv.Itoa(maxLen)
	r.Raw("# case") // every line is an independent case: keeps replays minimal
	r.Emit(lhs, res)
	nils, dups := 0, false
	seen := map[string]bool{}
	k := func(v chord.VNode) string {
		f := v.(*fake)
		if op == "byid" {
			return strconv.FormatUint(f.id, 10)
		}
		return f.ident.Address
	}
	seen[k(imm)] = true
	for _, c := range cands {
		if c == nil {
			nils++
			continue
		}
		if seen[k(c)] {
			dups = true
		}
		seen[k(c)] = true
	}
	if len(cands) == 0 {
		r.Case("")
	} else {
		r.Case(lhs)
	}
	r.Count(op)
	r.Count(fmt.Sprintf("len=%d", len(cands)))
	r.Count(fmt.Sprintf("maxLen=%d", maxLen))
	if nils > 0 {
		r.Count("has-nil")
	}
	if dups {
		r.Count("has-duplicate-key")
	}
	if len(seen) > maxLen {
		r.Count("truncated-by-maxLen")
	}
}

var addrs = []string{"a", "b", "c"}

// build turns a key sequence (0 = nil, 1..3 = key index) into fake nodes; the non-key attribute is
// drawn from the rng so that equal keys come with differing other attributes (and vice versa).
func build(op string, keys []int, rng *hlib.Rng, tag0 int) []chord.VNode {
	out := make([]chord.VNode, len(keys))
	for i, k := range keys {
		if k == 0 {
			continue // stays a nil interface
		}
		if op == "byid" {
			out[i] = mk(uint64(k), hlib.Pick(rng, addrs), tag0+i)
		} else {
			out[i] = mk(uint64(1+rng.Intn(3)), addrs[k-1], tag0+i)
		}
	}
	return out
}

func enumerate(maxN int, rng *hlib.Rng) {
	for _, op := range []string{"byid", "byaddr"} {
		for n := 0; n <= maxN; n++ {
			keys := make([]int, n)
			total := 1
			for i := 0; i < n; i++ {
				total *= 4
			}
			for code := 0; code < total; code++ {
				c := code
				for i := 0; i < n; i++ {
					keys[i] = c % 4
					c /= 4
				}
				for immK := 1; immK <= 3; immK++ {
					imm := build(op, []int{immK}, rng, 0)[0]
					cands := build(op, keys, rng, 1)
					for maxLen := 1; maxLen <= 6; maxLen++ {
						eval(op, imm, cands, maxLen)
					}
				}
			}
		}
	}
}

func parseNode(s string, cache map[string]*fake) chord.VNode {
	if s == "nil" {
		return nil
	}
	if f, ok := cache[s]; ok {
		return f
	}
	p := strings.Split(s, ".")
	id, _ := strconv.ParseUint(p[0], 10, 64)
	tag, _ := strconv.Atoi(p[2])
	f := mk(id, p[1], tag)
	cache[s] = f
	return f
}

func main() {
	r = hlib.Start()
	r.Rule = "case = (function, immediate, candidate list, maxLen); candidates are nil or fake VNodes (id in 1..3 / 1..5, address in a..c / a..e, unique tag = pointer identity); exhaustive over key sequences {nil,k1,k2,k3}^n (n<=5 quick, n<=8 thorough) x immediate key x maxLen 1..6 for both functions, then random cases incl. repeated pointers, larger alphabets, maxLen 0 and 7..9; non-trivial = non-empty candidate list"
	rng := hlib.NewRng(r.Seed)
	if r.Replay != "" {
		for _, t := range r.ReplayLines() {
			if len(t) != 4 {
				continue
			}
			cache := map[string]*fake{}
			imm := parseNode(t[1], cache)
			var cands []chord.VNode
			if t[2] != "-" {
				for _, c := range strings.Split(t[2], ",") {
					cands = append(cands, parseNode(c, cache))
				}
			}
			ml, _ := strconv.Atoi(t[3])
			eval(t[0], imm, cands, ml)
		}
		r.Finish()
		return
	}
	if r.Thorough() {
		enumerate(8, rng)
	} else {
		enumerate(5, rng)
	}
	n := 60_000
	if r.Thorough() {
		n = 300_000
	}
	for i := 0; i < n; i++ {
		op := "byid"
		if rng.Bool() {
			op = "byaddr"
		}
		nid, nad := 3, 3
		if rng.Chance(30) {
			nid, nad = 5, 5
		}
		al := []string{"a", "b", "c", "d", "e"}
		pool := []chord.VNode{}
		newNode := func(tag int) chord.VNode {
			return mk(uint64(1+rng.Intn(nid)), al[rng.Intn(nad)], tag)
		}
		imm := newNode(0)
		ln := rng.Intn(9)
		cands := make([]chord.VNode, 0, ln)
		for j := 0; j < ln; j++ {
			switch x := rng.Intn(10); {
			case x < 2:
				cands = append(cands, nil)
			case x < 4 && len(pool) > 0:
				cands = append(cands, hlib.Pick(rng, pool)) // the same pointer again
			case x == 4:
				cands = append(cands, imm) // the immediate node itself among the candidates
			default:
				v := newNode(j + 1)
				pool = append(pool, v)
				cands = append(cands, v)
			}
		}
		maxLen := 1 + rng.Intn(6)
		if rng.Chance(5) {
			maxLen = hlib.Pick(rng, []int{0, 7, 8, 9})
		}
		eval(op, imm, cands, maxLen)
	}
	r.Finish()
}
