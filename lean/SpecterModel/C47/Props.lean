import SpecterModel.C47.Model
/-!
# C47 — Listen address lists are normalized faithfully

`parse` (the code: loop with `seen`, duplicate test before validation, early return) equals `spec` (the
statement: trim, drop blanks, non-empty overrides replace base, error when nothing is left or when any
remaining address does not split / has a non-IP non-Fly host, otherwise the first occurrences in order, each
with the network of its family). Plus the facts that make `spec` say what the statement says: what `trim`
removes, what `firsts` keeps, which network each class gets.
-/
namespace Specter.C47

/-! ## trimming -/

theorem coalesce_eq (l : List Str) : coalesce l = (l.map trim).filter (· ≠ []) := by
  induction l with
  | nil => rfl
  | cons a rest ih =>
    simp only [coalesce, List.map_cons, List.filter_cons]
    by_cases h : trim a = [] <;> simp [h, ih]

theorem mem_takeWhile_imp {p : α → Bool} {l : List α} {x : α} (h : x ∈ l.takeWhile p) : p x = true := by
  induction l with
  | nil => simp at h
  | cons a l ih =>
    simp only [List.takeWhile_cons] at h
    split at h
    · rcases List.mem_cons.mp h with e | e
      · subst e; assumption
      · exact ih e
    · simp at h

/-- C47 `trim_removes_only_blanks`: `trim s` is `s` minus a prefix and a suffix made of space characters only. -/
theorem trim_removes_only_blanks (s : Str) :
    ∃ pre suf, s = pre ++ trim s ++ suf ∧ (∀ c ∈ pre, isSpace c = true) ∧ (∀ c ∈ suf, isSpace c = true) := by
  refine ⟨s.takeWhile isSpace, (((s.dropWhile isSpace).reverse).takeWhile isSpace).reverse, ?_, ?_, ?_⟩
  · have h1 : s = s.takeWhile isSpace ++ s.dropWhile isSpace := (List.takeWhile_append_dropWhile).symm
    have h2 : (s.dropWhile isSpace).reverse =
        ((s.dropWhile isSpace).reverse).takeWhile isSpace ++ ((s.dropWhile isSpace).reverse).dropWhile isSpace :=
      (List.takeWhile_append_dropWhile).symm
    have h3 : s.dropWhile isSpace = trim s ++ (((s.dropWhile isSpace).reverse).takeWhile isSpace).reverse := by
      have := congrArg List.reverse h2
      simp only [List.reverse_reverse, List.reverse_append] at this
      exact this
    rw [List.append_assoc, ← h3]; exact h1
  · intro c hc; exact mem_takeWhile_imp hc
  · intro c hc; rw [List.mem_reverse] at hc; exact mem_takeWhile_imp hc

theorem head_dropWhile (s : Str) (c : Char) (h : (s.dropWhile isSpace).head? = some c) : isSpace c = false := by
  have := List.head?_dropWhile_not isSpace s
  rw [h] at this; exact this

/-- C47 `trim_is_tight`: a non-empty trimmed string neither starts nor ends with a space character. -/
theorem trim_is_tight (s : Str) (c : Char) :
    ((trim s).head? = some c → isSpace c = false) ∧ ((trim s).getLast? = some c → isSpace c = false) := by
  constructor
  · intro h
    -- head of the reversed suffix-trimmed string = last of a non-empty suffix of the left-trimmed string
    unfold trim trimLeft at h
    rw [List.head?_reverse] at h
    have hsuf : ((s.dropWhile isSpace).reverse.dropWhile isSpace) <:+ (s.dropWhile isSpace).reverse :=
      List.dropWhile_suffix _
    obtain ⟨t, ht⟩ := hsuf
    have hl : (s.dropWhile isSpace).reverse.getLast? = some c := by
      rw [← ht, List.getLast?_append, h]; rfl
    rw [List.getLast?_reverse] at hl
    exact head_dropWhile s c hl
  · intro h
    unfold trim trimLeft at h
    rw [List.getLast?_reverse] at h
    exact head_dropWhile _ c h

/-- C47 `override_replaces_base`: the list that is parsed is the trimmed overrides when any survive trimming,
else the trimmed base list. -/
theorem override_replaces_base (base ovr : List Str) :
    effective base ovr = if (ovr.map trim).filter (· ≠ []) ≠ [] then (ovr.map trim).filter (· ≠ [])
                         else (base.map trim).filter (· ≠ []) := by
  unfold effective
  rw [coalesce_eq, coalesce_eq]
  by_cases h : (ovr.map trim).filter (· ≠ []) = []
  · rw [if_neg (by rw [h]; simp), if_neg (by simpa using h)]
  · have : ((ovr.map trim).filter (· ≠ [])).length > 0 := List.length_pos_iff.mpr h
    rw [if_pos this, if_pos h]

/-! ## duplicates: first occurrences, in order -/

theorem firsts_mem [DecidableEq α] (seen l : List α) (x : α) : x ∈ firsts seen l ↔ x ∈ l ∧ x ∉ seen := by
  induction l generalizing seen with
  | nil => simp [firsts]
  | cons a l ih =>
    unfold firsts
    by_cases h : a ∈ seen
    · simp only [h, if_true, ih, List.mem_cons]
      constructor
      · rintro ⟨h1, h2⟩; exact ⟨Or.inr h1, h2⟩
      · rintro ⟨h1 | h1, h2⟩
        · subst h1; exact absurd h h2
        · exact ⟨h1, h2⟩
    · simp only [h, if_false, List.mem_cons, ih]
      constructor
      · rintro (h1 | ⟨h1, h2⟩)
        · subst h1; exact ⟨Or.inl rfl, h⟩
        · exact ⟨Or.inr h1, fun hx => h2 (Or.inr hx)⟩
      · rintro ⟨h1 | h1, h2⟩
        · exact Or.inl h1
        · by_cases e : x = a
          · exact Or.inl e
          · exact Or.inr ⟨h1, by rintro (hx | hx); exact e hx; exact h2 hx⟩

theorem firsts_nodup [DecidableEq α] (seen l : List α) : (firsts seen l).Nodup := by
  induction l generalizing seen with
  | nil => simp [firsts]
  | cons a l ih =>
    unfold firsts
    by_cases h : a ∈ seen
    · simp only [h, if_true]; exact ih seen
    · simp only [h, if_false, List.nodup_cons]
      refine ⟨?_, ih _⟩
      intro hm; have := (firsts_mem (a :: seen) l a).mp hm; exact this.2 (List.mem_cons_self ..)

theorem firsts_sublist [DecidableEq α] (seen l : List α) : (firsts seen l).Sublist l := by
  induction l generalizing seen with
  | nil => simp [firsts]
  | cons a l ih =>
    unfold firsts
    by_cases h : a ∈ seen
    · simp only [h, if_true]; exact (ih seen).cons a
    · simp only [h, if_false]; exact (ih _).cons_cons a

theorem firsts_congr [DecidableEq α] (s₁ s₂ l : List α) (h : ∀ x, x ∈ s₁ ↔ x ∈ s₂) : firsts s₁ l = firsts s₂ l := by
  induction l generalizing s₁ s₂ with
  | nil => rfl
  | cons a l ih =>
    unfold firsts
    by_cases h1 : a ∈ s₁
    · have h2 : a ∈ s₂ := (h a).mp h1
      simp only [h1, h2, if_true]; exact ih s₁ s₂ h
    · have h2 : a ∉ s₂ := fun x => h1 ((h a).mpr x)
      simp only [h1, h2, if_false]
      rw [ih (a :: s₁) (a :: s₂) (by intro x; simp [h x])]

theorem firsts_cons_mem [DecidableEq α] {seen : List α} {a : α} (l : List α) (h : a ∈ seen) :
    firsts seen (a :: l) = firsts seen l := by simp [firsts, h]

theorem firsts_cons_not_mem [DecidableEq α] {seen : List α} {a : α} (l : List α) (h : a ∉ seen) :
    firsts seen (a :: l) = a :: firsts (a :: seen) l := by simp [firsts, h]

/-- C47 `dedup_keeps_first` (order): what has been kept for a prefix of the input stays, in place, whatever
follows; the continuation only contributes addresses not seen in the prefix. -/
theorem firsts_append [DecidableEq α] (seen l₁ l₂ : List α) :
    firsts seen (l₁ ++ l₂) = firsts seen l₁ ++ firsts (l₁ ++ seen) l₂ := by
  induction l₁ generalizing seen with
  | nil => rfl
  | cons a l ih =>
    simp only [List.cons_append]
    by_cases h : a ∈ seen
    · rw [firsts_cons_mem _ h, firsts_cons_mem _ h, ih seen]
      congr 1
      apply firsts_congr
      intro x; simp only [List.mem_append, List.mem_cons]; constructor
      · rintro (h1 | h1); exact Or.inr (Or.inl h1); exact Or.inr (Or.inr h1)
      · rintro (h1 | h1 | h1); subst h1; exact Or.inr h; exact Or.inl h1; exact Or.inr h1
    · rw [firsts_cons_not_mem _ h, firsts_cons_not_mem _ h, ih (a :: seen), List.cons_append]
      congr 2
      apply firsts_congr
      intro x; simp only [List.mem_append, List.mem_cons]; constructor
      · rintro (h1 | h1 | h1); exact Or.inr (Or.inl h1); exact Or.inl h1; exact Or.inr (Or.inr h1)
      · rintro (h1 | h1 | h1); exact Or.inr (Or.inl h1); exact Or.inl h1; exact Or.inr (Or.inr h1)

/-- C47 `dedup_keeps_first`: the kept list has no duplicates, contains exactly the input addresses, is a
sub-sequence of the input, and every address sits where its FIRST occurrence was: for any split of the input
at a first occurrence, the output is (output for the part before) ++ that address ++ (rest). -/
theorem dedup_keeps_first [DecidableEq α] (l : List α) :
    (firsts [] l).Nodup ∧ (∀ x, x ∈ firsts [] l ↔ x ∈ l) ∧ (firsts [] l).Sublist l ∧
    (∀ pre a suf, l = pre ++ a :: suf → a ∉ pre →
      firsts [] l = firsts [] pre ++ a :: firsts (a :: pre) suf) := by
  refine ⟨firsts_nodup _ _, fun x => by simp [firsts_mem], firsts_sublist _ _, ?_⟩
  intro pre a suf hl ha
  subst hl
  rw [firsts_append]
  congr 1
  simp only [List.append_nil]
  rw [firsts_cons_not_mem _ ha]

/-! ## the loop is the spec -/

def valid (o : Oracle) (a : Str) : Prop := (o a).1 ≠ .bad ∧ (o a).1 ≠ .other

theorem invalid_false_iff (o : Oracle) (a : Str) : invalid o a = false ↔ valid o a := by
  unfold invalid valid; cases (o a).1 <;> simp

theorem loop_spec (proto : Str) (o : Oracle) (seen l : List Str) (out : List Address)
    (hseen : ∀ a ∈ seen, valid o a) :
    loop proto o seen l out =
      match l.find? (invalid o) with
      | some a => .error (if (o a).1 = .bad then .split else .host)
      | none => .ok (out ++ (firsts seen l).map (mkAddr proto o)) := by
  induction l generalizing seen out with
  | nil => simp [loop, firsts]
  | cons a l ih =>
    unfold loop firsts
    by_cases h : a ∈ seen
    · have hv := hseen a h
      have hi : invalid o a = false := (invalid_false_iff o a).mpr hv
      simp only [h, if_true, List.find?_cons, hi]
      exact ih seen out hseen
    · simp only [h, if_false, List.find?_cons]
      cases hc : (o a).1 with
      | bad => simp [invalid, hc]
      | other => simp [invalid, hc]
      | empty | v4 | v6 | fly =>
        have hi : invalid o a = false := by simp [invalid, hc]
        simp only [hi]
        rw [ih (a :: seen) _ (by
          intro x hx; rcases List.mem_cons.mp hx with e | e
          · subst e; simp [valid, hc]
          · exact hseen x e)]
        cases l.find? (invalid o) <;> simp

/-- C47 `parse_eq_spec`: the code's loop computes exactly the statement-level function, for every input list,
every protocol string and every behaviour of the address-parsing library. -/
theorem parse_eq_spec (proto : Str) (o : Oracle) (base ovr : List Str) :
    parse proto o base ovr = spec proto o base ovr := by
  unfold parse spec
  simp only [override_replaces_base]
  generalize (if (ovr.map trim).filter (· ≠ []) ≠ [] then (ovr.map trim).filter (· ≠ [])
              else (base.map trim).filter (· ≠ [])) = eff
  by_cases he : eff = []
  · simp [he]
  · have : eff.length ≠ 0 := by simpa [List.length_eq_zero_iff] using he
    simp only [this, he, if_false]
    rw [loop_spec proto o [] eff [] (by simp)]
    cases eff.find? (invalid o) <;> simp

/-- C47 `rejects_non_ip_hosts`: parsing succeeds exactly when something is left after trimming and every
remaining address splits and has an empty, IPv4, IPv6 or Fly host; the result then is the de-duplicated list. -/
theorem rejects_non_ip_hosts (proto : Str) (o : Oracle) (base ovr : List Str) :
    (∃ r, parse proto o base ovr = .ok r) ↔
      effective base ovr ≠ [] ∧ ∀ a ∈ effective base ovr, valid o a := by
  rw [parse_eq_spec]; unfold spec
  simp only [← override_replaces_base]
  generalize effective base ovr = eff
  by_cases he : eff = []
  · simp [he]
  · simp only [he, if_false]
    cases hf : eff.find? (invalid o) with
    | some a =>
      have h1 := List.find?_some hf
      have h2 := List.mem_of_find?_eq_some hf
      simp only [reduceCtorEq, exists_false, false_iff, not_and]
      intro _ hall
      have := (invalid_false_iff o a).mpr (hall a h2)
      rw [this] at h1; cases h1
    | none =>
      simp only [Except.ok.injEq, exists_eq', true_iff]
      refine ⟨he, ?_⟩
      intro a ha
      have := List.find?_eq_none.mp hf a ha
      exact (invalid_false_iff o a).mp (by simpa using this)

/-- C47 `network_by_family`: on success every returned entry is one of the remaining addresses, carries the
host the library split off, and its network is proto+"4" for an IPv4 host and for the Fly host, proto+"6" for
an IPv6 host, and the bare proto for an empty host; and the addresses are the first occurrences in order. -/
theorem network_by_family (proto : Str) (o : Oracle) (base ovr : List Str) (r : List Address)
    (h : parse proto o base ovr = .ok r) :
    r.map (·.address) = firsts [] (effective base ovr) ∧
    ∀ x ∈ r, x.address ∈ effective base ovr ∧ x.host = (o x.address).2 ∧
      (((o x.address).1 = .v4 ∨ (o x.address).1 = .fly) → x.network = proto ++ ['4'] ∧ x.version = .v4) ∧
      ((o x.address).1 = .v6 → x.network = proto ++ ['6'] ∧ x.version = .v6) ∧
      ((o x.address).1 = .empty → x.network = proto ∧ x.version = .any) := by
  rw [parse_eq_spec] at h; unfold spec at h
  simp only [← override_replaces_base] at h
  generalize effective base ovr = eff at h ⊢
  by_cases he : eff = []
  · simp [he] at h
  · simp only [he, if_false] at h
    cases hf : eff.find? (invalid o) with
    | some a => rw [hf] at h; simp at h
    | none =>
      rw [hf] at h; simp only [Except.ok.injEq] at h; subst h
      refine ⟨by simp [List.map_map, Function.comp_def, mkAddr], ?_⟩
      intro x hx
      obtain ⟨a, ha, rfl⟩ := List.mem_map.mp hx
      have hmem := ((firsts_mem [] eff a).mp ha).1
      refine ⟨hmem, rfl, ?_, ?_, ?_⟩
      · rintro (h1 | h1) <;> (have h1' : (o a).1 = _ := h1; simp [mkAddr, h1', versionOf, networkFor])
      · intro h1; have h1' : (o a).1 = _ := h1; simp [mkAddr, h1', versionOf, networkFor]
      · intro h1; have h1' : (o a).1 = _ := h1; simp [mkAddr, h1', versionOf, networkFor]

/-! ### non-vacuity -/
section NonVacuity
deriving instance DecidableEq for Except
def sp : Str := " \t1.2.3.4:80 ".toList
def a4 : Str := "1.2.3.4:80".toList
def a6 : Str := "[::1]:80".toList
def fl : Str := "fly-global-services:80".toList
def hn : Str := "example.com:80".toList
def orc : Oracle := fun a =>
  if a = a4 then (.v4, "1.2.3.4".toList) else if a = a6 then (.v6, "::1".toList)
  else if a = fl then (.fly, "fly-global-services".toList) else if a = hn then (.other, "example.com".toList)
  else (.bad, [])

example : trim sp = a4 := by decide
example : parse "udp".toList orc [sp, a6, [' '], a4, fl, a6] [] =
    .ok [⟨a4, "1.2.3.4".toList, "udp4".toList, .v4⟩, ⟨a6, "::1".toList, "udp6".toList, .v6⟩,
         ⟨fl, "fly-global-services".toList, "udp4".toList, .v4⟩] := by decide
example : parse "udp".toList orc [a4] [[' '], a6] = .ok [⟨a6, "::1".toList, "udp6".toList, .v6⟩] := by decide
example : parse "udp".toList orc [a4, hn] [] = .error .host ∧ parse "udp".toList orc [[' ']] [[]] = .error .none_ := by
  decide
end NonVacuity

end Specter.C47
