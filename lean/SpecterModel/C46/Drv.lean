import SpecterModel.Util
import SpecterModel.C46.Model
/-!
C46 line-protocol driver.
  all <n> <cancel-mode> <order> <val:err>…  =>  <results> <errors> <finished-flags>
`val:err` is what task i's function actually returned (recorded inside the task), `order` the observed
completion order of the tasks (comma list), `finished-flags` the per-task "function has returned" flags read
immediately after `All` returned. Model: slot writes replayed in the observed order. Spec: statement.
-/
namespace Specter.C46
open Specter.Util

def natList? (s : String) : Option (List Nat) :=
  if s = "-" then some [] else (s.splitOn ",").mapM (·.toNat?)

def render (l : List Nat) : String := if l.isEmpty then "-" else ",".intercalate (l.map toString)

def parseOutcome (s : String) : Option Outcome :=
  match s.splitOn ":" with
  | [v, e] => match v.toNat?, e.toNat? with
    | some v, some e => some ⟨v, e⟩
    | _, _ => none
  | _ => none

def step (_ : Unit) (toks : List String) (rhs : String) : Unit × Verdict :=
  match toks with
  | ["reset"] => ((), .ok)
  | "all" :: n :: _mode :: order :: outs =>
    if rhs = "hang" then ((), .spec s!"All({n} tasks) did not return although every task had finished")
    else if rhs = "panic" then ((), .spec s!"All({n} tasks) panicked") else
    match n.toNat?, natList? order, outs.mapM parseOutcome, (rhs.splitOn " ").filter (· ≠ "") with
    | some n, some order, some outs, [res, errs, fin] =>
      if outs.length ≠ n then ((), .bad "arity") else
      match natList? res, natList? errs with
      | some res, some errs =>
        -- spec oracle, straight from the statement
        let fin := if fin = "-" then "" else fin
        let unfinished := (fin.toList.zipIdx.filter (fun (c, _) => c ≠ '1')).map (·.2)
        if fin.length ≠ n ∨ ¬ unfinished.isEmpty then
          ((), .spec s!"All returned before tasks {unfinished} had finished")
        else if res.length ≠ n ∨ errs.length ≠ n then ((), .spec "result arrays are not one slot per task")
        else
          let bad := (List.range n).find? fun i =>
            match outs[i]?, res[i]?, errs[i]? with
            | some o, some r, some e =>
              if o.err ≠ 0 then !(e == o.err && r == 0) else !(e == 0 && r == o.val)
            | _, _, _ => true
          match bad with
          | some i => ((), .spec s!"slot {i} holds neither the task's value nor its error")
          | none =>
            let m := runOrder outs order
            if m.results ≠ res ∨ m.errors ≠ errs then ((), .diff s!"{render m.results} {render m.errors}")
            else ((), .ok)
      | _, _ => ((), .bad "rhs lists")
    | _, _, _, _ => ((), .bad "all args")
  | _ => ((), .bad "unknown op")

def main : IO Unit := runLoop () step

end Specter.C46
