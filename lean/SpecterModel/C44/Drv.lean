import SpecterModel.Util
import SpecterModel.C44.Model
/-! C44 line-protocol driver (stateful; `reset` starts a case).

```
init <tunnels>             => <router> <proxies> <config>        client created on that configuration
rebuild <tunnels>          => <router> <proxies> <config>        RebuildTunnels
reload <tunnels>           => <router> <proxies> <config>        config file rewritten (possibly with a list that
                                                                 validation rejects) + doReload
reloadx <missing|garbage>  => <router> <proxies> <config>        config file removed / overwritten with undecodable text + doReload
unpublish <host>           => <router> <proxies> <config>        UnpublishTunnel (RPC succeeds)
wbegin <tunnels>           => <router> <proxies> <config>        RebuildTunnels stopped between closeOutdatedProxies and buildRouter
wend <hosts|_>             => <router> <proxies> <config>        … released and run to completion; hosts = connections that waited and are resolved now
incoming <host> <seq|win>  => <obs> <router> <proxies> <config>  one HTTP connection through handleIncomingDelegation
diff <old> <new>           => <hostnames>                        diffTunnels (stateless)
```
tunnel = `host;target;insecure(0|1);timeout(s);headerHost;headerMode`, lists `,`-separated, `_` = empty;
targets are symbolic (`b…` plain backends, `s…` TLS backends, `!…` strings `Config.validate` rejects).
<config> = the tunnel list the client itself holds (`Configuration.Tunnels`, in order) at that moment.
obs = `nf` (not forwarded) | `blocked` (waits for the change in progress: the locked semantics;
the harness then reports the connection again, as served, after `wend`) |
`T=<backend>;H=<Host header the backend saw>;R=<ReadHeaderTimeout s>` | `bad;R=…` (bad gateway).
router entry `host=target;insecure;timeout;headerHost;headerMode`, proxies entry `host:R`, sorted by host. -/
namespace Specter.C44
open Specter.Util

def parseTunnel (s : String) : Option Tunnel :=
  match s.splitOn ";" with
  | [h, t, i, to, hh, hm] => do
    let ins ← (if i = "1" then some true else if i = "0" then some false else none)
    some ⟨h, ⟨t, ins, ← to.toNat?, hh, hm⟩⟩
  | _ => none

def parseTunnels (tok : String) : Option (List Tunnel) :=
  if tok = "_" then some [] else (tok.splitOn ",").mapM parseTunnel

def rht (r : Route) : Nat := if r.timeout > 0 then r.timeout else 15

/-- the Host header the proxy built for route `r` of hostname `h` sends (proxy.go, root domain `root.test`) -/
def hostHeader (h : String) (r : Route) : String :=
  let uHost := "@" ++ r.target
  let fqdn := if h.toList.elem '.' then h else h ++ ".root.test"
  if r.hdrMode = "" then (if r.hdrHost ≠ "" then r.hdrHost else uHost)
  else if r.hdrMode = "hostname" then fqdn
  else if r.hdrMode = "custom" then (if r.hdrHost ≠ "" then r.hdrHost else uHost)
  else uHost

/-- what a connection served with route `r` looks like from outside (`s…` backends are TLS servers
with a self-signed certificate: reachable only with `insecure`) -/
def observe (h : String) (r : Route) : String :=
  if r.target.startsWith "s" && !r.insecure then s!"bad;R={rht r}"
  else s!"T={r.target};H={hostHeader h r};R={rht r}"

def obsStr (h : String) : Option Route → String
  | none => "nf"
  | some r => observe h r

def renderList (xs : List String) : String := if xs.isEmpty then "_" else ",".intercalate xs

def b01 (b : Bool) : String := if b then "1" else "0"

def renderRoute (r : Route) : String := s!"{r.target};{b01 r.insecure};{r.timeout};{r.hdrHost};{r.hdrMode}"

structure D where
  s : St
  keys : List String     -- every hostname seen so far (to print the tables)

def sortedKeys (d : D) : List String := (d.keys.eraseDups).mergeSort (fun a b => decide (a ≤ b))

def renderTunnel (t : Tunnel) : String := t.host ++ ";" ++ renderRoute t.route

def dump (d : D) : String :=
  let ks := sortedKeys d
  let r := ks.filterMap fun k => (d.s.router k).map fun x => k ++ "=" ++ renderRoute x
  let p := ks.filterMap fun k => (d.s.proxies k).map fun x => k ++ ":" ++ toString (rht x)
  renderList r ++ " " ++ renderList p ++ " " ++ renderList (d.s.tunnels.map renderTunnel)

def addKeys (d : D) (ts : List Tunnel) : List String := ts.map (·.host) ++ d.keys

def cmp (m rhs : String) : Verdict := if m ≠ rhs then .diff m else .ok

def step' (d : D) (toks : List String) (rhs : String) : D × Verdict :=
  match toks with
  | ["reset"] => (⟨init [], []⟩, .ok)
  | ["init", t] =>
    match parseTunnels t with
    | some ts => let d' : D := ⟨init ts, ts.map (·.host)⟩; (d', cmp (dump d') rhs)
    | none => (d, .bad "init args")
  | ["rebuild", t] =>
    match parseTunnels t with
    | some ts => let d' : D := ⟨rebuild d.s ts, addKeys d ts⟩; (d', cmp (dump d') rhs)
    | none => (d, .bad "rebuild args")
  | ["reload", t] =>
    match parseTunnels t with
    | some ts => let d' : D := ⟨reload d.s ts, addKeys d ts⟩; (d', cmp (dump d') rhs)
    | none => (d, .bad "reload args")
  | ["reloadx", _kind] => let d' : D := ⟨reloadUnreadable d.s, d.keys⟩; (d', cmp (dump d') rhs)
  | ["wbegin", t] =>
    match parseTunnels t with
    | some ts => let d' : D := ⟨wBegin d.s ts, addKeys d ts⟩; (d', cmp (dump d') rhs)
    | none => (d, .bad "wbegin args")
  | ["wend", lateTok] =>
    -- `late` = connections that waited for the lock: resolved right after the change (stepLocked)
    let late := if lateTok = "_" then [] else lateTok.splitOn ","
    let d' : D := ⟨(serveAll (wEnd d.s) late).1, late ++ d.keys⟩; (d', cmp (dump d') rhs)
  | ["unpublish", h] => let d' : D := ⟨unpublish d.s h, h :: d.keys⟩; (d', cmp (dump d') rhs)
  | ["incoming", h, _kind] =>
    let obs := (rhs.splitOn " ").headD ""
    if obs = "blocked" then
      -- the connection waited for the change in progress: allowed (and only possible) inside a window
      if d.s.window.isSome then (d, .ok)
      else (d, .spec "a connection was not served although no configuration change is in progress")
    else
      let (s', r) := incoming d.s h
      let d' : D := ⟨s', h :: d.keys⟩
      -- spec oracle, straight from the statement: served with the CURRENTLY configured route
      let want := obsStr h (current d.s h)
      let okNow := match d.s.window with
        | none => obs = want
        | some (old, new) => obs = obsStr h ((last old h).map (·.route)) || obs = obsStr h ((last new h).map (·.route))
      -- the same judgement against the configuration the CLIENT ITSELF holds at that moment (what
      -- GetCurrentConfig would show): outside a change, a connection must be served as that list says
      let held : Option String := match d.s.window, (rhs.splitOn " ")[3]? with
        | none, some tok => (parseTunnels tok).map fun ts => obsStr h ((last ts h).map (·.route))
        | _, _ => none
      if h ≠ "" && !okNow then
        (d', .spec s!"connection for {h} served as [{obs}] but the current configuration says [{want}]")
      else if h ≠ "" && (match held with | some w => w != obs | none => false) then
        (d', .spec s!"connection for {h} served as [{obs}] but the configuration the client holds (Configuration.Tunnels) says [{held.getD ""}]; the last applied configuration says [{want}]")
      else if d.s.window.isSome then
        -- the code as it is resolves under configMu.RLock: a connection must not be resolved while a
        -- change is in progress (the state keeps following the implementation so that later
        -- connections are still judged by the spec oracle)
        (d', .diff "blocked")
      else (d', cmp (obsStr h r ++ " " ++ dump d') rhs)
  | ["diff", o, n] =>
    match parseTunnels o, parseTunnels n with
    | some old, some new =>
      (d, cmp (renderList ((diffHosts old new).mergeSort (fun a b => decide (a ≤ b)))) rhs)
    | _, _ => (d, .bad "diff args")
  | _ => (d, .bad "unknown op")

def main : IO Unit := runLoop (⟨init [], []⟩ : D) step'

end Specter.C44
