// C38 correspondence: the real rpc.Send / rpc.Receive / rpc.BoundedReceive over a bytes.Buffer for all framed
// protocol message types, vs the Lean framing model and the statement oracle.
package main

import (
	"bytes"
	"encoding/binary"
	"fmt"
	"io"
	"strconv"
	"strings"

	"go.miragespace.co/specter/spec/protocol"
	"go.miragespace.co/specter/spec/rpc"
	"google.golang.org/protobuf/proto"
	"verif/harness/hlib"
)

type msg interface {
	rpc.VTMarshaler
	proto.Message
}

// spy records what the framing layer hands to the decoder.
type spy struct {
	inner  rpc.VTMarshaler
	called bool
	passed []byte
}

func (s *spy) MarshalToSizedBufferVT(b []byte) (int, error) { return s.inner.MarshalToSizedBufferVT(b) }
func (s *spy) MarshalVT() ([]byte, error)                   { return s.inner.MarshalVT() }
func (s *spy) SizeVT() int                                  { return s.inner.SizeVT() }
func (s *spy) UnmarshalVT(b []byte) error {
	s.called = true
	s.passed = append([]byte{}, b...)
	return s.inner.UnmarshalVT(b)
}

// chunkReader returns at most n bytes per Read (exercises io.ReadFull's loop).
type chunkReader struct {
	r io.Reader
	n int
}

func (c *chunkReader) Read(p []byte) (int, error) {
	if len(p) > c.n {
		p = p[:c.n]
	}
	return c.r.Read(p)
}

var types = []string{"Connection", "Stream", "TunnelRoute", "TunnelStatus", "Link"}

func fresh(ty string) msg {
	switch ty {
	case "Connection":
		return &protocol.Connection{}
	case "Stream":
		return &protocol.Stream{}
	case "TunnelRoute":
		return &protocol.TunnelRoute{}
	case "TunnelStatus":
		return &protocol.TunnelStatus{}
	default:
		return &protocol.Link{}
	}
}

func str(rng *hlib.Rng, big int) string {
	n := rng.Intn(24)
	switch rng.Intn(12) {
	case 0:
		n = 0
	case 1:
		n = 100 + rng.Intn(200) // around the 1-byte / 2-byte varint and 255/256 frame sizes
	}
	if big > 0 {
		n = big
	}
	const al = "abcdefghijklmnopqrstuvwxyz0123456789.-:/é"
	var sb strings.Builder
	for sb.Len() < n {
		sb.WriteByte(al[rng.Intn(len(al)-2)])
	}
	return sb.String()
}

func node(rng *hlib.Rng) *protocol.Node {
	if rng.Chance(15) {
		return nil
	}
	id := rng.U64()
	if rng.Bool() {
		id %= 1 << 48
	}
	return &protocol.Node{Id: id, Address: str(rng, 0), Unknown: rng.Chance(20), Rendezvous: rng.Chance(20)}
}

func gen(rng *hlib.Rng, ty string, big int) msg {
	switch ty {
	case "Connection":
		return &protocol.Connection{Identity: node(rng), CacheState: protocol.Connection_State(rng.Intn(4)),
			CacheDirection: protocol.Connection_Direction(rng.Intn(4)), Version: str(rng, big)}
	case "Stream":
		m := &protocol.Stream{Type: protocol.Stream_Type(rng.Intn(6)), Target: node(rng)}
		if big > 0 && m.Target != nil {
			m.Target.Address = str(rng, big)
		}
		return m
	case "TunnelRoute":
		return &protocol.TunnelRoute{ClientDestination: node(rng), ChordDestination: node(rng),
			TunnelDestination: node(rng), Hostname: str(rng, big)}
	case "TunnelStatus":
		return &protocol.TunnelStatus{Status: protocol.TunnelStatusCode(rng.Intn(4)), Error: str(rng, big)}
	default:
		return &protocol.Link{Alpn: protocol.Link_ALPN(rng.Intn(13)), Hostname: str(rng, big), Remote: str(rng, 0)}
	}
}

func errKind(err error) string {
	if err == nil {
		return "ok"
	}
	s := err.Error()
	switch {
	case strings.HasPrefix(s, "reading RPC message buffer size"):
		return "err:noHeader"
	case strings.Contains(s, "too large"):
		return "err:tooLarge"
	case strings.HasPrefix(s, "reading RPC message:"):
		return "err:shortBody"
	case strings.HasPrefix(s, "expected "):
		return "err:lenMismatch"
	default:
		return "err:decode"
	}
}

// safeSend runs the real Send into a fresh buffer. A panic or an error in the code under test is a result
// (status "panic" / "err"), never a crash of the harness; the bytes that reached the stream are reported as is.
func safeSend(m rpc.VTMarshaler) (wrote []byte, status string) {
	var w bytes.Buffer
	status = "ok"
	func() {
		defer func() {
			if p := recover(); p != nil {
				status = "panic"
			}
		}()
		if err := rpc.Send(&w, m); err != nil {
			status = "err"
		}
	}()
	return append([]byte{}, w.Bytes()...), status
}

// withStr returns a message of type ty whose (single long) string field has n bytes; the other fields random.
func withStr(rng *hlib.Rng, ty string, n int) msg {
	m := gen(rng, ty, 0)
	s := ""
	if n > 0 {
		s = str(rng, n)
	}
	switch v := m.(type) {
	case *protocol.Connection:
		v.Version = s
	case *protocol.Stream:
		if v.Target == nil {
			v.Target = &protocol.Node{Id: rng.U64() % 1000}
		}
		v.Target.Address = s
	case *protocol.TunnelRoute:
		v.Hostname = s
	case *protocol.TunnelStatus:
		v.Error = s
	case *protocol.Link:
		v.Hostname = s
	}
	return m
}

// sized builds a message of type ty whose encoded body has exactly `target` bytes when that is reachable
// (the string field is stretched or shrunk until SizeVT hits the target); otherwise the closest it got.
func sized(rng *hlib.Rng, ty string, target int) msg {
	n := max(target-8, 0)
	var m msg
	for try := 0; try < 6; try++ {
		m = withStr(rng, ty, n)
		d := target - m.SizeVT()
		if d == 0 {
			return m
		}
		n = max(n+d, 0)
	}
	return m
}

// doRecv runs the real receive on stream and reports (res, passed, rest, decoded message)
func doRecv(bound int64, stream []byte, chunk int, into msg) (string, string, string) {
	buf := bytes.NewBuffer(append([]byte{}, stream...))
	var rd io.Reader = buf
	if chunk > 0 {
		rd = &chunkReader{buf, chunk}
	}
	sp := &spy{inner: into}
	var err error
	func() {
		defer func() {
			if p := recover(); p != nil {
				err = fmt.Errorf("PANIC %v", p)
			}
		}()
		if bound < 0 {
			err = rpc.Receive(rd, sp)
		} else {
			err = rpc.BoundedReceive(rd, sp, uint32(bound))
		}
	}()
	res := errKind(err)
	if err != nil && strings.HasPrefix(err.Error(), "PANIC") {
		res = "panic"
	}
	passed := "none"
	if sp.called {
		passed = hlib.Hex(sp.passed)
		if len(sp.passed) == 0 {
			passed = "-"
		}
	}
	return res, passed, hlib.Hex(buf.Bytes())
}

func bstr(b int64) string {
	if b < 0 {
		return "-"
	}
	return strconv.FormatInt(b, 10)
}

var r *hlib.Run

func roundTrip(rng *hlib.Rng, ty string, m msg, bound int64, trail []byte, chunk int) {
	payload, _ := m.MarshalVT()
	wrote, sres := safeSend(m)
	got := fresh(ty)
	res, passed, rest := doRecv(bound, append(append([]byte{}, wrote...), trail...), chunk, got)
	same := "na"
	if res == "ok" {
		// churn the buffer pool with another frame of the same size class, then compare: a decoder that
		// aliased the pooled buffer would now see different bytes
		other := gen(rng, ty, 0)
		if fr2, st := safeSend(other); st == "ok" {
			doRecv(-1, fr2, 0, fresh(ty))
		}
		gb, _ := got.MarshalVT()
		same = hlib.B(proto.Equal(m, got) && bytes.Equal(gb, payload))
	}
	r.Raw("# case")
	r.Emit(fmt.Sprintf("rt %s %s %s %s", ty, bstr(bound), hlib.Hex(payload), hlib.Hex(trail)),
		fmt.Sprintf("send=%s wrote=%s res=%s passed=%s rest=%s same=%s", sres, hlib.Hex(wrote), res, passed, rest, same))
	key := ""
	if len(payload) > 0 {
		key = ty + bstr(bound) + hlib.Hex(payload) + "/" + hlib.Hex(trail)
		if len(key) > 200 {
			key = key[:200] + strconv.Itoa(len(payload))
		}
	}
	r.Case(key)
	r.Count("rt:" + ty)
	r.Count("rt:" + res)
	r.Count("send:" + sres)
	if n := len(payload); n >= 56 && n <= 72 {
		r.Count("payload:56..72")
	}
	switch n := len(payload); {
	case n == 0:
		r.Count("payload:empty")
	case n < 256:
		r.Count("payload:<256")
	case n < 65536:
		r.Count("payload:<64K")
	default:
		r.Count("payload:>=64K")
	}
	if bound >= 0 {
		switch {
		case int64(len(payload)) == bound:
			r.Count("bound:=size")
		case int64(len(payload)) == bound+1:
			r.Count("bound:=size-1")
		case int64(len(payload)) == bound-1:
			r.Count("bound:=size+1")
		}
	}
}

func rawRecv(op string, bound int64, stream []byte, chunk int, lhs string) {
	res, passed, rest := doRecv(bound, stream, chunk, fresh("TunnelRoute"))
	r.Raw("# case")
	r.Emit(lhs, fmt.Sprintf("res=%s passed=%s rest=%s", res, passed, rest))
	r.Case(lhs[:min(len(lhs), 200)])
	r.Count(op + ":" + res)
}

func main() {
	r = hlib.Start()
	r.Rule = "rt = (real Send with panics/errors reported as send=panic|err; message type, random message incl. nil sub-messages / empty / 100..300-byte / >=64K strings, bound in {none, size-1, size, size+1, 0, call-site bounds 8/16/256/1024/2048, 2^32-1}, random trailing bytes incl. a second frame, reader chunking 1..7 bytes) + a sweep over every encoded body size 0..320 (thorough 0..2200) and +-5 around powers of two up to 64K for every type; trunc = every truncation offset of a real frame; recv = malformed streams (header sizes around the available length, 255/256/65535/65536, 0xFFFFFFFF under a bound); non-trivial = non-empty payload / stream"
	rng := hlib.NewRng(r.Seed)
	if r.Replay != "" {
		for _, t := range r.ReplayLines() {
			pb := func(s string) int64 {
				if s == "-" {
					return -1
				}
				v, _ := strconv.ParseInt(s, 10, 64)
				return v
			}
			switch t[0] {
			case "rt":
				m := fresh(t[1])
				if err := m.UnmarshalVT(hlib.UnHex(t[3])); err != nil {
					continue
				}
				roundTrip(rng, t[1], m, pb(t[2]), hlib.UnHex(t[4]), 0)
			case "recv":
				rawRecv("recv", pb(t[1]), hlib.UnHex(t[2]), 0, strings.Join(t, " "))
			case "trunc":
				k, _ := strconv.Atoi(t[3])
				p := hlib.UnHex(t[2])
				fr := append(binary.BigEndian.AppendUint32(nil, uint32(len(p))), p...)
				rawRecv("trunc", pb(t[1]), fr[:min(k, len(fr))], 0, strings.Join(t, " "))
			}
		}
		r.Finish()
		return
	}
	nrt, nbig, ntr, nraw := 6000, 12, 150, 4000
	if r.Thorough() {
		nrt, nbig, ntr, nraw = 120000, 150, 2500, 80000
	}
	pickBound := func(size int) int64 {
		switch rng.Intn(10) {
		case 0, 1:
			return -1
		case 2:
			return int64(size) - 1 // may be -1 for size 0 = unbounded, fine
		case 3:
			return int64(size)
		case 4:
			return int64(size) + 1
		case 5:
			return 0
		case 6:
			return hlib.Pick(rng, []int64{8, 16, 256, 1024, 2048})
		case 7:
			return 1<<32 - 1
		default:
			return int64(rng.Intn(2*size + 2))
		}
	}
	trailFor := func() []byte {
		switch rng.Intn(5) {
		case 0:
			return nil
		case 1: // a complete second frame
			ty2 := hlib.Pick(rng, types)
			m2 := gen(rng, ty2, 0)
			fr2, st := safeSend(m2)
			if st != "ok" { // the second message cannot even be written: judge it on a line of its own
				roundTrip(rng, ty2, m2, -1, nil, 0)
				return nil
			}
			return fr2
		default:
			return rng.Bytes(1 + rng.Intn(12))
		}
	}
	chunkFor := func() int {
		if rng.Chance(30) {
			return 1 + rng.Intn(7)
		}
		return 0
	}
	for i := 0; i < nrt; i++ {
		ty := types[i%len(types)]
		m := gen(rng, ty, 0)
		roundTrip(rng, ty, m, pickBound(m.SizeVT()), trailFor(), chunkFor())
	}
	for i := 0; i < nbig; i++ {
		ty := types[i%len(types)]
		big := hlib.Pick(rng, []int{65500, 65536, 70000, 131072, 200000})
		if rng.Bool() {
			big = 60000 + rng.Intn(12000)
		}
		m := gen(rng, ty, big)
		roundTrip(rng, ty, m, pickBound(m.SizeVT()), trailFor(), chunkFor())
	}
	// every truncation offset of real frames
	for i := 0; i < ntr; i++ {
		ty := types[i%len(types)]
		m := gen(rng, ty, 0)
		p, _ := m.MarshalVT()
		fr, st := safeSend(m)
		if st != "ok" { // no frame to truncate: judge the failed Send on a line of its own
			roundTrip(rng, ty, m, -1, nil, 0)
			continue
		}
		bound := int64(-1)
		if rng.Chance(40) {
			bound = int64(len(p)) + int64(rng.Intn(3)) - 1
		}
		for k := 0; k < len(fr); k++ {
			if k > 12 && k < len(fr)-3 && rng.Chance(70) {
				continue
			}
			rawRecv("trunc", bound, fr[:k], chunkFor(), fmt.Sprintf("trunc %s %s %d", bstr(bound), hlib.Hex(p), k))
		}
	}
	// malformed streams
	for i := 0; i < nraw; i++ {
		avail := rng.Intn(40)
		if rng.Chance(5) {
			avail = hlib.Pick(rng, []int{254, 255, 256, 257, 65535, 65536, 65537})
		}
		size := uint32(0)
		switch rng.Intn(8) {
		case 0:
			size = uint32(max(avail-1, 0))
		case 1:
			size = uint32(avail)
		case 2:
			size = uint32(avail + 1)
		case 3:
			size = hlib.Pick(rng, []uint32{0, 1, 255, 256, 65535, 65536, 1 << 20})
		case 4:
			size = hlib.Pick(rng, []uint32{1 << 24, 1 << 31, 1<<32 - 1, 0x01000000, 0x00010000})
		default:
			size = uint32(rng.Intn(avail + 8))
		}
		bound := pickBound(int(min(size, 1<<20)))
		if size > 1<<20 && (bound < 0 || bound >= int64(size)) {
			bound = int64(rng.Intn(4096)) // never let the real code allocate a gigabyte buffer
		}
		stream := binary.BigEndian.AppendUint32(nil, size)
		stream = append(stream, rng.Bytes(avail)...)
		if rng.Chance(10) {
			stream = stream[:rng.Intn(4)] // not even a header
		}
		rawRecv("recv", bound, stream, chunkFor(), fmt.Sprintf("recv %s %s", bstr(bound), hlib.Hex(stream)))
	}
	// body-size sweep: every encoded body size in a window, for every framed type, plus windows around the
	// sizes where buffers / varints / size classes change (powers of two up to 64K)
	sweepTo := 320
	if r.Thorough() {
		sweepTo = 2200
	}
	var targets []int
	for n := 0; n <= sweepTo; n++ {
		targets = append(targets, n)
	}
	for _, c := range []int{512, 1024, 2048, 4096, 8192, 16384, 32768, 65536} {
		for d := -5; d <= 5; d++ {
			if c+d > sweepTo {
				targets = append(targets, c+d)
			}
		}
	}
	for _, ty := range types {
		for _, n := range targets {
			m := sized(rng, ty, n)
			if m.SizeVT() == n {
				r.Count("sweep:exact")
			} else {
				r.Count("sweep:nearest")
			}
			roundTrip(rng, ty, m, pickBound(m.SizeVT()), trailFor(), chunkFor())
		}
	}
	r.Finish()
}
