// C18 trace validation: N goroutines issue random calls on a few keys of each REAL back-end (memory, aof,
// sqlite); every call is recorded with invocation/response numbers taken from one global atomic counter;
// the Lean driver decides per-object linearizability of the recorded history against the sequential spec.
package main

import (
	"context"
	"crypto/sha256"
	"errors"
	"fmt"
	"os"
	"path/filepath"
	"runtime"
	"sort"
	"strconv"
	"strings"
	"sync"
	"sync/atomic"
	"time"

	"go.miragespace.co/specter/kv/aof"
	"go.miragespace.co/specter/kv/memory"
	sq "go.miragespace.co/specter/kv/sqlite3"
	"go.miragespace.co/specter/spec/chord"
	"go.uber.org/zap"
	"verif/harness/hlib"
)

type ev struct {
	obj      string
	inv, ret uint64
	op, res  string
}

var seq atomic.Uint64

func errTok(err error) string {
	switch {
	case err == nil:
		return "ok"
	case errors.Is(err, chord.ErrKVSimpleConflict), errors.Is(err, chord.ErrKVPrefixConflict), errors.Is(err, chord.ErrKVLeaseConflict):
		return "conflict"
	case errors.Is(err, chord.ErrKVLeaseExpired):
		return "expired"
	}
	h := sha256.Sum256([]byte(err.Error()))
	return fmt.Sprintf("error:%x", h[:4])
}

type worker struct {
	kv     chord.KV
	rng    *hlib.Rng
	events []ev
	tokens map[string]uint64 // lease tokens this goroutine obtained
}

func (w *worker) record(obj, op string, f func() string) {
	inv := seq.Add(1)
	var res string
	func() {
		defer func() {
			if e := recover(); e != nil {
				res = "panic"
			}
		}()
		res = f()
	}()
	ret := seq.Add(1)
	w.events = append(w.events, ev{obj, inv, ret, op, res})
}

const ttl = time.Hour

var children = []string{"c0", "c1"}

func (w *worker) simpleOp(key []byte) {
	ctx := context.Background()
	obj := hlib.Hex(key) + "/s"
	switch x := w.rng.Intn(10); {
	case x < 5:
		v := []byte{byte(1 + w.rng.Intn(200)), byte(w.rng.Intn(256))}
		w.record(obj, "put "+hlib.Hex(v), func() string { return errTok(w.kv.Put(ctx, key, v)) })
	case x < 7:
		w.record(obj, "del", func() string { return errTok(w.kv.Delete(ctx, key)) })
	default:
		w.record(obj, "get", func() string {
			v, err := w.kv.Get(ctx, key)
			if err != nil {
				return errTok(err)
			}
			return hlib.Hex(v)
		})
	}
}

func (w *worker) childOp(key []byte) {
	ctx := context.Background()
	obj := hlib.Hex(key) + "/c"
	c := []byte(hlib.Pick(w.rng, children))
	switch x := w.rng.Intn(10); {
	case x < 5:
		w.record(obj, "add "+hlib.Hex(c), func() string { return errTok(w.kv.PrefixAppend(ctx, key, c)) })
	case x < 7:
		w.record(obj, "rm "+hlib.Hex(c), func() string { return errTok(w.kv.PrefixRemove(ctx, key, c)) })
	case x < 9:
		w.record(obj, "has "+hlib.Hex(c), func() string {
			b, err := w.kv.PrefixContains(ctx, key, c)
			if err != nil {
				return errTok(err)
			}
			return hlib.B(b)
		})
	default:
		w.listOp(key)
	}
}

func (w *worker) listOp(key []byte) {
	w.record(hlib.Hex(key)+"/c", "list", func() string {
		cs, err := w.kv.PrefixList(context.Background(), key)
		if err != nil {
			return errTok(err)
		}
		var xs []string
		for _, c := range cs {
			xs = append(xs, hlib.Hex(c))
		}
		sort.Strings(xs)
		if len(xs) == 0 {
			return "."
		}
		return strings.Join(xs, ",")
	})
}

func (w *worker) leaseOp(key []byte) {
	ctx := context.Background()
	obj := hlib.Hex(key) + "/l"
	mine := w.tokens[string(key)]
	switch x := w.rng.Intn(10); {
	case x < 5 || mine == 0 && x < 7:
		w.record(obj, "acq", func() string {
			t, err := w.kv.Acquire(ctx, key, ttl)
			if err != nil {
				return errTok(err)
			}
			w.tokens[string(key)] = t
			return "tok:" + strconv.FormatUint(t, 10)
		})
	case x < 8:
		prev := mine
		if prev == 0 || w.rng.Chance(20) {
			prev = 12345
		}
		w.record(obj, "renew "+strconv.FormatUint(prev, 10), func() string {
			t, err := w.kv.Renew(ctx, key, ttl, prev)
			if err != nil {
				return errTok(err)
			}
			w.tokens[string(key)] = t
			return "tok:" + strconv.FormatUint(t, 10)
		})
	default:
		tok := mine
		if tok == 0 || w.rng.Chance(20) {
			tok = 12345
		}
		w.record(obj, "rel "+strconv.FormatUint(tok, 10), func() string {
			err := w.kv.Release(ctx, key, tok)
			if err == nil {
				delete(w.tokens, string(key))
			}
			return errTok(err)
		})
	}
}

// one concurrent run on a fresh store
func runCase(kv chord.KV, seed uint64, G, opsPer int) ([]ev, string) {
	rng := hlib.NewRng(seed)
	keys := [][]byte{[]byte("k0")}
	if rng.Chance(40) {
		keys = append(keys, []byte("k1"))
	}
	mode := rng.Intn(4) // 0 simple-heavy, 1 children-heavy, 2 lease-heavy, 3 mixed
	// a third of the cases: every goroutine's FIRST call is the same append of the same child (released together
	// by the barrier), the rest of the case is as usual
	burst := rng.Chance(33)
	burstChild := []byte(hlib.Pick(rng, children))
	ws := make([]*worker, G)
	var ready, wg sync.WaitGroup
	var start atomic.Bool
	for g := 0; g < G; g++ {
		ws[g] = &worker{kv: kv, rng: hlib.NewRng(seed*1000003 + uint64(g)), tokens: map[string]uint64{}}
		ready.Add(1)
		wg.Add(1)
		go func(w *worker) {
			defer wg.Done()
			ready.Done()
			for !start.Load() { // spin barrier: all goroutines leave together
			}
			for i := 0; i < opsPer; i++ {
				if i == 0 && burst {
					w.record(hlib.Hex(keys[0])+"/c", "add "+hlib.Hex(burstChild), func() string {
						return errTok(w.kv.PrefixAppend(context.Background(), keys[0], burstChild))
					})
					continue
				}
				key := hlib.Pick(w.rng, keys)
				comp := mode
				if mode == 3 || w.rng.Chance(20) {
					comp = w.rng.Intn(3)
				}
				switch comp {
				case 0:
					w.simpleOp(key)
				case 1:
					w.childOp(key)
				default:
					w.leaseOp(key)
				}
				if w.rng.Chance(30) {
					runtime.Gosched()
				}
			}
		}(ws[g])
	}
	ready.Wait()
	start.Store(true)
	wg.Wait()
	// final sequential observation pins the final state of every object
	fin := &worker{kv: kv, rng: rng, tokens: map[string]uint64{}}
	for _, k := range keys {
		key := k
		fin.record(hlib.Hex(key)+"/s", "get", func() string {
			v, err := kv.Get(context.Background(), key)
			if err != nil {
				return errTok(err)
			}
			return hlib.Hex(v)
		})
		fin.listOp(key)
		fin.record(hlib.Hex(key)+"/l", "acq", func() string {
			t, err := kv.Acquire(context.Background(), key, ttl)
			if err != nil {
				return errTok(err)
			}
			return "tok:" + strconv.FormatUint(t, 10)
		})
	}
	var all []ev
	for _, w := range append(ws, fin) {
		all = append(all, w.events...)
	}
	sort.Slice(all, func(i, j int) bool { return all[i].inv < all[j].inv })
	return all, []string{"simple-heavy", "children-heavy", "lease-heavy", "mixed"}[mode]
}

func main() {
	r := hlib.Start()
	r.Rule = "concurrent runs: G goroutines x random calls (put/del/get, prefix add/remove/contains/list, lease acquire/renew/release) on 1-2 keys of a fresh store of each real back-end, hot component per case, spin start barrier; non-trivial = distinct recorded history; every history is checked object by object for linearizability"
	if r.Replay != "" {
		b, _ := os.ReadFile(r.Replay)
		for _, l := range strings.Split(string(b), "\n") {
			if l = strings.TrimSpace(l); l != "" {
				r.Raw(l) // a concurrent run cannot be re-executed identically: the recorded history is re-judged
			}
		}
		r.Finish()
		return
	}
	base := os.Getenv("VERIF_SCRATCH")
	if base == "" {
		base, _ = os.MkdirTemp("", "c18")
	}
	root := filepath.Join(base, "c18dbs")
	os.RemoveAll(root)
	os.MkdirAll(root, 0o755)
	defer os.RemoveAll(root)
	cache := os.Getenv("WAZERO_CACHE")
	if cache == "" {
		cache = filepath.Join(os.TempDir(), "verif-wazero")
	}
	os.MkdirAll(cache, 0o755)
	if err := sq.Initialize(cache); err != nil {
		panic(err)
	}
	rng := hlib.NewRng(r.Seed)
	counts := map[string]int{"memory": 600, "aof": 150, "sqlite": 40}
	if r.Thorough() {
		counts = map[string]int{"memory": 12000, "aof": 2500, "sqlite": 300}
	}
	caseNo := 0
	for _, be := range []string{"memory", "aof", "sqlite"} {
		for i := 0; i < counts[be]; i++ {
			caseNo++
			seed := rng.U64()
			G := 2 + rng.Intn(4)
			opsPer := 3 + rng.Intn(4)
			if G*opsPer > 22 {
				opsPer = 22 / G
			}
			dir := filepath.Join(root, strconv.Itoa(caseNo))
			var kv chord.KV
			closeFn := func() {}
			switch be {
			case "memory":
				kv = memory.WithHashFn(chord.Hash)
			case "aof":
				os.MkdirAll(dir, 0o755)
				d, err := aof.New(aof.Config{Logger: zap.NewNop(), HasnFn: chord.Hash, DataDir: dir, FlushInterval: time.Second})
				if err != nil {
					panic(err)
				}
				go d.Start()
				kv, closeFn = d, d.Stop
			case "sqlite":
				os.MkdirAll(dir, 0o755)
				s, err := sq.New(sq.Config{Logger: zap.NewNop(), HashFn: chord.Hash, DataDir: dir})
				if err != nil {
					panic(err)
				}
				kv, closeFn = s, s.Close
			}
			events, mode := runCase(kv, seed, G, opsPer)
			closeFn()
			os.RemoveAll(dir)
			r.Raw(fmt.Sprintf("# case %d backend %s seed %d goroutines %d mode %s", caseNo, be, seed, G, mode))
			r.Raw("reset")
			h := sha256.New()
			overlap := false
			var maxRet uint64
			for _, e := range events {
				r.Emit(fmt.Sprintf("ev %s %s %d %d %s", be, e.obj, e.inv, e.ret, e.op), e.res)
				fmt.Fprintf(h, "%s %s %s;", e.obj, e.op, e.res)
				if e.inv < maxRet {
					overlap = true
				}
				if e.ret > maxRet {
					maxRet = e.ret
				}
				kind := strings.Fields(e.op)[0]
				res := e.res
				if strings.HasPrefix(res, "tok:") {
					res = "granted"
				} else if kind == "get" || kind == "list" || kind == "has" {
					res = "value"
				}
				r.Count(be + ":" + kind + "=" + res)
			}
			r.Emit("check", "-")
			r.Case(fmt.Sprintf("%s/%x", be, h.Sum(nil)[:8]))
			r.Count("case:" + be + ":" + mode)
			if overlap {
				r.Count("case:" + be + ":has-overlapping-calls")
			}
		}
	}
	r.Finish()
}
