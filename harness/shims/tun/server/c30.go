//go:build verif

package server

import (
	"context"
	"crypto/tls"
	"time"
)

// VerifC30ComputeKeylessTTL exposes computeKeylessTTL to the C30 harness.
func VerifC30ComputeKeylessTTL(cert *tls.Certificate, now time.Time) time.Duration {
	return computeKeylessTTL(cert, now)
}

// VerifC30KeylessLoader exposes the keyless cache loader (TTL, cost, cached error, certificate presence).
func (s *Server) VerifC30KeylessLoader(ctx context.Context, hostname string) (ttl time.Duration, cost int64, valErr error, hasCert bool, loadErr error) {
	ret, err := s.keylessCertLoader(ctx, hostname)
	return ret.TTL, ret.Cost, ret.Value.err, ret.Value.cert != nil, err
}
