// Package hlib: shared plumbing of the correspondence harness binaries.
// Each binary calls the real specter code in-process and writes one line per
// operation: `<op> <args…> => <canonical implementation result>`.
package hlib

import (
	"bufio"
	"encoding/hex"
	"encoding/json"
	"flag"
	"fmt"
	"os"
	"os/exec"
	"sort"
	"strings"
)

// Rng is SplitMix64: every random choice of a run derives from one seed.
type Rng struct{ s uint64 }

func NewRng(seed uint64) *Rng {
	// mix the seed (two output rounds) so that consecutive seeds give unrelated streams
	r := &Rng{s: seed ^ 0x5DEECE66D1234567}
	r.s = r.U64() ^ (seed * 0xD6E8FEB86659FD93)
	r.s = r.U64()
	return r
}

func (r *Rng) U64() uint64 {
	r.s += 0x9E3779B97F4A7C15
	z := r.s
	z = (z ^ (z >> 30)) * 0xBF58476D1CE4E5B9
	z = (z ^ (z >> 27)) * 0x94D049BB133111EB
	return z ^ (z >> 31)
}
func (r *Rng) Intn(n int) int {
	if n <= 0 {
		return 0
	}
	return int(r.U64() % uint64(n))
}
func (r *Rng) Bool() bool        { return r.U64()&1 == 1 }
func (r *Rng) Chance(p int) bool { return r.Intn(100) < p } // p percent
func (r *Rng) Bytes(n int) []byte {
	b := make([]byte, n)
	for i := range b {
		b[i] = byte(r.U64())
	}
	return b
}
func Pick[T any](r *Rng, xs []T) T { return xs[r.Intn(len(xs))] }

// Run carries the command-line contract shared by all harness binaries.
type Run struct {
	Seed     uint64
	Tier     string
	Replay   string
	out      *bufio.Writer
	outF     *os.File
	stats    string
	Evals    int
	distinct map[string]struct{}
	Dist     map[string]int
	Samples  []string
	Rule     string
	Extra    map[string]any
	nlines   int
}

func Start() *Run {
	seed := flag.Uint64("seed", 1, "PRNG seed")
	tier := flag.String("tier", "quick", "quick|thorough")
	out := flag.String("out", "", "ops output file")
	stats := flag.String("stats", "", "stats json output file")
	replay := flag.String("replay", "", "replay ops file (lhs only is used)")
	flag.Parse()
	r := &Run{Seed: *seed, Tier: *tier, Replay: *replay, stats: *stats,
		distinct: map[string]struct{}{}, Dist: map[string]int{}, Extra: map[string]any{}}
	if *out == "" {
		r.out = bufio.NewWriterSize(os.Stdout, 1<<20)
	} else {
		f, err := os.Create(*out)
		if err != nil {
			panic(err)
		}
		r.outF = f
		r.out = bufio.NewWriterSize(f, 1<<20)
	}
	return r
}

func (r *Run) Thorough() bool { return r.Tier == "thorough" }

// Emit writes one protocol line. lhs tokens must not contain spaces.
func (r *Run) Emit(lhs string, rhs string) {
	r.out.WriteString(lhs)
	r.out.WriteString(" => ")
	r.out.WriteString(rhs)
	r.out.WriteByte('\n')
	r.nlines++
	if len(r.Samples) < 6 && (r.nlines < 4 || r.nlines%997 == 0) {
		r.Samples = append(r.Samples, lhs+" => "+rhs)
	}
}

// Flush pushes buffered protocol lines to the output file (used before risky operations).
func (r *Run) Flush() { r.out.Flush() }

// Raw writes a line verbatim (comments `# …`, `reset`).
func (r *Run) Raw(line string) { r.out.WriteString(line); r.out.WriteByte('\n') }

// Case counts one evaluation; key!="" marks it non-trivial and is used for distinctness.
func (r *Run) Case(key string) {
	r.Evals++
	if key != "" {
		if len(r.distinct) < 2_000_000 {
			r.distinct[key] = struct{}{}
		}
	}
}
func (r *Run) Count(bucket string) { r.Dist[bucket]++ }

func (r *Run) Finish() {
	r.out.Flush()
	if r.outF != nil {
		r.outF.Close()
	}
	if r.stats != "" {
		m := map[string]any{
			"evaluations": r.Evals, "distinct_nontrivial": len(r.distinct), "rule": r.Rule,
			"samples": r.Samples, "input_distribution": r.Dist, "lines": r.nlines,
		}
		for k, v := range r.Extra {
			m[k] = v
		}
		b, _ := json.MarshalIndent(m, "", " ")
		os.WriteFile(r.stats, b, 0o644)
	}
}

// ReplayLines returns the lhs parts of the replay file (lines without "#").
func (r *Run) ReplayLines() [][]string {
	b, err := os.ReadFile(r.Replay)
	if err != nil {
		panic(err)
	}
	var res [][]string
	for _, l := range strings.Split(string(b), "\n") {
		l = strings.TrimSpace(l)
		if l == "" || strings.HasPrefix(l, "#") {
			continue
		}
		if i := strings.Index(l, " => "); i >= 0 {
			l = l[:i]
		}
		res = append(res, strings.Fields(l))
	}
	return res
}

func Hex(b []byte) string {
	if len(b) == 0 {
		return "-"
	}
	return hex.EncodeToString(b)
}
func HexS(s string) string { return Hex([]byte(s)) }
func UnHex(s string) []byte {
	if s == "-" {
		return nil
	}
	b, err := hex.DecodeString(s)
	if err != nil {
		panic(err)
	}
	return b
}

func B(b bool) string {
	if b {
		return "true"
	}
	return "false"
}

func SortedJoin(xs []string, sep string) string {
	ys := append([]string{}, xs...)
	sort.Strings(ys)
	if len(ys) == 0 {
		return "-"
	}
	return strings.Join(ys, sep)
}

func Join(xs []string, sep string) string {
	if len(xs) == 0 {
		return "-"
	}
	return strings.Join(xs, sep)
}

func F(format string, a ...any) string { return fmt.Sprintf(format, a...) }

// Begin marks an operation whose execution may kill the whole process (fatal stack overflow,
// runtime deadlock): the marker is flushed first so that Guarded can name the operation.
func (r *Run) Begin(lhs string) {
	r.out.WriteString("# begin " + lhs + "\n")
	r.out.Flush()
}

// Guarded runs body in a child process (same binary, same arguments). If the child dies, the
// operation announced by the last `# begin` marker is reported as `<op> => crash`, so that the
// driver can judge it; the parent then exits 0 (the verdict belongs to the driver).
func Guarded(body func(r *Run)) {
	if os.Getenv("VERIF_CHILD") == "1" {
		r := Start()
		body(r)
		r.Finish()
		return
	}
	out, stats := "", ""
	for i, a := range os.Args {
		if (a == "-out" || a == "--out") && i+1 < len(os.Args) {
			out = os.Args[i+1]
		}
		if (a == "-stats" || a == "--stats") && i+1 < len(os.Args) {
			stats = os.Args[i+1]
		}
	}
	cmd := exec.Command(os.Args[0], os.Args[1:]...)
	cmd.Env = append(os.Environ(), "VERIF_CHILD=1")
	cmd.Stdout = os.Stdout
	var errb strings.Builder
	cmd.Stderr = &errb
	err := cmd.Run()
	if err == nil {
		return
	}
	if out == "" {
		fmt.Fprintln(os.Stderr, "child failed:", err)
		os.Exit(1)
	}
	b, _ := os.ReadFile(out)
	lines := strings.Split(strings.TrimRight(string(b), "\n"), "\n")
	// drop a possibly half-written last line
	if len(b) > 0 && b[len(b)-1] != '\n' && len(lines) > 0 {
		lines = lines[:len(lines)-1]
	}
	last := ""
	for i := len(lines) - 1; i >= 0; i-- {
		if strings.HasPrefix(lines[i], "# begin ") {
			// only if no completed line for it follows
			done := false
			for _, l := range lines[i+1:] {
				if !strings.HasPrefix(l, "#") {
					done = true
				}
			}
			if !done {
				last = strings.TrimPrefix(lines[i], "# begin ")
			}
			break
		}
	}
	msg := errb.String()
	kind := "crash"
	if strings.Contains(msg, "stack overflow") || strings.Contains(msg, "goroutine stack exceeds") {
		kind = "crash:stack-overflow"
	}
	if last == "" {
		fmt.Fprintln(os.Stderr, "child failed outside a guarded operation:", err)
		if len(msg) > 2000 {
			msg = msg[:2000]
		}
		fmt.Fprintln(os.Stderr, msg)
		os.Exit(1)
	}
	lines = append(lines, last+" => "+kind)
	os.WriteFile(out, []byte(strings.Join(lines, "\n")+"\n"), 0o644)
	if stats != "" {
		if _, e := os.Stat(stats); e != nil {
			m := map[string]any{"evaluations": len(lines), "distinct_nontrivial": 0, "rule": "child process died; partial output", "samples": []string{last + " => " + kind}}
			jb, _ := json.Marshal(m)
			os.WriteFile(stats, jb, 0o644)
		}
	}
}
