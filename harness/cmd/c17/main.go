// C17 correspondence: RangeKeys / Export / Import / RemoveKeys of the real kv/memory, kv/aof and
// kv/sqlite3 stores on random stores with colliding and boundary hashes, judged by `modeld C17`
// against the per-back-end Lean model (DIFF) and the statement (SPEC).
package main

import (
	"fmt"
	"strconv"
	"strings"

	"verif/harness/hlib"
	"verif/harness/kvh"
)

func u(x uint64) string { return strconv.FormatUint(x, 10) }

func main() {
	r := hlib.Start()
	r.Rule = "one case = fresh real memory, aof and sqlite stores; a hash table whose values are drawn from the query bounds themselves (= low, = high, ±1), 0, 2^48-1 and a few random points, so that keys collide and sit on range boundaries; a random store built with put (nil/empty/non-empty), delete, prefix append/remove and acquire/release over 4..14 keys (thorough: up to 450 keys to cross sqlite's 200-key delete batches); then range queries (normal, wrap-around, low==high, bounds 0 and 2^48-1), export of a key subset (a range result or a random subset incl. data-free and unknown keys), import of exactly that export into a fresh store of the same and of another back-end, re-export and full range on the target, removekeys of a subset followed by export of all keys and a full range; non-trivial = distinct (op line, answer) of range/export/import/remove"
	env := kvh.NewEnv(r)
	defer env.Close()
	if r.Replay != "" {
		env.Replay(r.ReplayLines())
		r.Finish()
		return
	}
	rng := hlib.NewRng(r.Seed)
	cases := 40
	if r.Thorough() {
		cases = 400
	}
	for c := 0; c < cases; c++ {
		env.Reset()
		nkeys := 4 + rng.Intn(11)
		if r.Thorough() && c%40 == 7 {
			nkeys = 210 + rng.Intn(240)
		}
		// query bounds first, then hashes around them
		pt := func() uint64 {
			switch rng.Intn(5) {
			case 0:
				return 0
			case 1:
				return kvh.M - 1
			case 2:
				return uint64(rng.Intn(6))
			default:
				return rng.U64() % kvh.M
			}
		}
		bounds := []uint64{pt(), pt(), pt()}
		hv := func() uint64 {
			b := hlib.Pick(rng, bounds)
			switch rng.Intn(6) {
			case 0:
				return b
			case 1:
				return (b + 1) % kvh.M
			case 2:
				return (b + kvh.M - 1) % kvh.M
			case 3:
				return hlib.Pick(rng, []uint64{0, kvh.M - 1})
			default:
				return rng.U64() % kvh.M
			}
		}
		keys := make([]string, nkeys)
		for i := range keys {
			keys[i] = hlib.HexS(fmt.Sprintf("k%d", i))
			if i == 1 && rng.Chance(30) {
				keys[i] = "-" // the empty key
			}
			env.Exec([]string{"hash", keys[i], u(hv())})
		}
		children := []string{hlib.HexS("c1"), hlib.HexS("c2"), hlib.HexS("c3"), "-"}
		vals := []string{"nil", "-", hlib.HexS("v1"), hlib.HexS("v2"), hlib.HexS("value-three")}
		emit := func(op string, args ...string) []string {
			res := env.All("", op, args...)
			switch op {
			case "range", "export", "import", "remove":
				for _, x := range res {
					r.Case(op + " " + strings.Join(args, " ") + "=>" + x)
				}
			}
			return res
		}
		build := func(n int) {
			for i := 0; i < n; i++ {
				k := hlib.Pick(rng, keys)
				switch x := rng.Intn(100); {
				case x < 35:
					emit("put", k, hlib.Pick(rng, vals))
				case x < 45:
					emit("del", k)
				case x < 70:
					emit("pappend", k, hlib.Pick(rng, children))
				case x < 80:
					emit("premove", k, hlib.Pick(rng, children))
				case x < 93:
					emit("acquire", k, "60000000000")
				default:
					emit("release", k, "last:0")
				}
			}
		}
		ranges := func(n int) [][]string {
			var last [][]string
			for i := 0; i < n; i++ {
				lo, hi := hlib.Pick(rng, bounds), hlib.Pick(rng, bounds)
				switch rng.Intn(6) {
				case 0:
					hi = lo
					r.Count("range:low==high")
				case 1:
					lo, hi = pt(), pt()
				}
				if hi < lo {
					r.Count("range:wrap")
				} else if hi > lo {
					r.Count("range:normal")
				}
				res := emit("range", u(lo), u(hi))
				last = nil
				for _, x := range res {
					if x == "[]" {
						last = append(last, nil)
					} else {
						last = append(last, strings.Split(x, ","))
					}
				}
			}
			return last
		}
		subset := func() []string {
			var ks []string
			for _, k := range keys {
				if rng.Chance(45) {
					ks = append(ks, k)
				}
			}
			if rng.Chance(40) {
				ks = append(ks, hlib.HexS("never-written"))
			}
			if len(ks) == 0 {
				ks = []string{keys[0]}
			}
			return ks
		}
		join := func(ks []string) string {
			if len(ks) == 0 {
				return "[]"
			}
			return strings.Join(ks, ",")
		}
		all := join(keys)

		build(nkeys * (2 + rng.Intn(4)))
		lastRange := ranges(3 + rng.Intn(4))

		// transfer: Export(ks) -> Import into an empty store -> Export again
		for round := 0; round < 2; round++ {
			sfx := strconv.Itoa(round + 2)
			for bi, b := range kvh.Backends {
				ks := subset()
				if round == 0 && lastRange != nil && len(lastRange[bi]) > 0 {
					ks = lastRange[bi] // what the node really does: transfer the keys of a range
					r.Count("transfer:range-result")
				} else {
					r.Count("transfer:random-subset")
				}
				ex := env.Exec([]string{"export", b, join(ks)})
				r.Case("export " + b + join(ks) + "=>" + ex)
				if strings.HasPrefix(ex, "err") || ex == "panic" {
					continue
				}
				ents := strings.Split(ex, ";")
				// same back-end, and one other back-end
				targets := []string{b + sfx, kvh.Backends[(bi+1+rng.Intn(2))%3] + sfx + "x" + b}
				for _, tgt := range targets {
					line := []string{"import", tgt}
					for i, k := range ks {
						line = append(line, k+"="+ents[i]+"/abs")
					}
					res := env.Exec(line)
					r.Case(strings.Join(line, " ") + "=>" + res)
					ex2 := env.Exec([]string{"export", tgt, join(append(append([]string{}, ks...), keys[0], hlib.HexS("other")))})
					r.Case("export2 " + tgt + "=>" + ex2)
					env.Exec([]string{"range", tgt, "0", "0"})
					env.Exec([]string{"listkeys", tgt, "-"})
					r.Count("import-into:" + tgt[:3] + "-from-" + b)
					// life after the transfer: the simple values of some imported keys are deleted; a key that
					// held nothing else must disappear from the range listing of its new home
					if rng.Chance(60) {
						nd := 0
						for _, k := range ks {
							if nd < 4 && rng.Chance(60) {
								env.Exec([]string{"del", tgt, k})
								nd++
							}
						}
						env.Exec([]string{"range", tgt, "0", "0"})
						r.Count("post-import-delete")
					}
				}
			}
		}

		// remove a subset, then look at everything
		rm := subset()
		if nkeys > 200 {
			rm = keys[:205+rng.Intn(nkeys-205)]
			r.Count("remove:>200-keys")
		}
		if rng.Chance(15) {
			rm = append(rm, rm[0]) // duplicate key in the list
		}
		emit("remove", join(rm))
		emit("export", all)
		emit("range", u(bounds[0]), u(bounds[0]))
		emit("listkeys", "-")
		if nkeys <= 20 {
			for _, k := range rm {
				emit("get", k)
				emit("plist", k)
			}
		}
		// life goes on after the removal
		build(nkeys)
		ranges(2)
		emit("export", all)
		if rng.Chance(50) {
			emit("remove", all)
			emit("range", "0", "0")
			emit("export", all)
		}
	}
	r.Finish()
}
