/-!
# C23 — model of the SQLite store (`kv/sqlite3`): four tables, every API call one atomic transaction

`simple_entries`, `prefix_entries`, `lease_entries`, `key_trackers` as functions of the key.  Every
writer of the Go code runs inside `withWriteTx` (BEGIN IMMEDIATE … COMMIT, or ROLLBACK when the body
returns an error), so an API call is `body : Store → Except Err Store` and `step` keeps the old state on
`error`.  `updTracker` is `updateKeyTracker` branch by branch.  Byte strings are `String` (hex tokens
of the protocol), `""` is the empty value.  The hash function is a parameter.  Core Lean only.
-/
namespace Specter.C23

/-- the three tracker bits (`SimpleFlag`, `PrefixFlag`, `LeaseFlag`); `uint8` bit operations on them are
componentwise Boolean operations -/
structure Flags where
  s : Bool
  p : Bool
  l : Bool
deriving DecidableEq, Repr

namespace Flags
def zero : Flags := ⟨false, false, false⟩
def S : Flags := ⟨true, false, false⟩
def P : Flags := ⟨false, true, false⟩
def L : Flags := ⟨false, false, true⟩
def or (a b : Flags) : Flags := ⟨a.s || b.s, a.p || b.p, a.l || b.l⟩
def andNot (a r : Flags) : Flags := ⟨a.s && !r.s, a.p && !r.p, a.l && !r.l⟩
def toNat (a : Flags) : Nat := (if a.s then 1 else 0) + (if a.p then 2 else 0) + (if a.l then 4 else 0)
end Flags

inductive Err where
  | prefixConflict | leaseConflict | leaseExpired | invalidTTL | hashFnChanged | importNil
deriving DecidableEq, Repr

/-- `protocol.KVTransfer`; `simple = none` is a nil `SimpleValue` -/
structure Transfer where
  simple : Option String
  children : List String
  lease : Nat
deriving DecidableEq, Repr

inductive Op where
  | put (k v : String)
  | delete (k : String)
  | pappend (k c : String)
  | premove (k c : String)
  | acquire (k : String) (ttlMs now next : Nat)      -- `now`, `next` are the clock readings inside the tx
  | renew (k : String) (ttlMs prev now next : Nat)
  | release (k : String) (tok : Nat)
  | imp (items : List (String × Option Transfer))    -- `none` = nil *KVTransfer
  | removeKeys (ks : List String)
deriving DecidableEq, Repr

structure Store where
  simple : String → Option String
  pfx : String → List String
  lease : String → Option Nat
  tracker : String → Option (Nat × Flags)           -- (hash, flags)

def Store.empty : Store := ⟨fun _ => none, fun _ => [], fun _ => none, fun _ => none⟩

def fset {α : Type} (f : String → α) (k : String) (v : α) : String → α := fun x => if x = k then v else f x

/-- effective `removeFlags`: "Cancel removing PrefixFlag" while children remain (`prefixCount > 0`) -/
def remEff (st : Store) (k : String) (rem : Flags) : Flags :=
  if rem.p && !(st.pfx k).isEmpty then { rem with p := false } else rem

/-- `updateKeyTracker(ctx, tx, key, addFlags, removeFlags)` -/
def updTracker (h : String → Nat) (st : Store) (k : String) (add rem : Flags) : Except Err Store :=
  match st.tracker k with
  | none =>
    -- tracker does not exist: create it only when adding flags
    if add = Flags.zero then .ok st
    else .ok { st with tracker := fset st.tracker k (some (h k, add)) }
  | some (hv, f) =>
    if hv ≠ h k then .error .hashFnChanged
    else
      let nf := (f.or add).andNot (remEff st k rem)
      if nf = Flags.zero then .ok { st with tracker := fset st.tracker k none }
      else .ok { st with tracker := fset st.tracker k (some (hv, nf)) }

/-- `durationGuard`: ttl truncated to whole seconds must be ≥ 1 s -/
def ttlOk (ttlMs : Nat) : Bool := ttlMs / 1000 ≥ 1

/-- `INSERT … ON CONFLICT DO NOTHING` of one child -/
def addChild (cs : List String) (c : String) : List String := if c ∈ cs then cs else c :: cs

/-- `importedSimpleValue`: a nil simple value is written as an empty one only for a transfer that
carries nothing else -/
def importedSimple (t : Transfer) : Option String :=
  match t.simple with
  | some v => some v
  | none => if t.children.isEmpty && t.lease == 0 then some "" else none

/-- the data statements of one element of `Import`'s loop: upsert of the simple value, one
`INSERT … ON CONFLICT DO NOTHING` per child, upsert of a non-zero lease token -/
def importData (st : Store) (k : String) (t : Transfer) : Store :=
  { simple := match importedSimple t with
      | some v => fset st.simple k (some v)
      | none => st.simple
    pfx := fset st.pfx k (t.children.foldl addChild (st.pfx k))
    lease := if t.lease ≠ 0 then fset st.lease k (some t.lease) else st.lease
    tracker := st.tracker }

def importFlags (t : Transfer) : Flags := ⟨(importedSimple t).isSome, !t.children.isEmpty, t.lease ≠ 0⟩

/-- one element of `Import`'s loop -/
def importItem (h : String → Nat) (st : Store) (k : String) (t : Transfer) : Except Err Store :=
  updTracker h (importData st k t) k (importFlags t) Flags.zero

def importAll (h : String → Nat) : List (String × Option Transfer) → Store → Except Err Store
  | [], st => .ok st
  | (_, none) :: _, _ => .error .importNil
  | (k, some t) :: rest, st =>
    match importItem h st k t with
    | .error e => .error e
    | .ok st' => importAll h rest st'

def removeOne (st : Store) (k : String) : Store :=
  { simple := fset st.simple k none, pfx := fset st.pfx k [], lease := fset st.lease k none,
    tracker := fset st.tracker k none }

/-- `INSERT … ON CONFLICT(owner) DO UPDATE … WHERE token <= now` affects a row: no row, or an expired one -/
def leaseFree : Option Nat → Nat → Bool
  | none, _ => true
  | some t, now => decide (t ≤ now)

/-- the body of the write transaction of each API call -/
def body (h : String → Nat) (st : Store) : Op → Except Err Store
  | .put k v => updTracker h { st with simple := fset st.simple k (some v) } k Flags.S Flags.zero
  | .delete k => updTracker h { st with simple := fset st.simple k none } k Flags.zero Flags.S
  | .pappend k c =>
    if c ∈ st.pfx k then .error .prefixConflict      -- ON CONFLICT DO NOTHING → RowsAffected = 0
    else updTracker h { st with pfx := fset st.pfx k (c :: st.pfx k) } k Flags.P Flags.zero
  | .premove k c =>
    updTracker h { st with pfx := fset st.pfx k ((st.pfx k).filter (· ≠ c)) } k Flags.zero Flags.P
  | .acquire k ttl now next =>
    if !ttlOk ttl then .error .invalidTTL
    else
      if leaseFree (st.lease k) now then updTracker h { st with lease := fset st.lease k (some next) } k Flags.L Flags.zero
      else .error .leaseConflict
  | .renew k ttl prev now next =>
    if !ttlOk ttl then .error .invalidTTL
    else
      match st.lease k with
      | some t =>
        if t = prev ∧ t > now then updTracker h { st with lease := fset st.lease k (some next) } k Flags.L Flags.zero
        else .error .leaseExpired
      | none => .error .leaseExpired
  | .release k tok =>
    match st.lease k with
    | some t =>
      if t = tok then updTracker h { st with lease := fset st.lease k none } k Flags.zero Flags.L
      else .error .leaseExpired
    | none => .error .leaseExpired
  | .imp items => importAll h items st
  | .removeKeys ks => .ok (ks.foldl removeOne st)

/-- one API call: commit on success, rollback (old state) on error -/
def step (h : String → Nat) (st : Store) (op : Op) : Store × Option Err :=
  match body h st op with
  | .ok st' => (st', none)
  | .error e => (st, some e)

def run (h : String → Nat) (st : Store) (ops : List Op) : Store := ops.foldl (fun s o => (step h s o).1) st

/-! ## The caller's context (`withWriteTx(ctx, …)`)

Every API call hands its `ctx` to `db.BeginTx`; `database/sql` then watches it (`Tx.awaitDone`): when the
context ends the watcher marks the transaction done and rolls it back.  `CtxEnd` says where the context of
one call ends relative to that call's transaction. -/
inductive CtxEnd where
  | alive                          -- not before `Commit` has taken the transaction over
  | beforeBegin                    -- `db.BeginTx(ctx, nil)` fails
  | inBody (early : Bool)          -- a statement of the body is refused (`tx.StmtContext(ctx, …)` sees the ended
                                   -- context or the rolled-back transaction); `early`: before the body's own checks
  | atCommit (watcherDone : Bool)  -- all statements ran; `Commit` finds the context ended: `ErrTxDone` when the
                                   -- watcher has already rolled back, else `ctx.Err()` (the watcher rolls back next)
deriving DecidableEq, Repr

/-- what the caller sees: `nil`, one of the store's own errors, or the context's error / `sql.ErrTxDone` -/
inductive Res where
  | ok | err (e : Err) | ctxErr
deriving DecidableEq, Repr

/-- `db.BeginTx(ctx, nil)` -/
def beginFails : CtxEnd → Bool
  | .beforeBegin => true
  | _ => false

/-- `tx.Commit()` after a body that returned nil: `true` = committed; `false` = an error (`ErrTxDone` or
`ctx.Err()`) and the transaction is (being) rolled back -/
def commits : CtxEnd → Bool
  | .alive => true
  | _ => false

/-- `withWriteTx(ctx, db, fn)`: `fn`'s error → Rollback and that error; otherwise `return tx.Commit()` — the
result of Commit is returned AS IS, so the call is acknowledged only if the transaction was committed. -/
def withWriteTx (c : CtxEnd) (st : Store) (b : Except Err Store) : Store × Res :=
  if beginFails c then (st, .ctxErr)
  else match c, b with
    | .inBody true, _ => (st, .ctxErr)
    | .inBody false, .ok _ => (st, .ctxErr)
    | _, .error e => (st, .err e)
    | _, .ok st' => if commits c then (st', .ok) else (st, .ctxErr)

/-- one API call whose context ends at `c` -/
def stepCtx (h : String → Nat) (st : Store) (op : Op) (c : CtxEnd) : Store × Res :=
  withWriteTx c st (body h st op)

def runCtx (h : String → Nat) (st : Store) (cops : List (Op × CtxEnd)) : Store :=
  cops.foldl (fun s oc => (stepCtx h s oc.1 oc.2).1) st

/-- the acknowledged calls (those that returned nil) of a history, in order -/
def ackedOps (h : String → Nat) : Store → List (Op × CtxEnd) → List Op
  | _, [] => []
  | st, (op, c) :: rest =>
    let r := stepCtx h st op c
    if r.2 = .ok then op :: ackedOps h r.1 rest else ackedOps h r.1 rest

/-! ## The write-ahead log a kill leaves behind, and re-opening

SQLite (journal_mode=WAL) logs a transaction as a run of frames, the last of which carries the commit mark;
a frame is written with two writes (24-byte frame header, then the page).  A kill can therefore leave, behind
the whole frames, a strict prefix of one more frame.  Recovery replays the whole frames up to the last commit
mark and ignores everything behind it.  `sqlite3.New` hands the files to SQLite as they are: it does not look
at, shorten or remove the log. -/
structure Frame where
  commit : Bool            -- last frame of a transaction
deriving DecidableEq, Repr

/-- the log file as found after a kill: whole frames, then `torn` bytes of a partly written one (`0` = none) -/
structure Log where
  frames : List Frame
  torn : Nat
deriving DecidableEq, Repr

/-- `sqlite3.New` on a directory that holds a log: nothing is done to it before SQLite opens it -/
def reopenLog (l : Log) : Log := l

/-- SQLite's recovery: the number of transactions it replays = commit marks among the whole frames -/
def replayed (l : Log) : Nat := (l.frames.filter (·.commit)).length

/-- the store found on re-opening, every API call being one transaction (`withWriteTx`) -/
def reopened (h : String → Nat) (ops : List Op) (l : Log) : Store :=
  run h Store.empty (ops.take (replayed (reopenLog l)))

end Specter.C23
