/-!
# C31 — model of `util/hashcash` (Parse / String / Verify / verifyBits / Solve) and `spec/pow.VerifySolution`

Core Lean only.  Byte strings are `List Nat` (every element < 256 when they come from the wire).
External functions are parameters: `sha` (SHA-256), `sigOK` (result of `ed25519.Verify`),
`b64` (`base64.RawURLEncoding`), the expected subject (result of `Parameters.GetSubject pubKey`),
and the two readings of `time.Now()` (`now1` in `VerifySolution`, `now2` in `Hashcash.Verify`), in ns.
-/
namespace Specter.C31

abbrev Bytes := List Nat

/-! ## decimal printing / parsing (`strconv.Itoa`, `FormatInt`, `Atoi`, `ParseInt(s,10,64)`) -/

def decRev (n : Nat) : Bytes :=
  if n < 10 then [48 + n] else (48 + n % 10) :: decRev (n / 10)

/-- `strconv.Itoa` / `FormatInt(·,10)` / `FormatUint(·,10)` of a non-negative number -/
def dec (n : Nat) : Bytes := (decRev n).reverse

def isDigit (c : Nat) : Bool := 48 ≤ c && c ≤ 57

def parseDigits (acc : Nat) : Bytes → Option Nat
  | [] => some acc
  | c :: cs => if isDigit c then parseDigits (acc * 10 + (c - 48)) cs else none

/-- unsigned decimal: at least one digit, only digits (no sign, no underscore) -/
def parseNat (s : Bytes) : Option Nat := if s = [] then none else parseDigits 0 s

/-- `strconv.ParseInt(s, 10, 64)` (= `Atoi` on 64-bit): optional sign, digits, int64 range; `none` = error -/
def parseGoInt (s : Bytes) : Option Int :=
  match s with
  | 43 :: r => (parseNat r).bind fun v => if v < 2^63 then some (v : Int) else none
  | 45 :: r => (parseNat r).bind fun v => if v ≤ 2^63 then some (-(v : Int)) else none
  | _ => (parseNat s).bind fun v => if v < 2^63 then some (v : Int) else none

/-! ## `strings.Split(s, ":")` / `strings.Join` -/

/-- first part and the remaining parts -/
def split1 (sep : Nat) : Bytes → Bytes × List Bytes
  | [] => ([], [])
  | c :: cs =>
    let r := split1 sep cs
    if c = sep then ([], r.1 :: r.2) else (c :: r.1, r.2)

def splitOn (sep : Nat) (s : Bytes) : List Bytes := (split1 sep s).1 :: (split1 sep s).2

def join (sep : Nat) : List Bytes → Bytes
  | [] => []
  | [p] => p
  | p :: q :: ps => p ++ sep :: join sep (q :: ps)

/-! ## Hashcash record -/

def colon : Nat := 58
def tagH : Bytes := [72]
def algSHA256 : Bytes := [83, 72, 65, 45, 50, 53, 54]   -- "SHA-256"

/-- Parsed hashcash.  `Tag` is always "H" after a successful `Parse` and `String()` prints the literal "H".
`expiresAt = none` is the zero `time.Time`; `some e` = `time.Unix(e, 0)`. -/
structure Hashcash where
  difficulty : Nat
  expiresAt : Option Nat
  subject : Bytes
  nonce : Bytes
  alg : Bytes
  solution : Bytes
  deriving DecidableEq, Repr

inductive ParseErr | parts | tag | difficulty | date
  deriving DecidableEq, Repr

def parseExp (exp : Bytes) : Option (Option Nat) :=
  if exp = [] then some none
  else match parseGoInt exp with
    | none => none
    | some e => if e < 0 then none else some (some e.toNat)

def parseFields (tag bits exp sub nonce alg sol : Bytes) : Except ParseErr Hashcash :=
  if tag ≠ tagH then .error .tag else
  match parseGoInt bits with
  | none => .error .difficulty
  | some b =>
    if b < 0 then .error .difficulty else
    match parseExp exp with
    | none => .error .date
    | some e => .ok { difficulty := b.toNat, expiresAt := e, subject := sub, nonce := nonce, alg := alg, solution := sol }

/-- `hashcash.Parse` -/
def parse (s : Bytes) : Except ParseErr Hashcash :=
  match splitOn colon s with
  | [tag, bits, exp, sub, nonce, alg] => parseFields tag bits exp sub nonce alg []
  | [tag, bits, exp, sub, nonce, alg, sol] => parseFields tag bits exp sub nonce alg sol
  | _ => .error .parts

def expStr : Option Nat → Bytes
  | none => []
  | some e => dec e

/-- `(*Hashcash).String` -/
def toStr (h : Hashcash) : Bytes :=
  join colon [tagH, dec h.difficulty, expStr h.expiresAt, h.subject, h.nonce, h.alg]
    ++ (if h.solution = [] then [] else colon :: h.solution)

/-! ## the bit test -/

/-- number of hash bytes looked at: `n := bits/8; if bits%8 > 0 { n++ }` -/
def nBytes (bits : Nat) : Nat := if bits % 8 > 0 then bits / 8 + 1 else bits / 8

/-- the `for i := range n` loop of `verifyBits` (`fuel` = iterations left, `i` = index);
`none` = index out of range (Go panics) -/
def verifyBitsLoop (hash : Bytes) : Nat → Nat → Nat → Option Bool
  | 0, _, _ => some false
  | fuel + 1, i, bits =>
    match hash[i]? with
    | none => none
    | some b =>
      if bits > 8 then
        if b ≠ 0 then some false else verifyBitsLoop hash fuel (i + 1) (bits - 8)
      else if b >>> (8 - bits) = 0 then some true
      else verifyBitsLoop hash fuel (i + 1) bits

/-- `verifyBits(hash, bits, n)` -/
def verifyBits (hash : Bytes) (bits n : Nat) : Option Bool :=
  if bits = 0 then some true else verifyBitsLoop hash n 0 bits

/-! ## time -/

def maxDur : Int := 2^63 - 1
def minDur : Int := -2^63

/-- `time.Time.Sub` saturates -/
def satDur (d : Int) : Int := if d > maxDur then maxDur else if d < minDur then minDur else d

/-- `Duration.Abs` -/
def absDur (d : Int) : Int := if d ≥ 0 then d else if d = minDur then maxDur else -d

/-- Unix seconds of `time.Unix(e, 0)` as the `time` package sees them: the internal second counter
`e + 62135596800` wraps in int64 for e ≥ 2^63 − 62135596800 (such a time lies ~292e9 years in the past). -/
def goUnix (e : Nat) : Int := if e + 62135596800 < 2^63 then (e : Int) else (e : Int) - 2^64

def expNs (e : Nat) : Int := goUnix e * 1000000000

/-! ## `(*Hashcash).Verify` -/

inductive VErr | alg | expired | subject | solution | panic
  deriving DecidableEq, Repr

/-- `!h.ExpiresAt.IsZero() && h.ExpiresAt.Sub(time.Now()) < 0` -/
def expired (exp : Option Nat) (now : Int) : Bool :=
  match exp with
  | none => false
  | some e => decide (satDur (expNs e - now) < 0)

def hcVerify (sha : Bytes → Bytes) (h : Hashcash) (subject : Bytes) (now : Int) : Except VErr Unit :=
  -- `h.Difficulty < 0` cannot happen for a parsed stamp (difficulty : Nat)
  if h.alg ≠ algSHA256 then .error .alg else
  if expired h.expiresAt now then .error .expired else
  if subject ≠ h.subject then .error .subject else
  let hash := sha (toStr h)
  let n := nBytes h.difficulty
  if n > hash.length then .error .panic      -- `hash[:n]` out of range
  else match verifyBits (hash.take n) h.difficulty n with
    | none => .error .panic
    | some false => .error .solution
    | some true => .ok ()

def isOk : Except VErr Unit → Bool
  | .ok _ => true
  | .error _ => false

/-! ## `pow.VerifySolution` -/

inductive Res
  | ok | pubLen | sigLen | noSolution | badSig
  | parse (e : ParseErr) | wrongDifficulty | zeroExp | tooFar
  | verify (e : VErr)
  deriving DecidableEq, Repr

/-- the part of `VerifySolution` after a successful `hashcash.Parse` -/
def verifyParsed (sha : Bytes → Bytes) (h : Hashcash) (required expiresNs : Nat) (subject : Bytes) (now1 now2 : Int) : Res :=
  if h.difficulty ≠ required then .wrongDifficulty else
  match h.expiresAt with
  | none => .zeroExp
  | some e =>
    if absDur (satDur (now1 - expNs e)) > 2 * (expiresNs : Int) then .tooFar else
    match hcVerify sha h subject now2 with
    | .error e => .verify e
    | .ok () => .ok

/-- `required` = `p.Difficulty`, `expiresNs` = `p.Expires` in ns (assumed `2·Expires` does not overflow int64),
`subject` = `p.GetSubject(pubKey)`. -/
def verifySolution (sha : Bytes → Bytes) (pubLen sigLen : Nat) (solution : Bytes) (sigOK : Bool)
    (required expiresNs : Nat) (subject : Bytes) (now1 now2 : Int) : Res :=
  if pubLen ≠ 32 then .pubLen else
  if sigLen ≠ 64 then .sigLen else
  if solution = [] then .noSolution else
  if !sigOK then .badSig else
  match parse solution with
  | .error e => .parse e
  | .ok h => verifyParsed sha h required expiresNs subject now1 now2

/-! ## `(*Hashcash).Solve` -/

def le32 (c : Nat) : Bytes := [c % 256, c / 256 % 256, c / 65536 % 256, c / 16777216 % 256]

/-- the search loop; `fuel` bounds the number of iterations (Go loops until it finds one; the uint32 counter wraps) -/
def solveLoop (sha b64 : Bytes → Bytes) (pre : Bytes) (bits : Nat) : Nat → Nat → Option Bytes
  | 0, _ => none
  | fuel + 1, c =>
    let sol := b64 (le32 c)
    let hash := sha (pre ++ colon :: sol)
    let n := nBytes bits
    if n ≤ hash.length ∧ verifyBits (hash.take n) bits n = some true then some sol
    else solveLoop sha b64 pre bits fuel ((c + 1) % 2^32)

inductive SolveErr | alg | difficulty | exhausted
  deriving DecidableEq, Repr

def maxDifficulty : Nat := 26

def solve (sha b64 : Bytes → Bytes) (h : Hashcash) (maxD : Nat) (now : Int) (fuel : Nat) : Except SolveErr Hashcash :=
  if h.alg ≠ algSHA256 then .error .alg else
  if h.difficulty > maxD ∨ h.difficulty > maxDifficulty then .error .difficulty else
  if h.solution ≠ [] ∧ isOk (hcVerify sha h h.subject now) then .ok h else
  let h0 := { h with solution := [] }
  match solveLoop sha b64 (toStr h0) h.difficulty fuel 0 with
  | none => .error .exhausted
  | some sol => .ok { h with solution := sol }

/-! ## executable spec: leading zero bits of a byte string (most significant bit first) -/

def byteBits (b : Nat) : List Bool :=
  [b.testBit 7, b.testBit 6, b.testBit 5, b.testBit 4, b.testBit 3, b.testBit 2, b.testBit 1, b.testBit 0]

def bitsOf (h : Bytes) : List Bool := h.flatMap byteBits

def leadingZeroBits (h : Bytes) : Nat := ((bitsOf h).takeWhile (· == false)).length

end Specter.C31
