package main

// c24-facts: facts of kv/sqlite3's open path for the Lean model of C24.
// usage: extract c24-facts <schema.go> <queries.go> <statements.go> <migrations dir>
// Emits SpecterModel/C24/Gen.lean: schemaVersion, the object names inspected by
// schemaLooksLikeV1 / schemaHasAnyV1Objects, the embedded migrations (version + CREATE
// statements with their IF NOT EXISTS flag) and the tables referenced by the statements that
// prepareStatements prepares, and whether applyMigration runs the migration script and the version
// stamp on one transaction (Begin … Commit, Rollback) or directly on the handle. Anything unexpected
// fails loudly.

import (
	"fmt"
	"go/ast"
	"go/parser"
	"go/token"
	"os"
	"path/filepath"
	"regexp"
	"sort"
	"strconv"
	"strings"
)

func init() { factCmds["c24-facts"] = c24Facts }

func c24Die(f string, a ...any) {
	fmt.Fprintf(os.Stderr, "c24-facts: "+f+"\n", a...)
	os.Exit(1)
}

func c24Camel(s string) string {
	parts := strings.Split(s, "_")
	for i := 1; i < len(parts); i++ {
		if parts[i] != "" {
			parts[i] = strings.ToUpper(parts[i][:1]) + parts[i][1:]
		}
	}
	return "." + strings.Join(parts, "")
}

func c24List(xs []string) string {
	ys := make([]string, len(xs))
	for i, x := range xs {
		ys[i] = c24Camel(x)
	}
	return "[" + strings.Join(ys, ", ") + "]"
}

// inspected names of one schema-inspection function: []string{…} ranged over with tableExists,
// plus every indexExists(db, "…") call.
func c24Inspected(fn *ast.FuncDecl) (tables, indexes []string) {
	ast.Inspect(fn.Body, func(n ast.Node) bool {
		switch x := n.(type) {
		case *ast.RangeStmt:
			if cl, ok := x.X.(*ast.CompositeLit); ok {
				uses := false
				ast.Inspect(x.Body, func(m ast.Node) bool {
					if c, ok := m.(*ast.CallExpr); ok {
						if id, ok := c.Fun.(*ast.Ident); ok && id.Name == "tableExists" {
							uses = true
						}
					}
					return true
				})
				if !uses {
					c24Die("%s: range body does not call tableExists", fn.Name.Name)
				}
				for _, e := range cl.Elts {
					bl, ok := e.(*ast.BasicLit)
					if !ok {
						c24Die("%s: non-literal table name", fn.Name.Name)
					}
					s, _ := strconv.Unquote(bl.Value)
					tables = append(tables, s)
				}
			}
		case *ast.CallExpr:
			if id, ok := x.Fun.(*ast.Ident); ok && (id.Name == "indexExists" || id.Name == "tableExists") && len(x.Args) == 2 {
				if bl, ok := x.Args[1].(*ast.BasicLit); ok {
					s, _ := strconv.Unquote(bl.Value)
					if id.Name == "indexExists" {
						indexes = append(indexes, s)
					} else {
						tables = append(tables, s)
					}
				}
			}
		}
		return true
	})
	return
}

// c24TxShape classifies applyMigration: "true" when the migration script (the Exec whose argument is
// the migration's .sql field) and the user_version stamp both run on a transaction obtained from
// Begin/BeginTx in this function, which is committed and has a Rollback; "false" when neither runs
// on a transaction (statement-by-statement autocommit on the handle). Any other mixture is refused.
func c24TxShape(fn *ast.FuncDecl) string {
	txs := map[string]bool{}
	ast.Inspect(fn.Body, func(n ast.Node) bool {
		as, ok := n.(*ast.AssignStmt)
		if !ok || len(as.Rhs) != 1 || len(as.Lhs) == 0 {
			return true
		}
		if c, ok := as.Rhs[0].(*ast.CallExpr); ok {
			if se, ok := c.Fun.(*ast.SelectorExpr); ok && (se.Sel.Name == "Begin" || se.Sel.Name == "BeginTx") {
				if id, ok := as.Lhs[0].(*ast.Ident); ok {
					txs[id.Name] = true
				}
			}
		}
		return true
	})
	isTx := func(e ast.Expr) bool {
		id, ok := e.(*ast.Ident)
		return ok && txs[id.Name]
	}
	scripts, scriptsOnTx, stamps, stampsOnTx := 0, 0, 0, 0
	commit, rollback := false, false
	ast.Inspect(fn.Body, func(n ast.Node) bool {
		c, ok := n.(*ast.CallExpr)
		if !ok {
			return true
		}
		switch f := c.Fun.(type) {
		case *ast.SelectorExpr:
			switch f.Sel.Name {
			case "Exec", "ExecContext":
				for _, a := range c.Args {
					if se, ok := a.(*ast.SelectorExpr); ok && se.Sel.Name == "sql" {
						scripts++
						if isTx(f.X) {
							scriptsOnTx++
						}
					}
				}
			case "Commit":
				commit = commit || isTx(f.X)
			case "Rollback":
				rollback = rollback || isTx(f.X)
			}
		case *ast.Ident:
			if (f.Name == "setTxUserVersion" || f.Name == "setUserVersion") && len(c.Args) >= 1 {
				stamps++
				if isTx(c.Args[0]) {
					stampsOnTx++
				}
			}
		}
		return true
	})
	if scripts == 0 || stamps == 0 {
		c24Die("applyMigration: unsupported shape (script executions: %d, version stamps: %d)", scripts, stamps)
	}
	switch {
	case scriptsOnTx == scripts && stampsOnTx == stamps && commit && rollback:
		return "true"
	case scriptsOnTx == 0 && stampsOnTx == 0 && len(txs) == 0:
		return "false"
	}
	c24Die("applyMigration: unsupported shape (script on tx %d/%d, stamp on tx %d/%d, commit %v, rollback %v)",
		scriptsOnTx, scripts, stampsOnTx, stamps, commit, rollback)
	return ""
}

var (
	c24CreateRe = regexp.MustCompile("(?i)CREATE\\s+(UNIQUE\\s+)?(TABLE|INDEX)\\s+(IF\\s+NOT\\s+EXISTS\\s+)?[`\"]?([A-Za-z_0-9]+)[`\"]?")
	c24StmtRe   = regexp.MustCompile("(?i)^\\s*(CREATE|DROP|ALTER|INSERT|UPDATE|DELETE|PRAGMA|REPLACE)\\b")
	c24TableRe  = regexp.MustCompile("(?i)\\b(FROM|INTO|UPDATE)\\s+[`\"]?([A-Za-z_0-9]+)[`\"]?")
)

func c24Facts(args []string) {
	if len(args) != 4 {
		c24Die("usage: c24-facts schema.go queries.go statements.go migrationsDir")
	}
	fset := token.NewFileSet()
	parse := func(p string) *ast.File {
		f, err := parser.ParseFile(fset, p, nil, 0)
		if err != nil {
			c24Die("%v", err)
		}
		return f
	}
	schema, queries, stmts := parse(args[0]), parse(args[1]), parse(args[2])

	// --- schema.go
	schemaVersion := ""
	kinds := map[string]string{} // object name -> TABLE|INDEX as inspected
	var looks, anyObjs []string
	txMigration := ""
	for _, d := range schema.Decls {
		switch x := d.(type) {
		case *ast.GenDecl:
			for _, sp := range x.Specs {
				if vs, ok := sp.(*ast.ValueSpec); ok && x.Tok == token.CONST {
					for i, n := range vs.Names {
						if n.Name == "schemaVersion" && i < len(vs.Values) {
							if bl, ok := vs.Values[i].(*ast.BasicLit); ok {
								schemaVersion = bl.Value
							}
						}
					}
				}
			}
		case *ast.FuncDecl:
			if x.Name.Name == "applyMigration" && x.Body != nil {
				txMigration = c24TxShape(x)
			}
			if x.Name.Name == "schemaLooksLikeV1" || x.Name.Name == "schemaHasAnyV1Objects" {
				t, ix := c24Inspected(x)
				for _, n := range t {
					kinds[n] = "TABLE"
				}
				for _, n := range ix {
					kinds[n] = "INDEX"
				}
				if x.Name.Name == "schemaLooksLikeV1" {
					looks = append(append(looks, t...), ix...)
				} else {
					anyObjs = append(append(anyObjs, t...), ix...)
				}
			}
		}
	}
	if schemaVersion == "" || len(looks) == 0 || len(anyObjs) == 0 {
		c24Die("schemaVersion / schemaLooksLikeV1 / schemaHasAnyV1Objects not found")
	}
	if txMigration == "" {
		c24Die("applyMigration not found")
	}

	// --- migrations directory (VERIF_MUTANT_DIR shadows individual files)
	dir := args[3]
	ents, err := os.ReadDir(dir)
	if err != nil {
		c24Die("%v", err)
	}
	type mig struct {
		v       int
		creates []string
	}
	var migs []mig
	created := map[string]string{}
	for _, e := range ents {
		if e.IsDir() || !strings.HasSuffix(e.Name(), ".sql") {
			continue // (the Go code would reject non-.sql names; embed pattern is *.sql)
		}
		pre, _, ok := strings.Cut(strings.TrimSuffix(e.Name(), ".sql"), "-")
		v, aerr := strconv.Atoi(pre)
		if !ok || aerr != nil || v <= 0 {
			c24Die("invalid migration name %s", e.Name())
		}
		p := filepath.Join(dir, e.Name())
		if md := os.Getenv("VERIF_MUTANT_DIR"); md != "" {
			if q := filepath.Join(md, "kv/sqlite3/migrations", e.Name()); fileExists(q) {
				p = q
			}
		}
		body, err := os.ReadFile(p)
		if err != nil {
			c24Die("%v", err)
		}
		m := mig{v: v}
		for _, st := range strings.Split(string(body), ";") {
			if strings.TrimSpace(st) == "" {
				continue
			}
			if !c24StmtRe.MatchString(st) {
				c24Die("%s: unrecognised statement %q", e.Name(), strings.TrimSpace(st))
			}
			mm := c24CreateRe.FindStringSubmatch(st)
			if mm == nil || !strings.HasPrefix(strings.ToUpper(strings.TrimSpace(st)), "CREATE") {
				c24Die("%s: statement other than CREATE TABLE/INDEX: %q", e.Name(), strings.TrimSpace(st))
			}
			created[mm[4]] = strings.ToUpper(mm[2])
			m.creates = append(m.creates, fmt.Sprintf("(%s, %v)", c24Camel(mm[4]), mm[3] != ""))
		}
		migs = append(migs, m)
	}
	sort.Slice(migs, func(i, j int) bool { return migs[i].v < migs[j].v })
	for i, m := range migs {
		if m.v != i+1 {
			c24Die("migration sequence broken at %d", m.v) // validateMigrationSequence would refuse every open
		}
	}
	for n, k := range kinds {
		if ck, ok := created[n]; ok && ck != k {
			c24Die("object %s is created as %s but inspected as %s", n, ck, k)
		}
	}

	// --- prepared statements: query constants used in prepareStatements -> referenced tables
	consts := map[string]string{}
	for _, d := range queries.Decls {
		if gd, ok := d.(*ast.GenDecl); ok && gd.Tok == token.CONST {
			for _, sp := range gd.Specs {
				vs := sp.(*ast.ValueSpec)
				for i, n := range vs.Names {
					if i < len(vs.Values) {
						consts[n.Name] = c24ConstString(vs.Values[i])
					}
				}
			}
		}
	}
	tset := map[string]bool{}
	for _, d := range stmts.Decls {
		if fd, ok := d.(*ast.FuncDecl); ok && fd.Name.Name == "prepareStatements" {
			ast.Inspect(fd.Body, func(n ast.Node) bool {
				if id, ok := n.(*ast.Ident); ok {
					if q, ok := consts[id.Name]; ok {
						for _, m := range c24TableRe.FindAllStringSubmatch(q, -1) {
							if strings.ToUpper(m[2]) != "SET" { // ON CONFLICT … DO UPDATE SET
								tset[m[2]] = true
							}
						}
					}
				}
				return true
			})
		}
	}
	var prepared []string
	for t := range tset {
		prepared = append(prepared, t)
	}
	sort.Strings(prepared)
	if len(prepared) == 0 {
		c24Die("no prepared statements found")
	}

	var b strings.Builder
	b.WriteString("import SpecterModel.C24.Model\n")
	b.WriteString("/-! GENERATED by `extract c24-facts` from kv/sqlite3/{schema.go,queries.go,statements.go,migrations/*.sql}. Do not edit. -/\n")
	b.WriteString("namespace Specter.C24.Gen\nopen Specter.C24\n\n")
	b.WriteString("def facts : Facts :=\n")
	fmt.Fprintf(&b, "  { schemaVersion := %s\n", schemaVersion)
	fmt.Fprintf(&b, "    looksObjs := %s\n", c24List(looks))
	fmt.Fprintf(&b, "    anyObjs := %s\n", c24List(anyObjs))
	b.WriteString("    migrations := [")
	for i, m := range migs {
		if i > 0 {
			b.WriteString(",\n      ")
		}
		fmt.Fprintf(&b, "⟨%d, [%s]⟩", m.v, strings.Join(m.creates, ", "))
	}
	b.WriteString("]\n")
	fmt.Fprintf(&b, "    prepared := %s\n", c24List(prepared))
	fmt.Fprintf(&b, "    txMigration := %s }\n", txMigration)
	b.WriteString("\nend Specter.C24.Gen\n")
	fmt.Print(b.String())
}

func fileExists(p string) bool { _, err := os.Stat(p); return err == nil }

func c24ConstString(e ast.Expr) string {
	switch x := e.(type) {
	case *ast.BasicLit:
		s, _ := strconv.Unquote(x.Value)
		return s
	case *ast.BinaryExpr:
		return c24ConstString(x.X) + c24ConstString(x.Y)
	case *ast.ParenExpr:
		return c24ConstString(x.X)
	}
	return ""
}
