import SpecterModel.C10.Drv

def main : IO Unit := Specter.C10.main
