// C40 correspondence: real spec/tun.Pipe vs the Lean copier model, the duplex buffer model and the Pipe-level spec.
// Only the exported Pipe is called (no shim): a refactoring of the unexported helper must not blind the check.
//   copier: one copier of the real `Pipe` over scripted reader / writer streams, the opposite copier parked (D)
//   pipe2 : the real `Pipe` over two scripted streams (D: both copiers, error multiset, close counts, channel)
//   duplex: the real `Pipe` with both directions busy at once, scheduled event by event; every Write is consumed
//           piece by piece by a slow consumer that looks at the bytes when it takes them (D + spec)
//   live  : the real `Pipe` over two bufconn pairs with client goroutines (V)
package main

import (
	"errors"
	"fmt"
	"io"
	"net"
	"sort"
	"strconv"
	"strings"
	"sync"
	"sync/atomic"
	"time"

	"go.miragespace.co/specter/spec/tun"
	"go.miragespace.co/specter/util/bufconn"
	"verif/harness/hlib"
)

var hangs int // calls that did not finish within the guard: stop exploring after two

type kerr int

func (k kerr) Error() string { return "scripted error " + strconv.Itoa(int(k)) }

type readRes struct {
	data []byte
	err  string
}
type writeRes struct {
	n   int
	err string
}

func mkErr(s string) error {
	switch {
	case s == "n":
		return nil
	case s == "eof":
		return io.EOF
	case s == "short":
		return io.ErrShortWrite
	case strings.HasPrefix(s, "e"):
		k, _ := strconv.Atoi(s[1:])
		return kerr(k)
	}
	return errors.New("?")
}

func errName(err error) string {
	var k kerr
	switch {
	case err == nil:
		return "n"
	case err == io.EOF:
		return "eof"
	case err == io.ErrShortWrite:
		return "short"
	case errors.As(err, &k):
		return "e" + strconv.Itoa(int(k))
	case err.Error() == "invalid write result":
		return "invalid"
	case errors.Is(err, io.ErrClosedPipe):
		return "closed"
	}
	return "other"
}

// script is a stream whose Read and Write answers are scripted; Close only counts.
type script struct {
	mu     sync.Mutex
	reads  []readRes
	writes []writeRes
	calls  [][]byte
	closes int
	tag    byte
	cl     *closeLog
	park   bool // Read waits until both streams have been closed once, then reports end-of-stream
}

// closeLog records the Close calls on a reader/writer pair in order and releases the parked copier once both
// streams have been closed (by then the copier under observation has done its closing).
type closeLog struct {
	mu       sync.Mutex
	log      []byte
	mark     int // number of Close calls made before the release
	released bool
	gate     chan struct{}
}

func (c *closeLog) release() {
	if !c.released {
		c.released = true
		c.mark = len(c.log)
		close(c.gate)
	}
}

func (c *closeLog) closed(tag byte) {
	c.mu.Lock()
	defer c.mu.Unlock()
	c.log = append(c.log, tag)
	r, w := false, false
	for _, t := range c.log {
		r = r || t == 'R'
		w = w || t == 'W'
	}
	if r && w {
		c.release()
	}
}

func (s *script) Read(p []byte) (int, error) {
	if s.park {
		<-s.cl.gate
		return 0, io.EOF
	}
	s.mu.Lock()
	defer s.mu.Unlock()
	if len(s.reads) == 0 {
		return 0, io.EOF
	}
	r := s.reads[0]
	s.reads = s.reads[1:]
	n := copy(p, r.data)
	return n, mkErr(r.err)
}

func (s *script) Write(p []byte) (int, error) {
	s.mu.Lock()
	defer s.mu.Unlock()
	s.calls = append(s.calls, append([]byte{}, p...))
	if len(s.writes) == 0 {
		return len(p), nil
	}
	w := s.writes[0]
	s.writes = s.writes[1:]
	return w.n, mkErr(w.err)
}

func (s *script) Close() error {
	s.mu.Lock()
	s.closes++
	s.mu.Unlock()
	if s.cl != nil {
		s.cl.closed(s.tag)
	}
	return nil
}

func readsTok(rs []readRes) string {
	var xs []string
	for _, r := range rs {
		xs = append(xs, hlib.Hex(r.data)+"."+r.err)
	}
	return hlib.Join(xs, "/")
}
func writesTok(ws []writeRes) string {
	var xs []string
	for _, w := range ws {
		xs = append(xs, strconv.Itoa(w.n)+"."+w.err)
	}
	return hlib.Join(xs, "/")
}
func callsTok(cs [][]byte) string {
	var xs []string
	for _, c := range cs {
		xs = append(xs, hlib.Hex(c))
	}
	return hlib.Join(xs, "/")
}

func parseReads(t string) []readRes {
	if t == "-" {
		return nil
	}
	var out []readRes
	for _, it := range strings.Split(t, "/") {
		p := strings.SplitN(it, ".", 2)
		out = append(out, readRes{hlib.UnHex(p[0]), p[1]})
	}
	return out
}
func parseWrites(t string) []writeRes {
	if t == "-" {
		return nil
	}
	var out []writeRes
	for _, it := range strings.Split(t, "/") {
		p := strings.SplitN(it, ".", 2)
		n, _ := strconv.Atoi(p[0])
		out = append(out, writeRes{n, p[1]})
	}
	return out
}

func genReads(rng *hlib.Rng) []readRes {
	n := rng.Intn(6)
	var rs []readRes
	for i := 0; i < n; i++ {
		d := rng.Bytes(rng.Intn(5))
		if rng.Chance(15) {
			d = nil
		}
		e := "n"
		switch x := rng.Intn(20); {
		case x == 0:
			e = "eof"
		case x == 1:
			e = "e" + strconv.Itoa(1+rng.Intn(3))
		}
		if i == n-1 && rng.Chance(60) {
			e = hlib.Pick(rng, []string{"eof", "eof", "e1", "e2"})
		}
		rs = append(rs, readRes{d, e})
	}
	return rs
}

func genWrites(rng *hlib.Rng, rs []readRes) []writeRes {
	if rng.Chance(45) {
		return nil // well-behaved destination
	}
	var ws []writeRes
	for _, r := range rs {
		if len(r.data) == 0 {
			continue
		}
		w := writeRes{len(r.data), "n"}
		switch rng.Intn(12) {
		case 0:
			w.n = len(r.data) - 1 // short
		case 1:
			w.n = len(r.data) + 1 // invalid
		case 2:
			w.n = -1
		case 3:
			w.err = "e" + strconv.Itoa(4+rng.Intn(3))
		case 4:
			w.n, w.err = rng.Intn(len(r.data)+1), "e7"
		case 5:
			w.n, w.err = len(r.data)+2, "e8"
		case 6:
			w.n = 0
		}
		ws = append(ws, w)
		if rng.Chance(10) {
			break
		}
	}
	return ws
}

func sortedTags(b []byte) string {
	c := append([]byte{}, b...)
	sort.Slice(c, func(i, j int) bool { return c[i] < c[j] })
	return string(c)
}

func runCopier(r *hlib.Run, rs []readRes, ws []writeRes) {
	cl := &closeLog{gate: make(chan struct{})}
	reader := &script{reads: append([]readRes{}, rs...), tag: 'R', cl: cl}
	writer := &script{writes: append([]writeRes{}, ws...), tag: 'W', cl: cl, park: true}
	ch := tun.Pipe(reader, writer) // copier under observation: reader -> writer; the opposite one is parked in writer.Read
	var sent []error
	chanState := "closed"
	guard := time.NewTimer(10 * time.Second)
	forced := false
loop:
	for {
		select {
		case e, ok := <-ch:
			if !ok {
				break loop
			}
			sent = append(sent, e)
		case <-guard.C:
			if forced {
				chanState = "open"
				hangs++
				break loop
			}
			forced = true // the copier never closed both streams: let the parked one go and see what happens
			cl.mu.Lock()
			cl.release()
			cl.mu.Unlock()
			guard.Reset(5 * time.Second)
		}
	}
	guard.Stop()
	e := "n"
	if len(sent) == 1 {
		e = errName(sent[0])
		if sent[0] == nil {
			e = "nil-sent"
		}
	} else if len(sent) > 1 {
		e = "many"
	}
	cl.mu.Lock()
	// the order of the Close calls is not part of the property
	closes, total := sortedTags(cl.log[:cl.mark]), sortedTags(cl.log)
	cl.mu.Unlock()
	if closes == "" {
		closes = "-"
	}
	writer.mu.Lock()
	res := fmt.Sprintf("calls=%s;err=%s;closes=%s;total=%s;chan=%s", callsTok(writer.calls), e, closes, total, chanState)
	writer.mu.Unlock()
	lhs := "copier " + readsTok(rs) + " " + writesTok(ws)
	r.Emit(lhs, res)
	r.Case(lhs)
	if ws == nil {
		r.Count("copier:good-destination")
	} else {
		r.Count("copier:scripted-destination")
	}
	if i := strings.Index(res, ";err="); i >= 0 {
		r.Count("copier:err=" + strings.SplitN(res[i+5:], ";", 2)[0])
	}
}

func runPipe2(r *hlib.Run, ar []readRes, aw []writeRes, br []readRes, bw []writeRes) {
	a := &script{reads: append([]readRes{}, ar...), writes: append([]writeRes{}, aw...)}
	b := &script{reads: append([]readRes{}, br...), writes: append([]writeRes{}, bw...)}
	ch := tun.Pipe(a, b)
	var errs []string
	chanState := "closed"
	timeout := time.After(10 * time.Second)
loop:
	for {
		select {
		case e, ok := <-ch:
			if !ok {
				break loop
			}
			if e == nil {
				errs = append(errs, "nil-sent")
			} else {
				errs = append(errs, errName(e))
			}
		case <-timeout:
			chanState = "open"
			hangs++
			break loop
		}
	}
	sort.Strings(errs)
	a.mu.Lock()
	b.mu.Lock()
	res := fmt.Sprintf("AB=%s;BA=%s;errs=%s;cA=%d;cB=%d;chan=%s;cap=%d", callsTok(b.calls), callsTok(a.calls),
		hlib.Join(errs, ","), a.closes, b.closes, chanState, cap(ch))
	b.mu.Unlock()
	a.mu.Unlock()
	lhs := "pipe2 " + readsTok(ar) + " " + writesTok(aw) + " " + readsTok(br) + " " + writesTok(bw)
	r.Emit(lhs, res)
	r.Case(lhs)
	r.Count("pipe2:nerr=" + strconv.Itoa(len(errs)))
}

// ---- duplex: both directions at once, scheduled event by event ----

type dev struct {
	kind byte // 'r' read chunk, 'd' drain k bytes, 'e' end-of-stream, 'x' read error
	dir  byte // 'A': X -> Y, 'B': Y -> X
	data []byte
	k    int
}

func (e dev) tok() string {
	switch e.kind {
	case 'r':
		return "r" + string(e.dir) + "." + hlib.Hex(e.data)
	case 'e':
		return "e" + string(e.dir)
	}
	return string(e.kind) + string(e.dir) + "." + strconv.Itoa(e.k)
}

func schedTok(evs []dev) string {
	var xs []string
	for _, e := range evs {
		xs = append(xs, e.tok())
	}
	return hlib.Join(xs, "/")
}

func parseSched(t string) []dev {
	var out []dev
	if t == "-" {
		return out
	}
	for _, it := range strings.Split(t, "/") {
		p := strings.SplitN(it, ".", 2)
		if len(p[0]) != 2 {
			continue
		}
		e := dev{kind: p[0][0], dir: p[0][1]}
		if len(p) == 2 {
			if e.kind == 'r' {
				e.data = hlib.UnHex(p[1])
			} else {
				e.k, _ = strconv.Atoi(p[1])
			}
		}
		out = append(out, e)
	}
	return out
}

var errStuck = errors.New("stuck")

type dctl struct {
	mu    sync.Mutex
	cond  *sync.Cond
	evs   []dev
	pos   int
	abort bool
}

func (c *dctl) head() (dev, bool) {
	if c.pos < len(c.evs) {
		return c.evs[c.pos], true
	}
	return dev{}, false
}

// dstream is one of the two piped streams. Its Read answers the events of the direction it is the source of; its
// Write is consumed piece by piece by the drain events of the direction it is the destination of, and the bytes
// of a piece are looked at when the piece is taken (as a synchronous pipe or a flow-controlled stream does).
type dstream struct {
	c        *dctl
	rdir     byte // direction this stream is the source of
	wdir     byte // direction this stream is the destination of
	closes   int
	received []byte
}

func (s *dstream) Read(p []byte) (int, error) {
	c := s.c
	c.mu.Lock()
	defer c.mu.Unlock()
	for {
		if c.abort {
			return 0, errStuck
		}
		if s.closes > 0 {
			return 0, io.ErrClosedPipe
		}
		if h, ok := c.head(); ok && h.dir == s.rdir && h.kind != 'd' {
			c.pos++
			c.cond.Broadcast()
			switch h.kind {
			case 'r':
				return copy(p, h.data), nil
			case 'e':
				return 0, io.EOF
			default:
				return 0, kerr(h.k)
			}
		}
		c.cond.Wait()
	}
}

func (s *dstream) Write(p []byte) (int, error) {
	c := s.c
	c.mu.Lock()
	defer c.mu.Unlock()
	off := 0
	for off < len(p) {
		if c.abort {
			return off, errStuck
		}
		if s.closes > 0 {
			return off, io.ErrClosedPipe
		}
		if h, ok := c.head(); ok && h.dir == s.wdir && h.kind == 'd' {
			k := h.k
			if k > len(p)-off {
				k = len(p) - off
			}
			s.received = append(s.received, p[off:off+k]...) // the consumer takes the piece now
			off += k
			c.pos++
			c.cond.Broadcast()
			continue
		}
		c.cond.Wait()
	}
	return off, nil
}

func (s *dstream) Close() error {
	s.c.mu.Lock()
	s.closes++
	s.c.cond.Broadcast()
	s.c.mu.Unlock()
	return nil
}

// genSched builds a schedule two copiers can follow: a direction reads only when it has no write in flight, drains
// take at most what is left of the write in flight, and the side that ends has nothing in flight.
func genSched(r *hlib.Run, rng *hlib.Rng) []dev {
	rem := map[byte]int{'A': 0, 'B': 0}
	var evs []dev
	n := 2 + rng.Intn(14)
	overlap := false
	for i := 0; i < n; i++ {
		d := hlib.Pick(rng, []byte{'A', 'B'})
		if rem[d] == 0 {
			sz := 1 + rng.Intn(8)
			if rng.Chance(8) {
				sz = 0 // Read returning (0, nil)
			} else if rng.Chance(5) {
				sz = 100 + rng.Intn(400)
			}
			evs = append(evs, dev{kind: 'r', dir: d, data: rng.Bytes(sz)})
			rem[d] = sz
			if rem['A'+'B'-d] > 0 && sz > 0 {
				overlap = true
			}
		} else {
			k := 1 + rng.Intn(rem[d])
			if rng.Chance(30) {
				k = rem[d]
			}
			evs = append(evs, dev{kind: 'd', dir: d, k: k})
			rem[d] -= k
		}
	}
	d := hlib.Pick(rng, []byte{'A', 'B'})
	for rem[d] > 0 { // the ending side's last write completes first
		k := 1 + rng.Intn(rem[d])
		evs = append(evs, dev{kind: 'd', dir: d, k: k})
		rem[d] -= k
	}
	if rng.Chance(70) {
		evs = append(evs, dev{kind: 'e', dir: d})
		r.Count("duplex:end=eof-" + string(d))
	} else {
		evs = append(evs, dev{kind: 'x', dir: d, k: 1 + rng.Intn(3)})
		r.Count("duplex:end=error-" + string(d))
	}
	if overlap {
		r.Count("duplex:read-while-opposite-write-in-flight")
	} else {
		r.Count("duplex:no-overlap")
	}
	if rem['A'+'B'-d] > 0 {
		r.Count("duplex:other-side-cut-mid-write")
	}
	return evs
}

func runDuplex(r *hlib.Run, evs []dev) {
	c := &dctl{evs: evs}
	c.cond = sync.NewCond(&c.mu)
	x := &dstream{c: c, rdir: 'A', wdir: 'B'}
	y := &dstream{c: c, rdir: 'B', wdir: 'A'}
	ch := tun.Pipe(x, y)
	var errs []string
	chanState, stuck := "closed", 0
	guard := time.NewTimer(10 * time.Second)
loop:
	for {
		select {
		case e, ok := <-ch:
			if !ok {
				break loop
			}
			if e == nil {
				errs = append(errs, "nil-sent")
			} else if e == errStuck {
				errs = append(errs, "stuck")
			} else {
				errs = append(errs, errName(e))
			}
		case <-guard.C:
			if stuck == 1 {
				chanState = "open"
				break loop
			}
			stuck = 1 // nobody moves: fail every pending call and see whether Pipe at least completes
			hangs++
			c.mu.Lock()
			c.abort = true
			c.cond.Broadcast()
			c.mu.Unlock()
			guard.Reset(5 * time.Second)
		}
	}
	guard.Stop()
	sort.Strings(errs)
	c.mu.Lock()
	res := fmt.Sprintf("AB=%s;BA=%s;errs=%s;cA=%d;cB=%d;chan=%s;cap=%d;stuck=%d", hlib.Hex(y.received), hlib.Hex(x.received),
		hlib.Join(errs, ","), x.closes, y.closes, chanState, cap(ch), stuck)
	c.mu.Unlock()
	lhs := "duplex " + schedTok(evs)
	r.Emit(lhs, res)
	r.Case(lhs)
}

type countConn struct {
	net.Conn
	closes atomic.Int32
}

func (c *countConn) Close() error { c.closes.Add(1); return c.Conn.Close() }

// live: X = (x, xc), Y = (y, yc); Pipe(x, y); clients use xc and yc.
func runLive(r *hlib.Run, rng *hlib.Rng) {
	capX, capY := 1+rng.Intn(64), 1+rng.Intn(64)
	x0, xc := bufconn.BufferedPipe(capX)
	y0, yc := bufconn.BufferedPipe(capY)
	x, y := &countConn{Conn: x0}, &countConn{Conn: y0}
	pa, pb := rng.Bytes(rng.Intn(300)), rng.Bytes(rng.Intn(300))
	tail := rng.Bytes(rng.Intn(100))
	who := hlib.Pick(rng, []string{"x", "y"})
	ch := tun.Pipe(x, y)

	gotAB, gotBA := make([]byte, len(pa)), make([]byte, len(pb))
	var wg sync.WaitGroup
	wg.Add(4)
	wr := func(c net.Conn, p []byte, seed uint64) {
		defer wg.Done()
		g := hlib.NewRng(seed)
		for len(p) > 0 {
			n := 1 + g.Intn(40)
			if n > len(p) {
				n = len(p)
			}
			if _, err := c.Write(p[:n]); err != nil {
				return
			}
			p = p[n:]
		}
	}
	rd := func(c net.Conn, buf []byte) {
		defer wg.Done()
		io.ReadFull(c, buf)
	}
	go wr(xc, pa, rng.U64())
	go wr(yc, pb, rng.U64())
	go rd(yc, gotAB)
	go rd(xc, gotBA)
	done := make(chan struct{})
	go func() { wg.Wait(); close(done) }()
	hung := false
	select {
	case <-done:
	case <-time.After(10 * time.Second):
		hung = true
		hangs++
	}
	closer, other := xc, yc
	if who == "y" {
		closer, other = yc, xc
	}
	var gotTail []byte
	end := "hang"
	nerr := 0
	chanState := "open"
	if !hung {
		fin := make(chan struct{})
		go func() {
			closer.Write(tail)
			closer.Close()
		}()
		go func() {
			b, err := io.ReadAll(other) // until EOF
			gotTail = b
			if err == nil {
				end = "eof"
			} else {
				end = errName(err)
			}
			close(fin)
		}()
		select {
		case <-fin:
		case <-time.After(10 * time.Second):
		}
		timeout := time.After(10 * time.Second)
	loop:
		for {
			select {
			case e, ok := <-ch:
				if !ok {
					chanState = "closed"
					break loop
				}
				if e != nil {
					nerr++
				} else {
					nerr += 100
				}
			case <-timeout:
				hangs++
				break loop
			}
		}
	}
	xc.Close()
	yc.Close()
	res := fmt.Sprintf("AB=%s;BA=%s;tail=%s;end=%s;cX=%d;cY=%d;nerr=%d;chan=%s", hlib.Hex(gotAB), hlib.Hex(gotBA),
		hlib.Hex(gotTail), end, x.closes.Load(), y.closes.Load(), nerr, chanState)
	lhs := "live " + who + " " + hlib.Hex(pa) + " " + hlib.Hex(pb) + " " + hlib.Hex(tail)
	r.Emit(lhs, res)
	r.Case(lhs)
	r.Count("live:closer=" + who)
}

func main() {
	r := hlib.Start()
	r.Rule = "copier = (reader script, writer script) through one copier of the real Pipe, the opposite copier parked; pipe2 = real Pipe over two scripted streams; duplex = real Pipe with both directions busy at once, scheduled event by event, writes consumed piece by piece; live = real Pipe over two bufconn pairs, random payloads both ways, either side closing (after a final tail write); non-trivial = distinct scripts/payloads"
	rng := hlib.NewRng(r.Seed)
	if r.Replay != "" {
		for _, t := range r.ReplayLines() {
			switch t[0] {
			case "copier":
				runCopier(r, parseReads(t[1]), parseWrites(t[2]))
			case "pipe2":
				runPipe2(r, parseReads(t[1]), parseWrites(t[2]), parseReads(t[3]), parseWrites(t[4]))
			case "duplex":
				runDuplex(r, parseSched(t[1]))
			case "live":
				runLive(r, rng)
			}
		}
		r.Finish()
		return
	}
	nc, np, nd, nl := 20000, 4000, 4000, 150
	if r.Thorough() {
		nc, np, nd, nl = 300000, 60000, 60000, 1500
	}
	for i := 0; i < nc; i++ {
		rs := genReads(rng)
		runCopier(r, rs, genWrites(rng, rs))
	}
	for i := 0; i < np && hangs < 2; i++ {
		ar, br := genReads(rng), genReads(rng)
		runPipe2(r, ar, genWrites(rng, br), br, genWrites(rng, ar))
	}
	for i := 0; i < nd && hangs < 2; i++ {
		runDuplex(r, genSched(r, rng))
	}
	for i := 0; i < nl && hangs < 2; i++ {
		runLive(r, rng)
	}
	r.Finish()
}
