import SpecterModel.C22.Drv

def main : IO Unit := Specter.C22.main
