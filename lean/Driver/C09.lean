import SpecterModel.C09.Drv

def main : IO Unit := Specter.C09.main
