import SpecterModel.C01.Sim
import SpecterModel.C01.Props
/-! C01 driver: ring model + the proved oracle (`ownerOf`, gated by `stableB`) for lookups. -/
namespace Specter.C01
open Specter.Util Specter.Ring

/-- SPEC: on a ring that passes the executable stability test, a lookup from a member must return
the member at minimal clockwise distance from the key (`lookup_eq_oracle`). Additionally require that
no other node is alive-but-not-active (a quiescent ring), so the oracle is the sorted-membership owner. -/
def spec (net _net' : Net) (toks : List String) (ires : String) : Option String :=
  match toks with
  | ["lookup", n, k] =>
    match n.toNat?, k.toNat? with
    | some n, some k =>
      if stableB net && memB net n && decide (k < M) then
        match ownerOf net k with
        | some o => if ires == s!"found:{o}" then none else some s!"lookup on stable ring: owner of {k} is {o}"
        | none => none
      else none
    | _, _ => none
  | ["lookupq", n, k] =>
    -- issued only after the repair tasks reached a fixpoint on a ring without failed nodes ("the ring has
    -- stabilized" in the operational sense): the answer must be the first live member at or after the key,
    -- whether or not the pointers pass the executable stability test
    match n.toNat?, k.toNat? with
    | some n, some k =>
      if memB net n && decide (k < M) then
        match ownerOf net k with
        | some o => if ires == s!"found:{o}" then none
                    else some s!"lookup after the repair tasks reached a fixpoint: owner of {k} is {o}"
        | none => none
      else none
    | _, _ => none
  | _ => none

def main : IO Unit := runLoop ([] : Net) (ringStep spec)

end Specter.C01
