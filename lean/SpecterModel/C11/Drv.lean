import SpecterModel.Util
import SpecterModel.C11.Gen
import SpecterModel.C11.Spec
/-! C11 line-protocol driver: model = generated defs; verdict = executable spec. -/
namespace Specter.C11
open Specter.Util

def step (_ : Unit) (toks : List String) (rhs : String) : Unit × Verdict :=
  match toks with
  | ["between", l, t, h, i] =>
    match l.toNat?, t.toNat?, h.toNat?, parseBool i, parseBool rhs with
    | some l, some t, some h, some i, some r =>
      let m := Gen.C11.Between (BitVec.ofNat 64 l) (BitVec.ofNat 64 t) (BitVec.ofNat 64 h) i
      -- spec verdict only inside the identifier space (the property's quantifier)
      let inRing := l < M ∧ t < M ∧ h < M
      let want : Bool := if i then decide (inClosed l t h) else decide (inOpen l t h)
      if inRing ∧ r ≠ want then ((), .spec s!"between spec={want}")
      else if m ≠ r then ((), .diff (boolStr m))
      else ((), .ok)
    | _, _, _, _, _ => ((), .bad "between args")
  | ["modsum", x, y] =>
    match x.toNat?, y.toNat?, rhs.toNat? with
    | some x, some y, some r =>
      let m := (Gen.C11.ModuloSum (BitVec.ofNat 64 x) (BitVec.ofNat 64 y)).toNat
      if r ≠ (x + y) % 2^48 then ((), .spec s!"modsum spec={(x + y) % 2^48}")
      else if m ≠ r then ((), .diff (toString m))
      else ((), .ok)
    | _, _, _ => ((), .bad "modsum args")
  | ["hash", _bytes, digest] =>
    match digest.toNat?, rhs.toNat? with
    | some d, some r =>
      let m := (Gen.C11.Hash (BitVec.ofNat 64 d)).toNat
      if r ≠ d % 2^48 ∨ ¬ r < M then ((), .spec s!"hash spec={d % 2^48}")
      else if m ≠ r then ((), .diff (toString m))
      else ((), .ok)
    | _, _ => ((), .bad "hash args")
  | _ => ((), .bad "unknown op")

def main : IO Unit := runLoop () step

end Specter.C11
