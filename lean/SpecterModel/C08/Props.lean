import SpecterModel.C09.Props
/-!
# C08 — A join request is answered with success or a retryable error in every node state

`requestToJoin` / `handOff` are the model of `LocalNode.RequestToJoin` (routing + local hand-off),
tied to the code by the differential ring harness. Theorems hold for EVERY net (any pointer state
of any node, incl. `pred = none` after failure detection and `pred = self`), every contacted node and
every joiner id.
-/
namespace Specter.C08
open Specter.Ring

def errOf {α : Type} : Except Err α → Option Err
  | .ok _ => none
  | .error e => some e

/-- lookup errors: the request never reached a node responsible for the joiner's id -/
def isLookupError : Err → Bool
  | .notStarted | .gone | .noSuccessor | .unreachable | .fuel => true
  | _ => false

/-- **C08 (local hand-off).** Whatever the state and pointers of the responsible node, the hand-off
answers with success or a retryable refusal — in particular with `pred = none` (the state left by
`checkPredecessor`) and `pred = self`. -/
theorem handOff_total (net : Net) (s j : Nat) (nd : Node) (hg : net.get s = some nd) :
    ∀ e, errOf (handOff net s j).2 = some e → e.retryable = true := by
  intro e h
  rcases handOff_cases net s j with ⟨hn, _⟩ | ⟨_, _, _, hh⟩ | ⟨_, _, _, _, hh⟩ | ⟨_, _, _, _, _, _, hh⟩ |
      ⟨_, _, _, _, _, _, _, hh⟩ | ⟨_, _, _, _, _, _, _, _, hh⟩
  · rw [hg] at hn; simp at hn
  all_goals (rw [hh] at h; simp [errOf] at h; try (subst h; rfl))

/-- a refused hand-off changes nothing -/
theorem handOff_refusal_unchanged (net : Net) (s j : Nat) (e : Err)
    (h : errOf (handOff net s j).2 = some e) : (handOff net s j).1 = net := by
  rcases handOff_cases net s j with ⟨_, hh⟩ | ⟨_, _, _, hh⟩ | ⟨_, _, _, _, hh⟩ | ⟨_, _, _, _, _, _, hh⟩ |
      ⟨_, _, _, _, _, _, _, hh⟩ | ⟨_, _, _, _, _, _, _, _, hh⟩
  all_goals (rw [hh] at h ⊢; try rfl)
  simp [errOf] at h

theorem findSucc_err_isLookupError (net : Net) : ∀ (fuel n key : Nat) (e : Err),
    findSucc net fuel n key = .err e → isLookupError e = true := by
  intro fuel
  induction fuel with
  | zero => intro n key e h; simp [findSucc] at h; subst h; rfl
  | succ f ih =>
    intro n key e h
    match stepCase net n key with
    | .none hg => rw [findSucc_none net _ n key hg] at h; injection h with h; subst h; rfl
    | .dead nd e' hg hc =>
      rw [findSucc_dead net _ n key nd e' hg hc] at h; injection h with h; subst h
      unfold checkNodeState at hc
      cases hcr : nd.crashed <;> cases hst : nd.state <;> simp [hcr, hst] at hc <;> (subst hc; rfl)
    | .pred nd hg hc hp => rw [findSucc_pred net _ n key nd hg hc hp] at h; simp at h
    | .nosucc nd hg hc hp hs => rw [findSucc_nosucc net _ n key nd hg hc hp hs] at h; injection h with h; subst h; rfl
    | .succ nd s hg hc hp hs hb => rw [findSucc_succ_found net _ n key s nd hg hc hp hs hb] at h; simp at h
    | .hop nd s hg hc hp hs hb => rw [findSucc_hop net _ n key s nd hg hc hp hs hb] at h; exact ih _ _ _ h

/-- **C08 (whole request).** Every answer of `RequestToJoin`, from any contacted node in any net, is a
success, a retryable refusal, the duplicate-id refusal (the joiner's id is already taken: not a
valid joiner) or a lookup error (the request could not be routed) — never a panic and never
another non-retryable error. -/
theorem reqJoin_classified (net : Net) : ∀ (fuel s j : Nat) (e : Err),
    errOf (requestToJoin net fuel s j).2 = some e →
      e.retryable = true ∨ e = .duplicateJoiner ∨ isLookupError e = true := by
  intro fuel
  induction fuel with
  | zero => intro s j e h; simp [requestToJoin, errOf] at h; subst h; simp [isLookupError]
  | succ f ih =>
    intro s j e h
    unfold requestToJoin at h
    cases hg : net.get s with
    | none => simp [hg, errOf] at h; subst h; simp [isLookupError]
    | some nd0 =>
      simp only [hg] at h
      split at h
      · simp [errOf] at h; subst h; simp [isLookupError]
      · cases hf : findSucc net FUEL s j with
        | err e' =>
          simp [hf, errOf] at h; subst h
          exact Or.inr (Or.inr (findSucc_err_isLookupError net _ _ _ _ hf))
        | found succ =>
          simp only [hf] at h
          split at h
          · simp [errOf] at h; subst h; simp
          · split at h
            · exact ih _ _ _ h
            · exact Or.inl (handOff_total net s j nd0 hg e h)

/-- **C08 (under concurrent pointer maintenance).** The same classification holds when ANY transformation
`g` of the net (another goroutine's `checkPredecessor`, `stabilize`, `Notify`, a crash …) takes effect
between the routing decision and the membership lock: the hand-off reads the pointers under the lock, so
whatever `g` leaves there — `pred = none` included — is answered, never dereferenced. -/
theorem reqJoinWith_classified (g : Net → Net) (net : Net) : ∀ (fuel s j : Nat) (e : Err),
    errOf (requestToJoinWith g net fuel s j).2 = some e →
      e.retryable = true ∨ e = .duplicateJoiner ∨ isLookupError e = true := by
  intro fuel
  induction fuel with
  | zero => intro s j e h; simp [requestToJoinWith, errOf] at h; subst h; simp [isLookupError]
  | succ f ih =>
    intro s j e h
    unfold requestToJoinWith at h
    cases hg : net.get s with
    | none => simp [hg, errOf] at h; subst h; simp [isLookupError]
    | some nd0 =>
      simp only [hg] at h
      split at h
      · simp [errOf] at h; subst h; simp [isLookupError]
      · cases hf : findSucc net FUEL s j with
        | err e' =>
          simp [hf, errOf] at h; subst h
          exact Or.inr (Or.inr (findSucc_err_isLookupError net _ _ _ _ hf))
        | found succ =>
          simp only [hf] at h
          split at h
          · simp [errOf] at h; subst h; simp
          · split at h
            · exact ih _ _ _ h
            · cases hg' : (g net).get s with
              | none =>
                have hh : handOff (g net) s j = (g net, .error .unreachable) := by
                  unfold handOff; rw [hg']
                rw [hh] at h; simp [errOf] at h; subst h; simp [isLookupError]
              | some nd' => exact Or.inl (handOff_total (g net) s j nd' hg' e h)

/-- with `g = id` this is the plain request -/
theorem requestToJoinWith_id (net : Net) : ∀ (fuel s j : Nat),
    requestToJoinWith id net fuel s j = requestToJoin net fuel s j := by
  intro fuel
  induction fuel with
  | zero => intro s j; rfl
  | succ f ih =>
    intro s j
    unfold requestToJoinWith requestToJoin
    cases net.get s with
    | none => rfl
    | some nd0 =>
      simp only
      split
      · rfl
      · cases findSucc net FUEL s j with
        | err e => rfl
        | found succ =>
          simp only
          split
          · rfl
          · split
            · exact ih _ _
            · rfl

/-- a refused join request changes nothing (no state, pointer or key moves anywhere) -/
theorem refusal_changes_nothing (net : Net) : ∀ (fuel s j : Nat) (e : Err),
    errOf (requestToJoin net fuel s j).2 = some e → (requestToJoin net fuel s j).1 = net := by
  intro fuel
  induction fuel with
  | zero => intro s j e _; rfl
  | succ f ih =>
    intro s j e h
    unfold requestToJoin at h ⊢
    cases hg : net.get s with
    | none => rfl
    | some nd0 =>
      simp only [hg] at h ⊢
      split
      · rfl
      · rename_i hcr
        simp only [hcr] at h
        cases hf : findSucc net FUEL s j with
        | err e' => rfl
        | found succ =>
          simp only [hf] at h ⊢
          split
          · rfl
          · rename_i h1
            simp only [h1] at h
            split
            · rename_i h2; simp only [h2] at h; exact ih _ _ _ h
            · rename_i h2; simp only [h2] at h; exact handOff_refusal_unchanged net s j e h

/-- The pre-repair hand-off dereferenced the predecessor without a nil check. -/
def handOffOldOutcome (nd : Node) (s j : Nat) : Option Err :=
  if nd.state != .active then some .joinInvalidState else
  match nd.pred with
  | none => some .panic                          -- `prevPredecessor.ID()` on a nil interface
  | some prev => if !between prev j s false then some .joinInvalidSuccessor else none

/-- Ring 100 → 200 → 300 → 400; node 300 died; 400 ran `checkPredecessor` (pred := nil); 200 has
already repaired its successor list to 400 but its `Notify(400)` has not been delivered yet. -/
def lostNotifyNet : Net :=
  let dead : Node := { state := .active, pred := some 200, succs := [400, 100], crashed := true }
  let n0 : Net :=
    [(100, { state := .active, pred := some 400, succs := [200, 300, 400], fingers := List.replicate 48 (some 200) }),
     (200, { state := .active, pred := some 100, succs := [300, 400, 100], fingers := List.replicate 48 (some 400) }),
     (300, dead),
     (400, { state := .active, pred := some 300, succs := [100, 200, 300], fingers := List.replicate 48 (some 100) })]
  stabilizeNoNotify (checkPredecessor n0 400) 200

example : (lostNotifyNet.get 400).map (·.pred) = some none := by decide
example : (lostNotifyNet.get 200).map (·.succs) = some [400, 100, 200] := by decide
/-- the join request for id 350 issued at node 100 is routed to node 400 … -/
example : findSucc lostNotifyNet FUEL 100 350 = .found 400 := by decide
/-- … where the old code panicked … -/
theorem old_code_panics :
    (lostNotifyNet.get 400).bind (fun nd => handOffOldOutcome nd 400 350) = some .panic := by decide
/-- … and the repaired code answers with a retryable refusal and changes nothing. -/
example : errOf (requestToJoin lostNotifyNet 4 100 350).2 = some .joinInvalidState := by decide

end Specter.C08
