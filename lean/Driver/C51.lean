import SpecterModel.C51.Drv

def main : IO Unit := Specter.C51.main
