import SpecterModel.Util
import SpecterModel.C07.Retry
/-!
C07 driver. Lines:

* `fault <scenario> <rpc> <mode> <reached> n=<k> => stuck=<ids|-> lost=<keys|-> subject=<State>`
  (one injected transport fault), and
* `fault <leave-hi@join|leave-lo@join> RequestToLeave refused <reached> n=<k> extra=<e> j=<pos>
     => stuck=… lost=… subject=<State> handoff=<asked>/<successor at that call>|-`
  (the leave is refused by a successor that holds the membership lock for a join in flight behind the
  leaver; the join concludes before the retry).

SPEC (the property): if the failing call was reached, then after the retries ended and the ring settled
no remaining node may be stuck and no acknowledged key may be unreachable. DIFF: the outcome class differs
from the proved table `expectedSafe`, or the attempt that went through addressed a node that was not the
leaver's successor at that moment (the model's retry loop reads the successor anew in every attempt:
`leaveRetry_ok_is_fresh_attempt`, `leaveRetry_hands_to_current_successor`).
-/
namespace Specter.C07
open Specter.Util

def field (rhs name : String) : String :=
  match (rhs.splitOn " ").find? (·.startsWith (name ++ "=")) with
  | some t => (t.drop (name.length + 1)).toString
  | none => "?"

/-- the property oracle, shared by both line shapes -/
def judge (sc rpc mode reached rhs : String) (handoff : Option String) : Verdict :=
  let stuck := field rhs "stuck"
  let lost := field rhs "lost"
  if reached != "true" then .ok            -- the call was never made / never failed in this run: outside the quantifier
  else if stuck != "-" || lost != "-" then
    let how := match handoff with
      | some h => if h == "-" || h == "?" then "" else
          match h.splitOn "/" with
          | [asked, cur] => s!"; the attempt that went through asked {asked} while the leaver's successor was {cur}"
          | _ => ""
      | none => ""
    .spec s!"after {sc} with {rpc} {mode}: stuck nodes [{stuck}], unreachable acknowledged keys [{lost}]{how}"
  else if !expectedSafe sc rpc mode then
    .diff s!"model table says this tuple ends with a permanently locked node"
  else match handoff with
    | some h =>
      if handoffConsistent h then .ok
      else .diff s!"model: every attempt of the retry loop addresses the leaver's current successor; observed {h}"
    | none => .ok

def step (_ : Unit) (toks : List String) (rhs : String) : Unit × Verdict :=
  match toks with
  | ["reset"] => ((), .ok)
  | ["fault", sc, rpc, mode, reached, _n] => ((), judge sc rpc mode reached rhs none)
  | ["fault", sc, rpc, mode, reached, _n, _extra, _j] =>
    if windowScenario sc then ((), judge sc rpc mode reached rhs (some (field rhs "handoff")))
    else ((), .bad "unknown scenario")
  | _ => ((), .bad "unknown op")

def main : IO Unit := runLoop () step

end Specter.C07
