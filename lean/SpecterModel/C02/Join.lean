import SpecterModel.C02.Props
import SpecterModel.C06.Props
/-!
# C02 / C03 — a completed graceful `Join` maps a stable quiescent ring to a stable quiescent ring

`Stable ∧ Quiescent` (C01 / C03) is not only a fixpoint of the repair tasks (`C02/Props.lean`): it is an
INDUCTIVE invariant of sequential graceful joins. Main theorem: `join_preserves_stable`; corollary over
join sequences: `joins_preserve_stable`; progress (the join does succeed when lookups complete):
`join_succeeds`. Not covered here: graceful leaves, interleaved (concurrent) membership changes, crashes.

The proof follows the code of `Join` step by step (`joinBegin`, `joinTasks`, `joinAdvise`, `joinRelease`):

1. `requestToJoin_ok`: a successful `RequestToJoin` ends in a successful local hand-off at some live,
   not crashed node `s`; the hand-off itself checks `between prev j s false` with `prev = s.pred`, and on a
   stable ring this makes `s` the owner of `j` (`handOff_node_is_owner`) — whatever the route was.
2. `shape_begin`: the net after `joinBegin` (`Shape … .joining .transferring s`): `s.pred = j`,
   `j.pred = prev`, `j.succs.head? = s`, everything else as before (stores aside).
3. `stabilize_confirm` (at `j`), `fixFinger_spec` (fingers only become members), `checkPredecessor_noop`,
   `stabilize_adopt` (at `prev`: adopts `j` as first successor), state changes: `shape_*`.
4. `shape_final`: ring arithmetic — inserting `j` between `prev` and `s` keeps every pointer exact.

Nets may contain duplicate keys and departed / crashed / never-started nodes; every statement is about
`Net.get`, so none of that matters. Successor-list TAILS are unconstrained (as in `Stable`).
-/
namespace Specter.C02
open Specter.Ring Specter.C01 Specter.C03 Specter.C09 Specter.C08

/-! ### generic step lemmas (any net) -/

/-- `Notify(n)` at a node whose predecessor already is `n` changes nothing -/
theorem notify_noop (net : Net) (s n : Nat) (nds : Node) (hg : net.get s = some nds)
    (hp : nds.pred = some n) : notify net s n = net := by
  unfold notify
  simp only [hg]
  split
  · rfl
  · simp [hp]

/-- `stabilize` at `n` when the first successor `s` is live and already names `n` as predecessor: only the
successor list of `n` is refreshed, its head stays `s`. -/
theorem stabilize_confirm (net : Net) (n s : Nat) (nd nds : Node) (hg : net.get n = some nd)
    (hh : nd.succs.head? = some s) (hsn : s ≠ n) (hgs : net.get s = some nds)
    (hcs : checkNodeState nds false = none) (hps : nds.pred = some n) :
    ∃ l, l.head? = some s ∧ stabilize net n = net.upd n (fun nd => { nd with succs := l }) := by
  cases hl : nd.succs with
  | nil => rw [hl] at hh; simp at hh
  | cons s' rest =>
    rw [hl] at hh; simp at hh; subst hh
    have hgps : getPredSuccs net s' = some (some n, nds.succs) := by
      unfold getPredSuccs; simp [hgs, hcs, hps]
    have hbn : between n n s' false = false := by unfold between; simp
    have hlist : stabilizeList net n (s' :: rest) = some (makeSuccList s' nds.succs succEntries) := by
      rw [stabilizeList]; simp [hgps, hbn]
    have hhead : (cutAfterSelf n (makeSuccList s' nds.succs succEntries)).head? = some s' :=
      cutAfterSelf_head n _ s' (makeSuccList_head s' nds.succs succEntries)
    refine ⟨_, hhead, ?_⟩
    unfold stabilize
    simp only [hg, hl, hlist, Option.map_some, hhead]
    rw [notify_noop _ s' n nds (by rw [get_upd_other _ _ _ _ hsn]; exact hgs) hps]
    simp

/-- `stabilize` at `n` when the first successor `s` reports a live predecessor `x` strictly inside
`(n, s)` that already names `n` as its predecessor: `n` adopts `x` as first successor, nothing else changes. -/
theorem stabilize_adopt (net : Net) (n s x : Nat) (nd nds ndx : Node) (hg : net.get n = some nd)
    (hh : nd.succs.head? = some s) (hgs : net.get s = some nds)
    (hcs : checkNodeState nds false = none) (hps : nds.pred = some x)
    (hb : between n x s false = true) (hxn : x ≠ n) (hgx : net.get x = some ndx)
    (hcx : checkNodeState ndx false = none) (hpx : ndx.pred = some n) :
    ∃ l, l.head? = some x ∧ stabilize net n = net.upd n (fun nd => { nd with succs := l }) := by
  cases hl : nd.succs with
  | nil => rw [hl] at hh; simp at hh
  | cons s' rest =>
    rw [hl] at hh; simp at hh; subst hh
    have hgps : getPredSuccs net s' = some (some x, nds.succs) := by
      unfold getPredSuccs; simp [hgs, hcs, hps]
    have hgpx : getPredSuccs net x = some (some n, ndx.succs) := by
      unfold getPredSuccs; simp [hgx, hcx, hpx]
    have hlist : stabilizeList net n (s' :: rest) = some (makeSuccList x ndx.succs succEntries) := by
      rw [stabilizeList]; simp [hgps, hb, hgpx]
    have hhead : (cutAfterSelf n (makeSuccList x ndx.succs succEntries)).head? = some x :=
      cutAfterSelf_head n _ x (makeSuccList_head x ndx.succs succEntries)
    refine ⟨_, hhead, ?_⟩
    unfold stabilize
    simp only [hg, hl, hlist, Option.map_some, hhead]
    rw [notify_noop _ x n ndx (by rw [get_upd_other _ _ _ _ hxn]; exact hgx) hpx]
    simp

/-- the predecessor check changes nothing when the predecessor answers pings -/
theorem checkPredecessor_noop (net : Net) (n p : Nat) (nd : Node) (hg : net.get n = some nd)
    (hp : nd.pred = some p) (hping : ping net p = true) : checkPredecessor net n = net := by
  unfold checkPredecessor
  simp only [hg, hp, hping]
  simp

/-! ### lookups stay inside a pointer-closed set; finger repair only writes such nodes -/

/-- `P` is closed under the pointers a lookup follows (first successor and fingers of live nodes) -/
def ClosedP (net : Net) (P : Nat → Prop) : Prop :=
  ∀ n, P n → ∀ nd, net.get n = some nd → checkNodeState nd false = none →
    (∀ s, nd.succs.head? = some s → P s) ∧ (∀ f, some f ∈ nd.fingers → P f)

theorem findSucc_closed (net : Net) (P : Nat → Prop) (hcl : ClosedP net P) :
    ∀ (fuel n key o : Nat), P n → findSucc net fuel n key = .found o → P o := by
  intro fuel
  induction fuel with
  | zero => intro n key o _ h; simp [findSucc] at h
  | succ f ih =>
    intro n key o hn h
    match stepCase net n key with
    | .none hg => rw [findSucc_none net _ n key hg] at h; simp at h
    | .dead nd e hg hc => rw [findSucc_dead net _ n key nd e hg hc] at h; simp at h
    | .pred nd hg hc hp => rw [findSucc_pred net _ n key nd hg hc hp] at h; injection h with h; subst h; exact hn
    | .nosucc nd hg hc hp hs => rw [findSucc_nosucc net _ n key nd hg hc hp hs] at h; simp at h
    | .succ nd s hg hc hp hs hb =>
      rw [findSucc_succ_found net _ n key s nd hg hc hp hs hb] at h; injection h with h; subst h
      exact (hcl n hn nd hg hc).1 _ hs
    | .hop nd s hg hc hp hs hb =>
      rw [findSucc_hop net _ n key s nd hg hc hp hs hb] at h
      refine ih _ key o ?_ h
      rcases hop_cases n key s nd.fingers with e | ⟨hm, _⟩
      · rw [e]; exact (hcl n hn nd hg hc).1 _ hs
      · exact (hcl n hn nd hg hc).2 _ hm

/-- "`net'` is `net` except that finger entries of `n` may have been overwritten by `P`-nodes" -/
structure FingersOnly (net net' : Net) (n : Nat) (P : Nat → Prop) : Prop where
  other : ∀ m, m ≠ n → net'.get m = net.get m
  absent : net.get n = none → net'.get n = none
  self : ∀ x, net.get n = some x → ∃ fs, net'.get n = some { x with fingers := fs } ∧
      ∀ f, some f ∈ fs → some f ∈ x.fingers ∨ P f

theorem FingersOnly.refl (net : Net) (n : Nat) (P : Nat → Prop) : FingersOnly net net n P :=
  ⟨fun _ _ => rfl, fun h => h, fun x hx => ⟨x.fingers, hx, fun _ hf => Or.inl hf⟩⟩

theorem FingersOnly.closed {net net' : Net} {n : Nat} {P : Nat → Prop} (h : FingersOnly net net' n P)
    (hcl : ClosedP net P) : ClosedP net' P := by
  intro m hm nd hg hc
  by_cases e : m = n
  · subst e
    cases hgn : net.get m with
    | none => rw [h.absent hgn] at hg; simp at hg
    | some x =>
      obtain ⟨fs, hfs, hP⟩ := h.self x hgn
      rw [hfs] at hg; injection hg with hg; subst hg
      have := hcl m hm x hgn hc
      refine ⟨this.1, fun f hf => ?_⟩
      rcases hP f hf with h1 | h1
      · exact this.2 f h1
      · exact h1
  · rw [h.other m e] at hg
    exact hcl m hm nd hg hc

theorem fixK_fingersOnly (net0 net : Net) (n k : Nat) (P : Nat → Prop) (h : FingersOnly net0 net n P)
    (hcl : ClosedP net0 P) (hn : P n) : FingersOnly net0 (fixK net n k) n P := by
  unfold fixK
  cases hf : findSucc net FUEL n (moduloSum n (2^(k-1))) with
  | err e => exact h
  | found f =>
    have hPf : P f := findSucc_closed net P (h.closed hcl) _ _ _ _ hn hf
    simp only
    refine ⟨fun m hm => ?_, fun hg => ?_, fun x hx => ?_⟩
    · rw [get_upd_other _ _ _ _ hm]; exact h.other m hm
    · rw [get_upd_same, h.absent hg]; rfl
    · obtain ⟨fs, hfs, hP⟩ := h.self x hx
      refine ⟨fs.set (k-1) (some f), by rw [get_upd_same, hfs]; rfl, fun g hg => ?_⟩
      rcases List.mem_or_eq_of_mem_set hg with h1 | h1
      · exact hP g h1
      · injection h1 with h1; subst h1; exact Or.inr hPf

/-- **`fixFinger` only writes fingers, and only nodes of a pointer-closed set.** -/
theorem fixFinger_spec (net : Net) (n : Nat) (P : Nat → Prop) (hcl : ClosedP net P) (hn : P n) :
    FingersOnly net (fixFinger net n) n P := by
  unfold fixFinger
  have gen : ∀ (l : List Nat) (net' : Net), FingersOnly net net' n P →
      FingersOnly net (l.foldl (fun net i => fixK net n (i+1)) net') n P := by
    intro l
    induction l with
    | nil => intro net' h; exact h
    | cons i is ih =>
      intro net' h
      simp only [List.foldl_cons]
      exact ih _ (fixK_fingersOnly net net' n (i+1) P h hcl hn)
  exact gen _ net (FingersOnly.refl net n P)

/-! ### the first half of `Join`: routing, hand-off, pointer assignment -/

/-- a successful `RequestToJoin` ends in a successful hand-off at a present, not crashed node -/
theorem requestToJoin_ok (net : Net) : ∀ (fuel p j : Nat) (net' : Net) (v : Nat × List Nat),
    requestToJoin net fuel p j = (net', .ok v) →
    ∃ s nd0, net.get s = some nd0 ∧ nd0.crashed = false ∧ handOff net s j = (net', .ok v) := by
  intro fuel
  induction fuel with
  | zero => intro p j net' v h; simp [requestToJoin] at h
  | succ f ih =>
    intro p j net' v h
    unfold requestToJoin at h
    cases hg : net.get p with
    | none => simp [hg] at h
    | some nd0 =>
      simp only [hg] at h
      split at h
      · simp at h
      · rename_i hcr
        cases hf : findSucc net FUEL p j with
        | err e => simp [hf] at h
        | found succ =>
          simp only [hf] at h
          split at h
          · simp at h
          · split at h
            · exact ih _ _ _ _ h
            · rename_i h2
              have e : succ = p := by simpa using h2
              exact ⟨p, nd0, hg, by simpa using hcr, h⟩

/-- a node without its store (the key hand-off only changes stores) -/
def strip (x : Node) : Node := { x with store := [] }

theorem upd_strip (net : Net) (n m : Nat) (f : Node → Node) (hf : ∀ x, strip (f x) = strip x) :
    ((net.upd n f).get m).map strip = (net.get m).map strip := by
  rw [get_upd]
  split
  · rename_i e; subst e
    cases net.get m with
    | none => rfl
    | some x => simp [hf]
  · rfl

/-- the key hand-off changes stores only -/
theorem transferUp_strip (net net' : Net) (s j prev : Nat) (store : List KEntry)
    (h : transferUp net s j prev store = some net') : ∀ m, (net'.get m).map strip = (net.get m).map strip := by
  intro m
  unfold transferUp at h
  simp only at h
  split at h
  · simp at h; subst h; rfl
  · cases hi : importAt net j (rangeKeys store prev j) with
    | none => simp [hi] at h
    | some n2 =>
      simp only [hi] at h; simp at h; subst h
      obtain ⟨ndj, hgj, hn2⟩ := Specter.C05.importAt_get net n2 j _ hi
      subst hn2
      refine (upd_strip _ _ _ _ ?_).trans (upd_strip _ _ _ _ ?_) <;> intro x <;> rfl

theorem strip_some {o : Option Node} {y : Node} (h : o.map strip = some (strip y)) :
    ∃ x, o = some x ∧ strip x = strip y := by
  cases o with
  | none => simp at h
  | some x => exact ⟨x, rfl, by simpa using h⟩

/-! ### the ring facts fixed by the hand-off, and the shape of the nets in the middle of a join -/

/-- `s` is a live member of the stable quiescent ring `net`, `prev` its predecessor, and the
(non-member) joiner `j` lies strictly between them -/
structure Ctx (net : Net) (j s prev : Nat) : Prop where
  hs : Stable net
  hq : Quiescent net
  hj : j < M
  hnj : ¬ Mem net j
  hsm : Mem net s
  hsp : ∀ y, net.get s = some y → y.pred = some prev
  hb : between prev j s false = true

theorem Ctx.prevMem {net : Net} {j s prev : Nat} (c : Ctx net j s prev) : Mem net prev := by
  obtain ⟨y, hg, hc⟩ := c.hsm
  obtain ⟨p, hp, hpm, _⟩ := c.hs.pred s y hg hc
  rw [c.hsp y hg] at hp; injection hp with hp; subst hp; exact hpm

theorem Ctx.sj {net : Net} {j s prev : Nat} (c : Ctx net j s prev) : s ≠ j :=
  fun e => c.hnj (e ▸ c.hsm)

theorem Ctx.pj {net : Net} {j s prev : Nat} (c : Ctx net j s prev) : prev ≠ j :=
  fun e => c.hnj (e ▸ c.prevMem)

/-- the first successor of `prev` is `s` (predecessor and successor pointers of a stable ring are inverse) -/
theorem Ctx.prevHead {net : Net} {j s prev : Nat} (c : Ctx net j s prev) :
    ∀ y, net.get prev = some y → y.succs.head? = some s := by
  intro y hgy
  obtain ⟨y', hgy', hcy⟩ := c.prevMem
  rw [hgy] at hgy'; injection hgy' with e; subst e
  obtain ⟨s', hs', hsm', hmin'⟩ := c.hs.succ prev y hgy hcy
  obtain ⟨ys, hgs, hcs⟩ := c.hsm
  obtain ⟨p, hp, hpm, hmin⟩ := c.hs.pred s ys hgs hcs
  rw [c.hsp ys hgs] at hp; injection hp with hp; subst hp
  have h1 := hmin s' hsm'
  have h2 := hmin' s c.hsm
  have hpM := c.hs.lt _ hpm; have hsM := c.hs.lt _ c.hsm; have hsM' := c.hs.lt _ hsm'
  have := dist_cases _ _ hpM hsM; have := dist_cases _ _ hpM hsM'; have := M_val
  rw [hs']; congr 1; omega

/-- The net `net'` in the middle of the join of `j` between `prev` and `s`, described relative to the
ring `net` before the join: the joiner has state `stJ`, predecessor `prev`, first successor `s`; `s` has
state `stS`, predecessor and surrogate `j`; the first successor of `prev` is `hp` (`s` before the
advisory, `j` after); every other field that `Stable`/`Quiescent` speak about is as in `net`; fingers of
live nodes name old members or `j`. -/
structure Shape (net net' : Net) (j s prev : Nat) (stJ stS : St) (hp : Nat) : Prop where
  jnode : ∃ x, net'.get j = some x ∧ x.state = stJ ∧ x.crashed = false ∧ x.pred = some prev ∧
      x.succs.head? = some s ∧ x.surrogate = none ∧
      (x.joinLocals = none ∨ x.joinLocals = some (prev, some s))
  old : ∀ m, m ≠ j → ∀ y, net.get m = some y → ∃ x, net'.get m = some x ∧ x.crashed = y.crashed ∧
      x.state = (if m = s then stS else y.state) ∧ x.pred = (if m = s then some j else y.pred) ∧
      x.surrogate = (if m = s then some j else y.surrogate) ∧
      x.succs.head? = (if m = prev then some hp else y.succs.head?)
  absent : ∀ m, m ≠ j → net.get m = none → net'.get m = none
  fingers : ∀ m x, net'.get m = some x → checkNodeState x false = none →
      ∀ f, some f ∈ x.fingers → Mem net f ∨ f = j

/-- **After `joinBegin`.** A successful first half of `Join` on a stable quiescent ring was served by a
live member `s` whose predecessor `prev` has the joiner strictly between them; `s` is Transferring with
predecessor `j`, and `j` is Joining with predecessor `prev` and first successor `s`. -/
theorem shape_begin (net : Net) (hs : Stable net) (hq : Quiescent net) (j peer : Nat) (hj : j < M)
    (ndj : Node) (hgj : net.get j = some ndj) (hcr : ndj.crashed = false) (hsur : ndj.surrogate = none)
    (hfin : ∀ f, some f ∈ ndj.fingers → Mem net f) (net3 : Net)
    (h : joinBegin net j peer = (net3, none)) :
    ∃ s prev, Ctx net j s prev ∧ Shape net net3 j s prev .joining .transferring s := by
  unfold joinBegin at h
  simp only [hgj] at h
  split at h
  · simp at h
  · rename_i hin
    have hin' : ndj.state = .inactive := by simpa using hin
    have hnj : ¬ Mem net j := by
      rintro ⟨y, hy, hc⟩
      rw [hgj] at hy; injection hy with hy; subst hy
      simp [checkNodeState, hcr, hin'] at hc
    cases hr : requestToJoin (net.upd j fun nd => { nd with state := .joining }) FUEL peer j with
    | mk n2 r =>
      cases r with
      | error e => simp [hr] at h
      | ok v =>
        obtain ⟨prev, succs⟩ := v
        simp only [hr] at h
        simp at h
        obtain ⟨s, nd0, hg1s, hcr0, hho⟩ := requestToJoin_ok _ _ _ _ _ _ hr
        have hg1j : (net.upd j fun nd => { nd with state := .joining }).get j =
            some { ndj with state := .joining } := by rw [get_upd_same, hgj]; rfl
        rcases handOff_cases (net.upd j fun nd => { nd with state := .joining }) s j with
          ⟨_, hh⟩ | ⟨_, _, _, hh⟩ | ⟨_, _, _, _, hh⟩ | ⟨_, _, _, _, _, _, hh⟩ |
          ⟨_, _, _, _, _, _, _, hh⟩ | ⟨nd, prev', netT, hg, hact, hpred, hbt, htr, hh⟩
        · rw [hh] at hho; simp at hho
        · rw [hh] at hho; simp at hho
        · rw [hh] at hho; simp at hho
        · rw [hh] at hho; simp at hho
        · rw [hh] at hho; simp at hho
        · rw [hh] at hho
          simp only [Prod.mk.injEq, Except.ok.injEq] at hho
          obtain ⟨hn2, hpv, hsl⟩ := hho
          subst hpv
          have hsj : s ≠ j := by
            intro e; subst e
            rw [hg1j] at hg; injection hg with hg; subst hg; simp at hact
          rw [get_upd_other _ _ _ _ hsj] at hg
          rw [get_upd_other _ _ _ _ hsj, hg] at hg1s; injection hg1s with e0; subst e0
          have hsm : Mem net s := ⟨nd, hg, by simp [checkNodeState, hcr0, hact]⟩
          have c : Ctx net j s prev' := ⟨hs, hq, hj, hnj, hsm,
            fun y hy => by rw [hg] at hy; injection hy with hy; subst hy; exact hpred, hbt⟩
          refine ⟨s, prev', c, ?_⟩
          -- the transfer changed stores only
          have hT := transferUp_strip _ _ _ _ _ _ htr
          have keyJ : ∃ xT, netT.get j = some xT ∧ strip xT = strip { ndj with state := .joining } := by
            apply strip_some; rw [hT j, hg1j]; rfl
          have keyO : ∀ m, m ≠ j → ∀ y, net.get m = some y → ∃ xT, netT.get m = some xT ∧ strip xT = strip y := by
            intro m hm y hy
            apply strip_some; rw [hT m, get_upd_other _ _ _ _ hm, hy]; rfl
          have keyN : ∀ m, m ≠ j → net.get m = none → netT.get m = none := by
            intro m hm hy
            have := hT m
            rw [get_upd_other _ _ _ _ hm, hy] at this
            cases hx : netT.get m with
            | none => rfl
            | some x => simp [hx] at this
          subst hn2; subst h
          constructor
          · obtain ⟨xT, hxT, hst⟩ := keyJ
            refine ⟨_, by rw [get_upd_same, get_upd_other _ _ _ _ (Ne.symm hsj), hxT]; rfl, ?_⟩
            have e1 := congrArg Node.state hst
            have e2 := congrArg Node.crashed hst
            have e3 := congrArg Node.surrogate hst
            simp only [strip] at e1 e2 e3
            refine ⟨e1, by rw [← hcr]; exact e2, rfl, ?_, by rw [← hsur]; exact e3, Or.inr ?_⟩
            · rw [← hsl]; exact makeSuccList_head _ _ _
            · show some (prev', succs.head?) = _
              rw [← hsl, makeSuccList_head]
          · intro m hm y hy
            obtain ⟨xT, hxT, hst⟩ := keyO m hm y hy
            have e1 := congrArg Node.state hst
            have e2 := congrArg Node.crashed hst
            have e3 := congrArg Node.surrogate hst
            have e4 := congrArg Node.pred hst
            have e5 := congrArg Node.succs hst
            simp only [strip] at e1 e2 e3 e4 e5
            rw [get_upd_other _ _ _ _ hm, get_upd]
            by_cases hms : m = s
            · subst hms
              refine ⟨{ xT with state := .transferring, pred := some j, surrogate := some j },
                by simp only [if_true, hxT]; rfl, e2, by simp, by simp, by simp, ?_⟩
              show xT.succs.head? = _
              rw [e5]
              split
              · rename_i e; rw [← e] at c; exact c.prevHead y hy
              · rfl
            · refine ⟨xT, by simp only [hms, if_false]; exact hxT, e2, by simp [hms, e1], by simp [hms, e4],
                by simp [hms, e3], ?_⟩
              rw [e5]
              split
              · rename_i e; subst e; exact c.prevHead y hy
              · rfl
          · intro m hm hy
            have hms : m ≠ s := by intro e; subst e; rw [hg] at hy; simp at hy
            rw [get_upd_other _ _ _ _ hm, get_upd_other _ _ _ _ hms]
            exact keyN m hm hy
          · intro m x hx hcx f hf
            left
            by_cases hm : m = j
            · subst hm
              obtain ⟨xT, hxT, hst⟩ := keyJ
              rw [get_upd_same, get_upd_other _ _ _ _ (Ne.symm hsj), hxT] at hx
              simp at hx; subst hx
              have e6 := congrArg Node.fingers hst
              simp only [strip] at e6
              exact hfin f (by rw [← e6]; exact hf)
            · rw [get_upd_other _ _ _ _ hm] at hx
              cases hy : net.get m with
              | none =>
                have hms : m ≠ s := by intro e; subst e; rw [hg] at hy; simp at hy
                rw [get_upd_other _ _ _ _ hms, keyN m hm hy] at hx; simp at hx
              | some y =>
                obtain ⟨xT, hxT, hst⟩ := keyO m hm y hy
                have e1 := congrArg Node.state hst
                have e2 := congrArg Node.crashed hst
                have e6 := congrArg Node.fingers hst
                simp only [strip] at e1 e2 e6
                rw [get_upd] at hx
                by_cases hms : m = s
                · subst hms
                  rw [hg] at hy; injection hy with hy; subst hy
                  simp only [if_true, hxT] at hx
                  simp at hx; subst hx
                  exact hs.fingers m nd hg (by simp [checkNodeState, hcr0, hact]) f (by rw [← e6]; exact hf)
                · simp only [hms, if_false, hxT] at hx
                  injection hx with hx; subst hx
                  refine hs.fingers m y hy ?_ f (by rw [← e6]; exact hf)
                  unfold checkNodeState at hcx ⊢; rw [← e1, ← e2]; exact hcx

/-! ### `Shape` is carried through the second half of `Join` -/

section shape
variable {net net' net'' : Net} {j s prev : Nat} {stJ stS : St} {hp : Nat}

/-- the fields `Stable`/`Quiescent`/the join protocol read, fingers and store aside -/
def view (x : Node) : St × Bool × Option Nat × Option Nat × Option Nat × Option (Nat × Option Nat) :=
  (x.state, x.crashed, x.pred, x.succs.head?, x.surrogate, x.joinLocals)

theorem live_of_view {x y : Node} (h : view x = view y) (hc : checkNodeState x false = none) :
    checkNodeState y false = none := by
  simp only [view, Prod.mk.injEq] at h
  unfold checkNodeState at hc ⊢; rw [← h.1, ← h.2.1]; exact hc

/-- a net with the same views, whose new fingers are old members or `j`, has the same shape -/
theorem Shape.congr (h : Shape net net' j s prev stJ stS hp)
    (hv : ∀ m, (net''.get m).map view = (net'.get m).map view)
    (hf : ∀ m x'', net''.get m = some x'' → ∀ f, some f ∈ x''.fingers →
      (∃ x', net'.get m = some x' ∧ some f ∈ x'.fingers) ∨ Mem net f ∨ f = j) :
    Shape net net'' j s prev stJ stS hp := by
  have fwd : ∀ m x', net'.get m = some x' → ∃ x'', net''.get m = some x'' ∧ view x'' = view x' := by
    intro m x' hx
    have := hv m
    rw [hx] at this
    cases hx'' : net''.get m with
    | none => simp [hx''] at this
    | some x'' => exact ⟨x'', rfl, by simpa [hx''] using this⟩
  have bwd : ∀ m x'', net''.get m = some x'' → ∃ x', net'.get m = some x' ∧ view x'' = view x' := by
    intro m x'' hx
    have := hv m
    rw [hx] at this
    cases hx' : net'.get m with
    | none => simp [hx'] at this
    | some x' => exact ⟨x', rfl, by simpa [hx'] using this⟩
  constructor
  · obtain ⟨x, hx, h1, h2, h3, h4, h5, h6⟩ := h.jnode
    obtain ⟨x'', hx'', hvw⟩ := fwd j x hx
    simp only [view, Prod.mk.injEq] at hvw
    obtain ⟨e1, e2, e3, e4, e5, e6⟩ := hvw
    exact ⟨x'', hx'', by rw [e1]; exact h1, by rw [e2]; exact h2, by rw [e3]; exact h3,
      by rw [e4]; exact h4, by rw [e5]; exact h5, by rw [e6]; exact h6⟩
  · intro m hm y hy
    obtain ⟨x, hx, h1, h2, h3, h4, h5⟩ := h.old m hm y hy
    obtain ⟨x'', hx'', hvw⟩ := fwd m x hx
    simp only [view, Prod.mk.injEq] at hvw
    obtain ⟨e1, e2, e3, e4, e5, e6⟩ := hvw
    exact ⟨x'', hx'', by rw [e2]; exact h1, by rw [e1]; exact h2, by rw [e3]; exact h3,
      by rw [e5]; exact h4, by rw [e4]; exact h5⟩
  · intro m hm hy
    have := hv m
    rw [h.absent m hm hy] at this
    cases hx'' : net''.get m with
    | none => rfl
    | some x'' => simp [hx''] at this
  · intro m x'' hx'' hc f hff
    obtain ⟨x', hx', hvw⟩ := bwd m x'' hx''
    rcases hf m x'' hx'' f hff with ⟨x1, hx1, hf1⟩ | h2
    · rw [hx'] at hx1; injection hx1 with hx1; subst hx1
      exact h.fingers m x' hx' (live_of_view hvw hc) f hf1
    · exact h2

theorem Shape.fingersOnly (h : Shape net net' j s prev stJ stS hp) (n : Nat)
    (hfo : FingersOnly net' net'' n (fun f => Mem net f ∨ f = j)) :
    Shape net net'' j s prev stJ stS hp := by
  apply h.congr
  · intro m
    by_cases e : m = n
    · subst e
      cases hx : net'.get m with
      | none => rw [hfo.absent hx]
      | some x => obtain ⟨fs, hfs, _⟩ := hfo.self x hx; rw [hfs]; rfl
    · rw [hfo.other m e]
  · intro m x'' hx'' f hf
    by_cases e : m = n
    · subst e
      cases hx : net'.get m with
      | none => rw [hfo.absent hx] at hx''; simp at hx''
      | some x =>
        obtain ⟨fs, hfs, hP⟩ := hfo.self x hx
        rw [hfs] at hx''; injection hx'' with hx''; subst hx''
        rcases hP f hf with h1 | h1
        · exact Or.inl ⟨x, rfl, h1⟩
        · exact Or.inr h1
    · rw [hfo.other m e] at hx''; exact Or.inl ⟨x'', hx'', hf⟩

/-- the nodes a lookup can reach in the middle of the join are the old members and `j` -/
theorem Shape.closed (c : Ctx net j s prev) (h : Shape net net' j s prev stJ stS hp) (hhp : hp = s ∨ hp = j) :
    ClosedP net' (fun f => Mem net f ∨ f = j) := by
  intro n hn nd hg hc
  refine ⟨fun t ht => ?_, fun f hf => h.fingers n nd hg hc f hf⟩
  by_cases e : n = j
  · subst e
    obtain ⟨x, hx, _, _, _, h4, _⟩ := h.jnode
    rw [hg] at hx; injection hx with hx; subst hx
    rw [h4] at ht; injection ht with ht; subst ht; exact Or.inl c.hsm
  · have hm : Mem net n := by
      rcases hn with h1 | h1
      · exact h1
      · exact absurd h1 e
    obtain ⟨y, hy, hcy⟩ := hm
    obtain ⟨x, hx, _, _, _, _, h5⟩ := h.old n e y hy
    rw [hg] at hx; injection hx with hx; subst hx
    rw [h5] at ht
    split at ht
    · injection ht with ht; subst ht
      rcases hhp with e1 | e1
      · left; rw [e1]; exact c.hsm
      · right; exact e1
    · obtain ⟨s', hs', hsm', _⟩ := c.hs.succ n y hy hcy
      rw [hs'] at ht; injection ht with ht; subst ht; exact Or.inl hsm'

/-- the successor `s` in the middle of the join -/
theorem Shape.snode (c : Ctx net j s prev) (h : Shape net net' j s prev stJ stS hp) :
    ∃ xs, net'.get s = some xs ∧ xs.crashed = false ∧ xs.state = stS ∧ xs.pred = some j ∧
      xs.surrogate = some j := by
  obtain ⟨y, hy, hcy⟩ := c.hsm
  obtain ⟨_, hup⟩ := c.hq.active s y hy hcy
  obtain ⟨x, hx, h1, h2, h3, h4, _⟩ := h.old s c.sj y hy
  exact ⟨x, hx, by rw [h1]; exact hup, by simpa using h2, by simpa using h3, by simpa using h4⟩

/-- the predecessor `prev` in the middle of the join -/
theorem Shape.pnode (c : Ctx net j s prev) (h : Shape net net' j s prev stJ stS hp) :
    ∃ xp, net'.get prev = some xp ∧ xp.crashed = false ∧ xp.state = (if prev = s then stS else .active) ∧
      xp.succs.head? = some hp := by
  obtain ⟨y, hy, hcy⟩ := c.prevMem
  obtain ⟨hact, hup⟩ := c.hq.active prev y hy hcy
  obtain ⟨x, hx, h1, h2, _, _, h5⟩ := h.old prev c.pj y hy
  exact ⟨x, hx, by rw [h1]; exact hup, by rw [h2, hact], by simpa using h5⟩

theorem Shape.upd_absent (h : Shape net net' j s prev stJ stS hp) (n : Nat) (f : Node → Node) :
    ∀ m, m ≠ j → net.get m = none → (net'.upd n f).get m = none := by
  intro m hm hy
  rw [get_upd]
  split
  · rename_i e; subst e; rw [h.absent _ hm hy]; rfl
  · exact h.absent m hm hy

theorem Shape.upd_fingers (h : Shape net net' j s prev stJ stS hp) (n : Nat) (f : Node → Node)
    (hfi : ∀ x, (f x).fingers = x.fingers)
    (hlive : ∀ x, net'.get n = some x → checkNodeState (f x) false = none → checkNodeState x false = none) :
    ∀ m x, (net'.upd n f).get m = some x → checkNodeState x false = none →
      ∀ g, some g ∈ x.fingers → Mem net g ∨ g = j := by
  intro m x hx hc g hg
  rw [get_upd] at hx
  split at hx
  · rename_i e; subst e
    cases hx' : net'.get m with
    | none => simp [hx'] at hx
    | some x' =>
      simp [hx'] at hx; subst hx
      exact h.fingers m x' hx' (hlive x' hx' hc) g (by rw [← hfi]; exact hg)
  · exact h.fingers m x hx hc g hg

/-- stabilize at `j`: the successor list is refreshed, its head stays `s` -/
theorem Shape.updSuccsJ (h : Shape net net' j s prev stJ stS hp) (l : List Nat) (hl : l.head? = some s) :
    Shape net (net'.upd j (fun nd => { nd with succs := l })) j s prev stJ stS hp := by
  obtain ⟨x, hx, _, _, _, h4, _⟩ := h.jnode
  apply h.congr
  · intro m
    rw [get_upd]
    split
    · rename_i e; subst e; rw [hx]; simp [view, hl, h4]
    · rfl
  · intro m x'' hx'' f hf
    left
    rw [get_upd] at hx''
    split at hx''
    · rename_i e; subst e; rw [hx] at hx''; simp at hx''; subst hx''; exact ⟨x, hx, hf⟩
    · exact ⟨x'', hx'', hf⟩

/-- stabilize at `prev`: the head of its successor list becomes `hp'` -/
theorem Shape.updSuccsPrev (c : Ctx net j s prev) (h : Shape net net' j s prev stJ stS hp) (l : List Nat)
    (hp' : Nat) (hl : l.head? = some hp') :
    Shape net (net'.upd prev (fun nd => { nd with succs := l })) j s prev stJ stS hp' := by
  refine ⟨?_, ?_, h.upd_absent _ _, h.upd_fingers _ _ (fun _ => rfl) (fun _ _ hc => hc)⟩
  · obtain ⟨x, hx, hrest⟩ := h.jnode
    exact ⟨x, by rw [get_upd_other _ _ _ _ (Ne.symm c.pj)]; exact hx, hrest⟩
  · intro m hm y hy
    obtain ⟨x, hx, h1, h2, h3, h4, h5⟩ := h.old m hm y hy
    rw [get_upd]
    by_cases e : m = prev
    · subst e
      exact ⟨{ x with succs := l }, by simp [hx], h1, h2, h3, h4, by simp [hl]⟩
    · exact ⟨x, by simp [e, hx], h1, h2, h3, h4, by simpa [e] using h5⟩

/-- Joining → Active at the joiner -/
theorem Shape.setActiveJ (h : Shape net net' j s prev .joining stS hp) :
    Shape net (net'.upd j (fun nd => { nd with state := .active })) j s prev .active stS hp := by
  obtain ⟨x, hx, h1, h2, h3, h4, h5, h6⟩ := h.jnode
  refine ⟨?_, ?_, h.upd_absent _ _, h.upd_fingers _ _ (fun _ => rfl) ?_⟩
  · exact ⟨{ x with state := .active }, by rw [get_upd_same, hx]; rfl, rfl, h2, h3, h4, h5, h6⟩
  · intro m hm y hy
    obtain ⟨x', hx', hrest⟩ := h.old m hm y hy
    exact ⟨x', by rw [get_upd_other _ _ _ _ hm]; exact hx', hrest⟩
  · intro x' hx' _
    rw [hx] at hx'; injection hx' with hx'; subst hx'
    simp [checkNodeState, h1, h2]

/-- `Join` forgets its local variables -/
theorem Shape.clearLocals (h : Shape net net' j s prev stJ stS hp) :
    Shape net (net'.upd j (fun nd => { nd with joinLocals := none })) j s prev stJ stS hp := by
  obtain ⟨x, hx, h1, h2, h3, h4, h5, h6⟩ := h.jnode
  refine ⟨?_, ?_, h.upd_absent _ _, h.upd_fingers _ _ (fun _ => rfl) (fun _ _ hc => hc)⟩
  · exact ⟨{ x with joinLocals := none }, by rw [get_upd_same, hx]; rfl, h1, h2, h3, h4, h5, Or.inl rfl⟩
  · intro m hm y hy
    obtain ⟨x', hx', hrest⟩ := h.old m hm y hy
    exact ⟨x', by rw [get_upd_other _ _ _ _ hm]; exact hx', hrest⟩

/-- the successor's membership lock is released: Transferring → Active -/
theorem Shape.release (c : Ctx net j s prev) (h : Shape net net' j s prev stJ .transferring hp) :
    Shape net (net'.upd s (fun nd => if nd.state == .transferring then { nd with state := .active } else nd))
      j s prev stJ .active hp := by
  obtain ⟨xs, hxs, hs1, hs2, hs3, hs4⟩ := h.snode c
  refine ⟨?_, ?_, h.upd_absent _ _, h.upd_fingers _ _ ?_ ?_⟩
  · obtain ⟨x, hx, hrest⟩ := h.jnode
    exact ⟨x, by rw [get_upd_other _ _ _ _ (Ne.symm c.sj)]; exact hx, hrest⟩
  · intro m hm y hy
    obtain ⟨x, hx, h1, h2, h3, h4, h5⟩ := h.old m hm y hy
    rw [get_upd]
    by_cases e : m = s
    · subst e
      rw [hxs] at hx; injection hx with hx; subst hx
      refine ⟨{ xs with state := .active }, by simp [hxs, hs2], h1, by simp, h3, h4, h5⟩
    · exact ⟨x, by simp [e, hx], h1, by simpa [e] using h2, h3, h4, h5⟩
  · intro x; split <;> rfl
  · intro x hx _
    rw [hxs] at hx; injection hx with hx; subst hx
    simp [checkNodeState, hs1, hs2]

/-- **startTasks at the joiner** (`stabilize`, `fixFinger`, `checkPredecessor`) keep the shape -/
theorem shape_tasks (c : Ctx net j s prev) (h : Shape net net' j s prev .joining .transferring s) :
    Shape net (joinTasks net' j) j s prev .joining .transferring s := by
  unfold joinTasks
  obtain ⟨x, hx, h1, h2, h3, h4, h5, h6⟩ := h.jnode
  obtain ⟨xs, hxs, hs1, hs2, hs3, hs4⟩ := h.snode c
  obtain ⟨l, hl, hst⟩ := stabilize_confirm net' j s x xs hx h4 c.sj hxs
    (by simp [checkNodeState, hs1, hs2]) hs3
  have hA : Shape net (stabilize net' j) j s prev .joining .transferring s := by
    rw [hst]; exact h.updSuccsJ l hl
  have hB := hA.fingersOnly j (fixFinger_spec _ j _ (hA.closed c (Or.inl rfl)) (Or.inr rfl))
  obtain ⟨x', hx', _, _, h3', _⟩ := hB.jnode
  obtain ⟨xp, hxp, hp1, hp2, _⟩ := hB.pnode c
  have hping : ping (fixFinger (stabilize net' j) j) prev = true := by
    unfold ping
    by_cases e : prev = s <;> simp [e] at hp2 <;> simp [hxp, checkNodeState, hp1, hp2]
  rw [checkPredecessor_noop _ j prev x' hx' h3' hping]
  exact hB

/-- **the advisory to the predecessor** (`FinishJoin(stabilize)` at `prev`: it adopts `j` as first
successor) **and the activation of the joiner** -/
theorem shape_advise (c : Ctx net j s prev) (h : Shape net net' j s prev .joining .transferring s) :
    Shape net (joinAdvise net' j) j s prev .active .transferring j := by
  obtain ⟨x, hx, h1, h2, h3, h4, h5, h6⟩ := h.jnode
  have hjl : joinLocalsOf x = (some prev, some s) := by
    unfold joinLocalsOf; rcases h6 with e | e <;> simp [e, h3, h4]
  obtain ⟨xs, hxs, hs1, hs2, hs3, hs4⟩ := h.snode c
  obtain ⟨xp, hxp, hp1, hp2, hp3⟩ := h.pnode c
  obtain ⟨l, hl, hst⟩ := stabilize_adopt net' prev s j xp xs x hxp hp3 hxs
    (by simp [checkNodeState, hs1, hs2]) hs3 c.hb (Ne.symm c.pj) hx (by simp [checkNodeState, h1, h2]) h3
  have hA : Shape net (stabilize net' prev) j s prev .joining .transferring j := by
    rw [hst]; exact h.updSuccsPrev c l j hl
  have hB := hA.fingersOnly prev (fixFinger_spec _ prev _ (hA.closed c (Or.inr rfl)) (Or.inl c.prevMem))
  have hfin : finish net' prev true false = fixFinger (stabilize net' prev) prev := by
    unfold finish; simp [hxp, hp1]
  unfold joinAdvise
  simp only [hx, hjl, hfin]
  exact hB.setActiveJ

/-- **the release of the successor's membership lock** -/
theorem shape_release (c : Ctx net j s prev) (h : Shape net net' j s prev .active .transferring j) :
    Shape net (joinRelease net' j) j s prev .active .active j := by
  obtain ⟨x, hx, h1, h2, h3, h4, h5, h6⟩ := h.jnode
  have hjl : joinLocalsOf x = (some prev, some s) := by
    unfold joinLocalsOf; rcases h6 with e | e <;> simp [e, h3, h4]
  have hA := h.clearLocals
  obtain ⟨xs, hxs, hs1, hs2, hs3, hs4⟩ := hA.snode c
  unfold joinRelease
  simp only [hx, hjl]
  rw [Specter.C06.finish_release _ s xs hxs hs1]
  exact hA.release c

end shape

/-! ### ring arithmetic: inserting `j` strictly between `prev` and its successor `s` -/

/-- distances between two points, re-based at a third one -/
theorem dist_rebase (b x y : Nat) (hb : b < M) (hx : x < M) (hy : y < M) :
    (dist b x ≤ dist b y ∧ dist x y = dist b y - dist b x) ∨
    (dist b y < dist b x ∧ dist x y = dist b y + M - dist b x) := by
  have := dist_cases b x hb hx; have := dist_cases b y hb hy; have := dist_cases x y hx hy
  have := M_val
  omega

theorem dist_eq_iff (b x y : Nat) (hb : b < M) (hx : x < M) (hy : y < M) :
    dist b x = dist b y ↔ x = y := by
  have := dist_cases b x hb hx; have := dist_cases b y hb hy
  have := M_val
  constructor
  · omega
  · intro e; rw [e]

theorem dist_zero_iff (b x : Nat) (hb : b < M) (hx : x < M) : dist b x = 0 ↔ b = x := by
  have := dist_cases b x hb hx
  have := M_val
  constructor
  · omega
  · intro e; subst e; omega

/-- no old member lies strictly between `prev` and `j` -/
theorem geo_prev_j (P : Nat → Prop) (prev j s : Nat) (hp : prev < M) (hs : s < M)
    (hmin : ∀ m, P m → ¬ (0 < dist prev m ∧ dist prev m < dist prev s) ∧ (prev = s → m = s))
    (hb : 0 < dist prev j ∧ (dist prev j < dist prev s ∨ prev = s))
    (m : Nat) (hm : P m) (hmM : m < M) : ¬ (0 < dist prev m ∧ dist prev m < dist prev j) := by
  have := hmin m hm
  have := dist_zero_iff prev s hp hs; have := dist_eq_iff prev m s hp hmM hs
  omega

/-- no old member lies strictly between `j` and `s` -/
theorem geo_j_s (P : Nat → Prop) (prev j s : Nat) (hp : prev < M) (hj : j < M) (hs : s < M)
    (hmin : ∀ m, P m → ¬ (0 < dist prev m ∧ dist prev m < dist prev s) ∧ (prev = s → m = s))
    (hb : 0 < dist prev j ∧ (dist prev j < dist prev s ∨ prev = s))
    (m : Nat) (hm : P m) (hmM : m < M) : ¬ (0 < dist j m ∧ dist j m < dist j s) := by
  have := hmin m hm
  have := dist_zero_iff prev s hp hs; have := dist_eq_iff prev m s hp hmM hs
  have := dist_rebase prev j m hp hj hmM; have := dist_rebase prev j s hp hj hs
  have := dist_lt prev m; have := dist_lt prev s; have := dist_lt prev j
  omega

/-- `j` is not strictly between another member `n ≠ s` and its predecessor `p` -/
theorem geo_pred_other (j s n p : Nat) (hj : j < M) (hs : s < M) (hn : n < M) (hp : p < M)
    (hown : dist j s ≤ dist j n) (hns : n ≠ s)
    (hmin : ¬ (0 < dist p s ∧ dist p s < dist p n) ∧ (p = n → s = n)) :
    ¬ (0 < dist p j ∧ dist p j < dist p n) ∧ (p = n → j = n) := by
  have := dist_zero_iff p n hp hn; have := dist_eq_iff p s n hp hs hn; have := dist_eq_iff p j n hp hj hn
  have := dist_rebase p j n hp hj hn; have := dist_rebase p j s hp hj hs
  have := dist_lt p n; have := dist_lt p s; have := dist_lt p j
  omega

/-- if `j` is strictly between a member `n` and its successor `sn`, that successor is `s` -/
theorem geo_succ_other (j s n sn : Nat) (hj : j < M) (hs : s < M) (hn : n < M) (hsn : sn < M)
    (hown : dist j s ≤ dist j sn)
    (hmin : ¬ (0 < dist n s ∧ dist n s < dist n sn) ∧ (sn = n → s = n))
    (hin : 0 < dist n j ∧ dist n j < dist n sn) : sn = s := by
  have := dist_zero_iff n sn hn hsn; have := dist_eq_iff n sn s hn hsn hs; have := dist_zero_iff n s hn hs
  have := dist_rebase n j sn hn hj hsn; have := dist_rebase n j s hn hj hs
  have := dist_lt n sn; have := dist_lt n s; have := dist_lt n j
  omega

/-! ### the net at the end of the join is stable and quiescent -/

theorem dist_self (a : Nat) (ha : a < M) : dist a a = 0 := by
  have := dist_cases a a ha ha; omega

/-- the node that served the hand-off is the owner of the joiner's identifier in the old ring -/
theorem handOff_node_is_owner {net : Net} {j s prev : Nat} (c : Ctx net j s prev) : IsOwner net j s := by
  refine ⟨c.hsm, fun m hm => ?_⟩
  have hsM := c.hs.lt s c.hsm; have hpM := c.hs.lt prev c.prevMem; have hjM := c.hj
  have hmM := c.hs.lt m hm
  obtain ⟨ys, hys, hcs⟩ := c.hsm
  obtain ⟨p0, hp0, _, hmin⟩ := c.hs.pred s ys hys hcs
  rw [c.hsp ys hys] at hp0; injection hp0 with hp0; subst hp0
  have hb := (between_open_iff prev j s hpM hjM hsM).mp c.hb
  have g2 := geo_j_s (Mem net) prev j s hpM hjM hsM hmin hb m hm hmM
  have hne : m ≠ j := fun e => c.hnj (e ▸ hm)
  have := dist_cases j m hjM hmM; have := M_val
  omega

theorem shape_final {net net' : Net} {j s prev : Nat} (c : Ctx net j s prev)
    (h : Shape net net' j s prev .active .active j) :
    Stable net' ∧ Quiescent net' ∧ Mem net' j ∧ ∀ m, Mem net' m ↔ (Mem net m ∨ m = j) := by
  have hsM := c.hs.lt s c.hsm; have hpM := c.hs.lt prev c.prevMem; have hjM := c.hj
  have memiff : ∀ m, Mem net' m ↔ (Mem net m ∨ m = j) := by
    intro m
    by_cases e : m = j
    · subst e
      obtain ⟨x, hx, h1, h2, _⟩ := h.jnode
      exact ⟨fun _ => Or.inr rfl, fun _ => ⟨x, hx, by simp [checkNodeState, h1, h2]⟩⟩
    · cases hy : net.get m with
      | none =>
        constructor
        · rintro ⟨x, hx, _⟩; rw [h.absent m e hy] at hx; simp at hx
        · rintro (⟨y, hy', _⟩ | h1)
          · rw [hy] at hy'; simp at hy'
          · exact absurd h1 e
      | some y =>
        obtain ⟨x, hx, h1, h2, _⟩ := h.old m e y hy
        have hst : x.state = y.state := by
          rw [h2]; split
          · rename_i e2; subst e2
            obtain ⟨ys, hys, hcs⟩ := c.hsm
            rw [hy] at hys; injection hys with hys; subst hys
            exact (c.hq.active _ _ hy hcs).1.symm
          · rfl
        constructor
        · rintro ⟨x', hx', hc⟩
          rw [hx] at hx'; injection hx' with hx'; subst hx'
          left; exact ⟨y, hy, by unfold checkNodeState at hc ⊢; rw [← hst, ← h1]; exact hc⟩
        · rintro (⟨y', hy', hc⟩ | h1')
          · rw [hy] at hy'; injection hy' with hy'; subst hy'
            exact ⟨x, hx, by unfold checkNodeState at hc ⊢; rw [hst, h1]; exact hc⟩
          · exact absurd h1' e
  have memJ : Mem net' j := (memiff j).mpr (Or.inr rfl)
  -- a live old node of `net'` is a live node of `net` with the fields of `Shape.old`
  have viewO : ∀ n x, n ≠ j → net'.get n = some x → checkNodeState x false = none →
      ∃ y, net.get n = some y ∧ checkNodeState y false = none ∧
        x.pred = (if n = s then some j else y.pred) ∧
        x.surrogate = (if n = s then some j else y.surrogate) ∧
        x.succs.head? = (if n = prev then some j else y.succs.head?) ∧
        x.state = .active ∧ x.crashed = false := by
    intro n x hn hx hcx
    have hm : Mem net n := by
      rcases (memiff n).mp ⟨x, hx, hcx⟩ with h1 | h1
      · exact h1
      · exact absurd h1 hn
    obtain ⟨y, hy, hcy⟩ := hm
    obtain ⟨x', hx', h1, h2, h3, h4, h5⟩ := h.old n hn y hy
    rw [hx] at hx'; injection hx' with hx'; subst hx'
    obtain ⟨hact, hup⟩ := c.hq.active n y hy hcy
    exact ⟨y, hy, hcy, h3, h4, h5, by rw [h2, hact]; simp, by rw [h1, hup]⟩
  -- ring arithmetic facts
  obtain ⟨ys, hys, hcs⟩ := c.hsm
  obtain ⟨p0, hp0, _, hmin⟩ := c.hs.pred s ys hys hcs
  rw [c.hsp ys hys] at hp0; injection hp0 with hp0; subst hp0
  have hb := (between_open_iff prev j s hpM hjM hsM).mp c.hb
  have g1 : ∀ m, Mem net m → ¬ (0 < dist prev m ∧ dist prev m < dist prev j) :=
    fun m hm => geo_prev_j (Mem net) prev j s hpM hsM hmin hb m hm (c.hs.lt m hm)
  have g2 : ∀ m, Mem net m → ¬ (0 < dist j m ∧ dist j m < dist j s) :=
    fun m hm => geo_j_s (Mem net) prev j s hpM hjM hsM hmin hb m hm (c.hs.lt m hm)
  have own := (handOff_node_is_owner c).2
  have djj := dist_self j hjM
  refine ⟨⟨?_, ?_, ?_, ?_⟩, ⟨?_, ?_⟩, memJ, memiff⟩
  · -- identifiers
    intro m hm
    rcases (memiff m).mp hm with h1 | h1
    · exact c.hs.lt m h1
    · rw [h1]; exact hjM
  · -- predecessors
    intro n x hx hcx
    by_cases e : n = j
    · subst e
      obtain ⟨x', hx', _, _, h3, _⟩ := h.jnode
      rw [hx] at hx'; injection hx' with hx'; subst hx'
      refine ⟨prev, h3, (memiff prev).mpr (Or.inl c.prevMem), fun m hm => ?_⟩
      rcases (memiff m).mp hm with h1 | h1
      · exact ⟨g1 m h1, fun e => absurd e c.pj⟩
      · subst h1; exact ⟨by omega, fun e => absurd e c.pj⟩
    · obtain ⟨y, hy, hcy, h3, _, _, _, _⟩ := viewO n x e hx hcx
      by_cases es : n = s
      · subst es
        simp only [if_true] at h3
        refine ⟨j, h3, memJ, fun m hm => ?_⟩
        rcases (memiff m).mp hm with h1 | h1
        · exact ⟨g2 m h1, fun e => absurd e.symm c.sj⟩
        · subst h1; exact ⟨by omega, fun e => absurd e.symm c.sj⟩
      · simp only [es, if_false] at h3
        obtain ⟨p, hp, hpm, hminN⟩ := c.hs.pred n y hy hcy
        refine ⟨p, by rw [h3]; exact hp, (memiff p).mpr (Or.inl hpm), fun m hm => ?_⟩
        rcases (memiff m).mp hm with h1 | h1
        · exact hminN m h1
        · subst h1
          exact geo_pred_other m s n p hjM hsM (c.hs.lt n ⟨y, hy, hcy⟩) (c.hs.lt p hpm)
            (own n ⟨y, hy, hcy⟩) es (hminN s ⟨ys, hys, hcs⟩)
  · -- first successors
    intro n x hx hcx
    by_cases e : n = j
    · subst e
      obtain ⟨x', hx', _, _, _, h4, _⟩ := h.jnode
      rw [hx] at hx'; injection hx' with hx'; subst hx'
      refine ⟨s, h4, (memiff s).mpr (Or.inl ⟨ys, hys, hcs⟩), fun m hm => ?_⟩
      rcases (memiff m).mp hm with h1 | h1
      · exact ⟨g2 m h1, fun e => absurd e c.sj⟩
      · subst h1; exact ⟨by omega, fun _ => rfl⟩
    · obtain ⟨y, hy, hcy, _, _, h5, _, _⟩ := viewO n x e hx hcx
      by_cases ep : n = prev
      · subst ep
        simp only [if_true] at h5
        refine ⟨j, h5, memJ, fun m hm => ?_⟩
        rcases (memiff m).mp hm with h1 | h1
        · exact ⟨g1 m h1, fun e => absurd e.symm c.pj⟩
        · subst h1; exact ⟨by omega, fun e => e⟩
      · simp only [ep, if_false] at h5
        obtain ⟨sn, hsn, hsnm, hminN⟩ := c.hs.succ n y hy hcy
        refine ⟨sn, by rw [h5]; exact hsn, (memiff sn).mpr (Or.inl hsnm), fun m hm => ?_⟩
        rcases (memiff m).mp hm with h1 | h1
        · exact hminN m h1
        · subst h1
          refine ⟨fun hin => ?_, fun e2 => ?_⟩
          · have e3 := geo_succ_other m s n sn hjM hsM (c.hs.lt n ⟨y, hy, hcy⟩) (c.hs.lt sn hsnm)
              (own sn hsnm) (hminN s ⟨ys, hys, hcs⟩) hin
            subst e3
            have := succ_pred_inverse net c.hs n sn y ys hy hcy hsn hys hcs
            rw [c.hsp ys hys] at this; injection this with this
            exact ep this.symm
          · exact absurd ((hminN prev c.prevMem).2 e2) (Ne.symm ep)
  · -- fingers
    intro n x hx hcx f hf
    exact (memiff f).mpr (h.fingers n x hx hcx f hf)
  · -- every live node serves
    intro n x hx hcx
    by_cases e : n = j
    · subst e
      obtain ⟨x', hx', h1, h2, _⟩ := h.jnode
      rw [hx] at hx'; injection hx' with hx'; subst hx'
      exact ⟨h1, h2⟩
    · obtain ⟨y, hy, hcy, _, _, _, h6, h7⟩ := viewO n x e hx hcx
      exact ⟨h6, h7⟩
  · -- no hand-off pending
    intro n x hx hcx
    by_cases e : n = j
    · subst e
      obtain ⟨x', hx', _, _, _, _, h5, _⟩ := h.jnode
      rw [hx] at hx'; injection hx' with hx'; subst hx'
      exact Or.inl h5
    · obtain ⟨y, hy, hcy, h3, h4, _, _, _⟩ := viewO n x e hx hcx
      by_cases es : n = s
      · subst es
        simp only [if_true] at h3 h4
        right; rw [h3, h4]; exact ⟨rfl, fun e2 => by injection e2 with e2; exact c.sj e2.symm⟩
      · simp only [es, if_false] at h3 h4
        rcases c.hq.surrogate n y hy hcy with h8 | ⟨h8, h9⟩
        · left; rw [h4]; exact h8
        · right; rw [h4, h3]; exact ⟨h8, h9⟩

/-- what `new` leaves in a node that has never been part of a ring, as far as the join reads it: the node is
present, Inactive, not crashed, has no surrogate pointer, and every non-nil finger entry (there is none
after `new`) names a member. Its predecessor, successor list, store and `joinLocals` are overwritten or
irrelevant. -/
structure FreshJoiner (net : Net) (j : Nat) : Prop where
  present : ∃ nd, net.get j = some nd ∧ nd.state = .inactive ∧ nd.crashed = false ∧ nd.surrogate = none ∧
    ∀ f, some f ∈ nd.fingers → Mem net f

/-- **A completed graceful join keeps the ring stable and quiescent** (`Stable ∧ Quiescent` is an inductive
invariant of sequential joins, for every ring size and id layout, through whichever node the request was
routed). Hypotheses: `j` is an identifier of the ring space; the joiner is a fresh node (`FreshJoiner`);
the single attempt of `Join` reported success. `Mem net peer` is NOT needed: a request through a dead
or unknown peer fails, which `h` excludes. Neither is any fuel side condition: `h` says the routing
finished, and the hand-off's own range check `Between(prev, j, s)` places `j` whatever the route. -/
theorem join_preserves_stable (net : Net) (hs : Stable net) (hq : Quiescent net) (j peer : Nat)
    (hj : j < M) (hfresh : FreshJoiner net j) (net' : Net) (h : join net j peer = (net', none)) :
    Stable net' ∧ Quiescent net' ∧ Mem net' j ∧ (∀ m, Mem net' m ↔ (Mem net m ∨ m = j)) := by
  obtain ⟨ndj, hgj, _, hcr, hsur, hfin⟩ := hfresh.present
  unfold join at h
  cases hb : joinBegin net j peer with
  | mk net3 r =>
    cases r with
    | some e => simp [hb] at h
    | none =>
      simp only [hb] at h
      simp at h
      subst h
      obtain ⟨s, prev, c, hsh⟩ := shape_begin net hs hq j peer hj ndj hgj hcr hsur hfin net3 hb
      unfold joinEnd
      exact shape_final c (shape_release c (shape_advise c (shape_tasks c hsh)))

/-- `Stable ∧ Quiescent` is preserved by any sequence of completed graceful joins of fresh nodes -/
inductive Joins : Net → Net → Prop where
  | refl (net : Net) : Joins net net
  | step (net net1 net2 : Net) (j peer : Nat) (hprev : Joins net net1) (hj : j < M)
      (hfresh : FreshJoiner net1 j) (h : join net1 j peer = (net2, none)) : Joins net net2

theorem joins_preserve_stable (net net' : Net) (hjs : Joins net net') (hs : Stable net) (hq : Quiescent net) :
    Stable net' ∧ Quiescent net' := by
  induction hjs with
  | refl => exact ⟨hs, hq⟩
  | step net1 net2 j peer _ hj hfresh h ih =>
    obtain ⟨hs1, hq1⟩ := ih
    obtain ⟨a, b, _⟩ := join_preserves_stable net1 hs1 hq1 j peer hj hfresh net2 h
    exact ⟨a, b⟩

/-! ### progress: on a stable quiescent ring the join of a fresh node through any member succeeds -/

/-- a lookup that starts inside a pointer-closed set only reads nodes of that set -/
theorem findSucc_congr (net net1 : Net) (P : Nat → Prop) (hcl : ClosedP net P)
    (hag : ∀ n, P n → net1.get n = net.get n) (key : Nat) :
    ∀ (fuel n : Nat), P n → findSucc net1 fuel n key = findSucc net fuel n key := by
  intro fuel
  induction fuel with
  | zero => intro n _; rfl
  | succ f ih =>
    intro n hn
    have hg1 := hag n hn
    match stepCase net n key with
    | .none hg => rw [findSucc_none net _ n key hg, findSucc_none net1 _ n key (hg1.trans hg)]
    | .dead nd e hg hc =>
      rw [findSucc_dead net _ n key nd e hg hc, findSucc_dead net1 _ n key nd e (hg1.trans hg) hc]
    | .pred nd hg hc hp =>
      rw [findSucc_pred net _ n key nd hg hc hp, findSucc_pred net1 _ n key nd (hg1.trans hg) hc hp]
    | .nosucc nd hg hc hp hs =>
      rw [findSucc_nosucc net _ n key nd hg hc hp hs, findSucc_nosucc net1 _ n key nd (hg1.trans hg) hc hp hs]
    | .succ nd s hg hc hp hs hb =>
      rw [findSucc_succ_found net _ n key s nd hg hc hp hs hb,
        findSucc_succ_found net1 _ n key s nd (hg1.trans hg) hc hp hs hb]
    | .hop nd s hg hc hp hs hb =>
      rw [findSucc_hop net _ n key s nd hg hc hp hs hb, findSucc_hop net1 _ n key s nd (hg1.trans hg) hc hp hs hb]
      apply ih
      rcases hop_cases n key s nd.fingers with e | ⟨hm, _⟩
      · rw [e]; exact (hcl n hn nd hg hc).1 _ hs
      · exact (hcl n hn nd hg hc).2 _ hm

theorem stable_closed (net : Net) (hs : Stable net) : ClosedP net (Mem net) := by
  intro n _ nd hg hc
  refine ⟨fun t ht => ?_, hs.fingers n nd hg hc⟩
  obtain ⟨s, hsu, hsm, _⟩ := hs.succ n nd hg hc
  rw [hsu] at ht; injection ht with ht; subst ht; exact hsm

/-- the owner's predecessor range contains a non-member identifier strictly -/
theorem geo_owner_between (prev j o : Nat) (hp : prev < M) (hj : j < M) (ho : o < M)
    (hjo : j ≠ o) (hown : dist j o ≤ dist j prev) :
    0 < dist prev j ∧ (dist prev j < dist prev o ∨ prev = o) := by
  have := dist_zero_iff prev o hp ho; have := dist_eq_iff prev j o hp hj ho
  have := dist_zero_iff prev prev hp hp
  have := dist_rebase prev j o hp hj ho; have := dist_rebase prev j prev hp hj hp
  have := dist_lt prev o; have := dist_lt prev j
  omega

/-- **Progress.** On a stable quiescent ring whose lookups for `j` complete within the model's fuel, the
join of a fresh node `j` through ANY live member succeeds (the request is routed to the owner of `j`,
whose hand-off accepts it) — so `join_preserves_stable` is never vacuous on such rings. -/
theorem join_succeeds (net : Net) (hs : Stable net) (hq : Quiescent net) (j peer : Nat) (hj : j < M)
    (hfresh : FreshJoiner net j) (hp : Mem net peer) (hF : LookupsComplete net j) :
    ∃ net', join net j peer = (net', none) := by
  obtain ⟨ndj, hgj, hin, hcr, _, _⟩ := hfresh.present
  have hnj : ¬ Mem net j := by
    rintro ⟨y, hy, hc⟩
    rw [hgj] at hy; injection hy with hy; subst hy
    simp [checkNodeState, hcr, hin] at hc
  -- the net in which the routing runs
  have hag : ∀ n, Mem net n → (net.upd j fun nd => { nd with state := .joining }).get n = net.get n :=
    fun n hn => get_upd_other _ _ _ _ (fun e => hnj (e ▸ hn))
  have hg1j : (net.upd j fun nd => { nd with state := .joining }).get j =
      some { ndj with state := .joining } := by rw [get_upd_same, hgj]; rfl
  have look : ∀ m, Mem net m → ∃ o, findSucc (net.upd j fun nd => { nd with state := .joining }) FUEL m j = .found o ∧
      IsOwner net j o := by
    intro m hm
    obtain ⟨o, ho, hown⟩ := lookup_FUEL_owner net hs j hj hF m hm
    exact ⟨o, by rw [findSucc_congr net _ (Mem net) (stable_closed net hs) hag j FUEL m hm]; exact ho, hown⟩
  obtain ⟨o, hfo, hown⟩ := look peer hp
  obtain ⟨o2, hfo2, hown2⟩ := look o hown.1
  have e2 : o2 = o := owner_unique net hs.lt j o2 o hj hown2 hown
  subst e2
  have hoj : o2 ≠ j := fun e => hnj (e ▸ hown.1)
  obtain ⟨ndo, hgo, hco⟩ := hown.1
  obtain ⟨hact, hup⟩ := hq.active o2 ndo hgo hco
  obtain ⟨ndp, hgp, hcp⟩ := hp
  obtain ⟨_, hupp⟩ := hq.active peer ndp hgp hcp
  have hg1o := (hag o2 hown.1).trans hgo
  have hg1p := (hag peer ⟨ndp, hgp, hcp⟩).trans hgp
  -- the hand-off at the owner succeeds
  obtain ⟨prev, hpr, hpm, _⟩ := hs.pred o2 ndo hgo hco
  have hbt : between prev j o2 false = true := by
    rw [between_open_iff prev j o2 (hs.lt _ hpm) hj (hs.lt _ hown.1)]
    exact geo_owner_between prev j o2 (hs.lt _ hpm) hj (hs.lt _ hown.1) (Ne.symm hoj) (hown.2 prev hpm)
  have hho : ∃ n2 v, handOff (net.upd j fun nd => { nd with state := .joining }) o2 j = (n2, .ok v) := by
    rcases handOff_cases (net.upd j fun nd => { nd with state := .joining }) o2 j with
      ⟨hn, _⟩ | ⟨nd, hg, hna, _⟩ | ⟨nd, hg, _, hpn, _⟩ | ⟨nd, pv, hg, _, hpn, hbf, _⟩ |
      ⟨nd, pv, hg, _, hpn, _, htr, _⟩ | ⟨nd, pv, netT, _, _, _, _, _, hh⟩
    · rw [hg1o] at hn; simp at hn
    · rw [hg1o] at hg; injection hg with hg; subst hg; exact absurd hact hna
    · rw [hg1o] at hg; injection hg with hg; subst hg; rw [hpr] at hpn; simp at hpn
    · rw [hg1o] at hg; injection hg with hg; subst hg
      rw [hpr] at hpn; injection hpn with hpn; subst hpn; rw [hbt] at hbf; simp at hbf
    · exfalso
      unfold transferUp at htr
      simp only at htr
      split at htr
      · simp at htr
      · unfold importAt at htr
        simp [hg1j, hcr] at htr
    · exact ⟨_, _, hh⟩
  obtain ⟨n2, v, hho⟩ := hho
  have atOwner : ∀ fuel, requestToJoin (net.upd j fun nd => { nd with state := .joining }) (fuel+1) o2 j = (n2, .ok v) := by
    intro fuel
    rw [requestToJoin]
    simp only [hg1o, hup, hfo2]
    simp [hoj, hho]
  have hreq : requestToJoin (net.upd j fun nd => { nd with state := .joining }) FUEL peer j = (n2, .ok v) := by
    show requestToJoin _ (254+1+1) peer j = _
    rw [requestToJoin]
    simp only [hg1p, hupp, hfo]
    by_cases e : o2 = peer
    · subst e; simp [hoj, hho]
    · simp [hoj, e, atOwner 254]
  obtain ⟨pv, sl⟩ := v
  have hnone : (join net j peer).2 = none := by
    unfold join joinBegin
    simp [hgj, hin, hreq]
  exact ⟨(join net j peer).1, Prod.ext rfl hnone⟩

/-! ### non-vacuity -/

theorem eq_of_snd_none {α β : Type} (p : α × Option β) (h : p.2 = none) : p = (p.1, none) := by
  rw [← h]

/-- a node exactly as `new` leaves it is a fresh joiner -/
theorem fresh_of_new (net : Net) (j : Nat) (h : net.get j = some ({} : Node)) : FreshJoiner net j :=
  ⟨⟨_, h, rfl, rfl, rfl, fun f hf => by simp at hf⟩⟩

/-- the three-node ring of C01 (ids 0, 5, 2^48-1 with wrap-around, one departed node still present)
plus a node `3` as `new` leaves it -/
def joinRing : Net := Specter.C01.ring3 ++ [(3, ({} : Node))]

/-- the one-node ring of C01 plus a new node `9` (the case `prev = s`) -/
def joinRing1 : Net := Specter.C01.ring1 ++ [(9, ({} : Node))]

/-- every hypothesis of `join_preserves_stable` and of `join_succeeds` holds for `joinRing`, joiner 3,
through peer 0 (the owner of 3 is node 5, reached by routing) … -/
example : Stable joinRing ∧ Quiescent joinRing ∧ 3 < M ∧ FreshJoiner joinRing 3 ∧ Mem joinRing 0 ∧
    LookupsComplete joinRing 3 ∧ (join joinRing 3 0).2 = none :=
  ⟨stable_of_stableB _ (by decide), quiescent_of_quiescentB _ (by decide), by decide, fresh_of_new _ _ rfl,
   (memB_iff _ _).mp (by decide), lookupsComplete_of_B _ _ (by decide), by decide⟩

-- … the join inserts 3 between 0 and 5 …
set_option maxRecDepth 8192 in
example : ((join joinRing 3 0).1.get 3).map (fun x => (x.state, x.pred, x.succs.head?)) =
    some (.active, some 0, some 5) := by decide
set_option maxRecDepth 8192 in
example : ((join joinRing 3 0).1.get 5).map (fun x => (x.state, x.pred, x.surrogate)) =
    some (.active, some 3, some 3) := by decide
set_option maxRecDepth 8192 in
example : ((join joinRing 3 0).1.get 0).map (fun x => x.succs.head?) = some (some 3) := by decide

/-- … and the theorem applies to it (also to the one-node ring, where `prev = s`). -/
example : Stable (join joinRing 3 0).1 ∧ Quiescent (join joinRing 3 0).1 ∧ Mem (join joinRing 3 0).1 3 :=
  have h := join_preserves_stable joinRing (stable_of_stableB _ (by decide)) (quiescent_of_quiescentB _ (by decide))
    3 0 (by decide) (fresh_of_new _ _ rfl) (join joinRing 3 0).1 (eq_of_snd_none _ (by decide))
  ⟨h.1, h.2.1, h.2.2.1⟩

example : Stable (join joinRing1 9 7).1 ∧ Quiescent (join joinRing1 9 7).1 ∧ Mem (join joinRing1 9 7).1 9 :=
  have h := join_preserves_stable joinRing1 (stable_of_stableB _ (by decide)) (quiescent_of_quiescentB _ (by decide))
    9 7 (by decide) (fresh_of_new _ _ rfl) (join joinRing1 9 7).1 (eq_of_snd_none _ (by decide))
  ⟨h.1, h.2.1, h.2.2.1⟩

/-- executable form of `FreshJoiner` -/
def freshB (net : Net) (j : Nat) : Bool :=
  match net.get j with
  | some nd => nd.state == .inactive && !nd.crashed && nd.surrogate.isNone &&
      nd.fingers.all (fun f => match f with | some f => memB net f | none => true)
  | none => false

theorem fresh_of_freshB (net : Net) (j : Nat) (h : freshB net j = true) : FreshJoiner net j := by
  unfold freshB at h
  cases hg : net.get j with
  | none => simp [hg] at h
  | some nd =>
    simp only [hg, Bool.and_eq_true, beq_iff_eq, Bool.not_eq_true', Option.isNone_iff_eq_none,
      List.all_eq_true] at h
    obtain ⟨⟨⟨h1, h2⟩, h3⟩, h4⟩ := h
    exact ⟨⟨nd, hg, h1, h2, h3, fun f hf => (memB_iff net f).mp (by simpa using h4 (some f) hf)⟩⟩

/-- two joins in sequence (`Joins`): 3 joins through 0, then 4 joins through the new member 3 -/
def joinRing2 : Net := Specter.C01.ring3 ++ [(3, ({} : Node)), (4, ({} : Node))]

set_option maxRecDepth 8192 in
example : Joins joinRing2 (join (join joinRing2 3 0).1 4 3).1 :=
  Joins.step _ _ _ 4 3
    (Joins.step _ _ _ 3 0 (Joins.refl _) (by decide) (fresh_of_freshB _ _ (by decide))
      (eq_of_snd_none _ (by decide)))
    (by decide) (fresh_of_freshB _ _ (by decide)) (eq_of_snd_none _ (by decide))

end Specter.C02
