import SpecterModel.C01.Props
import SpecterModel.C05.Props
/-!
# C03 — Acknowledged KV data survives graceful joins and leaves

Two halves.

**Routing (this file, `kv_at_owner`).** On a stable, quiescent ring every routed KV operation, issued
through ANY member, is executed on the store of the key's owner and nowhere else: the net changes
exactly by `kvLocal` applied to the owner's store. Hence all members see one sequential store per key:
a read returns the latest acknowledged write whatever the entry nodes were.

**Hand-off (C05 file).** `transferUp` / `transferDown` move exactly the keys of the range that changes
owner (`transferUp_source`, `transferUp_target`, `transferDown_source_empty`), so the owner of a key
after a join or leave is the node that holds its data.

The churn harness runs real nodes through random interleavings of KV operations, joins and leaves and
checks every acknowledged read against a ghost sequential store (driver `Churn.ghostStep`).
-/
namespace Specter.C03
open Specter.Ring Specter.C01 Specter.C09

/-- all live members serve requests and no hand-off is pending: state Active, not crashed, and the
surrogate pointer is nil or equals the predecessor (what a completed join leaves behind) -/
structure Quiescent (net : Net) : Prop where
  active : ∀ n nd, net.get n = some nd → checkNodeState nd false = none → nd.state = .active ∧ nd.crashed = false
  surrogate : ∀ n nd, net.get n = some nd → checkNodeState nd false = none →
      nd.surrogate = none ∨ (nd.surrogate = nd.pred ∧ nd.pred ≠ some n)

theorem found_unique (net : Net) (n key : Nat) (f f' a b : Nat)
    (h : findSucc net f n key = .found a) (h' : findSucc net f' n key = .found b) : a = b := by
  have mono : ∀ k, findSucc net (f + k) n key = .found a := by
    intro k; induction k with
    | zero => exact h
    | succ k ih => exact findSucc_fuel_mono net _ n key _ ih (by simp)
  have mono' : ∀ k, findSucc net (f' + k) n key = .found b := by
    intro k; induction k with
    | zero => exact h'
    | succ k ih => exact findSucc_fuel_mono net _ n key _ ih (by simp)
  have e1 := mono f'; have e2 := mono' f
  rw [Nat.add_comm] at e2; rw [e1] at e2; injection e2

/-- the owner's own predecessor range contains the key -/
theorem owner_in_pred_range (net : Net) (hs : Stable net) (key o p : Nat) (hk : key < M)
    (ho : IsOwner net key o) (nd : Node) (hg : net.get o = some nd) (hc : checkNodeState nd false = none)
    (hp : nd.pred = some p) : between p key o true = true := by
  obtain ⟨p', hp', hpm, hpmin⟩ := hs.pred o nd hg hc
  rw [hp] at hp'; injection hp' with hp'; subst hp'
  have hoM := hs.lt o ho.1; have hpM := hs.lt p hpm
  rw [between_closed_iff p key o hpM hk hoM]
  have h1 := ho.2 p hpm
  have h2 := hpmin o ho.1
  have := dist_cases p key hpM hk; have := dist_cases p o hpM hoM
  have := dist_cases key o hk hoM; have := dist_cases key p hk hpM; have := M_val
  omega

/-- the surrogate of a quiescent owner never captures a key of its own range -/
theorem surrogate_skips (net : Net) (hs : Stable net) (key o p : Nat) (hk : key < M)
    (ho : IsOwner net key o) (nd : Node) (hg : net.get o = some nd) (hc : checkNodeState nd false = none)
    (hp : nd.pred = some p) (hne : p ≠ o) : between o key p true = false := by
  have hin := owner_in_pred_range net hs key o p hk ho nd hg hc hp
  obtain ⟨p', hp', hpm, _⟩ := hs.pred o nd hg hc
  rw [hp] at hp'; injection hp' with hp'; subst hp'
  have hoM := hs.lt o ho.1; have hpM := hs.lt p hpm
  rw [between_closed_iff p key o hpM hk hoM] at hin
  cases hb : between o key p true with
  | false => rfl
  | true =>
    rw [between_closed_iff o key p hoM hk hpM] at hb
    have := dist_cases p key hpM hk; have := dist_cases p o hpM hoM
    have := dist_cases o key hoM hk; have := dist_cases o p hoM hpM; have := M_val
    omega

/-- local execution at the owner -/
theorem kvAt_local (net : Net) (hs : Stable net) (hq : Quiescent net) (o : Nat) (k : String) (h : Nat) (op : KvOp)
    (hk : h < M) (ho : IsOwner net h o) (fuel : Nat)
    (hfo : findSucc net FUEL o h = .found o) (nd : Node) (hg : net.get o = some nd) (hc : checkNodeState nd false = none) :
    kvAt net (fuel+1) o k h op =
      (net.upd o (fun nd' => { nd' with store := (kvLocal nd.store k h op).1 }), (kvLocal nd.store k h op).2) := by
  obtain ⟨hact, hup⟩ := hq.active o nd hg hc
  obtain ⟨p, hp, _, _⟩ := hs.pred o nd hg hc
  have hin := owner_in_pred_range net hs h o p hk ho nd hg hc hp
  unfold kvAt
  simp only [hg, hup, hfo, bne_self_eq_false, hact]
  rcases hq.surrogate o nd hg hc with hsn | ⟨hsp, hne⟩
  · simp [hsn, hp, hin]
  · rw [hp] at hsp hne
    have hpo : p ≠ o := fun e => hne (by rw [e])
    have := surrogate_skips net hs h o p hk ho nd hg hc hp hpo
    simp [hsp, this, hp, hin]

/-- lookups of the model complete within its fuel constant (an executable side condition: rings of
fewer than `FUEL` hops; the harness rings are far below) -/
def LookupsComplete (net : Net) (key : Nat) : Prop :=
  ∀ m, Mem net m → ∃ o, findSucc net FUEL m key = .found o

theorem lookup_FUEL_owner (net : Net) (hs : Stable net) (key : Nat) (hk : key < M)
    (hF : LookupsComplete net key) (m : Nat) (hm : Mem net m) :
    ∃ o, findSucc net FUEL m key = .found o ∧ IsOwner net key o := by
  obtain ⟨o', ho'⟩ := hF m hm
  obtain ⟨f, o, hres, ho⟩ := lookup_correct net hs m key hm hk
  have := found_unique net m key FUEL f o' o ho' hres
  subst this
  exact ⟨o', ho', ho⟩

/-- **C03 (routing).** On a stable quiescent ring, a KV operation issued through ANY member is
executed exactly once, on the store of the key's owner; no other node's store, pointer or state
changes. All entry nodes therefore observe the same per-key sequential store. -/
theorem kv_at_owner (net : Net) (hs : Stable net) (hq : Quiescent net) (n : Nat) (k : String) (h : Nat)
    (op : KvOp) (hk : h < M) (hn : Mem net n) (hF : LookupsComplete net h) (fuel : Nat) :
    ∃ o ndo, IsOwner net h o ∧ net.get o = some ndo ∧
      kvAt net (fuel+2) n k h op =
        (net.upd o (fun nd' => { nd' with store := (kvLocal ndo.store k h op).1 }), (kvLocal ndo.store k h op).2) := by
  obtain ⟨o, hfo, ho⟩ := lookup_FUEL_owner net hs h hk hF n hn
  obtain ⟨ndo, hgo, hco⟩ := ho.1
  obtain ⟨o2, hfo2, ho2⟩ := lookup_FUEL_owner net hs h hk hF o ho.1
  have : o2 = o := owner_unique net hs.lt h o2 o hk ho2 ho
  subst this
  refine ⟨o2, ndo, ho, hgo, ?_⟩
  by_cases hon : o2 = n
  · subst hon
    exact kvAt_local net hs hq o2 k h op hk ho (fuel+1) hfo2 ndo hgo hco
  · obtain ⟨ndn, hgn, hcn⟩ := hn
    obtain ⟨_, hupn⟩ := hq.active n ndn hgn hcn
    have step : kvAt net (fuel+2) n k h op = kvAt net (fuel+1) o2 k h op := by
      rw [kvAt]
      simp only [hgn, hupn, hfo]
      have : (o2 != n) = true := by simpa using hon
      simp [this]
    rw [step]
    exact kvAt_local net hs hq o2 k h op hk ho fuel hfo2 ndo hgo hco

/-- non-vacuity: the three-node ring of C01 is stable and quiescent; a put through node 0 for a key
hashing to 3 lands on node 5 (the owner) only. -/
example : (kvAt Specter.C01.ring3 3 0 "k" 3 (.put "v")).2 = .unit := by decide
example : ((kvAt Specter.C01.ring3 3 0 "k" 3 (.put "v")).1.get 5).map (·.store.map (·.key)) = some ["k"] := by decide
example : ((kvAt Specter.C01.ring3 3 0 "k" 3 (.put "v")).1.get 0).map (·.store.length) = some 0 := by decide

end Specter.C03

namespace Specter.C03
open Specter.Ring Specter.C01 Specter.C09

/-! ### executable forms of the hypotheses (non-vacuity, and usable by drivers) -/

def quiescentB (net : Net) : Bool :=
  net.all fun q =>
    if memB net q.1 then
      match net.get q.1 with
      | some nd => nd.state == .active && !nd.crashed &&
          (nd.surrogate.isNone || (nd.surrogate == nd.pred && nd.pred != some q.1))
      | none => false
    else true

theorem quiescent_of_quiescentB (net : Net) (h : quiescentB net = true) : Quiescent net := by
  unfold quiescentB at h
  rw [List.all_eq_true] at h
  have key : ∀ n nd, net.get n = some nd → checkNodeState nd false = none →
      nd.state = .active ∧ nd.crashed = false ∧ (nd.surrogate = none ∨ (nd.surrogate = nd.pred ∧ nd.pred ≠ some n)) := by
    intro n nd hg hc
    have := h _ (get_mem net n nd hg)
    have hmb : memB net n = true := (memB_iff net n).mpr ⟨nd, hg, hc⟩
    simp only [hmb, if_true, hg, Bool.and_eq_true, Bool.or_eq_true, beq_iff_eq, Bool.not_eq_true',
      Option.isNone_iff_eq_none, bne_iff_ne, ne_eq] at this
    exact ⟨this.1.1, this.1.2, this.2⟩
  exact ⟨fun n nd hg hc => ⟨(key n nd hg hc).1, (key n nd hg hc).2.1⟩, fun n nd hg hc => (key n nd hg hc).2.2⟩

def lookupsCompleteB (net : Net) (key : Nat) : Bool :=
  net.all fun q => !memB net q.1 || (match findSucc net FUEL q.1 key with | .found _ => true | .err _ => false)

theorem lookupsComplete_of_B (net : Net) (key : Nat) (h : lookupsCompleteB net key = true) :
    LookupsComplete net key := by
  intro m hm
  obtain ⟨nd, hg, hc⟩ := hm
  unfold lookupsCompleteB at h
  rw [List.all_eq_true] at h
  have := h _ (get_mem net m nd hg)
  have hmb : memB net m = true := (memB_iff net m).mpr ⟨nd, hg, hc⟩
  simp only [hmb, Bool.not_true, Bool.false_or] at this
  cases hf : findSucc net FUEL m key with
  | found o => exact ⟨o, rfl⟩
  | err e => simp [hf] at this

/-- the hypotheses of `kv_at_owner` hold for the three-node ring of C01 (wrap-around ids, a departed node
still present) and a key hashing to 3 -/
example : Stable Specter.C01.ring3 ∧ Quiescent Specter.C01.ring3 ∧ LookupsComplete Specter.C01.ring3 3 :=
  ⟨stable_of_stableB _ (by decide), quiescent_of_quiescentB _ (by decide), lookupsComplete_of_B _ _ (by decide)⟩

end Specter.C03
