import SpecterModel.Util
import SpecterModel.C50.Model
/-!
C50 line-protocol driver.
  conn <recorder 0|1> <conns> <table>  =>  <ids>
conns = comma list of `key|addr|unknown(0/1)|realMeasurementKey` (node id = position), `-` = none
table = comma list of `mkey|age;age;…|avg` (ages in ms of the recorded points, `_` = none; avg = the
        implementation's Snapshot(mkey,10s).Average in ns, `_` = snapshot nil; optional 4th field `sent;lost` = probes
        recorded for the key, which the model ignores: only samples inside the window make a key measured), `-` = empty
-/
namespace Specter.C50
open Specter.Util

def parseConns (t : String) : Option (List (Node × String)) :=
  if t = "-" then some [] else
  (t.splitOn ",").zipIdx.mapM fun ((e : String), i) =>
    match e.splitOn "|" with
    | [k, a, u, mk] => (parseBool (if u = "1" then "true" else if u = "0" then "false" else u)).map
        fun u => (Node.mk i k a u, mk)
    | _ => none

def parseInt? (s : String) : Option Int :=
  if s.startsWith "-" then (s.drop 1).toString.toNat?.map (fun n => -(n : Int)) else s.toNat?.map Int.ofNat

def parseTable (t : String) : Option (List Entry) :=
  if t = "-" then some [] else
  (t.splitOn ",").mapM fun (e : String) =>
    match e.splitOn "|" with
    | k :: ages :: avg :: _probes =>
      let ages? := if ages = "_" then some [] else (ages.splitOn ";").mapM (·.toNat?)
      let avg? : Option (Option Int) := if avg = "_" then some none else (parseInt? avg).map some
      match ages?, avg? with
      | some a, some v => some ⟨k, a, v⟩
      | _, _ => none
    | _ => none

def ids (l : List Node) : String := if l.isEmpty then "-" else ",".intercalate (l.map (toString ·.id))

def step (_ : Unit) (toks : List String) (rhs : String) : Unit × Verdict :=
  match toks with
  | ["reset"] => ((), .ok)
  | ["conn", r, c, t] =>
    match parseConns c, parseTable t, (if rhs = "-" then some [] else (rhs.splitOn ",").mapM (·.toNat?)) with
    | some cs, some tab, some out =>
      let conns := cs.map (·.1)
      let rec_ := r = "1"
      -- statement-level verdict, using the real measurement keys
      let realKey (i : Nat) : Option String := (cs[i]?).map (·.2)
      let meas (i : Nat) : Option Int := (realKey i).bind (snapshot tab)
      let okPair (i j : Nat) : Bool :=
        match meas i, meas j with
        | some l, some r => decide (l ≤ r)
        | some _, none => true
        | none, some _ => false
        | none, none => true
      let rec ordered : List Nat → Bool
        | a :: b :: rest => okPair a b && ordered (b :: rest)
        | _ => true
      if out.length > 3 then ((), .spec s!"{out.length} gateways used, at most 3 allowed")
      else if out.any (· ≥ conns.length) ∨ out.eraseDups.length ≠ out.length then ((), .spec "result is not a set of connected nodes")
      else if rec_ ∧ !ordered out then ((), .spec "a node with a recent measurement comes after an unmeasured or slower one")
      else if cs.any (fun (n, mk) => mkey n ≠ mk) then ((), .diff "measurement key differs from the model's MakeMeasurementKey")
      else if tab.any (fun e => (e.ages.any (· ≤ windowMs)) ≠ e.avg.isSome) then
        ((), .diff "Snapshot window differs from the model (point within 10 s <-> snapshot non-nil)")
      else
        let m := connected conns rec_ (fun n => snapshot tab (mkey n))
        if m.map (·.id) ≠ out then ((), .diff (ids m)) else ((), .ok)
    | _, _, _ => ((), .bad "conn args")
  | _ => ((), .bad "unknown op")

def main : IO Unit := runLoop () step

end Specter.C50
