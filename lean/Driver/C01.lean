import SpecterModel.C01.Drv

def main : IO Unit := Specter.C01.main
