import SpecterModel.C23.Model
/-!
# C23 — The SQLite store keeps every committed operation across a crash; listings stay consistent

All theorems are about `Model.lean` (four tables, one atomic transaction per API call, the
`updateKeyTracker` case analysis) for ALL histories of API calls, keys, values and hash functions.
`tracker_consistent`: the tracker table (what `ListKeys`/`RangeKeys` read) agrees with the three data
tables after any history.  `tx_atomic_prefix`: under SQLite's transaction atomicity (the explicit
crash semantics `Recovered`) a kill leaves the state of a prefix of the issued calls containing all
acknowledged ones, and that state is consistent.  Durability of a COMMIT against a process kill
(WAL, synchronous=NORMAL) is SQLite behaviour: exercised by the harness, not proved.
-/
namespace Specter.C23

/-- which kinds of data the tables hold for `k` -/
def pres (st : Store) (k : String) : Flags := ⟨(st.simple k).isSome, !(st.pfx k).isEmpty, (st.lease k).isSome⟩
/-- the flags the tracker (and hence `ListKeys`) reports for `k` -/
def tflags (st : Store) (k : String) : Flags := match st.tracker k with | none => Flags.zero | some (_, f) => f

def KInv (st : Store) (k : String) : Prop :=
  tflags st k = pres st k ∧ ∀ hv f, st.tracker k = some (hv, f) → f ≠ Flags.zero
def FInv (st : Store) : Prop := ∀ k, KInv st k
def HInv (h : String → Nat) (st : Store) : Prop := ∀ k hv f, st.tracker k = some (hv, f) → hv = h k

@[simp] theorem fset_same {α} (f : String → α) (k : String) (v : α) : fset f k v k = v := by simp [fset]
theorem fset_other {α} (f : String → α) (k k' : String) (v : α) (h : k' ≠ k) : fset f k v k' = f k' := by simp [fset, h]

theorem updTracker_spec (h : String → Nat) (st : Store) (k : String) (add rem : Flags)
    (hd : add = Flags.zero ∨ rem = Flags.zero)
    (st' : Store) (hok : updTracker h st k add rem = .ok st') :
    st'.simple = st.simple ∧ st'.pfx = st.pfx ∧ st'.lease = st.lease ∧
    (∀ k', k' ≠ k → st'.tracker k' = st.tracker k') ∧
    tflags st' k = ((tflags st k).or add).andNot (remEff st k rem) ∧
    (∀ hv f, st'.tracker k = some (hv, f) → f ≠ Flags.zero ∧ hv = h k) := by
  unfold updTracker at hok
  cases htr : st.tracker k with
  | none =>
    rw [htr] at hok; simp only at hok
    split at hok
    · next hz =>
      injection hok with hok; subst hok
      refine ⟨rfl, rfl, rfl, fun _ _ => rfl, ?_, ?_⟩
      · simp [tflags, htr, hz, Flags.or, Flags.andNot, Flags.zero]
      · intro hv f hf; rw [htr] at hf; cases hf
    · next hz =>
      injection hok with hok; subst hok
      refine ⟨rfl, rfl, rfl, fun k' hk' => fset_other _ _ _ _ hk', ?_, ?_⟩
      · rcases hd with hd | hd
        · exact absurd hd hz
        · subst hd
          simp [tflags, htr, Flags.or, Flags.andNot, Flags.zero, remEff]
      · intro hv f hf; simp at hf; obtain ⟨rfl, rfl⟩ := hf; exact ⟨hz, rfl⟩
  | some e =>
    obtain ⟨hv, f⟩ := e
    rw [htr] at hok; simp only at hok
    split at hok
    · cases hok
    · next hh =>
      have hh : hv = h k := by simpa using hh
      split at hok
      · next hz =>
        injection hok with hok; subst hok
        refine ⟨rfl, rfl, rfl, fun k' hk' => fset_other _ _ _ _ hk', ?_, ?_⟩
        · simp [tflags, htr]; exact hz.symm
        · intro hv' f' hf; simp at hf
      · next hz =>
        injection hok with hok; subst hok
        refine ⟨rfl, rfl, rfl, fun k' hk' => fset_other _ _ _ _ hk', ?_, ?_⟩
        · simp [tflags, htr]
        · intro hv' f' hf; simp at hf; obtain ⟨rfl, rfl⟩ := hf; exact ⟨hz, hh⟩

theorem pres_congr {a b : Store} (h1 : a.simple = b.simple) (h2 : a.pfx = b.pfx) (h3 : a.lease = b.lease) (k : String) :
    pres a k = pres b k := by simp [pres, h1, h2, h3]

/-- data tables changed (only) at `k`, then `updateKeyTracker(k, add, rem)`: the invariant is restored -/
theorem upd_preserves (h : String → Nat) (st0 st : Store) (k : String) (add rem : Flags)
    (hinv : FInv st0) (htr : st.tracker = st0.tracker)
    (hother : ∀ k', k' ≠ k → pres st k' = pres st0 k')
    (hd : add = Flags.zero ∨ rem = Flags.zero)
    (hflags : ((pres st0 k).or add).andNot (remEff st k rem) = pres st k)
    (st' : Store) (hok : updTracker h st k add rem = .ok st') : FInv st' := by
  obtain ⟨h1, h2, h3, h4, h5, h6⟩ := updTracker_spec h st k add rem hd st' hok
  intro k'
  by_cases hk : k' = k
  · subst hk
    refine ⟨?_, fun hv f hf => (h6 hv f hf).1⟩
    rw [h5, pres_congr h1 h2 h3, ← hflags]
    have : tflags st k' = tflags st0 k' := by simp [tflags, htr]
    rw [this, (hinv k').1]
  · have ht : st'.tracker k' = st0.tracker k' := by rw [h4 k' hk, htr]
    refine ⟨?_, fun hv f hf => (hinv k').2 hv f (ht ▸ hf)⟩
    have : tflags st' k' = tflags st0 k' := by simp [tflags, ht]
    rw [this, pres_congr h1 h2 h3, hother k' hk]; exact (hinv k').1

theorem upd_preserves_hash (h : String → Nat) (st0 st : Store) (k : String) (add rem : Flags)
    (hinv : HInv h st0) (htr : st.tracker = st0.tracker) (hd : add = Flags.zero ∨ rem = Flags.zero)
    (st' : Store) (hok : updTracker h st k add rem = .ok st') : HInv h st' := by
  obtain ⟨_, _, _, h4, _, h6⟩ := updTracker_spec h st k add rem hd st' hok
  intro k' hv f hf
  by_cases hk : k' = k
  · subst hk; exact (h6 hv f hf).2
  · rw [h4 k' hk, htr] at hf; exact hinv k' hv f hf

theorem addChild_ne (l : List String) (c : String) : (addChild l c).isEmpty = false := by
  unfold addChild; split
  · next hm => cases l with
    | nil => simp at hm
    | cons => rfl
  · rfl

theorem foldl_addChild_isEmpty (cs l : List String) :
    (cs.foldl addChild l).isEmpty = (l.isEmpty && cs.isEmpty) := by
  induction cs generalizing l with
  | nil => simp
  | cons c cs ih => simp [List.foldl, ih, addChild_ne]

macro "c23_flags" : tactic => `(tactic|
  (simp [pres, Flags.or, Flags.andNot, remEff, Flags.zero, Flags.S, Flags.P, Flags.L, fset]))

theorem pres_other_simple (st : Store) (k : String) (v : Option String) (k' : String) (hk : k' ≠ k) :
    pres { st with simple := fset st.simple k v } k' = pres st k' := by simp [pres, fset, hk]
theorem pres_other_pfx (st : Store) (k : String) (v : List String) (k' : String) (hk : k' ≠ k) :
    pres { st with pfx := fset st.pfx k v } k' = pres st k' := by simp [pres, fset, hk]
theorem pres_other_lease (st : Store) (k : String) (v : Option Nat) (k' : String) (hk : k' ≠ k) :
    pres { st with lease := fset st.lease k v } k' = pres st k' := by simp [pres, fset, hk]

theorem pres_importData (st : Store) (k : String) (t : Transfer) :
    pres (importData st k t) k = (pres st k).or (importFlags t) := by
  unfold importData importFlags pres Flags.or
  cases importedSimple t <;> by_cases hl : t.lease = 0 <;>
    simp [hl, foldl_addChild_isEmpty, Bool.not_and]

theorem pres_importData_other (st : Store) (k : String) (t : Transfer) (k' : String) (hk : k' ≠ k) :
    pres (importData st k t) k' = pres st k' := by
  unfold importData pres
  cases importedSimple t <;> by_cases hl : t.lease = 0 <;> simp [hl, fset, hk]

theorem importItem_preserves (h : String → Nat) (st : Store) (k : String) (t : Transfer) (hi : FInv st)
    (st' : Store) (hok : importItem h st k t = .ok st') : FInv st' := by
  refine upd_preserves h st (importData st k t) k (importFlags t) Flags.zero hi rfl
    (pres_importData_other st k t) (Or.inr rfl) ?_ st' hok
  rw [pres_importData]; simp [remEff, Flags.zero, Flags.andNot]

theorem importAll_preserves (h : String → Nat) (items : List (String × Option Transfer)) (st : Store) (hi : FInv st)
    (st' : Store) (hok : importAll h items st = .ok st') : FInv st' := by
  induction items generalizing st with
  | nil => simp [importAll] at hok; subst hok; exact hi
  | cons it rest ih =>
    obtain ⟨k, t⟩ := it
    cases t with
    | none => simp [importAll] at hok
    | some t =>
      simp only [importAll] at hok
      cases hit : importItem h st k t with
      | error e => rw [hit] at hok; cases hok
      | ok st1 => rw [hit] at hok; exact ih st1 (importItem_preserves h st k t hi st1 hit) hok

theorem removeOne_preserves (st : Store) (k : String) (hi : FInv st) : FInv (removeOne st k) := by
  intro k'
  by_cases hk : k' = k
  · subst hk; refine ⟨by simp [tflags, pres, removeOne, Flags.zero], ?_⟩
    intro hv f hf; simp [removeOne] at hf
  · refine ⟨?_, ?_⟩
    · have := (hi k').1; simpa [tflags, pres, removeOne, fset, hk] using this
    · intro hv f hf; simp [removeOne, fset, hk] at hf; exact (hi k').2 hv f hf

theorem removeAll_preserves (ks : List String) (st : Store) (hi : FInv st) : FInv (ks.foldl removeOne st) := by
  induction ks generalizing st with
  | nil => exact hi
  | cons k ks ih => exact ih _ (removeOne_preserves st k hi)

theorem premove_flags (st : Store) (k : String) (l' : List String)
    (hsub : l'.isEmpty = false → (st.pfx k).isEmpty = false) :
    ((pres st k).or Flags.zero).andNot (remEff { st with pfx := fset st.pfx k l' } k Flags.P) =
      pres { st with pfx := fset st.pfx k l' } k := by
  cases hl : l'.isEmpty with
  | true => simp [pres, Flags.or, Flags.andNot, remEff, Flags.zero, Flags.P, fset, hl]
  | false => simp [pres, Flags.or, Flags.andNot, remEff, Flags.zero, Flags.P, fset, hl, hsub hl]

theorem body_preserves (h : String → Nat) (st : Store) (op : Op) (hi : FInv st) (st' : Store)
    (hok : body h st op = .ok st') : FInv st' := by
  cases op with
  | put k v =>
    refine upd_preserves h st { st with simple := fset st.simple k (some v) } k Flags.S Flags.zero hi rfl
      (pres_other_simple st k _) (Or.inr rfl) ?_ st' hok
    c23_flags
  | delete k =>
    refine upd_preserves h st { st with simple := fset st.simple k none } k Flags.zero Flags.S hi rfl
      (pres_other_simple st k _) (Or.inl rfl) ?_ st' hok
    c23_flags
  | pappend k c =>
    simp only [body] at hok
    split at hok
    · cases hok
    · refine upd_preserves h st { st with pfx := fset st.pfx k (c :: st.pfx k) } k Flags.P Flags.zero hi rfl
        (pres_other_pfx st k _) (Or.inr rfl) ?_ st' hok
      c23_flags
  | premove k c =>
    refine upd_preserves h st { st with pfx := fset st.pfx k ((st.pfx k).filter (· ≠ c)) } k Flags.zero Flags.P hi rfl
      (pres_other_pfx st k _) (Or.inl rfl) ?_ st' hok
    apply premove_flags
    intro hf
    cases hl : st.pfx k with
    | nil => simp [hl] at hf
    | cons => rfl
  | acquire k ttl now next =>
    simp only [body] at hok
    split at hok
    · cases hok
    · split at hok
      · refine upd_preserves h st { st with lease := fset st.lease k (some next) } k Flags.L Flags.zero hi rfl
          (pres_other_lease st k _) (Or.inr rfl) ?_ st' hok
        c23_flags
      · cases hok
  | renew k ttl prev now next =>
    simp only [body] at hok
    split at hok
    · cases hok
    · split at hok
      · split at hok
        · refine upd_preserves h st { st with lease := fset st.lease k (some next) } k Flags.L Flags.zero hi rfl
            (pres_other_lease st k _) (Or.inr rfl) ?_ st' hok
          c23_flags
        · cases hok
      · cases hok
  | release k tok =>
    simp only [body] at hok
    split at hok
    · split at hok
      · refine upd_preserves h st { st with lease := fset st.lease k none } k Flags.zero Flags.L hi rfl
          (pres_other_lease st k _) (Or.inl rfl) ?_ st' hok
        c23_flags
      · cases hok
    · cases hok
  | imp items => exact importAll_preserves h items st hi st' hok
  | removeKeys ks => simp only [body] at hok; injection hok with hok; subst hok; exact removeAll_preserves ks st hi

theorem upd_hash' {h : String → Nat} {st0 st : Store} {k : String} {add rem : Flags} {st' : Store}
    (hok : updTracker h st k add rem = .ok st') (hi : HInv h st0) (htr : st.tracker = st0.tracker)
    (hd : add = Flags.zero ∨ rem = Flags.zero) : HInv h st' :=
  upd_preserves_hash h st0 st k add rem hi htr hd st' hok

theorem importAll_preserves_hash (h : String → Nat) (items : List (String × Option Transfer)) (st : Store)
    (hi : HInv h st) (st' : Store) (hok : importAll h items st = .ok st') : HInv h st' := by
  induction items generalizing st with
  | nil => simp [importAll] at hok; subst hok; exact hi
  | cons it rest ih =>
    obtain ⟨k, t⟩ := it
    cases t with
    | none => simp [importAll] at hok
    | some t =>
      simp only [importAll] at hok
      cases hit : importItem h st k t with
      | error e => rw [hit] at hok; cases hok
      | ok st1 =>
        rw [hit] at hok
        exact ih st1 (upd_hash' hit hi rfl (Or.inr rfl)) hok

theorem removeAll_preserves_hash (h : String → Nat) (ks : List String) (st : Store) (hi : HInv h st) :
    HInv h (ks.foldl removeOne st) := by
  induction ks generalizing st with
  | nil => exact hi
  | cons k ks ih =>
    apply ih
    intro k' hv f hf
    by_cases hk : k' = k
    · subst hk; simp [removeOne] at hf
    · simp [removeOne, fset, hk] at hf; exact hi k' hv f hf

theorem body_preserves_hash (h : String → Nat) (st : Store) (op : Op) (hi : HInv h st) (st' : Store)
    (hok : body h st op = .ok st') : HInv h st' := by
  cases op with
  | put k v => simp only [body] at hok; exact upd_hash' hok hi rfl (Or.inr rfl)
  | delete k => simp only [body] at hok; exact upd_hash' hok hi rfl (Or.inl rfl)
  | pappend k c =>
    simp only [body] at hok
    split at hok
    · cases hok
    · exact upd_hash' hok hi rfl (Or.inr rfl)
  | premove k c => simp only [body] at hok; exact upd_hash' hok hi rfl (Or.inl rfl)
  | acquire k ttl now next =>
    simp only [body] at hok
    split at hok
    · cases hok
    · split at hok
      · exact upd_hash' hok hi rfl (Or.inr rfl)
      · cases hok
  | renew k ttl prev now next =>
    simp only [body] at hok
    split at hok
    · cases hok
    · split at hok
      · split at hok
        · exact upd_hash' hok hi rfl (Or.inr rfl)
        · cases hok
      · cases hok
  | release k tok =>
    simp only [body] at hok
    split at hok
    · split at hok
      · exact upd_hash' hok hi rfl (Or.inl rfl)
      · cases hok
    · cases hok
  | imp items => exact importAll_preserves_hash h items st hi st' hok
  | removeKeys ks => simp only [body] at hok; injection hok with hok; subst hok; exact removeAll_preserves_hash h ks st hi

/-! ## Property theorems -/

/-- an API call that returns an error leaves all four tables untouched (ROLLBACK) -/
theorem step_error_unchanged (h : String → Nat) (st : Store) (op : Op) (e : Err)
    (he : (step h st op).2 = some e) : (step h st op).1 = st := by
  unfold step at *; cases hb : body h st op <;> simp_all

theorem step_preserves (h : String → Nat) (st : Store) (op : Op) (hi : FInv st) : FInv (step h st op).1 := by
  unfold step; cases hb : body h st op with
  | error e => exact hi
  | ok st' => exact body_preserves h st op hi st' hb

theorem step_preserves_hash (h : String → Nat) (st : Store) (op : Op) (hi : HInv h st) : HInv h (step h st op).1 := by
  unfold step; cases hb : body h st op with
  | error e => exact hi
  | ok st' => exact body_preserves_hash h st op hi st' hb

theorem finv_empty : FInv Store.empty := by
  intro k; refine ⟨by simp [tflags, pres, Store.empty, Flags.zero], ?_⟩
  intro hv f hf; simp [Store.empty] at hf

theorem run_preserves (h : String → Nat) (ops : List Op) (st : Store) (hi : FInv st) (hh : HInv h st) :
    FInv (run h st ops) ∧ HInv h (run h st ops) := by
  induction ops generalizing st with
  | nil => exact ⟨hi, hh⟩
  | cons op ops ih => exact ih _ (step_preserves h st op hi) (step_preserves_hash h st op hh)

/-- what "key listings consistent with the stored data" means, table by table -/
structure Consistent (h : String → Nat) (st : Store) : Prop where
  simple : ∀ k, (tflags st k).s = true ↔ st.simple k ≠ none            -- SimpleFlag ↔ row in simple_entries
  pfx : ∀ k, (tflags st k).p = true ↔ st.pfx k ≠ []                    -- PrefixFlag ↔ count(prefix_entries) > 0
  lease : ∀ k, (tflags st k).l = true ↔ st.lease k ≠ none              -- LeaseFlag ↔ row in lease_entries
  row : ∀ k, st.tracker k ≠ none ↔ tflags st k ≠ Flags.zero            -- tracker row exists ↔ flags ≠ 0
  hash : ∀ k hv f, st.tracker k = some (hv, f) → hv = h k              -- stored hash = hashFn key

theorem consistent_of_inv (h : String → Nat) (st : Store) (hi : FInv st) (hh : HInv h st) : Consistent h st := by
  refine ⟨?_, ?_, ?_, ?_, hh⟩
  · intro k; rw [(hi k).1]; simp [pres, Option.isSome_iff_ne_none]
  · intro k; rw [(hi k).1]; simp [pres]
  · intro k; rw [(hi k).1]; simp [pres, Option.isSome_iff_ne_none]
  · intro k
    cases ht : st.tracker k with
    | none => simp [tflags, ht]
    | some e => obtain ⟨hv, f⟩ := e; simp [tflags, ht]; exact (hi k).2 hv f ht

/-- C23 (`tracker_consistent`): after ANY history of API calls on a store opened empty, the tracker
table agrees with the three data tables, for every key. -/
theorem tracker_consistent (h : String → Nat) (ops : List Op) : Consistent h (run h Store.empty ops) := by
  have := run_preserves h ops Store.empty finv_empty (by intro k hv f hf; simp [Store.empty] at hf)
  exact consistent_of_inv h _ this.1 this.2

/-- The flag part survives even a change of hash function between calls (store re-opened with another
`HashFn`: calls on old keys fail with `ErrKVHashFnChanged` and roll back). -/
theorem flags_consistent_any_hash (hops : List ((String → Nat) × Op)) (st : Store) (hi : FInv st) :
    FInv (hops.foldl (fun s ho => (step ho.1 s ho.2).1) st) := by
  induction hops generalizing st with
  | nil => exact hi
  | cons ho rest ih => exact ih _ (step_preserves ho.1 st ho.2 hi)

/-- Crash semantics (hypothesis = SQLite transaction atomicity): `acked` calls have returned, hence
their transactions are committed; the call in flight (if any) is committed entirely or not at all. -/
inductive Recovered (h : String → Nat) (ops : List Op) (acked : Nat) : Store → Prop
  | notCommitted : acked ≤ ops.length → Recovered h ops acked (run h Store.empty (ops.take acked))
  | committed : acked < ops.length → Recovered h ops acked (run h Store.empty (ops.take (acked + 1)))

/-- C23 (`tx_atomic_prefix`): whatever the kill point, the recovered store is the store after a prefix
of the issued calls that contains every acknowledged call, and it is consistent. -/
theorem tx_atomic_prefix (h : String → Nat) (ops : List Op) (acked : Nat) (st : Store)
    (hr : Recovered h ops acked st) :
    ∃ n, acked ≤ n ∧ n ≤ acked + 1 ∧ n ≤ ops.length ∧ st = run h Store.empty (ops.take n) ∧ Consistent h st := by
  cases hr with
  | notCommitted hle => exact ⟨acked, Nat.le_refl _, Nat.le_succ _, hle, rfl, tracker_consistent h _⟩
  | committed hlt => exact ⟨acked + 1, Nat.le_succ _, Nat.le_refl _, hlt, rfl, tracker_consistent h _⟩

/-! ## Calls whose context ends while they run (`withWriteTx(ctx, …)`, `database/sql`'s watcher)

"Acknowledged" = the call returned nil.  `acked_applied` / `unacked_unchanged`: a call is acknowledged exactly
when its transaction was committed — whatever the point at which its context ended — and a call that returned
an error (its own or the context's / `ErrTxDone`) left nothing.  Hence the store after ANY history with
arbitrary context ends is the store after the acknowledged calls alone (`ctx_history_is_acked_history`), it is
consistent (`tracker_consistent_ctx`), and after a kill it is such a store for a prefix of the issued calls
that contains every call that had returned (`tx_atomic_prefix_ctx`). -/

theorem stepCtx_alive (h : String → Nat) (st : Store) (op : Op) :
    (stepCtx h st op .alive).1 = (step h st op).1 ∧
    ((stepCtx h st op .alive).2 = .ok ↔ (step h st op).2 = none) := by
  unfold stepCtx step withWriteTx
  cases body h st op <;> simp [beginFails, commits]

/-- an acknowledged call is committed: the store is the result of its whole body -/
theorem acked_applied (h : String → Nat) (st : Store) (op : Op) (c : CtxEnd)
    (hok : (stepCtx h st op c).2 = .ok) : body h st op = .ok (stepCtx h st op c).1 := by
  unfold stepCtx withWriteTx at *
  cases hb : body h st op <;> cases c <;> simp_all [beginFails, commits] <;>
    (rename_i b; cases b <;> simp_all)

/-- a call that was not acknowledged (own error, context error, `ErrTxDone`) left nothing -/
theorem unacked_unchanged (h : String → Nat) (st : Store) (op : Op) (c : CtxEnd)
    (hne : (stepCtx h st op c).2 ≠ .ok) : (stepCtx h st op c).1 = st := by
  unfold stepCtx withWriteTx at *
  cases hb : body h st op <;> cases c <;> simp_all [beginFails, commits] <;>
    (rename_i b; cases b <;> simp_all)

/-- a context that ends anywhere before Commit has taken over is never acknowledged -/
theorem ctx_ended_not_acked (h : String → Nat) (st : Store) (op : Op) (c : CtxEnd) (hc : c ≠ .alive) :
    (stepCtx h st op c).2 ≠ .ok := by
  unfold stepCtx withWriteTx
  cases hb : body h st op <;> cases c <;> simp_all [beginFails, commits] <;>
    (rename_i b; cases b <;> simp_all)

theorem stepCtx_eq_step_or_same (h : String → Nat) (st : Store) (op : Op) (c : CtxEnd) :
    (stepCtx h st op c).1 = if (stepCtx h st op c).2 = .ok then (step h st op).1 else st := by
  split
  · next hok => have := acked_applied h st op c hok; simp [step, this]
  · next hne => exact unacked_unchanged h st op c hne

/-- C23 (`ctx_history_is_acked_history`): whatever the contexts do, the store shows exactly the
acknowledged calls — every one of them, and nothing of the others. -/
theorem ctx_history_is_acked_history (h : String → Nat) (cops : List (Op × CtxEnd)) (st : Store) :
    runCtx h st cops = run h st (ackedOps h st cops) := by
  induction cops generalizing st with
  | nil => rfl
  | cons oc rest ih =>
    obtain ⟨op, c⟩ := oc
    have hs := stepCtx_eq_step_or_same h st op c
    simp only [runCtx, List.foldl_cons, ackedOps]
    have ih' := ih (stepCtx h st op c).1
    simp only [runCtx] at ih'
    rw [ih']
    split
    · next hok => simp only [run, List.foldl_cons]; rw [hs, if_pos hok]
    · next hne => rw [hs, if_neg hne]

theorem tracker_consistent_ctx (h : String → Nat) (cops : List (Op × CtxEnd)) :
    Consistent h (runCtx h Store.empty cops) := by
  rw [ctx_history_is_acked_history]; exact tracker_consistent h _

theorem ackedOps_take_prefix (h : String → Nat) (cops : List (Op × CtxEnd)) (st : Store) (m : Nat) :
    ackedOps h st (cops.take m) <+: ackedOps h st cops := by
  induction cops generalizing st m with
  | nil => simp [ackedOps]
  | cons oc rest ih =>
    obtain ⟨op, c⟩ := oc
    cases m with
    | zero => simp [ackedOps]
    | succ m =>
      simp only [List.take_succ_cons, ackedOps]
      split
      · exact List.prefix_cons_inj _ |>.mpr (ih _ m)
      · exact ih _ m

/-- crash semantics with contexts: `returned` calls have returned (acknowledged or not); the call in flight
is committed entirely or not at all (and, by `ctx_ended_not_acked`, not at all if its context ended) -/
inductive RecoveredCtx (h : String → Nat) (cops : List (Op × CtxEnd)) (returned : Nat) : Store → Prop
  | notCommitted : returned ≤ cops.length → RecoveredCtx h cops returned (runCtx h Store.empty (cops.take returned))
  | committed : returned < cops.length → RecoveredCtx h cops returned (runCtx h Store.empty (cops.take (returned + 1)))

/-- C23 (`tx_atomic_prefix_ctx`): after a kill at any moment of a history whose calls carry contexts that end
anywhere, the re-opened store is the store of the acknowledged calls among a prefix `n` of the issued ones,
`returned ≤ n ≤ returned + 1`; every call acknowledged before the kill is among them; it is consistent. -/
theorem tx_atomic_prefix_ctx (h : String → Nat) (cops : List (Op × CtxEnd)) (returned : Nat) (st : Store)
    (hr : RecoveredCtx h cops returned st) :
    ∃ n, returned ≤ n ∧ n ≤ returned + 1 ∧ n ≤ cops.length ∧
      st = run h Store.empty (ackedOps h Store.empty (cops.take n)) ∧
      ackedOps h Store.empty (cops.take returned) <+: ackedOps h Store.empty (cops.take n) ∧
      Consistent h st := by
  have pre : ∀ n, returned ≤ n →
      ackedOps h Store.empty (cops.take returned) <+: ackedOps h Store.empty (cops.take n) := by
    intro n hn
    have : cops.take returned = (cops.take n).take returned := by
      rw [List.take_take]; congr 1; omega
    rw [this]; exact ackedOps_take_prefix h _ _ _
  cases hr with
  | notCommitted hle =>
    exact ⟨returned, Nat.le_refl _, Nat.le_succ _, hle, ctx_history_is_acked_history h _ _, pre _ (Nat.le_refl _),
      tracker_consistent_ctx h _⟩
  | committed hlt =>
    exact ⟨returned + 1, Nat.le_succ _, Nat.le_refl _, hlt, ctx_history_is_acked_history h _ _, pre _ (Nat.le_succ _),
      tracker_consistent_ctx h _⟩

/-! ### non-vacuity -/
def hx (s : String) : Nat := s.length
def demo : List Op :=
  [.put "a" "x", .pappend "a" "c", .imp [("b", some ⟨none, ["c1"], 7⟩)], .premove "a" "c", .release "b" 7]
example : (run hx Store.empty demo).tracker "a" = some (1, Flags.S) := by decide
example : (run hx Store.empty demo).tracker "b" = some (1, Flags.P) := by decide
example : (run hx Store.empty demo).pfx "b" = ["c1"] ∧ (run hx Store.empty demo).lease "b" = none := by decide
example : (step hx (run hx Store.empty demo) (.release "b" 9)).2 = some .leaseExpired := by decide
example : (step (fun _ => 0) (run hx Store.empty demo) (.put "a" "y")).2 = some .hashFnChanged := by decide
example : Recovered hx demo 2 (run hx Store.empty (demo.take 3)) := .committed (by decide)
/-- a history in which contexts end before Begin, in the body, and at Commit (both watcher states) -/
def demoCtx : List (Op × CtxEnd) :=
  [(.put "a" "x", .alive), (.put "b" "y", .atCommit true), (.pappend "a" "c", .atCommit false),
   (.pappend "a" "d", .alive), (.delete "a", .inBody false), (.release "a" 3, .inBody false),
   (.put "c" "z", .beforeBegin), (.pappend "a" "d", .alive)]
example : ackedOps hx Store.empty demoCtx = [.put "a" "x", .pappend "a" "d"] := by decide
example : (stepCtx hx Store.empty (.put "b" "y") (.atCommit true)).2 = .ctxErr := by decide
example : (stepCtx hx (runCtx hx Store.empty (demoCtx.take 5)) (.release "a" 3) (.inBody false)).2 = .err .leaseExpired := by decide
example : (runCtx hx Store.empty demoCtx).simple "b" = none ∧ (runCtx hx Store.empty demoCtx).tracker "b" = none ∧
    (runCtx hx Store.empty demoCtx).tracker "a" = some (1, ⟨true, true, false⟩) := by decide
example : RecoveredCtx hx demoCtx 3 (runCtx hx Store.empty (demoCtx.take 4)) := .committed (by decide)
/-! ## Torn log tails

`Recovered` above is derived from what is on disk: the log of the killed process holds the commit mark of every
acknowledged call (COMMIT returns only after the commit frame is written) and at most that of the call in
flight; behind them there may be whole frames without commit mark and a partly written frame.  Re-opening
(`reopenLog`: the constructor leaves the log alone) shows the same store whatever that tail is. -/

/-- C23 (`torn_tail_ignored`): frames without commit mark and a partly written frame behind the committed part
of the log change nothing of what re-opening shows. -/
theorem torn_tail_ignored (h : String → Nat) (ops : List Op) (frames pend : List Frame) (torn torn' : Nat)
    (hp : ∀ f ∈ pend, f.commit = false) :
    reopened h ops ⟨frames ++ pend, torn⟩ = reopened h ops ⟨frames, torn'⟩ := by
  have : pend.filter (·.commit) = [] := by
    apply List.filter_eq_nil_iff.mpr
    intro f hf
    simp [hp f hf]
  simp [reopened, reopenLog, replayed, List.filter_append, this]

/-- C23 (`reopened_is_recovered`): if the log holds the commit marks of all `acked` acknowledged calls and at most
one more (the call in flight), then - whatever lies behind the last commit mark, whole frames or a torn one - the
re-opened store satisfies `Recovered`: it is the store after a prefix of the issued calls that contains every
acknowledged one. -/
theorem reopened_is_recovered (h : String → Nat) (ops : List Op) (acked : Nat) (l : Log)
    (hlo : acked ≤ replayed l) (hhi : replayed l ≤ acked + 1) (hlen : replayed l ≤ ops.length) :
    Recovered h ops acked (reopened h ops l) := by
  by_cases he : replayed l = acked
  · simpa [reopened, reopenLog, he] using (Recovered.notCommitted (h := h) (ops := ops) (acked := acked) (he ▸ hlen))
  · have h1 : replayed l = acked + 1 := by omega
    simpa [reopened, reopenLog, h1] using (Recovered.committed (h := h) (ops := ops) (acked := acked) (by omega))

/-- C23 (`torn_log_prefix`): the two together with `tx_atomic_prefix` - a log with a torn tail re-opens to a
consistent store of a prefix `n` of the issued calls, `acked ≤ n ≤ acked + 1`. -/
theorem torn_log_prefix (h : String → Nat) (ops : List Op) (acked : Nat) (frames pend : List Frame) (torn : Nat)
    (hp : ∀ f ∈ pend, f.commit = false)
    (hlo : acked ≤ replayed ⟨frames, 0⟩) (hhi : replayed ⟨frames, 0⟩ ≤ acked + 1)
    (hlen : replayed ⟨frames, 0⟩ ≤ ops.length) :
    ∃ n, acked ≤ n ∧ n ≤ acked + 1 ∧ n ≤ ops.length ∧
      reopened h ops ⟨frames ++ pend, torn⟩ = run h Store.empty (ops.take n) ∧
      Consistent h (reopened h ops ⟨frames ++ pend, torn⟩) := by
  rw [torn_tail_ignored h ops frames pend torn 0 hp]
  exact tx_atomic_prefix h ops acked _ (reopened_is_recovered h ops acked ⟨frames, 0⟩ hlo hhi hlen)

/-- non-vacuity: two acknowledged puts (two frames each), the third call in flight has logged one whole frame
and 24 bytes (the frame header) of its second when the kill comes -/
example : reopened hx demo ⟨[⟨false⟩, ⟨true⟩, ⟨false⟩, ⟨true⟩] ++ [⟨false⟩], 24⟩ = run hx Store.empty (demo.take 2) :=
  torn_tail_ignored hx demo _ [⟨false⟩] 24 0 (by decide) |>.trans rfl
example : Recovered hx demo 2 (reopened hx demo ⟨[⟨false⟩, ⟨true⟩, ⟨false⟩, ⟨true⟩], 0⟩) :=
  reopened_is_recovered hx demo 2 _ (by decide) (by decide) (by decide)

end Specter.C23
