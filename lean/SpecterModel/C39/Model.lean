/-!
# C39 — model of `util/bufconn/bufconn.go` (`pipe`): the ring buffer exactly as coded, plus a
small-step layer with the two condition variables (`rwait`, `wwait`) for one reader and one writer.

Go state `buf []byte` (len, cap) is `arr` (the whole backing array, length = cap) + `len`.
Core Lean only (linked into `modeld`).
-/
namespace Specter.C39

structure Pipe where
  arr : List Nat            -- backing array of `buf`, `arr.length = cap(buf)`
  len : Nat                 -- `len(buf)`
  w : Nat
  r : Nat
  closed : Bool := false
  writeClosed : Bool := false
  rtimedout : Bool := false
  wtimedout : Bool := false
deriving Repr, DecidableEq

/-- `newPipe(sz)`: `make([]byte, 0, sz)` -/
def newPipe (sz : Nat) : Pipe := { arr := List.replicate sz 0, len := 0, w := 0, r := 0 }

def Pipe.cap (p : Pipe) : Nat := p.arr.length
/-- `p.r == len(p.buf)` -/
def Pipe.empty (p : Pipe) : Bool := p.r == p.len
/-- `p.r < len(p.buf) && p.r == p.w` -/
def Pipe.full (p : Pipe) : Bool := decide (p.r < p.len) && p.r == p.w

inductive ROut where
  | data (d : List Nat) | eof | errClosed | timeout | block
deriving Repr, DecidableEq

inductive WOut where
  | ok (n : Nat) | errClosed | timeout | block (rest : List Nat) (n : Nat) | spin
deriving Repr, DecidableEq

/-- The data-moving tail of `Read` (buffer not empty): `n = copy(b, p.buf[p.r:len(p.buf)])`, advance `r`,
wrap (`p.r = 0; p.buf = p.buf[:p.w]`) when the end of the backing array is reached. -/
def readCopy (p : Pipe) (n : Nat) : Pipe × List Nat :=
  let k := min n (p.len - p.r)
  let d := (p.arr.drop p.r).take k
  let r' := p.r + k
  (if r' = p.cap then { p with r := 0, len := p.w } else { p with r := r' }, d)

/-- One pass of the `for` loop of `Read` up to `return` or `rwait.Wait()`.
Result: new pipe, outcome, and whether `wwait.Signal()` was called. -/
def readStep (p : Pipe) (n : Nat) : Pipe × ROut × Bool :=
  if p.closed then (p, .errClosed, false)
  else if !p.empty then
    let wasFull := p.full
    let c := readCopy p n
    (c.1, .data c.2, wasFull)
  else if p.writeClosed then (p, .eof, false)
  else if p.rtimedout then (p, .timeout, false)
  else (p, .block, false)

/-- The copy part of one iteration of the outer `for len(b) > 0` loop of `Write` (buffer not full). -/
def writeChunk (p : Pipe) (bs : List Nat) : Pipe × Nat :=
  let e := if p.w < p.r then p.r else p.cap
  let x := min (e - p.w) bs.length                    -- x := copy(p.buf[p.w:end], b)
  let arr' := p.arr.take p.w ++ bs.take x ++ p.arr.drop (p.w + x)
  let w' := p.w + x
  let len' := if w' > p.len then w' else p.len        -- p.buf = p.buf[:p.w]
  let w'' := if w' = p.cap then 0 else w'
  ({ p with arr := arr', w := w'', len := len' }, x)

/-- The loops of `Write` from the current position up to `return` or `wwait.Wait()`.
`n` = bytes copied so far by this call, `sig` = `rwait.Signal()` was called, `cp` (ghost) = the bytes
copied by this atomic step. `fuel` bounds the iterations (never exhausted when cap ≥ 1: `writeLoop_no_spin`). -/
def writeLoop : Nat → Pipe → List Nat → Nat → Bool → List Nat → Pipe × WOut × Bool × List Nat
  | 0, p, _, _, sig, cp => (p, .spin, sig, cp)
  | fuel+1, p, bs, n, sig, cp =>
    if bs.isEmpty then (p, .ok n, sig, cp)
    else if p.closed || p.writeClosed then (p, .errClosed, sig, cp)     -- `return 0, io.ErrClosedPipe`
    else if !p.full then
      let wasEmpty := p.empty
      let c := writeChunk p bs
      writeLoop fuel c.1 (bs.drop c.2) (n + c.2) (sig || wasEmpty) (cp ++ bs.take c.2)
    else if p.wtimedout then (p, .timeout, sig, cp)
    else (p, .block bs n, sig, cp)

/-- `Write(b)` from its entry. -/
def writeStart (p : Pipe) (bs : List Nat) : Pipe × WOut × Bool × List Nat :=
  if p.closed then (p, .errClosed, false, [])
  else writeLoop (bs.length + 1) p bs 0 false []

/-- continuation of `Write` after `wwait.Wait()` returned -/
def writeResume (p : Pipe) (rest : List Nat) (n : Nat) : Pipe × WOut × Bool × List Nat :=
  writeLoop (rest.length + 1) p rest n false []

/-- Abstract content: the bytes written and not yet read, oldest first. -/
def Pipe.abs (p : Pipe) : List Nat :=
  let a := (p.arr.drop p.r).take (p.len - p.r)
  if p.w = p.len then a else a ++ p.arr.take p.w

/-! ## small-step layer: one reader thread, one writer thread, two condition variables -/

inductive RTh where
  | idle | waiting (n : Nat) | woken (n : Nat)
deriving Repr, DecidableEq

inductive WTh where
  | idle | waiting (rest : List Nat) (n : Nat) | woken (rest : List Nat) (n : Nat)
deriving Repr, DecidableEq

structure Sys where
  p : Pipe
  rt : RTh := .idle
  wt : WTh := .idle
deriving Repr, DecidableEq

/-- `Signal`/`Broadcast` on `rwait` with at most one waiter -/
def wakeR : RTh → RTh
  | .waiting n => .woken n
  | t => t
def wakeW : WTh → WTh
  | .waiting b n => .woken b n
  | t => t

inductive Ev where
  | read (n : Nat)          -- reader calls Read(b), len(b) = n          (enabled when reader idle)
  | rresume                 -- reader returns from rwait.Wait()          (enabled when woken)
  | write (bs : List Nat)   -- writer calls Write(bs)                    (enabled when writer idle)
  | wresume                 -- writer returns from wwait.Wait()
  | close                   -- pipe.Close()
  | closeWrite              -- pipe.closeWrite()
  | rtimer | wtimer         -- deadline timers fire
  | rclear | wclear         -- SetRead/WriteDeadline: reset the timed-out flag
deriving Repr, DecidableEq

inductive Out where
  | r (o : ROut) | w (o : WOut) | done | na
deriving Repr, DecidableEq

def rAttempt (s : Sys) (n : Nat) : Sys × Out × List Nat × List Nat :=
  let q := readStep s.p n
  match q.2.1 with
  | .block => ({ s with p := q.1, rt := .waiting n }, .r .block, [], [])
  | .data d => ({ p := q.1, rt := .idle, wt := if q.2.2 then wakeW s.wt else s.wt }, .r (.data d), d, [])
  | o => ({ p := q.1, rt := .idle, wt := if q.2.2 then wakeW s.wt else s.wt }, .r o, [], [])

def wFinish (s : Sys) (q : Pipe × WOut × Bool × List Nat) : Sys × Out × List Nat × List Nat :=
  let rt := if q.2.2.1 then wakeR s.rt else s.rt
  match q.2.1 with
  | .block rest n => ({ p := q.1, rt := rt, wt := .waiting rest n }, .w (.block rest n), [], q.2.2.2)
  | o => ({ p := q.1, rt := rt, wt := .idle }, .w o, [], q.2.2.2)

/-- One atomic step (everything done while holding `p.mu`). Result: new state, visible outcome,
(ghost) bytes delivered to the reader, (ghost) bytes copied into the pipe. Disabled events: `.na`. -/
def step (s : Sys) : Ev → Sys × Out × List Nat × List Nat
  | .read n => match s.rt with
    | .idle => rAttempt s n
    | _ => (s, .na, [], [])
  | .rresume => match s.rt with
    | .woken n => rAttempt s n
    | _ => (s, .na, [], [])
  | .write bs => match s.wt with
    | .idle => wFinish s (writeStart s.p bs)
    | _ => (s, .na, [], [])
  | .wresume => match s.wt with
    | .woken rest n => wFinish s (writeResume s.p rest n)
    | _ => (s, .na, [], [])
  | .close => ({ p := { s.p with closed := true }, rt := wakeR s.rt, wt := wakeW s.wt }, .done, [], [])
  | .closeWrite => ({ p := { s.p with writeClosed := true }, rt := wakeR s.rt, wt := wakeW s.wt }, .done, [], [])
  | .rtimer => ({ s with p := { s.p with rtimedout := true }, rt := wakeR s.rt }, .done, [], [])
  | .wtimer => ({ s with p := { s.p with wtimedout := true }, wt := wakeW s.wt }, .done, [], [])
  | .rclear => ({ s with p := { s.p with rtimedout := false } }, .done, [], [])
  | .wclear => ({ s with p := { s.p with wtimedout := false } }, .done, [], [])

def init (sz : Nat) : Sys := { p := newPipe sz }

/-- Ghost trace: everything delivered to the reader (`got`) and everything copied into the pipe (`put`). -/
structure Trace where
  s : Sys
  got : List Nat := []
  put : List Nat := []

def Trace.step (t : Trace) (e : Ev) : Trace :=
  let q := Specter.C39.step t.s e
  { s := q.1, got := t.got ++ q.2.2.1, put := t.put ++ q.2.2.2 }

def run (sz : Nat) (evs : List Ev) : Trace := evs.foldl Trace.step { s := init sz }

end Specter.C39
