/-!
# C27 — model of the gateway's `DialClient` / `getConn` / `handleProxyConn` (tun/server/server.go)
Core Lean only. The environment (KV lookups, transports, remote node) is an explicit input:
`Slot` = what `Chord.Get(RoutingKey(H, i+1))` yields, `Env` = how dialling slot i's route behaves.
-/
namespace Specter.C27

/-- result of one of the `NumRedundantLinks` KV lookups of `routeCacheLoader` -/
inductive Slot where
  | empty                                   -- no value (fs.ErrNotExist)
  | lookupErr                               -- Chord.Get failed
  | undecodable                             -- value does not unmarshal
  | route (isLocal : Bool) (client : Nat)   -- TunnelDestination.Address == / != our tunnel address
deriving DecidableEq, Repr

/-- what `Transport.DialStream` returns -/
inductive DialRes where
  | conn | noDirect | err
deriving DecidableEq, Repr

/-- behaviour of the world when the route of one slot is used -/
structure Env where
  dial : DialRes              -- TunnelTransport (local route) / ChordTransport (remote route) DialStream
  sendRouteFails : Bool       -- remote only: rpc.Send(conn, route) fails
  status : Option Nat         -- remote only: none = status frame cannot be received, some c = TunnelStatusCode
  linkFails : Bool            -- rpc.Send(clientConn, link) fails
deriving DecidableEq, Repr

inductive ConnRes where
  | conn | noDirect | err
deriving DecidableEq, Repr

/-- `switch status.GetStatus()` in getConn: STATUS_OK = 0, UNKNOWN_ERROR = 1, NO_DIRECT = 2 -/
def decodeStatus : Nat → ConnRes
  | 0 => .conn
  | 2 => .noDirect
  | _ => .err

/-- `getConn`: direct stream for a local route, proxied stream + status frame for a remote one;
the three-way classification is the one `tun.IsNoDirect` makes on the returned error -/
def getConn (isLocal : Bool) (e : Env) : ConnRes :=
  match e.dial with
  | .noDirect => .noDirect
  | .err => .err
  | .conn =>
    if isLocal then .conn
    else if e.sendRouteFails then .err
    else match e.status with
      | none => .err
      | some c => decodeStatus c

structure Route where
  idx : Nat
  isLocal : Bool
  client : Nat
deriving DecidableEq, Repr

inductive Lookup where
  | notFound | failed | routes (rs : List Route)
deriving DecidableEq, Repr

def slotRoute : Slot × Nat → Option Route
  | (.route l c, i) => some ⟨i, l, c⟩
  | _ => none

def slotRoutes (slots : List Slot) : List Route := slots.zipIdx.filterMap slotRoute

def isErrSlot : Slot → Bool
  | .lookupErr => true | .undecodable => true | _ => false

/-- the lookup produced a route published for the hostname -/
def isRoute : Slot → Bool | .route _ _ => true | _ => false

/-- `sort.SliceStable(filtered, func(i, j) { return filtered[i] is local })` on < 12 elements is an
insertion sort whose comparator only looks at the moving element: every local route travels to the
very front (also past earlier local routes), remote routes keep their order. -/
def order (rs : List Route) : List Route :=
  rs.foldl (fun acc r => if r.isLocal then r :: acc else acc ++ [r]) []

/-- `routeCacheLoader` (what `DialClient` sees of it). In the third case the loader filters the nil
entries out of the lookup results in place (`filtered := routes[:0]`), so with no route at all — some
lookups absent, some failed — it caches an EMPTY (but non-nil) route slice: `.routes []`. -/
def lookup (slots : List Slot) : Lookup :=
  if slots.length = slots.countP (· == .empty) then .notFound
  else if slots.length = slots.countP isErrSlot then .failed
  else .routes (order (slotRoutes slots))

inductive Try where
  | ok | noDirect | hard (closed : Bool)
deriving DecidableEq, Repr

/-- one iteration of the route loop of `DialClient` -/
def tryRoute (isLocal : Bool) (e : Env) : Try :=
  match getConn isLocal e with
  | .noDirect => .noDirect
  | .err => .hard false
  | .conn => if e.linkFails then .hard true else .ok

inductive Outcome where
  | found (idx : Nat) | notFound | notConnected | lookupFailed
deriving DecidableEq, Repr

structure Result where
  outcome : Outcome
  tried : List Nat     -- slots whose route was dialled, in order
  closed : List Nat    -- connections closed again because the link could not be sent
deriving DecidableEq, Repr

/-- the route loop of `DialClient`; `total = len(ret.routes)` is what the final classification looks at:
`if isNoRoute || len(ret.routes) > 0 { not connected } else { not found }` -/
def loop (env : Nat → Env) (total : Nat) : List Route → Bool → Result
  | [], noRoute => ⟨if noRoute || decide (total > 0) then .notConnected else .notFound, [], []⟩
  | r :: rs, noRoute =>
    match tryRoute r.isLocal (env r.idx) with
    | .ok => ⟨.found r.idx, [r.idx], []⟩
    | .noDirect => let x := loop env total rs true; ⟨x.outcome, r.idx :: x.tried, x.closed⟩
    | .hard c => let x := loop env total rs noRoute
                 ⟨x.outcome, r.idx :: x.tried, if c then r.idx :: x.closed else x.closed⟩

def dialClient (slots : List Slot) (env : Nat → Env) : Result :=
  match lookup slots with
  | .notFound => ⟨.notFound, [], []⟩
  | .failed => ⟨.lookupFailed, [], []⟩
  | .routes rs => loop env rs.length rs false

/-- `DialClient` after the route lookup: what it does with the loader's (possibly cached) answer -/
def dialWith (lk : Lookup) (env : Nat → Env) : Result :=
  match lk with
  | .notFound => ⟨.notFound, [], []⟩
  | .failed => ⟨.lookupFailed, [], []⟩
  | .routes rs => loop env rs.length rs false

/-! ### several visitors: the route cache and the visitor's request context

`DialClient(ctx, link)` looks the routes up with `s.routeCache.Get(s.ParentContext, H)`: the loading
cache runs `routeCacheLoader` under the SERVER's context, never under the visitor's `ctx`, and keeps
whatever the loader answered (routes, not-found, lookup-failed — each with its own TTL) for the next
visitors of H. The visitor's `ctx` is only handed to `getConn` (`DialStream(ctx, …)`): a context that
is already done makes every dial fail with the context error, which is not a no-direct error.
Time is not modelled: the visits of one run happen within the shortest TTL (5 s). -/

/-- the visitor's request context as far as `DialClient` can observe it -/
inductive Visitor where
  | live             -- stays alive for the whole call
  | gone             -- already cancelled / past its deadline when `DialClient` is called
  | leavesInLookup   -- is cancelled while the KV lookups for H are in flight (only if there are any)
deriving DecidableEq, Repr

/-- the route cache: hostname ↦ what the loader answered the first time -/
abbrev Cache := List (String × Lookup)

def cacheGet (c : Cache) (h : String) : Option Lookup := (c.find? (fun p => p.1 == h)).map (·.2)

/-- `s.routeCache.Get(s.ParentContext, H)`: a hit returns the stored answer without touching the KV; a
miss runs the loader — under the parent context, so the visitor's context plays no role — and stores
its answer. The Bool says whether the loader ran. -/
def cachedLookup (c : Cache) (h : String) (slots : List Slot) : Lookup × Cache × Bool :=
  match cacheGet c h with
  | some lk => (lk, c, false)
  | none => (lookup slots, (h, lookup slots) :: c, true)

/-- is the visitor's context done by the time the routes are dialled? -/
def visitorDone : Visitor → Bool → Bool
  | .live, _ => false
  | .gone, _ => true
  | .leavesInLookup, loaderRan => loaderRan

/-- dialling on behalf of a visitor whose context is done: `DialStream(ctx, …)` returns the context
error (a hard error) whatever the peer would have answered -/
def effEnv (done : Bool) (env : Nat → Env) : Nat → Env :=
  fun i => if done then { env i with dial := .err } else env i

structure Visit where
  host : String
  slots : List Slot      -- what the KV holds for `host` at the time of the visit
  env : Nat → Env        -- how the world answers when a route is dialled
  vis : Visitor

structure VisitOut where
  result : Result
  kvGets : Nat           -- number of `Chord.Get` calls made during this `DialClient`
deriving DecidableEq, Repr

/-- one `DialClient` call against the server's route cache -/
def visit (c : Cache) (v : Visit) : Cache × VisitOut :=
  let (lk, c', ran) := cachedLookup c v.host v.slots
  (c', ⟨dialWith lk (effEnv (visitorDone v.vis ran) v.env), if ran then v.slots.length else 0⟩)

/-- a sequence of visits, first to last -/
def run : Cache → List Visit → List VisitOut
  | _, [] => []
  | c, v :: vs => (visit c v).2 :: run (visit c v).1 vs

/-! ### remote side: `handleProxyConn` -/

/-- what the remote node reads from the proxy stream -/
inductive Recv where
  | bad                                        -- no / oversized / undecodable route frame
  | route (destIsMe : Bool) (client : Nat)
deriving DecidableEq, Repr

structure ProxyOut where
  status : Nat               -- TunnelStatusCode written back
  dialed : Option Nat        -- client dialled on the tunnel transport
  piped : Bool               -- true: streams are piped; false: delegation closed
deriving DecidableEq, Repr

/-- `tun.SendStatusProto` classification of the dial result -/
def statusOf : DialRes → Nat
  | .conn => 0 | .noDirect => 2 | .err => 1

def handleProxy (r : Recv) (clientDial : DialRes) : ProxyOut :=
  match r with
  | .bad => ⟨1, none, false⟩
  | .route false _ => ⟨1, none, false⟩            -- ErrDestinationNotFound, client never dialled
  | .route true c => ⟨statusOf clientDial, some c, clientDial == .conn⟩

end Specter.C27
