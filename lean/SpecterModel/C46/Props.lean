import SpecterModel.C46.Model
/-!
# C46 — Concurrent fan-out returns aligned results after all tasks finish

1. `all_order_independent`: whatever the completion order (any list of goroutine indices that contains every
   index, repeats allowed), the two slot arrays end as `expected`: per task, in input order, its value or its error.
2. `aligned`: `errors[i] ≠ nil ↔ task i failed`, and then `results[i]` is the zero value; otherwise `results[i]` is
   the task's value.
3. `returns_after_all`: small-step model of `All` (goroutines `running → fnReturned → done`, waiter goroutine
   closing `done` after `wg.Wait()`, context cancellation at any time, main's `select` with both arms) —
   in every schedule, `return` happens only after every task finished and every slot is written,
   with or without cancellation.
-/
namespace Specter.C46

/-! ## slot writes commute -/

theorem complete_lengths (outs : List Outcome) (s : Slots) (i : Nat) :
    (complete outs s i).results.length = s.results.length ∧ (complete outs s i).errors.length = s.errors.length := by
  unfold complete; split
  · exact ⟨rfl, rfl⟩
  · constructor <;> (simp only; split <;> simp)

/-- state after an arbitrary prefix of completions: slot `j` holds the expected value if `j` completed, else zero -/
structure Partial (outs : List Outcome) (cs : List Nat) (s : Slots) : Prop where
  lr : s.results.length = outs.length
  le : s.errors.length = outs.length
  res : ∀ j o, outs[j]? = some o → s.results[j]? = some (if j ∈ cs then expResult o else 0)
  err : ∀ j o, outs[j]? = some o → s.errors[j]? = some (if j ∈ cs then o.err else 0)

theorem partial_init (outs : List Outcome) : Partial outs [] (Slots.init outs.length) := by
  refine ⟨by simp [Slots.init], by simp [Slots.init], ?_, ?_⟩ <;>
  · intro j o h
    have hj : j < outs.length := (List.getElem?_eq_some_iff.mp h).1
    simp [Slots.init, hj]

theorem partial_step (outs : List Outcome) (cs : List Nat) (s : Slots) (i : Nat)
    (h : Partial outs cs s) : Partial outs (cs ++ [i]) (complete outs s i) := by
  have hlen := complete_lengths outs s i
  refine ⟨by rw [hlen.1, h.lr], by rw [hlen.2, h.le], ?_, ?_⟩
  · intro j o hj
    have hjl : j < outs.length := (List.getElem?_eq_some_iff.mp hj).1
    have hr := h.res j o hj
    unfold complete
    by_cases hji : j = i
    · subst hji
      rw [hj]; simp only
      by_cases he : o.err = 0
      · simp [he, expResult, h.lr, hjl]
      · simp only [he, if_false, hr, expResult]; simp
    · cases hi : outs[i]? with
      | none => simp [hr, hji]
      | some oi =>
        simp only
        by_cases he : oi.err = 0
        · simp [he, Ne.symm hji, hr, hji]
        · simp [he, hr, hji]
  · intro j o hj
    have hjl : j < outs.length := (List.getElem?_eq_some_iff.mp hj).1
    have hr := h.err j o hj
    unfold complete
    by_cases hji : j = i
    · subst hji
      rw [hj]; simp only
      by_cases he : o.err = 0
      · simp only [he, if_true, hr]; simp
      · simp [he, h.le, hjl]
    · cases hi : outs[i]? with
      | none => simp [hr, hji]
      | some oi =>
        simp only
        by_cases he : oi.err = 0
        · simp [he, hr, hji]
        · simp [he, Ne.symm hji, hr, hji]

theorem partial_run (outs : List Outcome) (cs pre : List Nat) (s : Slots) (h : Partial outs pre s) :
    Partial outs (pre ++ cs) (cs.foldl (complete outs) s) := by
  induction cs generalizing pre s with
  | nil => simpa using h
  | cons c rest ih =>
    have := ih (pre ++ [c]) (complete outs s c) (partial_step outs pre s c h)
    simpa using this

/-- C46 `all_order_independent`: for every completion order that contains every task index (a permutation of
`0..n-1` in particular), the slot arrays are exactly `expected` — per task, in input order. -/
theorem all_order_independent (outs : List Outcome) (order : List Nat)
    (hall : ∀ i, i < outs.length → i ∈ order) : runOrder outs order = expected outs := by
  have h := partial_run outs order [] _ (partial_init outs)
  simp only [List.nil_append] at h
  unfold runOrder
  generalize order.foldl (complete outs) (Slots.init outs.length) = s at h
  obtain ⟨r, e⟩ := s
  simp only [expected, Slots.mk.injEq]
  constructor
  · apply List.ext_getElem?
    intro j
    by_cases hj : j < outs.length
    · have ho : outs[j]? = some outs[j] := List.getElem?_eq_getElem hj
      have := h.res j _ ho
      simp [hall j hj] at this
      simp [this, hj]
    · have h1 : r.length ≤ j := by have := h.lr; simp at this; omega
      simp [List.getElem?_eq_none h1, Nat.le_of_not_lt hj]
  · apply List.ext_getElem?
    intro j
    by_cases hj : j < outs.length
    · have ho : outs[j]? = some outs[j] := List.getElem?_eq_getElem hj
      have := h.err j _ ho
      simp [hall j hj] at this
      simp [this, hj]
    · have h1 : e.length ≤ j := by have := h.le; simp at this; omega
      simp [List.getElem?_eq_none h1, Nat.le_of_not_lt hj]

/-- C46 `aligned`: in the returned arrays, `errors[i]` is non-nil exactly when task `i` failed (and is that
error), `results[i]` is the zero value then, and the task's value otherwise; both arrays have one slot per task. -/
theorem aligned (outs : List Outcome) (i : Nat) (o : Outcome) (h : outs[i]? = some o) :
    (expected outs).errors[i]? = some o.err ∧
    ((expected outs).errors[i]? ≠ some 0 ↔ o.err ≠ 0) ∧
    (o.err ≠ 0 → (expected outs).results[i]? = some 0) ∧
    (o.err = 0 → (expected outs).results[i]? = some o.val) ∧
    (expected outs).results.length = outs.length ∧ (expected outs).errors.length = outs.length := by
  simp [expected, h, expResult]
  constructor <;> intros <;> omega

/-! ## small-step model: return only after all tasks finished -/

inductive GPC where
  | running        -- fn(fnCtx) not yet returned
  | fnReturned     -- task finished, slot not yet written
  | done           -- slot written and wg.Done() executed
deriving DecidableEq, Repr

inductive MainPC where
  | selecting      -- at the `select`
  | afterCancel    -- took `case <-fnCtx.Done()`, now at `<-done`
  | returned
deriving DecidableEq, Repr

structure Sys where
  results : Nat → Nat
  errors  : Nat → Nat
  g : Nat → GPC
  closed : Bool        -- `close(done)` executed by the waiter goroutine
  cancelled : Bool
  main : MainPC

def upd {α} (f : Nat → α) (i : Nat) (v : α) : Nat → α := fun j => if j = i then v else f j

variable (n : Nat) (outs : Nat → Outcome)

inductive Step : Sys → Sys → Prop
  | fnRet (s : Sys) (i : Nat) (hi : i < n) (h : s.g i = .running) :
      Step s { s with g := upd s.g i .fnReturned }
  | write (s : Sys) (i : Nat) (hi : i < n) (h : s.g i = .fnReturned) :
      Step s { s with results := if (outs i).err = 0 then upd s.results i (outs i).val else s.results,
                      errors := if (outs i).err = 0 then s.errors else upd s.errors i (outs i).err,
                      g := upd s.g i .done }
  | cancel (s : Sys) : Step s { s with cancelled := true }
  | close (s : Sys) (h : ∀ i, i < n → s.g i = .done) : Step s { s with closed := true }   -- wg.Wait() returned
  | selDone (s : Sys) (h : s.main = .selecting) (hc : s.closed = true) : Step s { s with main := .returned }
  | selCtx (s : Sys) (h : s.main = .selecting) (hc : s.cancelled = true) : Step s { s with main := .afterCancel }
  | waitDone (s : Sys) (h : s.main = .afterCancel) (hc : s.closed = true) : Step s { s with main := .returned }

inductive Reach : Sys → Sys → Prop
  | refl (s : Sys) : Reach s s
  | step {s s' s'' : Sys} : Reach s s' → Step n outs s' s'' → Reach s s''

/-- state at the `select` right after the goroutines were launched; the context may already be cancelled -/
def init (cancelled : Bool) : Sys :=
  { results := fun _ => 0, errors := fun _ => 0, g := fun _ => .running, closed := false,
    cancelled := cancelled, main := .selecting }

structure Inv (s : Sys) : Prop where
  closedAll : s.closed = true → ∀ i, i < n → s.g i = .done
  slots : ∀ i, s.g i = .done → s.results i = expResult (outs i) ∧ s.errors i = (outs i).err
  blank : ∀ i, s.g i ≠ .done → s.results i = 0 ∧ s.errors i = 0
  ret : s.main = .returned → s.closed = true

theorem inv_init (c : Bool) : Inv n outs (init c) := by
  refine ⟨?_, ?_, ?_, ?_⟩ <;> simp [init]

theorem inv_step {s s' : Sys} (hi : Inv n outs s) (hs : Step n outs s s') : Inv n outs s' := by
  cases hs with
  | fnRet i hlt h =>
    refine ⟨?_, ?_, ?_, hi.ret⟩
    · intro hc; have := hi.closedAll hc i hlt; rw [h] at this; cases this
    · intro j hj; simp [upd] at hj; split at hj; · cases hj
      exact hi.slots j hj
    · intro j hj; simp [upd] at hj
      by_cases e : j = i
      · subst e; exact hi.blank j (by rw [h]; simp)
      · exact hi.blank j (by simpa [e] using hj)
  | write i hlt h =>
    have hb := hi.blank i (by rw [h]; simp)
    refine ⟨?_, ?_, ?_, hi.ret⟩
    · intro hc; have := hi.closedAll hc i hlt; rw [h] at this; cases this
    · intro j hj
      by_cases e : j = i
      · subst e
        by_cases he : (outs j).err = 0
        · simp [upd, expResult, he, hb.2]
        · simp [upd, expResult, he, hb.1]
      · simp [upd, e] at hj ⊢
        have := hi.slots j hj
        split <;> simp [this, upd, e]
    · intro j hj
      by_cases e : j = i
      · subst e; simp [upd] at hj
      · simp [upd, e] at hj ⊢
        have := hi.blank j hj
        split <;> simp [this, upd, e]
  | cancel => exact ⟨hi.closedAll, hi.slots, hi.blank, hi.ret⟩
  | close h => exact ⟨fun _ => h, hi.slots, hi.blank, fun _ => rfl⟩
  | selDone h hc => exact ⟨hi.closedAll, hi.slots, hi.blank, fun _ => hc⟩
  | selCtx h hc => exact ⟨hi.closedAll, hi.slots, hi.blank, by simp⟩
  | waitDone h hc => exact ⟨hi.closedAll, hi.slots, hi.blank, fun _ => hc⟩

theorem inv_reach {s s' : Sys} (hi : Inv n outs s) (hr : Reach n outs s s') : Inv n outs s' := by
  induction hr with
  | refl => exact hi
  | step _ hs ih => exact inv_step n outs ih hs

/-- C46 `returns_after_all`: in every schedule, with or without cancellation (before or during the call), when
`All` returns every task has finished and its goroutine has written its slot, and the slots hold, per task,
its value or its error. -/
theorem returns_after_all (c : Bool) {s : Sys} (hr : Reach n outs (init c) s) (hret : s.main = .returned) :
    ∀ i, i < n → s.g i = .done ∧ s.results i = expResult (outs i) ∧ s.errors i = (outs i).err := by
  have hi := inv_reach n outs (inv_init n outs c) hr
  intro i hlt
  have hd := hi.closedAll (hi.ret hret) i hlt
  exact ⟨hd, hi.slots i hd⟩

/-- the cancellation arm cannot return early: from `afterCancel` the only way on is `<-done` -/
theorem cancel_arm_waits {s s' : Sys} (h : s.main = .afterCancel) (hs : Step n outs s s')
    (hret : s'.main = .returned) : s.closed = true := by
  cases hs with
  | fnRet i hlt hg => simp [h] at hret
  | write i hlt hg => simp [h] at hret
  | cancel => simp [h] at hret
  | close hh => simp [h] at hret
  | selDone hm hc => exact hc
  | selCtx hm hc => simp at hret
  | waitDone hm hc => exact hc

/-- C46 `straggler_blocks_return`: the step relation has no clock, so "how long ago the context was cancelled" is
not an enabling condition of any step of main. As long as one task is still inside its function (or has not yet
written its slot), `All` has not returned - after arbitrarily many further steps of the other goroutines, with the
context cancelled or not, through either arm of the `select`. (A bounded wait after cancellation would add a step
`afterCancel → returned` without `closed`, which this theorem excludes.) -/
theorem straggler_blocks_return (c : Bool) {s : Sys} (hr : Reach n outs (init c) s) {i : Nat} (hlt : i < n)
    (hrun : s.g i ≠ .done) : s.main ≠ .returned :=
  fun hret => hrun (returns_after_all n outs c hr hret i hlt).1

/-- non-vacuity of `straggler_blocks_return`: two tasks, task 0 done, context cancelled, main already in the
cancellation arm, task 1 still running - a reachable state, and main is still waiting there -/
example : ∃ s, Reach 2 (fun _ => ⟨4, 0⟩) (init false) s ∧ s.cancelled = true ∧ s.main = .afterCancel ∧
    s.g 0 = .done ∧ s.g 1 = .running := by
  let o : Nat → Outcome := fun _ => ⟨4, 0⟩
  let s0 := init false
  let s1 : Sys := { s0 with g := upd s0.g 0 .fnReturned }
  let s2 : Sys := { s1 with results := upd s1.results 0 4, g := upd s1.g 0 .done }
  let s3 : Sys := { s2 with cancelled := true }
  let s4 : Sys := { s3 with main := .afterCancel }
  have h1 : Step 2 o s0 s1 := Step.fnRet s0 0 (by decide) rfl
  have h2 : Step 2 o s1 s2 := by
    have := Step.write (n := 2) (outs := o) s1 0 (by decide) (by simp [s1, upd])
    simpa [o, s2] using this
  have h3 : Step 2 o s2 s3 := Step.cancel s2
  have h4 : Step 2 o s3 s4 := Step.selCtx s3 rfl rfl
  refine ⟨s4, ((((Reach.refl s0).step h1).step h2).step h3).step h4, rfl, rfl, ?_, ?_⟩ <;>
    simp [s4, s3, s2, s1, s0, init, upd]

/-! ### non-vacuity -/
example : runOrder [⟨5, 0⟩, ⟨7, 3⟩, ⟨9, 0⟩] [2, 0, 1] = expected [⟨5, 0⟩, ⟨7, 3⟩, ⟨9, 0⟩] ∧
    expected [⟨5, 0⟩, ⟨7, 3⟩, ⟨9, 0⟩] = ⟨[5, 0, 9], [0, 3, 0]⟩ := by decide

/-- a complete run with one task, cancelled before the task finishes, returning through the cancel arm -/
example : ∃ s, Reach 1 (fun _ => ⟨4, 0⟩) (init false) s ∧ s.main = .returned := by
  let o : Nat → Outcome := fun _ => ⟨4, 0⟩
  let s0 := init false
  let s1 : Sys := { s0 with cancelled := true }
  let s2 : Sys := { s1 with main := .afterCancel }
  let s3 : Sys := { s2 with g := upd s2.g 0 .fnReturned }
  let s4 : Sys := { s3 with results := upd s3.results 0 4, g := upd s3.g 0 .done }
  let s5 : Sys := { s4 with closed := true }
  let s6 : Sys := { s5 with main := .returned }
  have h1 : Step 1 o s0 s1 := Step.cancel s0
  have h2 : Step 1 o s1 s2 := Step.selCtx s1 rfl rfl
  have h3 : Step 1 o s2 s3 := Step.fnRet s2 0 (by decide) rfl
  have h4 : Step 1 o s3 s4 := by
    have := Step.write (n := 1) (outs := o) s3 0 (by decide) (by simp [s3, upd])
    simpa [o, s4] using this
  have h5 : Step 1 o s4 s5 := Step.close s4 (by
    intro i hi
    have : i = 0 := by omega
    subst this; simp [s4, upd])
  have h6 : Step 1 o s5 s6 := Step.waitDone s5 rfl rfl
  exact ⟨s6, (((((Reach.refl s0).step h1).step h2).step h3).step h4).step h5 |>.step h6, rfl⟩

end Specter.C46
