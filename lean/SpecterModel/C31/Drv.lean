import SpecterModel.Util
import SpecterModel.C31.Model
/-! C31 line-protocol driver.  See harness/cmd/c31/main.go for the op lines. -/
namespace Specter.C31
open Specter.Util

def ParseErr.tok : ParseErr → String
  | .parts => "parts" | .tag => "tag" | .difficulty => "difficulty" | .date => "date"

def VErr.tok : VErr → String
  | .alg => "v-alg" | .expired => "v-expired" | .subject => "v-subject" | .solution => "v-solution" | .panic => "panic"

def Res.tok : Res → String
  | .ok => "ok" | .pubLen => "publen" | .sigLen => "siglen" | .noSolution => "nosolution" | .badSig => "badsig"
  | .parse e => "parse-" ++ e.tok | .wrongDifficulty => "difficulty" | .zeroExp => "zeroexp" | .tooFar => "toofar"
  | .verify e => e.tok

def expTok : Option Nat → String
  | none => "z"
  | some e => toString e

def parseExpTok (s : String) : Option (Option Nat) :=
  if s = "z" then some none else s.toNat?.map some

/-- statement-level oracle for `VerifySolution`: fields as parsed by the REAL `hashcash.Parse` (pf), digest by the real SHA-256 -/
def specAccept (pubLen sigLen : Nat) (sigOK : Bool) (required expiresNs : Nat) (subject : Bytes)
    (pf : Option (Nat × Option Nat × Bytes × Bytes)) (digest : Bytes) (now : Int) : Bool :=
  match pf with
  | none => false
  | some (d, exp, sub, alg) =>
    match exp with
    | none => false
    | some e =>
      pubLen == 32 && sigLen == 64 && sigOK && d == required
        && decide (now ≤ expNs e) && decide (expNs e - now ≤ 2 * (expiresNs : Int))
        && sub == subject && alg == algSHA256 && decide (required ≤ leadingZeroBits digest)

/-- not expired and inside the window at `now` (expiry as parsed by the real `Parse`) -/
def timeOK (expiresNs : Nat) (pf : Option (Nat × Option Nat × Bytes × Bytes)) (now : Int) : Bool :=
  match pf with
  | some (_, some e, _, _) => decide (now ≤ expNs e) && decide (expNs e - now ≤ 2 * (expiresNs : Int))
  | _ => false

/-- statement-level oracle for `Hashcash.Verify(expected)` at instant `now`: the stamp is accepted exactly when it uses SHA-256,
has not expired, NAMES THE EXPECTED SUBJECT, and its hash (real SHA-256 digest) starts with at least `difficulty` zero bits -/
def specVerify (d : Nat) (exp : Option Nat) (stampSubject alg expected digest : Bytes) (now : Int) : Bool :=
  alg == algSHA256
    && (match exp with | none => true | some e => decide (now ≤ expNs e))
    && stampSubject == expected && decide (d ≤ leadingZeroBits digest)

def verifyTok : Except VErr Unit → String
  | .ok _ => "ok"
  | .error e => e.tok

def parsePF (s : String) : Option (Option (Nat × Option Nat × Bytes × Bytes)) :=
  if s = "perr" then some none else
  match s.splitOn "," with
  | [d, e, sub, alg] =>
    match d.toNat?, parseExpTok e, hexToBytes sub, hexToBytes alg with
    | some d, some e, some sub, some alg => some (some (d, e, sub, alg))
    | _, _, _, _ => none
  | _ => none

def step (_ : Unit) (toks : List String) (rhs : String) : Unit × Verdict :=
  match toks with
  | ["vb", hash, bits, n] =>
    match hexToBytes hash, bits.toNat?, n.toNat? with
    | some hash, some bits, some n =>
      let m : String :=
        if n > hash.length then "panic" else
        match verifyBits (hash.take n) bits n with
        | none => "panic"
        | some b => boolStr b
      let want := boolStr (decide (bits ≤ leadingZeroBits hash))
      if n = nBytes bits ∧ n ≤ hash.length ∧ rhs ≠ want then ((), .spec s!"bit test: leadingZeroBits={leadingZeroBits hash} bits={bits} want={want}")
      else if m ≠ rhs then ((), .diff m)
      else ((), .ok)
    | _, _, _ => ((), .bad "vb args")
  | ["hcv", diff, digest] =>
    -- end-to-end bit test of `Hashcash.Verify` on an unexpired, well-formed SHA-256 stamp with the expected
    -- subject: accepted exactly when the stamp hash has at least `difficulty` leading zero bits
    match diff.toNat?, hexToBytes digest with
    | some d, some dg =>
      let want := if decide (d ≤ leadingZeroBits dg) then "accept" else "reject"
      if rhs ≠ want then ((), .spec s!"Hashcash.Verify: leadingZeroBits={leadingZeroBits dg} difficulty={d} want={want}")
      else ((), .ok)
    | _, _ => ((), .bad "hcv args")
  | ["hcvs", diff, exp, ssub, nonce, alg, sol, esub, hashed, digest, nowLo, nowHi] =>
    -- the real `Hashcash.Verify(esub)` on a stamp whose own subject is `ssub`
    match diff.toNat?, parseExpTok exp, hexToBytes ssub, hexToBytes nonce, hexToBytes alg, hexToBytes sol, hexToBytes esub with
    | some diff, some exp, some ssub, some nonce, some alg, some sol, some esub =>
      match hexToBytes hashed, hexToBytes digest, nowLo.toInt?, nowHi.toInt? with
      | some hashed, some digest, some nowLo, some nowHi =>
        let h : Hashcash := { difficulty := diff, expiresAt := exp, subject := ssub, nonce := nonce, alg := alg, solution := sol }
        if toStr h ≠ hashed then ((), .diff ("string," ++ bytesToHex (toStr h))) else
        let sha : Bytes → Bytes := fun s => if s = hashed then digest else []
        let sLo := specVerify diff exp ssub alg esub digest nowLo
        let sHi := specVerify diff exp ssub alg esub digest nowHi
        let mLo := verifyTok (hcVerify sha h esub nowLo)
        let mHi := verifyTok (hcVerify sha h esub nowHi)
        let implOK := rhs == "ok"
        if sLo = sHi ∧ implOK ≠ sLo then
          ((), .spec s!"Hashcash.Verify: statement says accept={sLo} (stamp names the expected subject: {ssub == esub}, leadingZeroBits={leadingZeroBits digest}, difficulty={diff}), implementation {rhs}")
        else if mLo = mHi ∧ mLo ≠ rhs then ((), .diff mLo)
        else ((), .ok)
      | _, _, _, _ => ((), .bad "hcvs args")
    | _, _, _, _, _, _, _ => ((), .bad "hcvs args")
  | ["parse", sol] =>
    match hexToBytes sol with
    | some sol =>
      let m : String := match parse sol with
        | .error e => "err," ++ e.tok
        | .ok h => ",".intercalate ["ok", toString h.difficulty, expTok h.expiresAt, bytesToHex h.subject, bytesToHex h.nonce,
            bytesToHex h.alg, bytesToHex h.solution, bytesToHex (toStr h)]
      if m ≠ rhs then ((), .diff m) else ((), .ok)
    | none => ((), .bad "parse args")
  | ["vs", pubLen, sigLen, sol, sigOK, required, expiresNs, subj, hashed, digest, nowLo, nowHi, fromSolver, pf] =>
    match (hexToBytes pubLen).map List.length, (hexToBytes sigLen).map List.length, hexToBytes sol, parseBool sigOK, required.toNat?, expiresNs.toNat?, hexToBytes subj,
          hexToBytes hashed, hexToBytes digest, nowLo.toInt?, nowHi.toInt?, parseBool fromSolver, parsePF pf with
    | some pubLen, some sigLen, some sol, some sigOK, some required, some expiresNs, some subj,
      some hashed, some digest, some nowLo, some nowHi, some fromSolver, some pf =>
      let sha : Bytes → Bytes := fun s => if s = hashed then digest else []
      let mLo := verifySolution sha pubLen sigLen sol sigOK required expiresNs subj nowLo nowLo
      let mHi := verifySolution sha pubLen sigLen sol sigOK required expiresNs subj nowHi nowHi
      let sLo := specAccept pubLen sigLen sigOK required expiresNs subj pf digest nowLo
      let sHi := specAccept pubLen sigLen sigOK required expiresNs subj pf digest nowHi
      let implOK := rhs == "ok"
      -- "proofs produced by the solver for the same parameters are always accepted" (while they have not expired)
      if fromSolver ∧ ¬ implOK ∧ timeOK expiresNs pf nowLo ∧ timeOK expiresNs pf nowHi then ((), .spec s!"proof produced by the solver for the same parameters rejected: {rhs}")
      else if sLo = sHi ∧ implOK ≠ sLo then ((), .spec s!"acceptance: statement says accept={sLo}, implementation {rhs}")
      else if mLo = mHi ∧ mLo.tok ≠ rhs then ((), .diff mLo.tok)
      else ((), .ok)
    | _, _, _, _, _, _, _, _, _, _, _, _, _ => ((), .bad "vs args")
  | ["solve", diff, exp, subj, nonce, alg, maxD, pre, solved, digest] =>
    match diff.toNat?, parseExpTok exp, hexToBytes subj, hexToBytes nonce, hexToBytes alg, maxD.toNat?, hexToBytes pre,
          hexToBytes solved, hexToBytes digest with
    | some diff, some exp, some subj, some nonce, some alg, some maxD, some pre, some solved, some digest =>
      let h0 : Hashcash := { difficulty := diff, expiresAt := exp, subject := subj, nonce := nonce, alg := alg, solution := [] }
      if toStr h0 ≠ pre then ((), .diff ("string," ++ bytesToHex (toStr h0))) else
      let mErr : Option String :=
        if alg ≠ algSHA256 then some "err,alg"
        else if diff > maxD ∨ diff > maxDifficulty then some "err,difficulty" else none
      match mErr, rhs.splitOn "," with
      | some e, _ => if rhs = e then ((), .ok) else ((), .diff e)
      | none, ["ok", sol] =>
        match hexToBytes sol with
        | some sol =>
          if ¬ diff ≤ leadingZeroBits digest then ((), .spec s!"solver returned a stamp with only {leadingZeroBits digest} leading zero bits (difficulty {diff})")
          else if toStr { h0 with solution := sol } ≠ solved then ((), .diff ("string," ++ bytesToHex (toStr { h0 with solution := sol })))
          else ((), .ok)
        | none => ((), .bad "solve rhs")
      | none, _ => ((), .diff "ok,<solution>")
    | _, _, _, _, _, _, _, _, _ => ((), .bad "solve args")
  | ["rsolve", diff, exp, subj, nonce, alg, sol0, maxD, before, dgBefore, nowLo, nowHi, after, dgAfter] =>
    -- `Solve` on a stamp that may already carry a solution `sol0` (still valid, stale after a parameter change, foreign).
    -- `before`/`after` = real String() before/after the call with their real SHA-256 digests; nowLo/nowHi = wall clock
    -- around the call (the early return of `Solve` runs `Verify`, which reads the clock).
    match diff.toNat?, parseExpTok exp, hexToBytes subj, hexToBytes nonce, hexToBytes alg, hexToBytes sol0, maxD.toNat? with
    | some diff, some exp, some subj, some nonce, some alg, some sol0, some maxD =>
      match hexToBytes before, hexToBytes dgBefore, nowLo.toInt?, nowHi.toInt?, hexToBytes after, hexToBytes dgAfter with
      | some before, some dgBefore, some nowLo, some nowHi, some after, some dgAfter =>
        let h : Hashcash := { difficulty := diff, expiresAt := exp, subject := subj, nonce := nonce, alg := alg, solution := sol0 }
        if toStr h ≠ before then ((), .diff ("string," ++ bytesToHex (toStr h))) else
        let implSol : Option Bytes := match rhs.splitOn "," with
          | ["ok", s] => hexToBytes s
          | _ => none
        match implSol with
        | some sol =>
          -- statement: what the solver returns is accepted, so the stamp it leaves behind must have the bits
          if ¬ diff ≤ leadingZeroBits dgAfter then
            ((), .spec s!"solver returned a stamp with only {leadingZeroBits dgAfter} leading zero bits (difficulty {diff}, previous solution {if sol0 = [] then "absent" else "present"})")
          else
          -- model `solve` with the real digests as `sha` and the implementation's answer as the only candidate of the search
          let sha : Bytes → Bytes := fun s => if s = before then dgBefore else if s = after then dgAfter else []
          let tok : Except SolveErr Hashcash → String
            | .ok h' => if toStr h' = after then "ok," ++ bytesToHex h'.solution else "string," ++ bytesToHex (toStr h')
            | .error .alg => "err,alg" | .error .difficulty => "err,difficulty"
            | .error .exhausted => "ok,<another solution: the returned one does not pass the bit test on the stamp without the old solution>"
          let mLo : String := tok (solve sha (fun _ => sol) h maxD nowLo 1)
          let mHi : String := tok (solve sha (fun _ => sol) h maxD nowHi 1)
          if mLo == mHi && mLo != rhs then ((), .diff mLo) else ((), .ok)
        | none =>
          let m : String :=
            if alg ≠ algSHA256 then "err,alg"
            else if diff > maxD ∨ diff > maxDifficulty then "err,difficulty" else "ok,<solution>"
          if m ≠ rhs then ((), .diff m) else ((), .ok)
      | _, _, _, _, _, _ => ((), .bad "rsolve args")
    | _, _, _, _, _, _, _ => ((), .bad "rsolve args")
  | _ => ((), .bad "unknown op")

def main : IO Unit := runLoop () step

end Specter.C31
