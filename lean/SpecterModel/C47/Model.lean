/-!
C47 executable model of `listen.ParseAddresses` (core Lean only).

Strings are `List Char`. The results of `net.SplitHostPort` / `net.ParseIP` / `ip.To4` on an address are an
input (`Oracle`: address ↦ class and host), supplied by the harness from the real library.
`parse` follows the code (loop with the `seen` set, duplicate test before validation, early error return);
`spec` is the declarative reading of the property statement. `Props` proves them equal.
-/
namespace Specter.C47

abbrev Str := List Char

/-- `unicode.IsSpace` (Go): the characters `strings.TrimSpace` removes -/
def isSpace (c : Char) : Bool :=
  let n := c.toNat
  n == 0x20 || (0x09 ≤ n && n ≤ 0x0d) || n == 0x85 || n == 0xA0 || n == 0x1680 ||
  (0x2000 ≤ n && n ≤ 0x200a) || n == 0x2028 || n == 0x2029 || n == 0x202f || n == 0x205f || n == 0x3000

def trimLeft (s : Str) : Str := s.dropWhile isSpace
def trim (s : Str) : Str := (trimLeft (trimLeft s).reverse).reverse

/-- `coalesceAddrs`: trim every entry, drop the empty ones -/
def coalesce : List Str → List Str
  | [] => []
  | a :: rest => let v := trim a; if v = [] then coalesce rest else v :: coalesce rest

inductive Class where
  | bad      -- net.SplitHostPort fails
  | empty    -- host == ""
  | v4       -- net.ParseIP(host) != nil && To4() != nil
  | v6       -- net.ParseIP(host) != nil && To4() == nil
  | fly      -- host == "fly-global-services"
  | other    -- any other host
deriving DecidableEq, Repr

inductive Version where | any | v4 | v6
deriving DecidableEq, Repr

structure Address where
  address : Str
  host : Str
  network : Str
  version : Version
deriving DecidableEq, Repr

inductive Err where | none_ | split | host
deriving DecidableEq, Repr

abbrev Oracle := Str → Class × Str

/-- `overrideHostIPVersion(host, ClassifyIPVersion(host))` in terms of the class -/
def versionOf : Class → Version
  | .v4 => .v4
  | .fly => .v4
  | .v6 => .v6
  | _ => .any

/-- `NetworkForVersion` -/
def networkFor (proto : Str) : Version → Str
  | .v4 => proto ++ ['4']
  | .v6 => proto ++ ['6']
  | .any => proto

def mkAddr (proto : Str) (o : Oracle) (a : Str) : Address :=
  { address := a, host := (o a).2, version := versionOf (o a).1, network := networkFor proto (versionOf (o a).1) }

/-- the `for _, a := range addrs` loop -/
def loop (proto : Str) (o : Oracle) : List Str → List Str → List Address → Except Err (List Address)
  | _, [], out => .ok out
  | seen, a :: rest, out =>
    if a ∈ seen then loop proto o seen rest out
    else match (o a).1 with
      | .bad => .error .split
      | .other => .error .host
      | _ => loop proto o (a :: seen) rest (out ++ [mkAddr proto o a])

def effective (base overrides : List Str) : List Str :=
  let addrs := coalesce base
  let trimmed := coalesce overrides
  if trimmed.length > 0 then trimmed else addrs

def parse (proto : Str) (o : Oracle) (base overrides : List Str) : Except Err (List Address) :=
  let addrs := effective base overrides
  if addrs.length = 0 then .error .none_ else loop proto o [] addrs []

/-! ### declarative spec (the property statement) -/

/-- keep the first occurrence of every element, in order -/
def firsts [DecidableEq α] : List α → List α → List α
  | _, [] => []
  | seen, a :: l => if a ∈ seen then firsts seen l else a :: firsts (a :: seen) l

def invalid (o : Oracle) (a : Str) : Bool := (o a).1 == .bad || (o a).1 == .other

def spec (proto : Str) (o : Oracle) (base overrides : List Str) : Except Err (List Address) :=
  let b := (base.map trim).filter (· ≠ [])
  let v := (overrides.map trim).filter (· ≠ [])
  let eff := if v ≠ [] then v else b
  if eff = [] then .error .none_
  else match eff.find? (invalid o) with
    | some a => .error (if (o a).1 = .bad then .split else .host)
    | none => .ok ((firsts [] eff).map (mkAddr proto o))

end Specter.C47
