import SpecterModel.C42.Drv

def main : IO Unit := Specter.C42.main
