import SpecterModel.C01.Model
/-!
Ring arithmetic lemmas shared by the ring proofs (C01, C09, C05, …).
`between` is related to the clockwise distance `dist a b = (b + M - a) % M`.
-/
namespace Specter.Ring

def dist (a b : Nat) : Nat := (b + M - a) % M

theorem M_val : M = 281474976710656 := by simp [M]

theorem dist_cases (a b : Nat) (ha : a < M) (hb : b < M) :
    (a ≤ b ∧ dist a b = b - a) ∨ (b < a ∧ dist a b = b + M - a) := by
  unfold dist; simp only [M, Nat.reducePow] at *; omega

theorem dist_lt (a b : Nat) : dist a b < M := by
  unfold dist; exact Nat.mod_lt _ (by simp [M])

theorem between_open_iff (l t h : Nat) (hl : l < M) (ht : t < M) (hh : h < M) :
    between l t h false = true ↔ (0 < dist l t ∧ (dist l t < dist l h ∨ l = h)) := by
  unfold between dist; simp only [M] at *
  by_cases c : h > l
  · simp [c]; omega
  · simp [c]; omega

theorem between_closed_iff (l t h : Nat) (hl : l < M) (ht : t < M) (hh : h < M) :
    between l t h true = true ↔ (0 < dist l t ∧ (dist l t ≤ dist l h ∨ l = h)) ∨ (t = h) := by
  unfold between dist; simp only [M] at *
  by_cases c : h > l
  · simp [c]; omega
  · simp [c]; omega

/-- clockwise distance from `x` to `key`, counting a full turn when `x = key`
    (the measure that every forwarding hop of `findSucc` strictly decreases) -/
def cw (key x : Nat) : Nat := if x = key then M else dist x key

theorem cw_le (key x : Nat) : cw key x ≤ M := by
  unfold cw; split
  · exact Nat.le_refl _
  · exact Nat.le_of_lt (dist_lt _ _)

/-- a hop to a node strictly inside (n, key) decreases the measure -/
theorem cw_lt_of_between_open (n c key : Nat) (hn : n < M) (hc : c < M) (hk : key < M)
    (h : between n c key false = true) : cw key c < cw key n := by
  rw [between_open_iff n c key hn hc hk] at h
  have := dist_cases n c hn hc; have := dist_cases n key hn hk
  have := dist_cases c key hc hk; have := M_val
  unfold cw
  by_cases e1 : c = key <;> by_cases e2 : n = key <;> simp [e1, e2] <;> omega

/-- if `key ∉ (n, s]` then `s` lies strictly inside (n, key): hopping to the successor decreases the measure -/
theorem cw_lt_of_not_between_closed (n s key : Nat) (hn : n < M) (hs : s < M) (hk : key < M)
    (h : ¬ between n key s true = true) : cw key s < cw key n := by
  have h' := mt (between_closed_iff n key s hn hk hs).mpr h
  have := dist_cases n s hn hs; have := dist_cases n key hn hk
  have := dist_cases s key hs hk; have := M_val
  unfold cw
  by_cases e1 : s = key <;> by_cases e2 : n = key <;> simp [e1, e2] <;> omega

end Specter.Ring
