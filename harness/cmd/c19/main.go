// C19 correspondence: random acquire / renew / release histories from several holders on the real
// kv/memory, kv/aof and kv/sqlite3 stores (real clock, bracketed per call), stale / forged / zero
// tokens, TTLs around one second, expiry by real sleeps and by planted (imported) tokens in the past /
// future, leases moved to another store by Export -> Import; judged by `modeld C19`.
package main

import (
	"hash/fnv"
	"regexp"
	"strconv"
	"strings"

	"verif/harness/hlib"
	"verif/harness/kvh"
)

var tokRe = regexp.MustCompile(`[0-9]{12,}`)

func main() {
	r := hlib.Start()
	r.Rule = "one case = fresh real memory, aof and sqlite stores and 1..3 lease names; 10..40 random ops: acquire / renew with TTL in {-1s, 0, 0.5s, 1s-1ns, 1s, 1s+1ns, 1.5s, 1.9s, 2s, 1h}, renew / release with the current token, an older token of the same lease, the current token +-1, 0, 2^63-1 or a random number, tokens planted through Import relative to the clock (expired 1ns / 1s ago, live for 1.5s / 30s), Export probes after refused and accepted attempts, transfer of the lease to a second store by Export -> Import followed by renew/release/acquire there, and (some cases) a real sleep of 1.1s after a 1s grant so that expiry happens on the wall clock; every op is run on the three back-ends; non-trivial = distinct abstract history prefix (ops with token references, answers with tokens abstracted)"
	env := kvh.NewEnv(r)
	defer env.Close()
	if r.Replay != "" {
		env.Replay(r.ReplayLines())
		r.Finish()
		return
	}
	rng := hlib.NewRng(r.Seed)
	cases, sleepCases := 70, 8
	if r.Thorough() {
		cases, sleepCases = 1500, 60
	}
	ttls := []string{"-1000000000", "0", "500000000", "999999999", "1000000000", "1000000001", "1500000000", "1900000000", "2000000000", "3600000000000"}
	okTTL := []string{"1000000000", "1900000000", "2000000000", "30000000000"}
	refs := func() string {
		switch rng.Intn(10) {
		case 0, 1, 2, 3:
			return "last:0"
		case 4:
			return "old:1:0"
		case 5:
			return "last:1"
		case 6:
			return "last:-1"
		case 7:
			return "abs:0"
		case 8:
			return "abs:9223372036854775807"
		default:
			return "abs:" + strconv.FormatUint(rng.U64()>>1, 10)
		}
	}
	for c := 0; c < cases; c++ {
		env.Reset()
		nk := 1 + rng.Intn(3)
		keys := make([]string, nk)
		for i := range keys {
			keys[i] = hlib.HexS("lease" + strconv.Itoa(i))
			env.Exec([]string{"hash", keys[i], strconv.Itoa(i * 5)})
		}
		hist := fnv.New64a()
		all := func(sfx, op string, args ...string) []string {
			res := env.All(sfx, op, args...)
			abs := op + sfx + " " + strings.Join(args, " ") + "=>" + tokRe.ReplaceAllString(strings.Join(res, "|"), "T")
			hist.Write([]byte(abs))
			k := ""
			if op == "acquire" || op == "renew" || op == "release" {
				k = strconv.FormatUint(hist.Sum64(), 16)
				for range res {
					r.Case(k)
				}
				if op != "acquire" {
					r.Count("tokenref:" + strings.SplitN(args[len(args)-1], ":", 2)[0])
				}
			}
			return res
		}
		sleepy := c < sleepCases
		nops := 10 + rng.Intn(31)
		moved := false
		for i := 0; i < nops; i++ {
			k := hlib.Pick(rng, keys)
			sfx := ""
			if moved && rng.Chance(60) {
				sfx = "2"
			}
			switch x := rng.Intn(100); {
			case x < 22:
				all(sfx, "acquire", k, hlib.Pick(rng, ttls))
			case x < 34:
				all(sfx, "acquire", k, hlib.Pick(rng, okTTL))
			case x < 54:
				ttl := hlib.Pick(rng, okTTL)
				if rng.Chance(30) {
					ttl = hlib.Pick(rng, ttls)
				}
				all(sfx, "renew", k, ttl, refs())
			case x < 72:
				all(sfx, "release", k, refs())
			case x < 82:
				rel := hlib.Pick(rng, []string{"rel:-1", "rel:-1000000000", "rel:1500000000", "rel:30000000000", "rel:-5000000000000"})
				all(sfx, "import", k+"=nil/[]/0/"+rel)
				r.Count("plant:" + rel)
			case x < 92:
				all(sfx, "export", k)
			case x < 96 && !moved:
				// move every lease to a second store of each back-end the way the DHT hands keys off when a
				// node leaves: RangeKeys(0,0) selects the keys (a key holding only a lease must be among them),
				// then Export -> Import
				all("", "range", "0", "0")
				all("", "export", strings.Join(keys, ","))
				for _, b := range kvh.Backends {
					ex := env.Exec([]string{"export", b, strings.Join(keys, ",")})
					if strings.HasPrefix(ex, "err") || ex == "panic" {
						continue
					}
					line := []string{"import", b + "2"}
					for j, e := range strings.Split(ex, ";") {
						line = append(line, keys[j]+"="+e+"/abs")
					}
					env.Exec(line)
				}
				moved = true
				r.Count("lease-moved-by-transfer")
			default:
				if sleepy {
					// a 1s grant on a fresh name, then real time passes
					all(sfx, "acquire", k, "1000000000")
					env.Exec([]string{"sleep", "1100"})
					sleepy = false
					r.Count("real-expiry-sleep")
					switch rng.Intn(3) {
					case 0:
						all(sfx, "acquire", k, "1000000000")
						all(sfx, "renew", k, "1000000000", "old:1:0")
						all(sfx, "release", k, "old:1:0")
					case 1:
						all(sfx, "renew", k, "1000000000", "last:0")
						all(sfx, "acquire", k, "1000000000")
					default:
						all(sfx, "release", k, "last:0")
						all(sfx, "acquire", k, "2000000000")
					}
				} else {
					all(sfx, "listkeys", "-")
				}
			}
		}
		all("", "export", strings.Join(keys, ","))
	}
	r.Finish()
}
