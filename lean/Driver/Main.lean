import SpecterModel.C11.Drv

def main (args : List String) : IO UInt32 := do
  match args with
  | ["C11"] => do Specter.C11.main; return 0
  | _ => do IO.eprintln "usage: modeld <property id>"; return 2
