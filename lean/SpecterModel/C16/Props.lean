import SpecterModel.C16.Spec
import SpecterModel.C16.Gen
/-!
# C16 — every storage back-end implements the KV contract

`Specter.Kv.step b` is the executable model of back-end `b` (tied to the Go code differentially, see
`Drv.lean` / `harness/cmd/c16`), `Specter.Kv.Spec.step` the contract. Main theorem
`refines_contract`: for EVERY sequence of contract operations the model's answers conform to the
contract's (`Get` values modulo empty ≡ absent, everything else equal), by a simulation relation `R`
and one lemma per operation (`step_sim`). For sqlite the statement carries the hypothesis that no
empty simple value is stored; `sqlite_lists_empty_value` witnesses that it cannot be dropped
(`Put(k, "")` then `ListKeys` reports SIMPLE although the contract treats the value as absent).
-/
namespace Specter.Kv

/-! ## store lemmas (shared with C17 / C19) -/

theorem Store.upd_ent (s : Store) (k : Key) (f : Entry → Entry) (k' : Key) :
    (s.upd k f).ent k' = if k' = k then f (s.ent k) else s.ent k' := rfl

@[simp] theorem Store.upd_ent_same (s : Store) (k : Key) (f : Entry → Entry) :
    (s.upd k f).ent k = f (s.ent k) := by simp [Store.upd]

theorem Store.upd_ent_other (s : Store) (k : Key) (f : Entry → Entry) (k' : Key) (h : k' ≠ k) :
    (s.upd k f).ent k' = s.ent k' := by simp [Store.upd, h]

theorem Store.mem_upd_dom (s : Store) (k : Key) (f : Entry → Entry) (k' : Key) :
    k' ∈ (s.upd k f).dom ↔ k' ∈ s.dom ∨ k' = k := by
  unfold Store.upd
  by_cases h : k ∈ s.dom
  · simp only [h, if_true]
    constructor
    · exact Or.inl
    · rintro (h' | h')
      · exact h'
      · exact h' ▸ h
  · simp [h]

theorem Store.drop_ent (s : Store) (k k' : Key) :
    (s.drop k).ent k' = if k' = k then {} else s.ent k' := rfl

theorem nodup_snoc {α : Type} {l : List α} {a : α} (h : l.Nodup) (m : a ∉ l) : (l ++ [a]).Nodup :=
  List.nodup_append.mpr ⟨h, by simp, by
    intro x hx y hy; simp at hy; subst hy; intro e; exact m (e ▸ hx)⟩

/-- well-formed stores: what every reachable model state satisfies -/
structure WF (s : Store) : Prop where
  nodupDom : s.dom.Nodup
  support : ∀ k, k ∉ s.dom → s.ent k = {}
  nodupCh : ∀ k, (s.ent k).children.Nodup

theorem WF.init : WF Store.init := ⟨List.nodup_nil, fun _ _ => rfl, fun _ => List.nodup_nil⟩

theorem WF.upd {s : Store} (h : WF s) (k : Key) (f : Entry → Entry)
    (hf : (f (s.ent k)).children.Nodup) : WF (s.upd k f) := by
  refine ⟨?_, ?_, ?_⟩
  · unfold Store.upd
    by_cases c : k ∈ s.dom
    · simpa [c] using h.nodupDom
    · simp only [c, if_false]
      exact nodup_snoc h.nodupDom c
  · intro k' hk'
    rw [Store.mem_upd_dom] at hk'
    have h1 : k' ≠ k := fun e => hk' (Or.inr e)
    rw [Store.upd_ent_other _ _ _ _ h1]
    exact h.support k' (fun e => hk' (Or.inl e))
  · intro k'
    rw [Store.upd_ent]
    by_cases c : k' = k
    · simpa [c] using hf
    · simpa [c] using h.nodupCh k'

theorem WF.drop {s : Store} (h : WF s) (k : Key) : WF (s.drop k) := by
  refine ⟨?_, ?_, ?_⟩
  · exact h.nodupDom.erase k
  · intro k' hk'
    rw [Store.drop_ent]
    by_cases c : k' = k
    · simp [c]
    · simp only [c, if_false]
      apply h.support
      intro hm
      exact hk' ((List.mem_erase_of_ne c).mpr hm)
  · intro k'
    rw [Store.drop_ent]
    by_cases c : k' = k
    · simp [c]
    · simpa [c] using h.nodupCh k'

theorem addChildren_nodup (new cs : List Bytes) (h : cs.Nodup) : (addChildren cs new).Nodup := by
  unfold addChildren
  induction new generalizing cs with
  | nil => simpa using h
  | cons c new ih =>
    simp only [List.foldl_cons]
    apply ih
    by_cases m : c ∈ cs
    · simpa [m] using h
    · simp only [m, if_false]
      exact nodup_snoc h m

theorem mem_addChildren (new cs : List Bytes) (c : Bytes) :
    c ∈ addChildren cs new ↔ c ∈ cs ∨ c ∈ new := by
  unfold addChildren
  induction new generalizing cs with
  | nil => simp
  | cons d new ih =>
    simp only [List.foldl_cons, List.mem_cons]
    rw [ih]
    by_cases m : d ∈ cs
    · simp only [m, if_true]
      constructor
      · rintro (h | h)
        · exact Or.inl h
        · exact Or.inr (Or.inr h)
      · rintro (h | h | h)
        · exact Or.inl h
        · exact Or.inl (h ▸ m)
        · exact Or.inr h
    · simp only [m, if_false, List.mem_append, List.mem_singleton]
      constructor
      · rintro ((h | h) | h)
        · exact Or.inl h
        · exact Or.inr (Or.inl h)
        · exact Or.inr (Or.inr h)
      · rintro (h | h | h)
        · exact Or.inl (Or.inl h)
        · exact Or.inl (Or.inr h)
        · exact Or.inr h

theorem onLease_wf {s : Store} (h : WF s) (k : Key) (r : Nat × Out) : WF (onLease s k r).1 := by
  unfold onLease
  by_cases c : r.1 = (s.ent k).lease
  · simpa [c] using h
  · simp only [c, if_false]
    exact h.upd k _ (h.nodupCh k)

theorem importAll_wf (b : Backend) (kvs : List (Key × Entry)) (s : Store) (h : WF s) :
    WF (importAll b s kvs) := by
  unfold importAll
  induction kvs generalizing s with
  | nil => simpa using h
  | cons kv kvs ih =>
    simp only [List.foldl_cons]
    apply ih
    apply h.upd
    unfold importEntry
    by_cases c : b.isSql <;> simp only [c] <;> exact addChildren_nodup _ _ (h.nodupCh _)

theorem removeAll_wf (ks : List Key) (s : Store) (h : WF s) : WF (removeAll s ks) := by
  unfold removeAll
  induction ks generalizing s with
  | nil => simpa using h
  | cons k ks ih => simp only [List.foldl_cons]; exact ih _ (h.drop k)

/-- every operation of every back-end preserves well-formedness -/
theorem step_wf (b : Backend) (hash : Key → Nat) (s : Store) (op : Op) (h : WF s) :
    WF (step b hash s op).1 := by
  cases op <;> simp only [step]
  case put k v => exact h.upd k _ (h.nodupCh k)
  case get => exact h
  case delete k => exact h.upd k _ (h.nodupCh k)
  case pappend k c =>
    by_cases m : c ∈ (s.ent k).children
    · simpa [m] using h
    · simp only [m, if_false]
      exact h.upd k _ (nodup_snoc (h.nodupCh k) m)
  case plist => exact h
  case pcontains => exact h
  case premove k c => exact h.upd k _ ((h.nodupCh k).erase c)
  case listKeys => exact h
  case acquire => exact onLease_wf h _ _
  case renew => exact onLease_wf h _ _
  case release => exact onLease_wf h _ _
  case importKV kvs => exact importAll_wf b kvs s h
  case exportKV => exact h
  case rangeKeys => exact h
  case removeKeys ks => exact removeAll_wf ks s h

theorem exec_wf (b : Backend) (hash : Key → Nat) (ops : List Op) (s : Store) (h : WF s) :
    WF (exec (step b hash) s ops) := by
  induction ops generalizing s with
  | nil => exact h
  | cons op ops ih => exact ih _ (step_wf b hash s op h)

/-! ## lease cell: the back-end comparisons are the contract's (with the back-end's policy) -/

theorem ttlGuard_eq_grant (ttl : Int) : ttlGuard ttl = Spec.grant ttl := by
  have hs : second = 1000000000 := rfl
  simp only [ttlGuard, Spec.grant, hs]
  by_cases h : 0 ≤ ttl
  · rw [Int.tmod_eq_emod_of_nonneg h]
    have e : ttl - ttl % 1000000000 = ttl / 1000000000 * 1000000000 := by omega
    simp only [e]
    by_cases c : ttl < 1000000000
    · have : ttl / 1000000000 * 1000000000 < 1000000000 := by omega
      simp [c, this]
    · have : ¬ ttl / 1000000000 * 1000000000 < 1000000000 := by omega
      simp [c, this]
  · have h1 := Int.lt_tmod_of_pos ttl (b := 1000000000) (by decide)
    have : ttl - ttl.tmod 1000000000 < 1000000000 := by omega
    have c : ttl < 1000000000 := by omega
    simp [c, this]

theorem acquireCell_eq (cur now : Nat) (ttl : Int) :
    acquireCell cur now ttl = Spec.acquireCell cur now ttl := by
  unfold acquireCell Spec.acquireCell
  rw [ttlGuard_eq_grant]
  cases Spec.grant ttl with
  | none => rfl
  | some d =>
    simp only
    by_cases c : cur > now
    · have : ¬ (cur = 0 ∨ cur ≤ now) := by omega
      simp [c, this]
    · have : cur = 0 ∨ cur ≤ now := by omega
      simp [c, this]

theorem renewOk_iff (b : Backend) (cur prev now : Nat) :
    renewOk b cur prev now = true ↔
      (cur ≠ 0 ∧ prev = cur ∧ (now < cur ∨ (b.policy.renewAtExpiry = true ∧ now = cur))) := by
  unfold renewOk Backend.policy
  cases b <;> simp [Backend.isSql] <;> omega

theorem renewCell_eq (b : Backend) (cur prev now : Nat) (ttl : Int) :
    renewCell b cur prev now ttl = Spec.renewCell b.policy cur prev now ttl := by
  unfold renewCell Spec.renewCell
  rw [ttlGuard_eq_grant]
  cases Spec.grant ttl with
  | none => rfl
  | some d =>
    simp only
    by_cases c : renewOk b cur prev now = true
    · have c' := (renewOk_iff b cur prev now).mp c
      rw [if_pos c, if_pos c']
    · have c' := mt (renewOk_iff b cur prev now).mpr c
      rw [if_neg c, if_neg c']

theorem releaseOk_iff (b : Backend) (cur tok : Nat) :
    releaseOk b cur tok = true ↔ (tok = cur ∧ (cur ≠ 0 ∨ b.policy.releaseFreeZero = true)) := by
  unfold releaseOk Backend.policy
  cases b <;> simp [Backend.isSql] <;> omega

theorem releaseCell_eq (b : Backend) (cur tok : Nat) :
    releaseCell b cur tok = Spec.releaseCell b.policy cur tok := by
  unfold releaseCell Spec.releaseCell
  by_cases c : releaseOk b cur tok = true
  · rw [if_pos c, if_pos ((releaseOk_iff b cur tok).mp c)]
  · rw [if_neg c, if_neg (mt (releaseOk_iff b cur tok).mpr c)]

/-! ## the simulation relation -/

theorem norm_norm (v : Option Bytes) : norm (norm v) = norm v := by
  cases v with
  | none => rfl
  | some v => cases v <;> rfl

/-- model state `m` of back-end `b` represents contract state `s` -/
structure R (b : Backend) (m s : Store) : Prop where
  dom : m.dom = s.dom
  simple : ∀ k, norm (m.ent k).simple = (s.ent k).simple
  children : ∀ k, (m.ent k).children = (s.ent k).children
  lease : ∀ k, (m.ent k).lease = (s.ent k).lease
  /-- sqlite under the no-empty-value hypothesis: no stored row is empty -/
  sqlRows : b.isSql = true → ∀ k, (m.ent k).simple ≠ some []

theorem R.init (b : Backend) : R b Store.init Store.init :=
  ⟨rfl, fun _ => rfl, fun _ => rfl, fun _ => rfl, fun _ _ => by simp [Store.init]⟩

/-- updating one key on both sides with related results keeps `R` -/
theorem R.upd {b : Backend} {m s : Store} (h : R b m s) (k : Key) (f g : Entry → Entry)
    (h1 : norm (f (m.ent k)).simple = (g (s.ent k)).simple)
    (h2 : (f (m.ent k)).children = (g (s.ent k)).children)
    (h3 : (f (m.ent k)).lease = (g (s.ent k)).lease)
    (h4 : b.isSql = true → (f (m.ent k)).simple ≠ some []) :
    R b (m.upd k f) (s.upd k g) := by
  refine ⟨?_, ?_, ?_, ?_, ?_⟩
  · simp only [Store.upd, h.dom]
  all_goals intro k'
  · rw [Store.upd_ent, Store.upd_ent]; by_cases c : k' = k
    · simpa [c] using h1
    · simpa [c] using h.simple k'
  · rw [Store.upd_ent, Store.upd_ent]; by_cases c : k' = k
    · simpa [c] using h2
    · simpa [c] using h.children k'
  · rw [Store.upd_ent, Store.upd_ent]; by_cases c : k' = k
    · simpa [c] using h3
    · simpa [c] using h.lease k'
  · intro k''; rw [Store.upd_ent]; by_cases c : k'' = k
    · simpa [c] using h4 k'
    · simpa [c] using h.sqlRows k' k''

theorem R.onLease {b : Backend} {m s : Store} (h : R b m s) (k : Key) (r : Nat × Out) :
    R b (onLease m k r).1 (onLease s k r).1 ∧ (onLease m k r).2 = (onLease s k r).2 := by
  unfold Specter.Kv.onLease
  rw [h.lease k]
  by_cases c : r.1 = (s.ent k).lease
  · simp only [c, if_true]; exact ⟨h, trivial⟩
  · simp only [c, if_false]
    exact ⟨h.upd k _ _ (h.simple k) (h.children k) rfl (fun q => h.sqlRows q k), trivial⟩

theorem kindsOf_eq {b : Backend} {m s : Store} (h : R b m s) (k : Key) :
    kindsOf b k (m.ent k) = Spec.kindsOf k (s.ent k) := by
  unfold kindsOf Spec.kindsOf
  rw [← h.children k, ← h.lease k]
  have e : listsSimple b (m.ent k) = (s.ent k).simple.isSome := by
    rw [← h.simple k]
    unfold listsSimple
    by_cases q : b.isSql = true
    · have := h.sqlRows q k
      simp only [q, if_true]
      cases hv : (m.ent k).simple with
      | none => simp [norm]
      | some v => cases v with
        | nil => exact absurd hv this
        | cons a l => simp [norm]
    · simp only [q]
      cases (m.ent k).simple with
      | none => simp [norm]
      | some v => cases v <;> simp [norm]
  rw [e]

theorem listKeys_eq {b : Backend} {m s : Store} (h : R b m s) (pre : Bytes) :
    listKeys b m pre = Spec.listKeys s pre := by
  unfold listKeys Spec.listKeys
  rw [h.dom]
  congr 1
  funext k
  exact kindsOf_eq h k

/-- ONE LEMMA PER OPERATION: a contract operation keeps the simulation and its answer conforms.
Hypothesis for sqlite only: the operation does not store an empty simple value. -/
theorem step_sim (b : Backend) (hash : Key → Nat) (m s : Store) (op : Op) (h : R b m s)
    (hkv : op.isKV = true) (hne : b.isSql = true → op.putsEmpty = false) :
    R b (step b hash m op).1 (Spec.step b.policy hash s op).1 ∧
      Out.conforms (step b hash m op).2 (Spec.step b.policy hash s op).2 := by
  cases op <;> simp only [step, Spec.step] <;> try (simp [Op.isKV] at hkv; done)
  case put k v =>
    refine ⟨h.upd k _ _ ?_ (h.children k) (h.lease k) ?_, rfl⟩
    · unfold putValue
      by_cases q : b.isSql = true
      · simp only [q, if_true]; cases v with
        | none => simp [norm]
        | some v => simp
      · simp [q]
    · intro q
      have := hne q
      simp only [Op.putsEmpty] at this
      simp only [putValue, q, if_true]
      cases v with
      | none => simp [norm] at this
      | some v => cases v with
        | nil => simp [norm] at this
        | cons a l => simp
  case get k =>
    refine ⟨h, ?_⟩
    simp only [Out.conforms, Out.normalize, ← h.simple k, norm_norm]
  case delete k =>
    exact ⟨h.upd k _ _ rfl (h.children k) (h.lease k) (fun _ => by simp), rfl⟩
  case pappend k c =>
    rw [h.children k]
    by_cases mem : c ∈ (s.ent k).children
    · simp only [mem, if_true]; exact ⟨h, rfl⟩
    · simp only [mem, if_false]
      exact ⟨h.upd k _ _ (h.simple k) (by simp [h.children k]) (h.lease k) (fun q => h.sqlRows q k), rfl⟩
  case plist k => rw [h.children k]; exact ⟨h, rfl⟩
  case pcontains k c => rw [h.children k]; exact ⟨h, rfl⟩
  case premove k c =>
    exact ⟨h.upd k _ _ (h.simple k) (by simp [h.children k]) (h.lease k) (fun q => h.sqlRows q k), rfl⟩
  case listKeys pre => rw [listKeys_eq h]; exact ⟨h, rfl⟩
  case acquire k ttl now =>
    rw [h.lease k, acquireCell_eq]
    have := h.onLease k (Spec.acquireCell (s.ent k).lease now ttl)
    exact ⟨this.1, by rw [this.2]; exact rfl⟩
  case renew k ttl prev now =>
    rw [h.lease k, renewCell_eq]
    have := h.onLease k (Spec.renewCell b.policy (s.ent k).lease prev now ttl)
    exact ⟨this.1, by rw [this.2]; exact rfl⟩
  case release k tok =>
    rw [h.lease k, releaseCell_eq]
    have := h.onLease k (Spec.releaseCell b.policy (s.ent k).lease tok)
    exact ⟨this.1, by rw [this.2]; exact rfl⟩

/-- pointwise conformance of two answer lists -/
def conformsAll : List Out → List Out → Prop
  | [], [] => True
  | a :: as, b :: bs => Out.conforms a b ∧ conformsAll as bs
  | _, _ => False

theorem run_sim (b : Backend) (hash : Key → Nat) (ops : List Op) (m s : Store) (h : R b m s)
    (hkv : ∀ op ∈ ops, op.isKV = true)
    (hne : b.isSql = true → ∀ op ∈ ops, op.putsEmpty = false) :
    conformsAll (run (step b hash) m ops) (run (Spec.step b.policy hash) s ops) := by
  induction ops generalizing m s with
  | nil => exact True.intro
  | cons op ops ih =>
    have hs := step_sim b hash m s op h (hkv op (by simp)) (fun q => hne q op (by simp))
    exact ⟨hs.2, ih _ _ hs.1 (fun o ho => hkv o (by simp [ho])) (fun q o ho => hne q o (by simp [ho]))⟩

/-- **C16 (memory, aof)**: for every sequence of contract operations, the back-end's answers are the
reference model's (values modulo empty ≡ absent; listings, children, errors, tokens equal). -/
theorem refines_contract (b : Backend) (hb : b.isSql = false) (hash : Key → Nat) (ops : List Op)
    (hkv : ∀ op ∈ ops, op.isKV = true) :
    conformsAll (run (step b hash) Store.init ops) (run (Spec.step b.policy hash) Store.init ops) :=
  run_sim b hash ops _ _ (R.init b) hkv (fun q => by simp [hb] at q)

/-- **C16 (sqlite), partial**: the same for sqlite on histories that never store an empty simple
value. Full statement (without `hne`) is FALSE for the code as it is — see `sqlite_lists_empty_value`. -/
theorem refines_contract_sqlite_partial (hash : Key → Nat) (ops : List Op)
    (hkv : ∀ op ∈ ops, op.isKV = true) (hne : ∀ op ∈ ops, op.putsEmpty = false) :
    conformsAll (run (step .sqlite hash) Store.init ops)
      (run (Spec.step Backend.sqlite.policy hash) Store.init ops) :=
  run_sim .sqlite hash ops _ _ (R.init _) hkv (fun _ => hne)

/-- witness that the hypothesis cannot be dropped: `Put(k, "")` then `ListKeys("")` on the sqlite
model reports SIMPLE for `k`, the contract (empty ≡ absent) reports nothing. -/
theorem sqlite_lists_empty_value :
    ¬ conformsAll (run (step .sqlite (fun _ => 0)) Store.init [.put [107] (some []), .listKeys []])
        (run (Spec.step Backend.sqlite.policy (fun _ => 0)) Store.init [.put [107] (some []), .listKeys []]) := by
  intro h
  exact absurd h.2.1 (by decide)

/-! ## the clauses of the statement, directly on the back-end model (every back-end, every state) -/

/-- put overwrites: a `Get` after `Put(k, v)` answers `v` (modulo empty ≡ absent), whatever was there -/
theorem put_overwrites (b : Backend) (hash : Key → Nat) (s : Store) (k : Key) (v : Option Bytes) :
    Out.conforms (step b hash (step b hash s (.put k v)).1 (.get k)).2 (.value v) := by
  simp only [step, Store.upd_ent_same, Out.conforms, Out.normalize, putValue]
  cases b <;> cases v <;> simp [Backend.isSql, norm]

/-- an empty simple value is treated as absent -/
theorem get_empty_is_absent (b : Backend) (hash : Key → Nat) (s : Store) (k : Key) :
    Out.conforms (step b hash (step b hash s (.put k (some []))).1 (.get k)).2 (.value none) :=
  put_overwrites b hash s k (some [])

/-- delete removes -/
theorem delete_removes (b : Backend) (hash : Key → Nat) (s : Store) (k : Key) :
    (step b hash (step b hash s (.delete k)).1 (.get k)).2 = .value none := by
  simp [step]

/-- duplicate appends conflict, and only they do -/
theorem append_conflict_iff_member (b : Backend) (hash : Key → Nat) (s : Store) (k : Key) (c : Bytes) :
    (step b hash s (.pappend k c)).2 = .prefixConflict ↔ c ∈ (s.ent k).children := by
  simp only [step]
  by_cases m : c ∈ (s.ent k).children <;> simp [m]

theorem append_then_contains (b : Backend) (hash : Key → Nat) (s : Store) (k : Key) (c : Bytes) :
    (step b hash (step b hash s (.pappend k c)).1 (.pcontains k c)).2 = .bool true := by
  simp only [step]
  by_cases m : c ∈ (s.ent k).children <;> simp [m]

/-- a rejected append changes nothing -/
theorem append_conflict_unchanged (b : Backend) (hash : Key → Nat) (s : Store) (k : Key) (c : Bytes)
    (h : (step b hash s (.pappend k c)).2 = .prefixConflict) : (step b hash s (.pappend k c)).1 = s := by
  have m := (append_conflict_iff_member b hash s k c).mp h
  simp [step, m]

/-- removes are idempotent: removing an absent child succeeds and leaves every entry as it was -/
theorem remove_idempotent (b : Backend) (hash : Key → Nat) (s : Store) (k : Key) (c : Bytes)
    (h : c ∉ (s.ent k).children) (k' : Key) :
    (step b hash s (.premove k c)).2 = .ok ∧ (step b hash s (.premove k c)).1.ent k' = s.ent k' := by
  simp only [step, Store.upd_ent, true_and]
  by_cases e : k' = k
  · subst e; simp [List.erase_of_not_mem h]
  · simp [e]

/-- after a remove the child is gone (children are a set) -/
theorem remove_then_absent (b : Backend) (hash : Key → Nat) (s : Store) (wf : WF s) (k : Key) (c : Bytes) :
    (step b hash (step b hash s (.premove k c)).1 (.pcontains k c)).2 = .bool false := by
  simp only [step, Store.upd_ent_same]
  have := (wf.nodupCh k).not_mem_erase (a := c)
  simp [this]

/-- the simple and prefix keyspaces of a key are independent -/
theorem keyspaces_independent (b : Backend) (hash : Key → Nat) (s : Store) (k k' : Key)
    (v : Option Bytes) (c : Bytes) :
    ((step b hash s (.put k v)).1.ent k').children = (s.ent k').children ∧
    ((step b hash s (.delete k)).1.ent k').children = (s.ent k').children ∧
    ((step b hash s (.pappend k c)).1.ent k').simple = (s.ent k').simple ∧
    ((step b hash s (.premove k c)).1.ent k').simple = (s.ent k').simple := by
  simp only [step, Store.upd_ent]
  refine ⟨?_, ?_, ?_, ?_⟩
  · by_cases e : k' = k <;> simp [e]
  · by_cases e : k' = k <;> simp [e]
  · by_cases m : c ∈ (s.ent k).children
    · simp [m]
    · by_cases e : k' = k <;> simp [m, e, Store.upd_ent]
  · by_cases e : k' = k <;> simp [e]

/-- which kinds of data an entry shows in a listing of back-end `b` -/
def hasKind (b : Backend) (e : Entry) : Kind → Bool
  | .simple => listsSimple b e
  | .pfx => !e.children.isEmpty
  | .lease => e.lease != 0

theorem mem_kindsOf (b : Backend) (k k' : Key) (e : Entry) (kd : Kind) :
    (k', kd) ∈ kindsOf b k e ↔ k' = k ∧ hasKind b e kd = true := by
  unfold kindsOf hasKind
  cases kd <;> by_cases h1 : listsSimple b e = true <;> by_cases h2 : e.children.isEmpty = true <;>
    by_cases h3 : (e.lease != 0) = true <;> simp [h1, h2, h3]

/-- listings report exactly the kinds of data present (under the prefix) -/
theorem listKeys_kinds_exact (b : Backend) (s : Store) (wf : WF s) (pre : Bytes) (k : Key) (kd : Kind) :
    (k, kd) ∈ listKeys b s pre ↔ pre.isPrefixOf k = true ∧ hasKind b (s.ent k) kd = true := by
  unfold listKeys
  simp only [List.mem_flatMap, List.mem_filter, mem_kindsOf]
  constructor
  · rintro ⟨k0, ⟨_, hp⟩, rfl, hk⟩
    exact ⟨hp, hk⟩
  · rintro ⟨hp, hk⟩
    refine ⟨k, ⟨?_, hp⟩, rfl, hk⟩
    apply Classical.byContradiction
    intro hn
    rw [wf.support k hn] at hk
    cases kd <;> cases b <;> simp [hasKind, listsSimple, Backend.isSql] at hk

/-- memory/aof: SIMPLE is listed exactly for a non-empty value (empty ≡ absent) -/
theorem listsSimple_memory (b : Backend) (hb : b.isSql = false) (e : Entry) :
    listsSimple b e = (norm e.simple).isSome := by
  unfold listsSimple
  simp only [hb]
  cases e.simple with
  | none => rfl
  | some v => cases v <;> rfl

/-! ## non-vacuity -/

/-- a history with every kind of contract operation, collisions irrelevant here; the hypotheses of
`refines_contract` hold and the answers are non-trivial -/
example : run (step .memory (fun _ => 7)) Store.init
    [.put [1] (some [9]), .put [1] (some []), .get [1], .pappend [1] [2], .pappend [1] [2], .listKeys [],
     .acquire [1] 1500000000 100, .acquire [1] 1000000000 200, .renew [1] 1000000000 1000000100 1000000100,
     .release [1] 2000000100, .premove [1] [2], .listKeys []] =
    [.ok, .ok, .value (some []), .ok, .prefixConflict, .kinds [([1], .pfx)],
     .token 1000000100, .leaseConflict, .token 2000000100, .ok, .ok, .kinds []] := by decide

example : (step .sqlite (fun _ => 0) (step .sqlite (fun _ => 0) Store.init (.put [1] none)).1 (.listKeys [])).2
    = .kinds [([1], .simple)] := by decide

/-! ## F tie: the SQL text the sqlite model stands for (regenerated from kv/sqlite3 on every run) -/

/-- The hand-written sqlite model (`Backend.sqlite` branches of `Specter.Kv`) was written against
exactly these statements: upserts on the primary key, `ON CONFLICT DO NOTHING` for children,
acquire `WHERE token <= ?`, renew `token = ? AND token > ?`, release by (owner, token), the two
range queries, the four per-table deletes of RemoveKeys and the three tracker flags. A change of
any of them invalidates this theorem when the generated text is re-checked. -/
theorem sql_expected :
    Gen.C16.queries = [
      ("querySimplePut", "INSERT INTO `simple_entries` (`key`, `value`) VALUES (?, ?) ON CONFLICT(`key`) DO UPDATE SET `value` = excluded.`value`"),
      ("querySimpleGet", "SELECT `value` FROM `simple_entries` WHERE `key` = ?"),
      ("querySimpleDel", "DELETE FROM `simple_entries` WHERE `key` = ?"),
      ("queryPrefixAppend", "INSERT INTO `prefix_entries` (`prefix`, `child`) VALUES (?, ?) ON CONFLICT DO NOTHING"),
      ("queryPrefixContains", "SELECT 1 FROM `prefix_entries` WHERE `prefix` = ? AND `child` = ? LIMIT 1"),
      ("queryPrefixList", "SELECT `child` FROM `prefix_entries` WHERE `prefix` = ?"),
      ("queryPrefixRemove", "DELETE FROM `prefix_entries` WHERE `prefix` = ? AND `child` = ?"),
      ("queryPrefixCount", "SELECT COUNT(*) FROM `prefix_entries` WHERE `prefix` = ?"),
      ("queryLeaseAcquire", "INSERT INTO `lease_entries` (`owner`, `token`) VALUES (?, ?) ON CONFLICT(`owner`) DO UPDATE SET `token` = excluded.`token` WHERE `token` <= ?"),
      ("queryLeaseRenew", "UPDATE `lease_entries` SET `token` = ? WHERE `owner` = ? AND `token` = ? AND `token` > ?"),
      ("queryLeaseRelease", "DELETE FROM `lease_entries` WHERE `owner` = ? AND `token` = ?"),
      ("queryLeaseGet", "SELECT `token` FROM `lease_entries` WHERE `owner` = ?"),
      ("queryLeaseImport", "INSERT INTO `lease_entries` (`owner`, `token`) VALUES (?, ?) ON CONFLICT(`owner`) DO UPDATE SET `token` = excluded.`token`"),
      ("queryTrackerLookup", "SELECT `hash`, `flags` FROM `key_trackers` WHERE `key` = ?"),
      ("queryTrackerInsert", "INSERT INTO `key_trackers` (`key`, `hash`, `flags`) VALUES (?, ?, ?)"),
      ("queryTrackerUpdate", "UPDATE `key_trackers` SET `flags` = ? WHERE `key` = ?"),
      ("queryTrackerDelete", "DELETE FROM `key_trackers` WHERE `key` = ?"),
      ("queryListKeys", "SELECT `key`, `flags` FROM `key_trackers`"),
      ("queryRangeKeysNorm", "SELECT `key` FROM `key_trackers` WHERE (`hash` > ? AND `hash` < ?) OR `hash` = ? ORDER BY `hash` ASC"),
      ("queryRangeKeysWrap", "SELECT `key` FROM `key_trackers` WHERE `hash` > ? OR `hash` < ? OR `hash` = ? ORDER BY `hash` ASC")] ∧
    Gen.C16.removeKeysSql = ["DELETE FROM `simple_entries` WHERE `key` IN (", "DELETE FROM `prefix_entries` WHERE `prefix` IN (", "DELETE FROM `lease_entries` WHERE `owner` IN (", "DELETE FROM `key_trackers` WHERE `key` IN ("] ∧
    Gen.C16.trackerFlags = ["SimpleFlag", "PrefixFlag", "LeaseFlag"] := ⟨rfl, rfl, rfl⟩

end Specter.Kv
