import SpecterModel.C01.Sim
import SpecterModel.C01.Props
/-!
Driver core shared by C03 (acknowledged data survives churn) and C05 (each key lives only on its
owner): ring model + a ghost sequential KV fed with every ACKNOWLEDGED write + key hashes.
-/
namespace Specter.Churn
open Specter.Util Specter.Ring

structure GEntry where
  simple : Option String := none
  children : List String := []
deriving Repr, Inhabited

structure DState where
  net : Net := []
  ghost : List (String × GEntry) := []        -- sequential spec: key ↦ data, acknowledged writes only
  hashes : List (String × Nat) := []          -- key ↦ hash (from the harness, xxh3 is abstract)
deriving Inhabited

def gget (g : List (String × GEntry)) (k : String) : GEntry := ((g.find? (·.1 == k)).map (·.2)).getD {}
def gset (g : List (String × GEntry)) (k : String) (e : GEntry) : List (String × GEntry) :=
  if g.any (·.1 == k) then g.map (fun p => if p.1 == k then (k, e) else p) else g ++ [(k, e)]

def sortStrs (l : List String) : List String := (l.toArray.qsort (· < ·)).toList

/-- SPEC for C03: acknowledged reads must agree with the ghost spec; returns the new ghost. -/
def ghostStep (g : List (String × GEntry)) (toks : List String) (ires : String) :
    List (String × GEntry) × Option String :=
  match toks with
  | ["put", _, k, _, v] => if ires == "ok" then (gset g k { gget g k with simple := some v }, none) else (g, none)
  | ["del", _, k, _] => if ires == "ok" then (gset g k { gget g k with simple := none }, none) else (g, none)
  | ["pappend", _, k, _, c] =>
    let e := gget g k
    if ires == "ok" then
      if e.children.contains c then (g, some s!"append of existing child {c} under {k} acknowledged (lost conflict)")
      else (gset g k { e with children := c :: e.children }, none)
    else if ires == "err:ErrKVPrefixConflict" then
      if e.children.contains c then (g, none) else (g, some s!"conflict reported but child {c} was never appended (or was removed) under {k}")
    else (g, none)
  | ["premove", _, k, _, c] =>
    if ires == "ok" then (gset g k { gget g k with children := (gget g k).children.filter (· != c) }, none) else (g, none)
  | ["get", _, k, _] =>
    if ires.startsWith "err:" then (g, none) else
    let want := match (gget g k).simple with | some v => "val:" ++ v | none => "nil"
    (g, if ires == want then none else some s!"read of {k} returned {ires}, latest acknowledged value is {want}")
  | ["pcontains", _, k, _, c] =>
    if ires.startsWith "err:" then (g, none) else
    let want := boolStr ((gget g k).children.contains c)
    (g, if ires == want then none else some s!"contains({k},{c}) returned {ires}, acknowledged state says {want}")
  | ["plist", _, k, _] =>
    if ires.startsWith "err:" then (g, none) else
    let cs := sortStrs (gget g k).children
    let want := "list:" ++ (if cs.isEmpty then "-" else ",".intercalate cs)
    (g, if ires == want then none else some s!"list({k}) returned {ires}, acknowledged state says {want}")
  | _ => (g, none)

/-- parse `id:State:pred:succs:surrogate:fingers:store` entries of an implementation dump -/
structure DumpNode where
  id : Nat
  state : String
  pred : Option Nat
  keys : List String
deriving Repr

def parseDump (d : String) : List DumpNode :=
  (d.splitOn " ; ").filterMap fun part =>
    match part.trimAscii.toString.splitOn ":" with
    | [id, st, pred, _succs, _sur, _fing, store] =>
      id.toNat?.map fun id =>
        { id := id, state := st, pred := pred.toNat?,
          keys := if store == "-" then [] else (store.splitOn ",").map fun kv => (kv.splitOn "=").headD "" }
    | _ => none

/-- SPEC for C05 at a quiescent point: every stored key's hash lies in (pred, self] of its holder,
and no key is held by two live nodes. -/
def placementCheck (hashes : List (String × Nat)) (d : String) : Option String :=
  let nodes := (parseDump d).filter (·.state == "Active")
  let bad := nodes.findSome? fun nd =>
    nd.keys.findSome? fun k =>
      match hashes.find? (·.1 == k), nd.pred with
      | some (_, h), some p =>
        if between p h nd.id true then none
        else some s!"node {nd.id} (pred {p}) holds key {k} with hash {h} outside its range"
      | _, _ => none
  match bad with
  | some w => some w
  | none =>
    let all := nodes.flatMap (fun nd => nd.keys.map (·, nd.id))
    all.findSome? fun (k, n) =>
      match all.find? (fun (k', n') => k' == k && n' != n) with
      | some (_, n') => some s!"key {k} is held by two nodes: {n} and {n'}"
      | none => none

/-- SPEC for C10: on a stable ring, listing by prefix from any member returns exactly the stored keys
with that prefix, once per kind of data (S = non-empty simple value, P = prefix children), nothing else. -/
def listKeysCheck (s : DState) (toks : List String) (ires : String) : Option String :=
  match toks with
  | ["listkeys", n, pre] =>
    match n.toNat? with
    | some n =>
      if Specter.C01.stableB s.net && Specter.C01.memB s.net n &&
         s.net.all (fun q => !Specter.C01.memB s.net q.1 || (q.2.state == .active && !q.2.crashed)) then
        let p := if pre == "-" then "" else pre
        let want := sortStrs (s.ghost.flatMap fun (k, e) =>
          if k.startsWith p then
            (match e.simple with | some _ => ["S:" ++ k] | none => []) ++ (if e.children.isEmpty then [] else ["P:" ++ k])
          else [])
        let w := "keys:" ++ (if want.isEmpty then "-" else ",".intercalate want)
        if ires == w then none else some s!"listing prefix '{p}' from {n} returned {ires}, stored keys are {w}"
      else none
    | none => none
  | _ => none

/-- `check03`: apply the C03 ghost spec; `check05`: apply the placement spec on `quiet` lines;
the ghost is always maintained. -/
def step (check03 check05 : Bool) (s : DState) (toks : List String) (rhs : String) : DState × Verdict :=
  match toks with
  | ["reset"] => ({}, .ok)
  | ["defkey", k, h] =>
    match h.toNat? with
    | some h => ({ s with hashes := (k, h) :: s.hashes }, .ok)
    | none => (s, .bad "defkey")
  | ["timedget", _k, want] =>
    -- real-timer scenario (no model comparison): an acknowledged value read back after the ring settled
    if check03 && rhs != want && !rhs.startsWith "unavailable:" then
      (s, .spec s!"acknowledged write {want} reads back as {rhs} after a leave inside a join window (ring settled)")
    else (s, .ok)
  | ["timedquiet"] =>
    -- real-timer scenario (no model comparison): placement on the implementation's dump after settling
    let (_, d) := splitRhs rhs
    if check05 then
      match placementCheck s.hashes d with
      | some w => (s, .spec w)
      | none => (s, .ok)
    else (s, .ok)
  | ["quiet"] =>
    -- rhs = `ok | dump` of the implementation at a quiescent point
    let (_, d) := splitRhs rhs
    let m := "ok | " ++ dump s.net
    if check05 then
      match placementCheck s.hashes d with
      | some w => (s, .spec w)
      | none => (s, if m == rhs then .ok else .diff m)
    else (s, if m == rhs then .ok else .diff m)
  | _ =>
    match simOp s.net toks with
    | none => (s, .bad "unknown ring op")
    | some (net', res) =>
      let (ires, _) := splitRhs rhs
      let (g', verdict0) := ghostStep s.ghost toks ires
      let verdict := if check03 then verdict0 else if !check05 then listKeysCheck s toks ires else none
      let s' := { s with net := net', ghost := g' }
      match verdict with
      | some w => (s', .spec w)
      | none =>
        let m := res ++ " | " ++ dump net'
        (s', if m == rhs then .ok else .diff m)

end Specter.Churn
