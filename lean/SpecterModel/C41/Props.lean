import SpecterModel.C41.Model
import SpecterModel.C41.Explore
import SpecterModel.C41.ExploreLateP
import SpecterModel.C41.ExploreLateQ
import SpecterModel.C41.ExploreDie
/-!
# C41 — simultaneous peer connections and the shared cached connection

The protocol model of `Model.lean` instantiated with the decision table GENERATED from `overlay/reuse.go`
(`Gen.lean`). All theorems quantify over ALL lists of step labels (`run` skips labels that are not enabled), i.e.
over all interleavings of the (two or four) concurrent negotiations and the reaps, over all consistent
pre-existing cache states `preStates`, and over the environment scenarios `envConfigs`: no environment event, or ONE
of: a stale `reapPeer` — a second reap of an older, long dead connection — at P or at Q, or the death of the
pre-existing connection `e` (closed from outside the negotiation, then reaped by its close-watchers at both sides),
at any point of the schedule — in particular between the snapshot (the CACHED report) and the decision of a
negotiation end. They are proved by an exhaustive exploration evaluated by the kernel (`explore … = true` by
`decide`, modules `Explore`, `ExploreLateP`, `ExploreLateQ`, `ExploreDie`) and lifted to arbitrary schedules by
`explore_sound`. Runs with MORE than one environment event (death of `e` and a stale reap, two stale reaps) are not
covered by the theorems; the harness explores them at run time.

What `reapPeer` does with the entry that is cached when it runs is GENERATED from `overlay/reaper.go`
(`Gen.C41.reap`): `reap_evicts_only_what_it_closes` is the local fact the stale-reap theorems rest on, and
`evictOnlyTable` shows that without it (`reapPeer` deleting the entry but closing only the connection that triggered
the reap) `cache_new_only_if_peer_does` fails after a stale reap.

RESULT. `no_split_brain` and `cache_new_only_if_peer_does` hold in every final state. "A reused connection is
never closed by the negotiation" holds for a single dial (`reused_never_closed_single`), and for a
simultaneous open whenever one side already holds a cached connection (`reused_never_closed_cached`), but NOT
for a simultaneous open from empty caches: `simultaneous_open_counterexample` is a schedule of the generated
table in which each peer stores its own outgoing connection and closes the other one while the other peer hands
exactly that connection back as "reused". `reused_never_closed_unless_cross` shows that this cross store is the
ONLY way the property fails.
-/
namespace Specter.C41
open Gen.C41

section force
variable {α : Type}
theorem fB_eq (b : Bool) (k : Bool → α) : fB b k = k b := by cases b <;> rfl
theorem fDir_eq (d : Dir) (k : Dir → α) : fDir d k = k d := by cases d <;> rfl
theorem fCState_eq (cs : CState) (k : CState → α) : fCState cs k = k cs := by cases cs <;> rfl
theorem fConn_eq (x : Conn) (k : Conn → α) : fConn x k = k x := by cases x <;> rfl
theorem fCl_eq (x : Cl) (k : Cl → α) : fCl x k = k x := by cases x <;> rfl
theorem fEntry_eq (e : Entry) (k : Entry → α) : fEntry e k = k e := by
  cases e with
  | none => rfl
  | some p => obtain ⟨x, d⟩ := p; simp [fEntry, fConn_eq, fDir_eq]
theorem fStatus_eq (p : CState × Dir) (k : CState × Dir → α) : fStatus p k = k p := by
  obtain ⟨a, b⟩ := p; simp [fStatus, fCState_eq, fDir_eq]
theorem fRes_eq (r : Res) (k : Res → α) : fRes r k = k r := by
  cases r with
  | reused x => cases x <;> simp [fRes, fConn_eq]
  | fresh => rfl
  | err => rfl
theorem fPC_eq (p : PC) (k : PC → α) : fPC p k = k p := by
  cases p <;> simp [fPC, fEntry_eq, fStatus_eq, fRes_eq, fB_eq]
theorem fSt_eq (s : St) (k : St → α) : fSt s k = k s := by
  simp [fSt, fB_eq, fEntry_eq, fPC_eq, fCl_eq]
end force

theorem mem_allSteps (e : Step) : e ∈ allSteps := by
  cases e <;> first | decide | (rename_i i; cases i <;> decide)

theorem filter_allSteps (s : St) :
    allSteps.filter (enabled s) = ownSteps.filter (enabled s) ++ envSteps.filter (enabled s) := by
  simp [allSteps, List.filter_append]

/-- one level of `explore`: `prop` holds if the state is final, and the exploration continues after every
enabled step -/
theorem explore_succ (T : Table) (prop : St → Bool) (n : Nat) (s : St) (h : explore T prop (n+1) s = true) :
    (final s = true → prop s = true) ∧
    ∀ e, enabled s e = true → explore T prop n (step T s e) = true := by
  have hmem : ∀ e, enabled s e = true →
      e ∈ ownSteps.filter (enabled s) ++ envSteps.filter (enabled s) := fun e he => by
    rw [← filter_allSteps]; exact List.mem_filter.mpr ⟨mem_allSteps e, he⟩
  simp only [explore] at h
  split at h
  · rename_i hnil
    simp only [Bool.and_eq_true, List.all_eq_true] at h
    refine ⟨fun _ => h.1, fun e he => ?_⟩
    have hm := hmem e he
    rw [hnil, List.nil_append] at hm
    have := h.2 e hm
    rwa [fSt_eq] at this
  · rename_i hne
    refine ⟨fun hf => ?_, fun e he => ?_⟩
    · exfalso
      apply hne
      simpa [final] using hf
    · have := List.all_eq_true.mp h e (hmem e he)
      rwa [fSt_eq] at this

/-- **Lifting lemma.** If the exhaustive exploration from `s` succeeds, then for EVERY list of step labels the
run from `s` that ends in a final state satisfies `prop`. -/
theorem explore_sound (T : Table) (prop : St → Bool) : ∀ (l : List Step) (n : Nat) (s : St),
    explore T prop n s = true → final (run T s l) = true → prop (run T s l) = true := by
  intro l
  induction l with
  | nil =>
    intro n s h hf
    simp only [run] at hf ⊢
    cases n with
    | zero => simp [explore] at h; exact h.2
    | succ n => exact (explore_succ T prop n s h).1 hf
  | cons e l ih =>
    intro n s h hf
    simp only [run] at hf ⊢
    by_cases he : enabled s e = true
    · simp only [he, if_true] at hf ⊢
      cases n with
      | zero =>
        simp [explore] at h
        have := h.1 e (mem_allSteps e)
        rw [he] at this; exact absurd this (by simp)
      | succ n => exact ih n _ ((explore_succ T prop n s h).2 e he) hf
    · simp only [he, if_false, Bool.false_eq_true] at hf ⊢
      exact ih n s h hf

/-! ### from the exhaustive explorations (modules `Explore`, `ExploreLateP`, `ExploreLateQ`) to the theorems -/

theorem goodStrict_good (s : St) (h : goodStrict s = true) : good s = true := by
  simp only [goodStrict, Bool.and_eq_true] at h
  simp [good, h.1.1, h.1.2, h.2]

theorem goodFor_good (pre : Entry × Entry) (s : St) (h : goodFor pre s = true) : good s = true := by
  unfold goodFor at h
  split at h
  · exact h
  · exact goodStrict_good s h

theorem mem_lateConfigs (late : Bool × Bool) (h : late ∈ lateConfigs) :
    late = (false, false) ∨ late = (true, false) ∨ late = (false, true) := by
  simpa [lateConfigs] using h

/-- an environment scenario of the theorems is a stale-reap scenario without the death of `e`, or the death of `e`
without a stale reap -/
theorem mem_envConfigs (env : (Bool × Bool) × Bool) (h : env ∈ envConfigs) :
    (env.1 ∈ lateConfigs ∧ env.2 = false) ∨ env = ((false, false), true) := by
  simp only [envConfigs, List.mem_cons, List.not_mem_nil, or_false] at h
  rcases h with h | h | h | h <;> subst h <;> simp [lateConfigs]

theorem goodStrict_single (pre : Entry × Entry) (hp : pre ∈ preStates) (env : (Bool × Bool) × Bool)
    (he : env ∈ envConfigs) (l : List Step)
    (hf : final (run genTable (init false pre env.1 env.2) l) = true) :
    goodStrict (run genTable (init false pre env.1 env.2) l) = true := by
  obtain ⟨late, die⟩ := env
  rcases mem_envConfigs _ he with ⟨hl, hd⟩ | h
  · simp only at hl hd; subst hd
    exact explore_sound _ _ l 18 _ (explore_single late hl pre hp) hf
  · simp only [Prod.mk.injEq] at h; obtain ⟨h1, h2⟩ := h; subst h1; subst h2
    exact explore_sound _ _ l 18 _ (explore_single_die pre hp) hf

theorem good_of (dual : Bool) (pre : Entry × Entry) (hp : pre ∈ preStates) (env : (Bool × Bool) × Bool)
    (he : env ∈ envConfigs) (l : List Step)
    (hf : final (run genTable (init dual pre env.1 env.2) l) = true) :
    good (run genTable (init dual pre env.1 env.2) l) = true := by
  cases dual with
  | false => exact goodStrict_good _ (goodStrict_single pre hp env he l hf)
  | true =>
    obtain ⟨late, die⟩ := env
    rcases mem_envConfigs _ he with ⟨hl, hd⟩ | h
    · simp only at hl hd; subst hd
      rcases mem_lateConfigs late hl with h | h | h <;> subst h
      · exact goodFor_good pre _ (explore_sound _ _ l 18 _ (explore_dual pre hp) hf)
      · exact explore_sound _ _ l 18 _ (explore_dual_lateP pre hp) hf
      · exact explore_sound _ _ l 18 _ (explore_dual_lateQ pre hp) hf
    · simp only [Prod.mk.injEq] at h; obtain ⟨h1, h2⟩ := h; subst h1; subst h2
      exact explore_sound _ _ l 18 _ (explore_dual_die pre hp) hf

/-- **no_split_brain.** After any interleaving of one dial or of two simultaneous dials (with the reaps that
follow closed stored connections, and possibly one environment event at any point: a stale reap at either side, or
the death of the pre-existing connection), from any consistent pre-existing cache state: if both peers cache a
connection for each other, it is the same connection. -/
theorem no_split_brain (dual : Bool) (pre : Entry × Entry) (hp : pre ∈ preStates) (env : (Bool × Bool) × Bool)
    (he : env ∈ envConfigs) (l : List Step)
    (hf : final (run genTable (init dual pre env.1 env.2) l) = true) :
    noSplitBrain (run genTable (init dual pre env.1 env.2) l) = true := by
  have := good_of dual pre hp env he l hf
  simp only [good, Bool.and_eq_true] at this
  exact this.1.1

/-- **cache_new_only_if_peer_does.** In every final state a peer caches a new connection (`c` or `d`) only if
the other peer caches the same connection — also after a stale reap: when `reapPeer` runs for an older dead
connection and evicts the live new connection from one cache, the other peer's cache loses it as well (the evicted
connection is closed, the other side's close-watcher reaps it), and also when the pre-existing connection dies and
is reaped at one side between that side's CACHED report and its decision: the deciding end acts on its snapshot,
closes the new connection and returns the dead cached one; it never keeps the new connection for itself alone. -/
theorem cache_new_only_if_peer_does (dual : Bool) (pre : Entry × Entry) (hp : pre ∈ preStates)
    (env : (Bool × Bool) × Bool) (he : env ∈ envConfigs) (l : List Step)
    (hf : final (run genTable (init dual pre env.1 env.2) l) = true) :
    newOnlyIfPeer (run genTable (init dual pre env.1 env.2) l) = true := by
  have := good_of dual pre hp env he l hf
  simp only [good, Bool.and_eq_true] at this
  exact this.1.2

/-- **reused_never_closed_single.** With a single dial, no connection handed back as "reused" is closed by the
negotiation (with or without an environment event; a reused pre-existing connection may of course have died by
itself). -/
theorem reused_never_closed_single (pre : Entry × Entry) (hp : pre ∈ preStates) (env : (Bool × Bool) × Bool)
    (he : env ∈ envConfigs) (l : List Step)
    (hf : final (run genTable (init false pre env.1 env.2) l) = true) :
    reusedNotClosed (run genTable (init false pre env.1 env.2) l) = true := by
  have := goodStrict_single pre hp env he l hf
  simp only [goodStrict, Bool.and_eq_true] at this
  exact this.2

/-- **reused_never_closed_cached.** With two simultaneous dials and no environment event, if at least one peer
already holds a cached connection, no reused connection is closed. (With a stale reap or the death of the cached
connection this is false: the caches can be empty before the dials start, which is the simultaneous open from empty
caches again.) -/
theorem reused_never_closed_cached (pre : Entry × Entry) (hp : pre ∈ preStates) (hne : pre ≠ (none, none))
    (l : List Step) (hf : final (run genTable (init true pre) l) = true) :
    reusedNotClosed (run genTable (init true pre) l) = true := by
  have := explore_sound _ _ l 18 _ (explore_dual pre hp) hf
  have hs : goodFor pre = goodStrict := by
    unfold goodFor
    split
    · exact absurd rfl hne
    · rfl
  rw [hs] at this
  simp only [goodStrict, Bool.and_eq_true] at this
  exact this.2

/-- **reused_never_closed_unless_cross.** In general a reused connection can be closed only in a
simultaneous-open cross store (both peers stored a fresh connection, and not the same one). -/
theorem reused_never_closed_unless_cross (dual : Bool) (pre : Entry × Entry) (hp : pre ∈ preStates)
    (env : (Bool × Bool) × Bool) (he : env ∈ envConfigs) (l : List Step)
    (hf : final (run genTable (init dual pre env.1 env.2) l) = true) :
    reusedNotClosed (run genTable (init dual pre env.1 env.2) l) = true ∨
      crossStore (run genTable (init dual pre env.1 env.2) l) = true := by
  have := good_of dual pre hp env he l hf
  simp only [good, Bool.and_eq_true, Bool.or_eq_true] at this
  exact this.2

/-- **reap_evicts_only_what_it_closes** (the extracted facts of `reapPeer`): when an entry is cached for the peer,
`reapPeer` removes it from the cache and closes ITS connection — whichever connection triggered the reap. This is
what makes a stale reap harmless: the other peer learns that the evicted connection is gone. -/
theorem reap_evicts_only_what_it_closes :
    (Gen.C41.reap true).del = true ∧ (Gen.C41.reap true).closeCached = true := by decide

/-- The violating schedule: all four ends take their snapshot (nothing cached), P's outgoing end stores `c`,
Q's outgoing end stores `d`, then P's incoming end finds `c`, closes `d` and returns `c` as reused, and Q's
incoming end finds `d`, closes `c` and returns `d` as reused. -/
def crossSchedule : List Step :=
  [.snap .Pc, .snap .Qc, .snap .Qd, .snap .Pd, .dec .Pc, .dec .Qd, .dec .Pd, .dec .Qc]

/-- **simultaneous_open_counterexample** (property "reused never closed" FAILS for the code as it is): -/
theorem simultaneous_open_counterexample :
    let s := run genTable (init true (none, none)) crossSchedule
    s.pc .Pd = .done (.fresh, .incoming) (.reused (some .c)) false false ∧ s.closed .c = true ∧
    s.pc .Qc = .done (.fresh, .incoming) (.reused (some .d)) false false ∧ s.closed .d = true ∧
    reusedNotClosed s = false ∧ crossStore s = true := by decide

/-! ### close-watchers: which connections are reaped when they close (facts of `overlay/transport.go`)

`reapPeer` reaps by KEY: it deletes and closes whatever is cached for the peer when it runs. The connection that
LOSES a negotiation (another connection is returned as reused) is closed by the negotiation itself; a close-watcher
on it would therefore always fire, and tear down the cached connection both peers just agreed to reuse. -/

/-- **watchers_only_on_stored_connections** (the extracted facts of `handleIncoming` / `handleOutgoing`): an end
starts a close-watcher exactly when `reuseConnection` reports the connection as new (`reused = false`, `handlePeer`
for the returned connection); when it reports a reused connection, no watcher is started - neither a second one for
the returned (cached) connection nor one for the negotiated connection that lost. And the `reused` flag of every
successful row of the decision table says what the row returns (`true` iff the cache entry), which is why the model
reads the flag's consequences off the result. -/
theorem watchers_only_on_stored_connections :
    (∀ d, Gen.C41.watch d true = { returned := false, negotiated := false }) ∧
    (∀ d, (Gen.C41.watch d false).returned = true) ∧
    (∀ ps pd cached cdir dir rc rcdir, (Gen.C41.decide ps pd cached cdir dir rc rcdir).err = .nil →
      ((Gen.C41.decide ps pd cached cdir dir rc rcdir).reused = true ↔
        (Gen.C41.decide ps pd cached cdir dir rc rcdir).ret = .cache)) := by
  refine ⟨fun d => by cases d <;> rfl, fun d => by cases d <;> rfl, ?_⟩
  intro ps pd cached cdir dir rc rcdir
  cases ps <;> cases pd <;> cases cached <;> cases cdir <;> cases dir <;> cases rc <;> cases rcdir <;> decide

/-- **shared_connection_survives_further_negotiation.** Both peers cache the pre-existing connection `e` and negotiate
one further connection, or two simultaneously (a dial that raced with the cache being populated, a second caller, both
peers dialing each other); no environment event. Whatever the interleaving of the negotiation ends and of the reaps:
in every final state BOTH peers still cache `e` and `e` is open - the close of the losing connection(s) has no
consequence for the connection the peers agreed to reuse. -/
theorem shared_connection_survives_further_negotiation (dual : Bool) (pre : Entry × Entry)
    (hp : pre ∈ sharedStates) (l : List Step) (hf : final (run genTable (init dual pre) l) = true) :
    (run genTable (init dual pre) l).cached .P = some .e ∧ (run genTable (init dual pre) l).cached .Q = some .e ∧
      (run genTable (init dual pre) l).closed .e = false := by
  have hd : dual ∈ [false, true] := by cases dual <;> simp
  have := explore_sound _ _ l 18 _ (explore_shared dual hd pre hp) hf
  simp only [keepsShared, Bool.and_eq_true, beq_iff_eq, Bool.not_eq_true'] at this
  exact ⟨this.2.1.1, this.2.1.2, this.2.2⟩

/-- non-vacuity: such a run, with its final state -/
example : let s := run genTable (init false (some (.e, .incoming), some (.e, .outgoing))) [.snap .Pc, .snap .Qc, .dec .Pc, .dec .Qc]
    (some (Conn.e, Dir.incoming), some (Conn.e, Dir.outgoing)) ∈ sharedStates ∧ final s = true ∧
    s.pc .Qc = .done (.cached, .outgoing) (.reused (some .e)) false false ∧ s.cl .c = .neg ∧ keepsShared s = true := by decide

/-- the generated table, except that `handleIncoming` also starts a close-watcher (→ `reapPeer`) for an accepted
connection that LOST the negotiation (it assumes that `reapPeer` only releases the connection it is called for) -/
def loserWatchTable : Table :=
  { genTable with watch := fun d r => match d, r with
      | .incoming, true => { returned := false, negotiated := true }
      | _, _ => Gen.C41.watch d r }

/-- … then the redundant negotiation destroys the shared connection: P closes the losing `c` (508), Q's watcher on
`c` fires and `reapPeer` evicts and closes the cached `e` at Q, P's close-watcher of `e` evicts it at P: both
caches end empty and the connection both ends returned as reused was closed by the negotiation. -/
def loserSchedule : List Step := [.snap .Pc, .snap .Qc, .dec .Pc, .dec .Qc, .reap .Qc, .reapE .P, .reapE .Q]
example : let s := run loserWatchTable (init false (some (.e, .outgoing), some (.e, .incoming))) loserSchedule
    final s = true ∧ s.cached .P = none ∧ s.cached .Q = none ∧ s.cl .e = .neg ∧
    s.pc .Pc = .done (.cached, .outgoing) (.reused (some .e)) false false ∧
    s.pc .Qc = .done (.cached, .incoming) (.reused (some .e)) true true ∧
    reusedNotClosed s = false ∧ keepsShared s = false := by decide
/-- … and it is not final before Q's watcher has run: the reap of the losing connection is DUE -/
example : let s := run loserWatchTable (init false (some (.e, .outgoing), some (.e, .incoming))) (loserSchedule.take 4)
    final s = false ∧ enabled s (.reap .Qc) = true := by decide
/-- from empty caches (nothing is ever returned as reused by a single dial) the two tables cannot be told apart -/
example : explore loserWatchTable goodStrict 18 (init false (none, none)) = true := by decide +kernel

/-! ### non-vacuity -/

/-- a single dial from empty caches converges on `c` -/
example : let s := run genTable (init false (none, none)) [.snap .Pc, .snap .Qc, .dec .Pc, .dec .Qc]
    final s = true ∧ s.cached .P = some .c ∧ s.cached .Q = some .c ∧ s.closed .c = false := by decide
/-- a simultaneous open that converges: both peers end with `c`, `d` is closed, nobody reuses a closed one -/
example : let s := run genTable (init true (none, none)) [.snap .Pc, .snap .Qc, .snap .Qd, .snap .Pd, .dec .Pc, .dec .Qc, .dec .Pd, .dec .Qd]
    final s = true ∧ s.cached .P = some .c ∧ s.cached .Q = some .c ∧ s.closed .d = true ∧
    reusedNotClosed s = true := by decide
/-- both cached the old connection: the new one is closed, the old one is reused by both and stays open -/
example : let s := run genTable (init false (some (.e, .outgoing), some (.e, .incoming))) [.snap .Pc, .snap .Qc, .dec .Qc, .dec .Pc]
    final s = true ∧ s.pc .Pc = .done (.cached, .outgoing) (.reused (some .e)) false false ∧ s.closed .e = false ∧
    s.closed .c = true := by decide
/-- after the cross store both peers reap: final caches are empty (no split brain, nothing new cached) -/
example : let s := run genTable (init true (none, none)) (crossSchedule ++ [.reap .Pc, .reap .Qd])
    final s = true ∧ s.cached .P = none ∧ s.cached .Q = none := by decide

/-! ### the direction of the re-loaded entry (`rcdir`) is really threaded through the model

`decide`'s last argument is the direction of the entry that the re-load finds. The table generated from the
current source does not read it. A table that
honours the re-loaded entry only when it is an INCOMING one in the branch 'other: fresh outgoing, us: new
incoming' (and is the generated one everywhere else) loses the property: after `c` has been stored by both
peers, P's incoming end of `d` overwrites `c` (an outgoing entry) with `d`, Q's outgoing end closes `d` and keeps
`c` — the peers cache different connections, and after the reap Q caches the new connection `c` alone. -/

/-- the generated table, except that the incoming re-check only honours an incoming entry -/
def incomingOnlyTable : Table :=
  ⟨Gen.C41.snapshot, fun ps pd cached cdir dir rc rcdir =>
    match ps, pd, cached, dir, rc, rcdir with
    | .fresh, .outgoing, false, .incoming, true, .outgoing => Gen.C41.decide ps pd cached cdir dir false rcdir
    | _, _, _, _, _, _ => Gen.C41.decide ps pd cached cdir dir rc rcdir, Gen.C41.reap, Gen.C41.watch⟩

def overwriteSchedule : List Step :=
  [.snap .Pc, .snap .Qc, .snap .Qd, .snap .Pd, .dec .Pc, .dec .Qc, .dec .Qd, .dec .Pd]

example : let s := run incomingOnlyTable (init true (none, none)) overwriteSchedule
    s.cached .P = some .d ∧ s.cached .Q = some .c ∧ noSplitBrain s = false := by decide
example : let s := run incomingOnlyTable (init true (none, none)) (overwriteSchedule ++ [.reap .Pd])
    final s = true ∧ s.cached .P = none ∧ s.cached .Q = some .c ∧ s.closed .c = false ∧
    newOnlyIfPeer s = false := by decide
/-- the same schedule over the generated table converges on `c` -/
example : let s := run genTable (init true (none, none)) overwriteSchedule
    final s = true ∧ s.cached .P = some .c ∧ s.cached .Q = some .c ∧ good s = true := by decide

/-! ### stale reaps: non-vacuity and sensitivity -/

/-- the seeded situation: both peers cache the new connection `c`, then a stale reap runs at P. With the
generated facts `c` is closed and evicted at P, Q's close-watcher reaps it: both caches end empty. -/
example : let s := run genTable (init false (none, none) (true, false)) [.snap .Pc, .snap .Qc, .dec .Pc, .dec .Qc, .late .P]
    final s = false ∧ s.cached .P = none ∧ s.cached .Q = some .c ∧ s.cl .c = .late := by decide
def staleAfterConvergence : List Step :=
  [.snap .Pc, .snap .Qc, .dec .Pc, .dec .Qc, .late .P, .reap .Qc, .reap .Pc]
example : let s := run genTable (init false (none, none) (true, false)) staleAfterConvergence
    final s = true ∧ s.cached .P = none ∧ s.cached .Q = none ∧ good s = true := by decide
/-- a stale reap in the middle of a simultaneous open that hits the pre-existing connection -/
def staleInTheMiddle : List Step :=
  [.snap .Pc, .snap .Qd, .late .Q, .snap .Qc, .snap .Pd, .reapE .P, .dec .Pc, .dec .Qc, .dec .Qd, .dec .Pd, .reapE .Q]
example : let s := run genTable (init true (some (.e, .outgoing), some (.e, .incoming)) (false, true)) staleInTheMiddle
    final s = true ∧ s.cl .e = .late ∧ good s = true := by decide
example : (true, false) ∈ lateConfigs ∧ (false, true) ∈ lateConfigs := by decide
example : ((true, false), false) ∈ envConfigs ∧ ((false, true), false) ∈ envConfigs ∧
    ((false, false), true) ∈ envConfigs := by decide

/-- the generated table, except that `reapPeer` only deletes the cached entry and closes the connection that
triggered the reap (it assumes that the cached connection IS that connection) -/
def evictOnlyTable : Table :=
  ⟨Gen.C41.snapshot, Gen.C41.decide, fun _ => { del := true, closeCached := false, closeTrigger := true }, Gen.C41.watch⟩

/-- … then the stale reap evicts the live `c` at P silently, Q keeps caching it: the state is final and
`cache_new_only_if_peer_does` fails (Q caches the new connection `c`, P caches nothing) -/
example : let s := run evictOnlyTable (init false (none, none) (true, false)) [.snap .Pc, .snap .Qc, .dec .Pc, .dec .Qc, .late .P]
    final s = true ∧ s.cached .P = none ∧ s.cached .Q = some .c ∧ s.closed .c = false ∧
    newOnlyIfPeer s = false := by decide
/-- ordinary schedules (every connection reaped once) do not tell the two tables apart -/
example : explore evictOnlyTable goodStrict 18 (init false (none, none)) = true := by decide +kernel

/-! ### the cached connection dies between a CACHED report and the decision: non-vacuity and sensitivity

Both peers cache `e` (P outgoing, Q incoming) and negotiate a further connection `c`: both ends report CACHED. Then
`e` dies, and P's close-watcher reaps it BEFORE P's end decides. The code as it is decides on the snapshot: it closes
`c` and returns the (dead) cached connection; both caches end empty. -/

/-- **cached_connection_death_keeps_agreement.** The instance of `no_split_brain` and
`cache_new_only_if_peer_does` for the death of the pre-existing connection: whenever `e` dies - before, between or
after the snapshots (cache-status reports) and the decisions of one dial or of two simultaneous dials - and whenever
its close-watchers reap it at either side, in every final state the peers do not cache different connections and
neither peer caches a new connection that the other one does not cache. -/
theorem cached_connection_death_keeps_agreement (dual : Bool) (pre : Entry × Entry) (hp : pre ∈ preStates)
    (l : List Step) (hf : final (run genTable (init dual pre (false, false) true) l) = true) :
    noSplitBrain (run genTable (init dual pre (false, false) true) l) = true ∧
      newOnlyIfPeer (run genTable (init dual pre (false, false) true) l) = true :=
  ⟨no_split_brain dual pre hp ((false, false), true) (by decide) l hf,
   cache_new_only_if_peer_does dual pre hp ((false, false), true) (by decide) l hf⟩

def diesInTheWindow : List Step :=
  [.snap .Pc, .snap .Qc, .kill, .reapE .P, .dec .Pc, .dec .Qc, .reapE .Q]

example : let s := run genTable (init false (some (.e, .outgoing), some (.e, .incoming)) (false, false) true) diesInTheWindow
    final s = true ∧ s.cached .P = none ∧ s.cached .Q = none ∧ s.cl .e = .late ∧ s.cl .c = .neg ∧
    s.pc .Pc = .done (.cached, .outgoing) (.reused (some .e)) false false ∧ good s = true := by decide
/-- the window is real: when P's end decides, its snapshot says `e` but its cache is empty -/
example : let s := run genTable (init false (some (.e, .outgoing), some (.e, .incoming)) (false, false) true) (diesInTheWindow.take 4)
    s.pc .Pc = .snapped (some (.e, .outgoing)) (.cached, .outgoing) ∧ s.cached .P = none ∧
    enabled s (.dec .Pc) = true := by decide
/-- `e` may die before, during or after two simultaneous dials -/
def diesInTheMiddle : List Step :=
  [.snap .Pc, .snap .Qd, .kill, .reapE .Q, .snap .Qc, .snap .Pd, .dec .Pc, .dec .Qd, .reapE .P, .dec .Qc, .dec .Pd]
example : let s := run genTable (init true (some (.e, .outgoing), some (.e, .incoming)) (false, false) true) diesInTheMiddle
    final s = true ∧ good s = true := by decide

/-- the generated table, except that the branch 'other: cached incoming, us: cached outgoing' looks at the cache
again and, when the cached entry has gone since the snapshot, keeps the new connection (stores it, returns it as new)
instead of closing it -/
def recheckTable : Table :=
  ⟨Gen.C41.snapshot, fun ps pd cached cdir dir rc rcdir =>
    match ps, pd, cached, cdir, rc with
    | .cached, .incoming, true, .outgoing, false =>
      { reload := true, closeFresh := false, closeCache := false, store := .fresh, del := false, ret := .fresh,
        reused := false, err := .nil }
    | _, _, _, _, _ => Gen.C41.decide ps pd cached cdir dir rc rcdir, Gen.C41.reap, Gen.C41.watch⟩

/-- … then P keeps `c` for itself: Q, which reported CACHED too, returns its cached `e` and never stores `c`;
`cache_new_only_if_peer_does` fails in a final state (P caches the live new connection `c`, Q caches nothing) -/
example : let s := run recheckTable (init false (some (.e, .outgoing), some (.e, .incoming)) (false, false) true) diesInTheWindow
    final s = true ∧ s.cached .P = some .c ∧ s.cached .Q = none ∧ s.closed .c = false ∧
    newOnlyIfPeer s = false := by decide
/-- without an environment event the two tables cannot be told apart: the entry reported as CACHED is still there when
the end decides -/
example : ∀ pre ∈ preStates, explore recheckTable goodStrict 18 (init false pre) = true := by decide +kernel

end Specter.C41
