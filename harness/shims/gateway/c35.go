//go:build verif

package gateway

import (
	"io"
	"log"
	"net/http"

	"go.miragespace.co/specter/spec/tun"

	"go.uber.org/zap"
)

// VerifProxyHandler builds the real tunnel proxy handler chain (chi router + httputil.ReverseProxy with
// proxyRewrite / overlayDialer / errorHandler) of a Gateway configured with the given tunnel server.
func VerifProxyHandler(ts tun.Server, roots []string, port int) http.Handler {
	g := &Gateway{GatewayConfig: GatewayConfig{
		TunnelServer: ts,
		RootDomains:  roots,
		GatewayPort:  port,
		Logger:       zap.NewNop(),
		Options:      Options{TransportBufferSize: 4096, ProxyBufferSize: 4096},
	}}
	g.altHeaders = generateAltHeaders(port)
	return g.proxyHandler(log.New(io.Discard, "", 0))
}
