// C06: membership requests delivered to real LocalNodes that already hold a membership change
// (a join paused after the hand-off, a leave attempt that acquired its locks), and failing attempts.
package main

import (
	"strings"

	"verif/harness/hlib"
	"verif/harness/ringh"
)

func main() {
	hlib.Guarded(func(run *hlib.Run) {
		run.Rule = "rings of 2..6 real LocalNodes; a join is paused right after its hand-off (successor Transferring, joiner Joining) or a leave attempt holds its locks (leaver Leaving, successor Transferring); then RequestToJoin / RequestToLeave / executeLeave are issued at busy and idle nodes (second joiner on the same successor, leave racing a join on the same node / its neighbour, leaves of adjacent nodes, both lock orders; a locked node whose successor leaves completely must stay locked); non-trivial = distinct (ring, held change, request) where the addressed node or its successor is busy"
		rng := hlib.NewRng(run.Seed)
		if run.Replay != "" {
			s := ringh.NewSession(run, rng)
			for _, t := range run.ReplayLines() {
				if t[0] == "reset" {
					continue
				}
				run.Begin(strings.Join(t, " "))
				s.Do(t...)
			}
			return
		}
		cases := 30
		if run.Thorough() {
			cases = 250
		}
		for c := 0; c < cases; c++ {
			n := 2 + rng.Intn(5)
			ids := ringh.AdversarialIDs(rng, n+3)
			s := ringh.NewSession(run, rng)
			members := s.BuildRing(ids[:n])
			s.Repair(members, 6)
			spare := ids[n:]
			for _, j := range spare {
				s.Do("new", ringh.U(j))
			}
			probe := func(tag string) {
				// the busy nodes and their ring neighbours are probed first, then random members
				var targets []uint64
				for _, m := range members {
					if st := s.StateName(m); st == "Transferring" || st == "Leaving" {
						targets = append(targets, m)
						for _, x := range members {
							if sx, ok := s.SuccOf(x); ok && sx == m && x != m {
								targets = append(targets, x)
							}
						}
					}
				}
				for k := 0; k < 5+2*len(targets); k++ {
					m := hlib.Pick(rng, members)
					if k < 2*len(targets) {
						m = targets[k/2]
					}
					stillMember := false
					for _, x := range members {
						if x == m {
							stillMember = true
						}
					}
					if !stillMember {
						continue
					}
					var lhs []string
					choice := rng.Intn(3)
					if k < 2*len(targets) {
						choice = 1 + k%2 // reqleave, then execleave at each busy node / neighbour
					}
					switch choice {
					case 0:
						j := spare[1+rng.Intn(len(spare)-1)]
						lhs = []string{"reqjoin", ringh.U(m), ringh.U(j)}
					case 1:
						lhs = []string{"reqleave", ringh.U(m)}
					default:
						lhs = []string{"execleave", ringh.U(m)}
					}
					run.Begin(strings.Join(lhs, " "))
					res := s.Do(lhs...)
					run.Case(hlib.F("%s|%v|%v", tag, members, lhs))
					run.Count(tag + ":" + lhs[0] + ":" + strings.SplitN(res, ":", 3)[0])
					// undo successful probes so that the held change stays the only one in flight
					switch {
					case lhs[0] == "reqleave" && res == "ok":
						s.Do("finish", ringh.U(m), "false", "true")
					case lhs[0] == "reqjoin" && strings.HasPrefix(res, "ok:"):
						// the hand-off moved pointers; release every lock (no undo of pointers: the model follows)
						for _, x := range members {
							s.Do("finish", ringh.U(x), "false", "true")
						}
					case lhs[0] == "execleave" && strings.HasPrefix(res, "ok:") && res != "ok:alone":
						parts := strings.Split(res, ":")
						s.Do("finish", parts[1], "true", "false")
						s.Do("setstate", ringh.U(m), "Left")
						s.Do("finish", parts[2], "false", "true")
						var rest []uint64
						for _, x := range members {
							if x != m {
								rest = append(rest, x)
							}
						}
						members = rest
						if len(members) == 0 {
							return
						}
					}
					if s.Dead {
						return
					}
				}
			}
			switch rng.Intn(4) {
			case 0: // paused join holds successor + joiner
				if s.Do("joinbegin", ringh.U(spare[0]), ringh.U(hlib.Pick(rng, members))) == "ok" {
					probe("held-join")
					s.Do("joinend", ringh.U(spare[0]))
				}
			case 1: // a leave attempt holds leaver + successor
				l := hlib.Pick(rng, members)
				res := s.Do("execleave", ringh.U(l))
				if strings.HasPrefix(res, "ok:") && res != "ok:alone" {
					probe("held-leave")
				}
			case 2:
				probe("idle")
			default:
				// a node P holds a lock for a change of its own (here: taken through RequestToLeave, as a leaving
				// predecessor of P would) while P's SUCCESSOR leaves completely; that leave involves only the leaver and
				// its successor, so afterwards P must still be locked and still refuse other requests
				if len(members) >= 3 {
					p := hlib.Pick(rng, members)
					if sc, ok := s.SuccOf(p); ok && sc != p && s.Do("reqleave", ringh.U(p)) == "ok" {
						if s.Do("leave", ringh.U(sc)) == "ok" {
							var rest []uint64
							for _, x := range members {
								if x != sc {
									rest = append(rest, x)
								}
							}
							members = rest
						}
						run.Count("held-by-other:successor-left")
						for _, lhs := range [][]string{{"reqleave", ringh.U(p)}, {"reqjoin", ringh.U(p), ringh.U(spare[1])}, {"execleave", ringh.U(p)}} {
							run.Begin(strings.Join(lhs, " "))
							res := s.Do(lhs...)
							run.Case(hlib.F("held-by-other|%v|%v", members, lhs))
							if strings.HasPrefix(res, "ok") {
								break // (never on a tree where the property holds)
							}
						}
						s.Do("finish", ringh.U(p), "false", "true")
					}
				}
			}
		}
	})
}
