import SpecterModel.C21.Model
/-!
# C22 — byte level of the WAL segment (`tidwall/wal`, `LogFormat: Binary`) and of a log entry

* segment file = concatenation of frames `uvarint(len(payload)) ++ payload` (`appendBinaryEntry`);
* `uvarint` is Go's `encoding/binary.Uvarint` (10-byte limit, overflow check on the 10th byte);
* `load` is `loadSegmentEntries` + the slicing done by `Log.Read` (`loadNextBinaryEntry`: `n <= 0` or a
  payload longer than the rest of the file is `ErrCorrupt`);
* a payload is a serialized `proto.LogEntry {version, data, checksum}`; `decodeEntry` is
  `DiskKV.decodeEntry` (checksum comparison first, then the version switch).
  The protobuf parsers and CRC-64 are parameters (`Codec`): theorems state what they need as hypotheses.
-/
namespace Specter.Aof

/-- `binary.PutUvarint` -/
def putUvarint (x : Nat) : Bytes :=
  if x < 128 then [x] else (x % 128 + 128) :: putUvarint (x / 128)
termination_by x
decreasing_by omega

/-- `binary.Uvarint` from byte index `i`: value and number of bytes read; `none` stands for `n <= 0`
(buffer too small, or overflow: more than 10 bytes / 10th byte > 1) -/
def uvarintAux : Nat → Bytes → Option (Nat × Nat)
  | _, [] => none
  | i, b :: rest =>
    if i = 10 then none
    else if b < 128 then (if i = 9 ∧ b > 1 then none else some (b, 1))
    else
      match uvarintAux (i + 1) rest with
      | some (v, n) => some (b % 128 + 128 * v, n + 1)
      | none => none

def uvarint (data : Bytes) : Option (Nat × Nat) := uvarintAux 0 data

/-- `appendBinaryEntry` -/
def frame (payload : Bytes) : Bytes := putUvarint payload.length ++ payload

def segBytes (payloads : List Bytes) : Bytes := payloads.flatMap frame

/-- `loadSegmentEntries` (binary) + payload slicing of `Read`; `none` = `ErrCorrupt` -/
def load (data : Bytes) : Option (List Bytes) :=
  if h : data = [] then some []
  else
    match uvarint data with
    | none => none
    | some (size, n) =>
      if hn : n = 0 then none                       -- `n <= 0`
      else if data.length - n < size then none      -- payload runs past the end of the file
      else
        match load (data.drop (n + size)) with
        | some r => some ((data.drop n).take size :: r)
        | none => none
termination_by data.length
decreasing_by
  have : data.length > 0 := by cases data <;> simp_all
  simp [List.length_drop]; omega

/-- `proto.LogEntry` -/
structure LogEntry where
  version : Nat := 0
  data : Bytes := []
  checksum : Nat := 0
deriving DecidableEq, Repr

def logV1 : Nat := 1

/-- the external pieces: `LogEntry.UnmarshalVT`, `crc64.Checksum(·, ECMA)`, `Mutation.UnmarshalVT` -/
structure Codec where
  parseEntry : Bytes → Option LogEntry
  crc : Bytes → Nat
  parseMut : Bytes → Option Mutation

/-- `DiskKV.decodeEntry` -/
def decodeEntry (c : Codec) (e : LogEntry) : Option Mutation :=
  if e.checksum ≠ c.crc e.data then none
  else if e.version = logV1 then c.parseMut e.data
  else none

def decodePayload (c : Codec) (p : Bytes) : Option Mutation :=
  match c.parseEntry p with
  | some e => decodeEntry c e
  | none => none

def decodeAll (c : Codec) : List Bytes → Option (List Mutation)
  | [] => some []
  | p :: ps =>
    match decodePayload c p, decodeAll c ps with
    | some m, some ms => some (m :: ms)
    | _, _ => none

/-- `aof.New` on a single-segment log file with content `seg`; `none` = it returns an error -/
def reopenBytes (c : Codec) (seg : Bytes) : Option Store :=
  match load seg with
  | none => none
  | some ps =>
    match decodeAll c ps with
    | none => none
    | some mus =>
      match reopenLog mus with
      | .ok s => some s
      | .error _ => none

/-! ### executable codec used by the correspondence driver (the theorems stay parametric in `Codec`) -/

def crcPoly : UInt64 := 0xC96C5795D7870F42

/-- one byte of Go's `hash/crc64` (reflected, ECMA polynomial), bitwise instead of table driven -/
def crcByte (crc : UInt64) (b : Nat) : UInt64 :=
  (List.range 8).foldl (fun c _ => if c &&& 1 = 1 then (c >>> 1) ^^^ crcPoly else c >>> 1)
    (crc ^^^ UInt64.ofNat b)

/-- `crc64.Checksum(d, crc64.MakeTable(crc64.ECMA))` -/
def crc64 (d : Bytes) : Nat := (~~~ (d.foldl crcByte (~~~ (0 : UInt64)))).toNat

/-- protobuf varint as vtproto decodes it: at most 10 bytes (`shift >= 64` is an overflow error), the
bits shifted beyond 64 are silently dropped (callers reduce mod 2^64 / 2^32) -/
def pbVarintAux : Nat → Bytes → Option (Nat × Bytes)
  | _, [] => none
  | shift, b :: rest =>
    if shift ≥ 64 then none
    else if b < 128 then some (b * 2 ^ shift, rest)
    else
      match pbVarintAux (shift + 7) rest with
      | some (v, r) => some ((b % 128) * 2 ^ shift + v, r)
      | none => none

def pbVarint (d : Bytes) : Option (Nat × Bytes) :=
  match pbVarintAux 0 d with
  | some (v, r) => some (v % 2 ^ 64, r)
  | none => none

/-- `protohelpers.Skip`: skip one complete field (nested groups included) starting at its tag -/
def pbSkipAux : Nat → Nat → Bytes → Option Bytes
  | 0, _, _ => none
  | _ + 1, _, [] => none                               -- `for iNdEx < l` ends: ErrUnexpectedEOF
  | fuel + 1, depth, d =>
    match pbVarint d with
    | none => none
    | some (wire, r) =>
      let wt := wire % 8
      let next (depth' : Nat) (r' : Bytes) : Option Bytes :=
        if depth' = 0 then some r' else pbSkipAux fuel depth' r'
      if wt = 0 then
        match pbVarintAux 0 r with
        | some (_, r') => next depth r'
        | none => none
      else if wt = 1 then (if r.length < 8 then none else next depth (r.drop 8))
      else if wt = 2 then
        match pbVarint r with
        | some (len, r') => if len ≥ 2 ^ 63 ∨ r'.length < len then none else next depth (r'.drop len)
        | none => none
      else if wt = 3 then pbSkipAux fuel (depth + 1) r
      else if wt = 4 then (if depth = 0 then none else next (depth - 1) r)
      else if wt = 5 then (if r.length < 4 then none else next depth (r.drop 4))
      else none

/-- `LogEntry.UnmarshalVT`: fields 1 (version, int32), 2 (data), 5 (checksum, uint64) in any order, last
one wins; a known field with the wrong wire type, wire type 4 and field numbers ≤ 0 (as int32) are
errors; unknown fields are skipped. -/
def parseLogEntryAux : Nat → LogEntry → Bytes → Option LogEntry
  | _, e, [] => some e
  | 0, _, _ :: _ => none
  | fuel + 1, e, d =>
    match pbVarint d with
    | none => none
    | some (wire, r) =>
      let field := (wire / 8) % 2 ^ 32          -- int32(wire >> 3)
      let wt := wire % 8
      if wt = 4 then none
      else if field = 0 ∨ field ≥ 2 ^ 31 then none
      else if field = 1 then
        if wt ≠ 0 then none else
        match pbVarint r with
        | some (v, r') => parseLogEntryAux fuel { e with version := v % 2 ^ 32 } r'
        | none => none
      else if field = 2 then
        if wt ≠ 2 then none else
        match pbVarint r with
        | some (len, r') =>
          if len ≥ 2 ^ 63 ∨ r'.length < len then none
          else parseLogEntryAux fuel { e with data := r'.take len } (r'.drop len)
        | none => none
      else if field = 5 then
        if wt ≠ 0 then none else
        match pbVarint r with
        | some (v, r') => parseLogEntryAux fuel { e with checksum := v } r'
        | none => none
      else
        match pbSkipAux (d.length + 1) 0 d with
        | some r' => parseLogEntryAux fuel e r'
        | none => none

def parseLogEntry (p : Bytes) : Option LogEntry := parseLogEntryAux p.length {} p

/-- codec whose mutation parser is a table from entry data to the mutation the clean run logged;
empty data is the zero `Mutation` (unknown type: a no-op) -/
def tableCodec (table : List (Bytes × Mutation)) : Codec where
  parseEntry := parseLogEntry
  crc := crc64
  parseMut := fun d => if d = [] then some {} else (table.find? (fun q => q.1 = d)).map (·.2)

end Specter.Aof
