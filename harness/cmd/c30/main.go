// C30 correspondence: the real keyless TLS RPCs (GetCertificate / Sign) of tun/server on an in-memory KV
// with real proofs of work, real keys and certificates, plus computeKeylessTTL and the cache loader,
// against the Lean model and the property's spec oracle.
//
//	reset <apex hex> <acme hex>
//	bind <id>:<tok hex> <host hex> => ok
//	getcert <id>:<tok hex> <raw hex> <norm hex|!> <powOk>:<kind> <getFail> <prov cert|fail|empty> => <res> <ncerts|-> <called>
//	sign    <id>:<tok hex> <raw hex> <norm hex|!> <powOk>:<kind> <getFail> <prov> <algo> <dlen> <key kind> <isSigner><signOk> => <res> <called> <sig verifies 1|0|->
//	ttl <leaf|der|nilcert|noleaf|badder> <d ns|-> => <ttl ns>
//	loader <prov> <d0 ns|-> <dp ns|-> <d1 ns|-> <provider latency ns> => <ttl ns> <res>
//	    d0 / dp / d1 = NotAfter minus the clock read before the loader call / inside the certificate provider right
//	    before it returns (after the scripted latency) / after the loader returned
package main

import (
	"context"
	"crypto"
	"crypto/ecdsa"
	"crypto/ed25519"
	"crypto/elliptic"
	"crypto/rand"
	"crypto/rsa"
	"crypto/tls"
	"crypto/x509"
	"crypto/x509/pkix"
	"errors"
	"io"
	"math/big"
	"strconv"
	"strings"
	"sync"
	"time"

	"github.com/twitchtv/twirp"
	"go.miragespace.co/specter/spec/acme"
	"go.miragespace.co/specter/spec/chord"
	"go.miragespace.co/specter/spec/mocks"
	"go.miragespace.co/specter/spec/pki"
	"go.miragespace.co/specter/spec/protocol"
	"go.miragespace.co/specter/spec/rpc"
	"go.miragespace.co/specter/spec/transport"
	"go.miragespace.co/specter/spec/tun"
	"go.miragespace.co/specter/tun/server"
	"go.miragespace.co/specter/util/hashcash"
	"go.uber.org/zap"

	"verif/harness/hlib"
)

const (
	apex     = "hello.com"
	acmeZone = "acme.example.com"
)

// ---------- in-memory KV on top of the repo's mock ----------

type memKV struct {
	*mocks.VNode
	mu       sync.Mutex
	kv       map[string][]byte
	pfx      map[string]map[string]bool
	reads    int
	getFail  bool
	putFail  bool
	leaseSeq uint64
}

func newKV() *memKV {
	return &memKV{VNode: new(mocks.VNode), kv: map[string][]byte{}, pfx: map[string]map[string]bool{}}
}
func (m *memKV) Get(ctx context.Context, key []byte) ([]byte, error) {
	m.mu.Lock()
	defer m.mu.Unlock()
	m.reads++
	if m.getFail {
		return nil, errKV
	}
	return m.kv[string(key)], nil
}
func (m *memKV) Put(ctx context.Context, key, value []byte) error {
	m.mu.Lock()
	defer m.mu.Unlock()
	if m.putFail {
		return errors.New("scripted kv write failure")
	}
	m.kv[string(key)] = append([]byte{}, value...)
	return nil
}
func (m *memKV) Delete(ctx context.Context, key []byte) error {
	m.mu.Lock()
	defer m.mu.Unlock()
	delete(m.kv, string(key))
	return nil
}
func (m *memKV) PrefixAppend(ctx context.Context, prefix, child []byte) error {
	m.mu.Lock()
	defer m.mu.Unlock()
	s := m.pfx[string(prefix)]
	if s == nil {
		s = map[string]bool{}
		m.pfx[string(prefix)] = s
	}
	if s[string(child)] {
		return chord.ErrKVPrefixConflict
	}
	s[string(child)] = true
	return nil
}
func (m *memKV) PrefixContains(ctx context.Context, prefix, child []byte) (bool, error) {
	m.mu.Lock()
	defer m.mu.Unlock()
	return m.pfx[string(prefix)][string(child)], nil
}
func (m *memKV) PrefixRemove(ctx context.Context, prefix, child []byte) error {
	m.mu.Lock()
	defer m.mu.Unlock()
	delete(m.pfx[string(prefix)], string(child))
	return nil
}
func (m *memKV) Acquire(ctx context.Context, lease []byte, ttl time.Duration) (uint64, error) {
	m.mu.Lock()
	defer m.mu.Unlock()
	m.leaseSeq++
	return m.leaseSeq, nil
}
func (m *memKV) Renew(ctx context.Context, lease []byte, ttl time.Duration, prev uint64) (uint64, error) {
	return prev, nil
}
func (m *memKV) Release(ctx context.Context, lease []byte, token uint64) error { return nil }

// binding currently stored for a hostname key, canonical "<id>:<tokhex>" or "-"
func (m *memKV) boundOf(host string) string {
	m.mu.Lock()
	v := m.kv[tun.CustomHostnameKey(host)]
	m.mu.Unlock()
	if len(v) == 0 {
		return "-"
	}
	b := &protocol.CustomHostname{}
	if err := b.UnmarshalVT(v); err != nil {
		return "undecodable"
	}
	if b.GetClientIdentity().GetAddress() != string(b.GetClientToken().GetToken()) {
		return "inconsistent"
	}
	return strconv.FormatUint(b.GetClientIdentity().GetId(), 10) + ":" + hlib.Hex(b.GetClientToken().GetToken())
}

// ---------- clients ----------

type client struct {
	id    uint64
	token string
}

func (c client) tok() string { return strconv.FormatUint(c.id, 10) + ":" + hlib.HexS(c.token) }
func (c client) ctx() context.Context {
	cert := &x509.Certificate{Subject: pki.MakeSubjectV1(c.id, c.token)}
	return rpc.WithDelegation(context.Background(), &transport.StreamDelegate{Certificate: cert})
}

var clients = []client{{1, "tokenAAAA"}, {2, "tokenBBBB"}, {3, "tokenAAAA"}, {1, "tokenCCCC"}}

// ---------- proofs of work ----------

type proofs struct {
	mu    sync.Mutex
	priv  ed25519.PrivateKey
	other ed25519.PrivateKey
	fresh map[string]*protocol.ProofOfWork
	at    map[string]time.Time
	fixed map[string]*protocol.ProofOfWork
}

func newProofs(rng *hlib.Rng) *proofs {
	return &proofs{priv: ed25519.NewKeyFromSeed(rng.Bytes(32)), other: ed25519.NewKeyFromSeed(rng.Bytes(32)),
		fresh: map[string]*protocol.ProofOfWork{}, at: map[string]time.Time{}, fixed: map[string]*protocol.ProofOfWork{}}
}

func (p *proofs) solve(subject string, difficulty int, exp time.Time, signer ed25519.PrivateKey) *protocol.ProofOfWork {
	hc := hashcash.New(hashcash.Hashcash{Subject: subject, Difficulty: difficulty, ExpiresAt: exp})
	if err := hc.Solve(difficulty); err != nil {
		panic(err)
	}
	return &protocol.ProofOfWork{PubKey: p.priv.Public().(ed25519.PublicKey), Signature: ed25519.Sign(signer, []byte(hc.String())), Solution: hc.String()}
}

// a proof the server must accept for `subject` right now (regenerated when older than 13 s; it expires 19 s after generation)
func (p *proofs) valid(subject string) *protocol.ProofOfWork {
	p.mu.Lock()
	defer p.mu.Unlock()
	if pr, ok := p.fresh[subject]; ok && time.Since(p.at[subject]) < 13*time.Second {
		return pr
	}
	now := time.Now()
	pr := p.solve(subject, acme.HashcashDifficulty, now.Add(19*time.Second), p.priv)
	p.fresh[subject], p.at[subject] = pr, now
	return pr
}

// prefetch valid proofs for many subjects in parallel
func (p *proofs) warm(subjects []string) {
	var wg sync.WaitGroup
	sem := make(chan struct{}, 12)
	for _, s := range subjects {
		p.mu.Lock()
		_, ok := p.fresh[s]
		okAge := ok && time.Since(p.at[s]) < 9*time.Second
		p.mu.Unlock()
		if okAge {
			continue
		}
		wg.Add(1)
		sem <- struct{}{}
		go func(s string) {
			defer wg.Done()
			defer func() { <-sem }()
			now := time.Now()
			pr := p.solve(s, acme.HashcashDifficulty, now.Add(19*time.Second), p.priv)
			p.mu.Lock()
			p.fresh[s], p.at[s] = pr, now
			p.mu.Unlock()
		}(s)
	}
	wg.Wait()
}


// returns the proof and whether pow.VerifySolution must accept it for subject norm
func (p *proofs) make(kind, norm, raw string) (*protocol.ProofOfWork, bool) {
	fixed := func(key string, f func() *protocol.ProofOfWork) *protocol.ProofOfWork {
		p.mu.Lock()
		pr, ok := p.fixed[key]
		p.mu.Unlock()
		if !ok {
			pr = f()
			p.mu.Lock()
			p.fixed[key] = pr
			p.mu.Unlock()
		}
		return pr
	}
	switch kind {
	case "valid":
		return p.valid(norm), true
	case "nil":
		return nil, false
	case "wrongsubject":
		return p.valid("other." + norm), false
	case "rawsubject":
		if raw == norm {
			return p.valid(norm), true
		}
		if strings.ContainsAny(raw, ":") {
			return nil, false
		}
		return p.valid(raw), false
	case "expired":
		return fixed("exp:"+norm, func() *protocol.ProofOfWork {
			return p.solve(norm, acme.HashcashDifficulty, time.Now().Add(-time.Hour), p.priv)
		}), false
	case "lowdiff":
		return fixed("low:"+norm, func() *protocol.ProofOfWork {
			return p.solve(norm, 10, time.Now().Add(24*time.Hour), p.priv)
		}), false
	case "badsig":
		v := p.valid(norm)
		hc := v.GetSolution()
		return &protocol.ProofOfWork{PubKey: v.GetPubKey(), Signature: ed25519.Sign(p.other, []byte(hc)), Solution: hc}, false
	case "truncsig":
		v := p.valid(norm)
		return &protocol.ProofOfWork{PubKey: v.GetPubKey(), Signature: v.GetSignature()[:40], Solution: v.GetSolution()}, false
	case "nosolution":
		v := p.valid(norm)
		return &protocol.ProofOfWork{PubKey: v.GetPubKey(), Signature: ed25519.Sign(p.priv, nil)}, false
	}
	panic("kind " + kind)
}

// ---------- result canonicalisation ----------

func resTok(err error) string {
	if err == nil {
		return "ok"
	}
	var te twirp.Error
	if errors.As(err, &te) {
		switch te.Code() {
		case twirp.InvalidArgument:
			switch te.Meta("argument") {
			case "hostname":
				return "inv:hostname"
			case "algo":
				return "inv:algo"
			case "digest":
				return "inv:digest"
			}
			return "inv:pow"
		case twirp.Internal:
			return "internal"
		case twirp.PermissionDenied:
			return "permission_denied"
		default:
			return "twirp:" + string(te.Code())
		}
	}
	if errors.Is(err, errKV) {
		return "err"
	}
	return "provider"
}

var errKV = errors.New("scripted kv read failure")

// ---------- keys, certificates, provider ----------

type keyKind struct {
	name string
	cert *tls.Certificate
	pub  crypto.PublicKey
}

type failingSigner struct{ crypto.Signer }

func (f failingSigner) Sign(io.Reader, []byte, crypto.SignerOpts) ([]byte, error) {
	return nil, errors.New("scripted signer failure")
}

func selfSigned(pub crypto.PublicKey, priv crypto.Signer, notAfter time.Time) []byte {
	tpl := &x509.Certificate{SerialNumber: big.NewInt(7), Subject: pkix.Name{CommonName: "keyless.test"},
		NotBefore: time.Now().Add(-time.Hour), NotAfter: notAfter, DNSNames: []string{"keyless.test"}}
	der, err := x509.CreateCertificate(rand.Reader, tpl, tpl, pub, priv)
	if err != nil {
		panic(err)
	}
	return der
}

func makeKeys() []keyKind {
	ec, _ := ecdsa.GenerateKey(elliptic.P256(), rand.Reader)
	rs, _ := rsa.GenerateKey(rand.Reader, 2048)
	edPub, edPriv, _ := ed25519.GenerateKey(rand.Reader)
	na := time.Now().Add(24 * time.Hour)
	ecDer := selfSigned(&ec.PublicKey, ec, na)
	return []keyKind{
		{"ecdsa", &tls.Certificate{Certificate: [][]byte{ecDer, []byte("intermediate")}, PrivateKey: ec}, &ec.PublicKey},
		{"rsa", &tls.Certificate{Certificate: [][]byte{selfSigned(&rs.PublicKey, rs, na)}, PrivateKey: rs}, &rs.PublicKey},
		{"ed25519", &tls.Certificate{Certificate: [][]byte{selfSigned(edPub, edPriv, na)}, PrivateKey: edPriv}, edPub},
		{"nosigner", &tls.Certificate{Certificate: [][]byte{ecDer}, PrivateKey: "not a signer"}, nil},
		{"failing", &tls.Certificate{Certificate: [][]byte{ecDer}, PrivateKey: failingSigner{ec}}, nil},
	}
}

type provider struct {
	*mocks.CertProvider
	kind   string
	cert   *tls.Certificate
	calls  int
	gotSNI string
	// scripted latency of the next lookups (slow issuance / slow storage) and the clock right before returning
	delay time.Duration
	retAt time.Time
}

func (p *provider) GetCertificateWithContext(ctx context.Context, chi *tls.ClientHelloInfo) (*tls.Certificate, error) {
	p.calls++
	p.gotSNI = chi.ServerName
	if p.delay > 0 {
		time.Sleep(p.delay)
	}
	defer func() { p.retAt = time.Now() }()
	switch p.kind {
	case "fail":
		return nil, errors.New("scripted provider failure")
	case "empty":
		return &tls.Certificate{}, nil
	}
	return p.cert, nil
}

func verifySig(k keyKind, h crypto.Hash, digest, sig []byte) bool {
	switch pub := k.pub.(type) {
	case *ecdsa.PublicKey:
		return ecdsa.VerifyASN1(pub, digest, sig)
	case *rsa.PublicKey:
		return rsa.VerifyPKCS1v15(pub, h, digest, sig) == nil
	case ed25519.PublicKey:
		return ed25519.VerifyWithOptions(pub, digest, sig, &ed25519.Options{Hash: h}) == nil
	}
	return false
}

// ---------- runner ----------

type runner struct {
	r    *hlib.Run
	rng  *hlib.Rng
	kv   *memKV
	srv  *server.Server
	prov *provider
	pw   *proofs
	keys []keyKind
	// key kind of the certificate the server's keyless cache holds per normalised hostname (the provider
	// is only asked on a miss, so later calls are served with the first certificate)
	cached  map[string]keyKind
	caseKey keyKind
}

func b01(b bool) string {
	if b {
		return "1"
	}
	return "0"
}

func normTok(raw string) (string, string, bool) {
	n, err := acme.Normalize(raw)
	if err != nil {
		return "", "!", false
	}
	return n, hlib.HexS(n), true
}

func (x *runner) reset() {
	x.kv = newKV()
	x.cached = map[string]keyKind{}
	x.caseKey = x.keys[x.rng.Intn(len(x.keys))]
	if x.rng.Bool() {
		x.caseKey = x.keys[x.rng.Intn(2)]
	}
	x.prov = &provider{CertProvider: new(mocks.CertProvider), kind: "cert", cert: x.keys[0].cert}
	x.srv = server.New(server.Config{
		ParentContext: context.Background(), Logger: zap.NewNop(),
		Chord: x.kv, CertProvider: x.prov,
		TunnelTransport: new(mocks.Transport), ChordTransport: new(mocks.Transport),
		Apex: apex, Acme: acmeZone,
	})
	x.r.Raw("reset " + hlib.HexS(apex) + " " + hlib.HexS(acmeZone))
}

func (x *runner) bind(c client, host string) {
	n := c.ctx()
	_ = n
	err := tun.SaveCustomHostname(context.Background(), x.kv, host, &protocol.CustomHostname{
		ClientIdentity: &protocol.Node{Id: c.id, Address: c.token, Rendezvous: true},
		ClientToken:    &protocol.ClientToken{Token: []byte(c.token)},
	})
	x.r.Emit("bind "+c.tok()+" "+hlib.HexS(host), resTok(err))
	x.r.Case("")
}

type call struct {
	c       client
	raw     string
	powKind string
	getFail bool
	prov    string
}

func (x *runner) prep(cl call) (proof *protocol.ProofOfWork, lhs string, powOk bool) {
	norm, ntok, nok := normTok(cl.raw)
	pk := cl.powKind
	if nok {
		proof, powOk = x.pw.make(pk, norm, cl.raw)
	} else {
		pk = "nil"
	}
	x.kv.getFail, x.kv.reads = cl.getFail, 0
	x.prov.kind, x.prov.calls = cl.prov, 0
	lhs = cl.c.tok() + " " + hlib.HexS(cl.raw) + " " + ntok + " " + b01(powOk) + ":" + pk + " " + b01(cl.getFail) + " " + cl.prov
	return
}

func (x *runner) getcert(cl call) {
	x.prov.cert = x.caseKey.cert
	proof, lhs, powOk := x.prep(cl)
	var resp *protocol.KeylessGetCertificateResponse
	var err error
	panicked := false
	func() {
		defer func() {
			if p := recover(); p != nil {
				panicked = true
			}
		}()
		resp, err = x.srv.GetCertificate(cl.c.ctx(), &protocol.KeylessGetCertificateRequest{Proof: proof, Hostname: cl.raw})
	}()
	x.kv.getFail = false
	res, n := resTok(err), "-"
	if panicked {
		res = "panic"
	} else if err == nil {
		n = strconv.Itoa(len(resp.GetCertificates()))
	}
	if norm, _, nok := normTok(cl.raw); nok && x.prov.calls > 0 && cl.prov == "cert" {
		x.cached[norm] = x.caseKey
	}
	x.r.Emit("getcert "+lhs, res+" "+n+" "+strconv.Itoa(x.prov.calls))
	key := ""
	if powOk {
		key = lhs
	}
	x.r.Case(key)
	x.r.Count("getcert:" + res)
}

var hashes = map[int]crypto.Hash{1: crypto.SHA256, 2: crypto.SHA384, 3: crypto.SHA512}

func (x *runner) sign(cl call, algo, dlen int, kk keyKind) {
	norm, _, nok := normTok(cl.raw)
	if ck, ok := x.cached[norm]; ok && nok {
		kk = ck
	}
	x.prov.cert = kk.cert
	proof, lhs, powOk := x.prep(cl)
	digest := x.rng.Bytes(dlen)
	h, known := hashes[algo]
	isSigner := kk.name != "nosigner"
	signOk := kk.name == "ecdsa" || kk.name == "rsa" || (kk.name == "ed25519" && algo == 3)
	var resp *protocol.KeylessSignResponse
	var err error
	panicked := false
	func() {
		defer func() {
			if p := recover(); p != nil {
				panicked = true
			}
		}()
		resp, err = x.srv.Sign(cl.c.ctx(), &protocol.KeylessSignRequest{Proof: proof, Hostname: cl.raw,
			Algo: protocol.KeylessSignRequest_HashAlgorithm(algo), Digest: digest})
	}()
	x.kv.getFail = false
	res, ver := resTok(err), "-"
	if panicked {
		res = "panic"
	} else if err == nil {
		ver = "0"
		if known && verifySig(kk, h, digest, resp.GetSignature()) {
			ver = "1"
		}
	}
	if nok && x.prov.calls > 0 && cl.prov == "cert" {
		x.cached[norm] = kk
	}
	x.r.Emit("sign "+lhs+" "+strconv.Itoa(algo)+" "+strconv.Itoa(dlen)+" "+kk.name+" "+b01(isSigner)+b01(signOk),
		res+" "+strconv.Itoa(x.prov.calls)+" "+ver)
	key := ""
	if powOk {
		key = lhs + strconv.Itoa(algo) + ":" + strconv.Itoa(dlen) + kk.name
	}
	x.r.Case(key)
	x.r.Count("sign:" + res)
	x.r.Count("signkey:" + kk.name)
}

// ---------- TTL ----------

func (x *runner) ttl(kind string, d time.Duration) {
	now := time.Unix(1_900_000_000, int64(x.rng.Intn(1_000_000_000)))
	var cert *tls.Certificate
	dTok := strconv.FormatInt(int64(d), 10)
	switch kind {
	case "leaf":
		cert = &tls.Certificate{Leaf: &x509.Certificate{NotAfter: now.Add(d)}}
		if x.rng.Bool() {
			cert.Certificate = [][]byte{[]byte("ignored when Leaf is set")}
		}
	case "der":
		// a real certificate, parsed by computeKeylessTTL itself; NotAfter has second granularity
		na := now.Add(d).Truncate(time.Second)
		if na.Year() > 9000 || na.Year() < 1 {
			return
		}
		k := x.keys[0]
		cert = &tls.Certificate{Certificate: [][]byte{selfSigned(k.pub, k.cert.PrivateKey.(crypto.Signer), na)}}
		dTok = strconv.FormatInt(int64(na.Sub(now)), 10)
	case "nilcert":
		cert, dTok = nil, "-"
	case "noleaf":
		cert, dTok = &tls.Certificate{}, "-"
	case "badder":
		cert, dTok = &tls.Certificate{Certificate: [][]byte{[]byte("garbage")}}, "-"
	}
	out := "panic"
	func() {
		defer func() { recover() }()
		out = strconv.FormatInt(int64(server.VerifC30ComputeKeylessTTL(cert, now)), 10)
	}()
	x.r.Emit("ttl "+kind+" "+dTok, out)
	x.r.Case("ttl" + kind + dTok)
	x.r.Count("ttl:" + kind)
}

func (x *runner) loader(prov string, d time.Duration, withLeaf bool, lat time.Duration) {
	x.prov.kind, x.prov.calls, x.prov.delay = prov, 0, lat
	na := time.Now().Add(d)
	if withLeaf {
		x.prov.cert = &tls.Certificate{Certificate: [][]byte{[]byte("chain")}, Leaf: &x509.Certificate{NotAfter: na, Raw: []byte("raw")}}
	} else {
		x.prov.cert = &tls.Certificate{Certificate: [][]byte{[]byte("unparsable")}}
	}
	ctx := rpc.WithDelegation(context.Background(), &transport.StreamDelegate{})
	t0 := time.Now()
	ttl, _, valErr, hasCert, loadErr := x.srv.VerifC30KeylessLoader(ctx, "loader.customer.org")
	t1 := time.Now()
	tp := x.prov.retAt
	x.prov.delay = 0
	d0, dp, d1 := "-", "-", "-"
	if withLeaf && prov == "cert" && x.prov.calls == 1 {
		d0, dp, d1 = strconv.FormatInt(int64(na.Sub(t0)), 10), strconv.FormatInt(int64(na.Sub(tp)), 10), strconv.FormatInt(int64(na.Sub(t1)), 10)
	}
	res := "cert"
	if loadErr != nil {
		res = "loaderr"
	} else if valErr != nil || !hasCert {
		res = "cachederr"
	}
	x.r.Emit("loader "+prov+" "+d0+" "+dp+" "+d1+" "+strconv.FormatInt(int64(lat), 10), strconv.FormatInt(int64(ttl), 10)+" "+res)
	x.r.Case("loader" + prov + strconv.FormatInt(int64(d), 10) + ":" + strconv.FormatInt(int64(lat), 10))
	x.r.Count("loader:" + prov)
	switch {
	case lat == 0:
		x.r.Count("loaderlat:0")
	case lat < time.Millisecond:
		x.r.Count("loaderlat:<1ms")
	case lat < time.Second:
		x.r.Count("loaderlat:<1s")
	default:
		x.r.Count("loaderlat:>=1s")
	}
	if withLeaf && prov == "cert" {
		// where the certificate stands when the provider hands it over: already inside the skew (1 s floor),
		// in the window where the TTL is the remaining validity, or long-lived (5 min cap)
		switch rem := na.Sub(tp) - time.Minute; {
		case rem <= 0 && na.Sub(t0) > time.Minute:
			x.r.Count("loaderrem:expired-while-loading")
		case rem <= 0:
			x.r.Count("loaderrem:expired")
		case rem < 5*time.Minute:
			x.r.Count("loaderrem:window")
		default:
			x.r.Count("loaderrem:capped")
		}
	}
	x.prov.cert = x.keys[0].cert
}

var rawHosts = []string{"app.customer.org", " app.customer.org", "app. customer.org\t", "www.shop.example.net", "bücher.example.de",
	"xn--bcher-kva.example.de", "APP.customer.org", "customer.org", "x.hello.com", "foo.acme.example.com", "*.customer.org", "tenant.customer.co.uk"}

var powKinds = []string{"valid", "valid", "valid", "valid", "valid", "valid", "valid", "valid", "nil", "wrongsubject", "expired", "lowdiff", "badsig", "nosolution"}

func parseClient(s string) client {
	p := strings.SplitN(s, ":", 2)
	id, _ := strconv.ParseUint(p[0], 10, 64)
	return client{id, string(hlib.UnHex(p[1]))}
}

func (x *runner) keyByName(n string) keyKind {
	for _, k := range x.keys {
		if k.name == n {
			return k
		}
	}
	return x.keys[0]
}

func main() {
	r := hlib.Start()
	r.Rule = "cases: a hostname bound to one of 4 clients (or unbound), then 8..20 GetCertificate / Sign calls by owner / same-token-other-id / other clients with 7 proof kinds (real hashcash), KV failures, provider cert/fail/empty, key kinds ecdsa / rsa / ed25519 / non-signer / failing signer, every algo 0..5, digest lengths 0..65 biased to 31..33/47..49/63..65 (signatures verified with the public key); TTL: leaf / DER-parsed / missing leaf with NotAfter-now swept over a boundary lattice around skew and skew+5min (±1ns, ±1s) and random values in ±100 years; cache loader with provider latencies 0..25 ms and 1.1..1.4 s on certificates from inside the skew to beyond the 5 min cap, TTL bracketed by clock readings before the call / when the provider returns / after. non-trivial = a call with a valid proof of work, or a TTL evaluation"
	rng := hlib.NewRng(r.Seed)
	x := &runner{r: r, rng: rng, pw: newProofs(rng), keys: makeKeys()}

	if r.Replay != "" {
		for _, t := range r.ReplayLines() {
			if x.srv == nil && t[0] != "reset" {
				x.reset()
			}
			switch t[0] {
			case "reset":
				x.reset()
			case "bind":
				x.bind(parseClient(t[1]), string(hlib.UnHex(t[2])))
			case "getcert", "sign":
				cl := call{c: parseClient(t[1]), raw: string(hlib.UnHex(t[2])), powKind: strings.SplitN(t[4], ":", 2)[1], getFail: t[5] == "1", prov: t[6]}
				if t[0] == "getcert" {
					x.getcert(cl)
				} else {
					a, _ := strconv.Atoi(t[7])
					dl, _ := strconv.Atoi(t[8])
					x.sign(cl, a, dl, x.keyByName(t[9]))
				}
			case "ttl":
				d, _ := strconv.ParseInt(t[2], 10, 64)
				x.ttl(t[1], time.Duration(d))
			case "loader":
				d, _ := strconv.ParseInt(t[2], 10, 64)
				var lat int64
				if len(t) >= 6 {
					lat, _ = strconv.ParseInt(t[5], 10, 64)
				}
				x.loader(t[1], time.Duration(d), t[2] != "-", time.Duration(lat))
			}
		}
		r.Finish()
		return
	}

	var subjects []string
	seen := map[string]bool{}
	for _, h := range rawHosts {
		if n, err := acme.Normalize(h); err == nil {
			for _, s := range []string{n, "other." + n} {
				if !seen[s] {
					seen[s] = true
					subjects = append(subjects, s)
				}
			}
		}
	}
	cases := 120
	if r.Thorough() {
		cases = 1500
	}
	dlens := []int{0, 1, 16, 20, 31, 32, 33, 47, 48, 49, 63, 64, 65, 128}
	for cs := 0; cs < cases; cs++ {
		x.pw.warm(subjects)
		x.reset()
		raw := hlib.Pick(rng, rawHosts[:6])
		if rng.Intn(4) == 0 {
			raw = hlib.Pick(rng, rawHosts)
		}
		norm, _, nok := normTok(raw)
		owner := hlib.Pick(rng, clients)
		if nok && rng.Intn(6) != 0 {
			x.bind(owner, norm)
		} else if !nok && rng.Bool() {
			x.bind(owner, raw) // a binding under the raw spelling must not help
		}
		n := 8 + rng.Intn(13)
		for i := 0; i < n; i++ {
			c := owner
			if rng.Intn(3) == 0 {
				c = hlib.Pick(rng, clients)
			}
			h := raw
			if rng.Intn(6) == 0 {
				h = hlib.Pick(rng, rawHosts)
			}
			prov := "cert"
			if k := rng.Intn(12); k == 0 {
				prov = "fail"
			} else if k == 1 {
				prov = "empty"
			}
			cl := call{c: c, raw: h, powKind: hlib.Pick(rng, powKinds), getFail: rng.Intn(30) == 0, prov: prov}
			if rng.Intn(3) == 0 {
				x.getcert(cl)
			} else {
				algo := rng.Intn(6)
				if rng.Bool() {
					algo = 1 + rng.Intn(3)
				}
				dl := hlib.Pick(rng, dlens)
				if rng.Intn(3) == 0 {
					dl = rng.Intn(66)
				} else if hs, ok := hashes[algo]; ok && rng.Bool() {
					dl = hs.Size()
				}
				kk := x.caseKey
				if rng.Intn(5) == 0 {
					kk = hlib.Pick(rng, x.keys)
				}
				x.sign(cl, algo, dl, kk)
			}
		}
	}

	// TTL lattice + random
	skew, pos := time.Minute, 5*time.Minute
	var lat []time.Duration
	for _, b := range []time.Duration{0, time.Second, skew, skew + time.Second, skew + pos, skew + pos/2, -time.Hour, time.Hour, -skew} {
		for _, e := range []time.Duration{-time.Second, -2, -1, 0, 1, 2, time.Second} {
			lat = append(lat, b+e)
		}
	}
	for _, d := range lat {
		x.ttl("leaf", d)
		x.ttl("der", d)
	}
	for _, k := range []string{"nilcert", "noleaf", "badder"} {
		x.ttl(k, 0)
	}
	nt := 3000
	if r.Thorough() {
		nt = 200000
	}
	for i := 0; i < nt; i++ {
		var d time.Duration
		switch rng.Intn(4) {
		case 0:
			d = hlib.Pick(rng, lat) + time.Duration(rng.Intn(2001)-1000)
		case 1:
			d = time.Duration(rng.U64()%uint64(8*time.Minute)) - time.Minute
		case 2:
			d = time.Duration(int64(rng.U64()%uint64(200*365*24*time.Hour))) - 100*365*24*time.Hour
		default:
			d = time.Duration(rng.U64()%uint64(2*time.Hour)) - time.Hour
		}
		kind := "leaf"
		if i%40 == 0 {
			kind = "der"
		}
		x.ttl(kind, d)
	}
	// the cache loader under certificate providers of varying latency (instant mock .. slower than the
	// certificate's remaining validity): the entry's lifetime starts when the provider has answered
	x.reset()
	nl, slow := 90, 1
	if r.Thorough() {
		nl, slow = 1200, 8
	}
	lats := []time.Duration{0, 0, 50 * time.Microsecond, 300 * time.Microsecond, time.Millisecond, 3 * time.Millisecond, 8 * time.Millisecond, 25 * time.Millisecond}
	for i := 0; i < nl; i++ {
		var d time.Duration
		switch rng.Intn(3) {
		case 0:
			d = hlib.Pick(rng, lat) + time.Duration(rng.Intn(2_000_000)) - time.Millisecond
		case 1:
			// anywhere from already inside the skew to beyond the 5 min cap
			d = skew - 2*time.Second + time.Duration(rng.U64()%uint64(pos+6*time.Second))
		default:
			// close to the moment the certificate enters the skew: a slow provider can outlast it
			d = skew + time.Duration(rng.Intn(60_000_000)) - 10*time.Millisecond
		}
		x.loader(hlib.Pick(rng, []string{"cert", "cert", "cert", "cert", "fail", "empty"}), d, rng.Intn(6) != 0, hlib.Pick(rng, lats))
	}
	// providers slower than the 1 s TTL floor: the certificate has more than 1 s (after skew) left when the
	// lookup starts and is inside the skew, or has visibly less left, when it arrives
	for i := 0; i < slow; i++ {
		l := 1100*time.Millisecond + time.Duration(rng.Intn(300))*time.Millisecond
		x.loader("cert", skew+l-time.Duration(1+rng.Intn(90))*time.Millisecond, true, l)
		if i%2 == 1 {
			x.loader("cert", skew+l+time.Duration(rng.Intn(int(4*time.Second))), true, l)
		}
	}
	r.Finish()
}
