import SpecterModel.C41.Model
/-!
# C41 — the exhaustive explorations without a stale reap, and with one for a single dial (kernel-evaluated)

`explore … = true` over the table GENERATED from `overlay/reuse.go` / `overlay/reaper.go`, for every consistent
pre-existing cache state. The explorations of two simultaneous dials with a stale reap are in `ExploreLateP` /
`ExploreLateQ` (separate modules: they are the expensive ones and compile in parallel).
-/
namespace Specter.C41
open Gen.C41

/-- one dial; no stale reap, a stale reap at P, a stale reap at Q -/
theorem explore_single : ∀ late ∈ lateConfigs, ∀ pre ∈ preStates,
    explore genTable goodStrict 18 (init false pre late) = true := by
  decide +kernel

set_option maxRecDepth 100000 in
/-- two simultaneous dials, no stale reap -/
theorem explore_dual : ∀ pre ∈ preStates, explore genTable (goodFor pre) 18 (init true pre) = true := by
  decide +kernel

/-- one dial or two simultaneous dials between peers that BOTH cache the pre-existing connection, no environment
event: the three properties, and the shared connection stays cached at both sides and open -/
theorem explore_shared : ∀ dual ∈ [false, true], ∀ pre ∈ sharedStates,
    explore genTable (fun s => goodStrict s && keepsShared s) 18 (init dual pre) = true := by
  decide +kernel

end Specter.C41
