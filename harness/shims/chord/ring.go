//go:build verif

package chord

import (
	"go.miragespace.co/specter/spec/chord"
)

// Accessors used by the verification harness (build tag verif only; add-only).

func (n *LocalNode) VerifStabilize() error        { return n.stabilize() }
func (n *LocalNode) VerifFixFinger() error        { return n.fixFinger() }
func (n *LocalNode) VerifCheckPredecessor() error { return n.checkPredecessor() }
func (n *LocalNode) VerifState() chord.State      { return n.state.Get() }
func (n *LocalNode) VerifStateHistory() []chord.State {
	return n.state.History()
}
func (n *LocalNode) VerifPred() chord.VNode { return n.getPredecessor() }
func (n *LocalNode) VerifSuccs() []chord.VNode {
	n.successorsMu.RLock()
	defer n.successorsMu.RUnlock()
	return append([]chord.VNode{}, n.successors...)
}
func (n *LocalNode) VerifSurrogate() chord.VNode {
	n.surrogateMu.RLock()
	defer n.surrogateMu.RUnlock()
	return n.surrogate
}
func (n *LocalNode) VerifFingers() []chord.VNode {
	out := make([]chord.VNode, 0, chord.MaxFingerEntries)
	for k := 1; k <= chord.MaxFingerEntries; k++ {
		n.fingers[k].computeView(func(node chord.VNode) { out = append(out, node) })
	}
	return out
}
func (n *LocalNode) VerifKV() chord.KVProvider { return n.kv }

// constructed states (C09): set pointers directly
func (n *LocalNode) VerifSetState(s chord.State) { n.state.Set(s) }
func (n *LocalNode) VerifSetPred(p chord.VNode) {
	n.predecessorMu.Lock()
	n.predecessor = p
	n.predecessorMu.Unlock()
}
func (n *LocalNode) VerifSetSuccs(s []chord.VNode) {
	n.successorsMu.Lock()
	n.successors = s
	n.successorsMu.Unlock()
}
func (n *LocalNode) VerifSetFinger(k int, f chord.VNode) {
	n.fingers[k].computeUpdate(func(entry *fingerEntry) { entry.node = f })
}

// single attempt of the leave protocol (no retry loop, no advisories)
// one attempt of the leave protocol; tolerant of an added "pending successor" parameter (nil = fresh lookup)
func (n *LocalNode) VerifExecuteLeave() (pre, succ chord.VNode, err error) {
	switch f := any(n.executeLeave).(type) {
	case func() (chord.VNode, chord.VNode, error):
		return f()
	case func(chord.VNode) (chord.VNode, chord.VNode, error):
		return f(nil)
	}
	panic("verif: unsupported executeLeave signature")
}

// stop the background tasks of a node the harness is done with (idempotent)
func (n *LocalNode) VerifStop() {
	defer func() { recover() }()
	close(n.stopCh)
}
