// Overlapping stabilize runs on ONE node publishing their successor lists (succListHash / successors /
// successorsMu in chord/local_tasks.go).
//
// The real interleaving cannot be forced on the Go runtime from here (between the accesses there is no cross-node
// call a wrapper could pause at, and losing the race for the mutex needs sub-millisecond barging), so the accesses
// of the CURRENT source are extracted (`extract c02-lines`, honouring VERIF_MUTANT_DIR) and executed by the small
// simulator below under explicit schedules: every interleaving of two runs, sampled / exhaustive interleavings of
// three runs, random pick sequences with disabled picks. One line per schedule:
//
//	upd <prog> <v0> <views> <rv> <sched> => <hash> <list> done|stuck | <hash'> <list'>
//
// v0 = list published at the start, views = list computed by each overlapping run, sched = run indices in the
// order of their steps (a pick of a run that cannot move is a no-op; after the schedule the remaining runs are
// executed to their end, lowest enabled run first), rv = the true successor list, computed by ONE further run
// after all the others have finished; <hash'> <list'> = what is published after that run.
package main

import (
	"fmt"
	"os"
	"os/exec"
	"path/filepath"
	"strconv"
	"strings"

	"verif/harness/hlib"
)

type updAct struct {
	kind string // load swap store lock unlock assign
	skip int
}

type updThread struct{ view, pc int }

type updState struct {
	hash, list int
	owner      int // -1 = free
	ths        []updThread
}

func updHash(v int) int { return v + 100 }

func updSrc(rel string) string {
	repo := os.Getenv("VERIF_REPO")
	if repo == "" {
		repo = "/repo"
	}
	if m := os.Getenv("VERIF_MUTANT_DIR"); m != "" {
		if _, err := os.Stat(filepath.Join(m, rel)); err == nil {
			return filepath.Join(m, rel)
		}
	}
	return filepath.Join(repo, rel)
}

// the action list of the current source
func updLoad() (string, []updAct, error) {
	exe := os.Getenv("VERIF_EXTRACT")
	if exe == "" {
		exe = "/verif/build/extract"
	}
	out, err := exec.Command(exe, "c02-lines", updSrc("chord/local_tasks.go"), updSrc("chord/local_chord.go")).CombinedOutput()
	if err != nil {
		return "", nil, fmt.Errorf("extract c02-lines: %v: %s", err, strings.TrimSpace(string(out)))
	}
	line := strings.TrimSpace(string(out))
	if !strings.HasPrefix(line, "prog ") || strings.Contains(line, "\n") {
		return "", nil, fmt.Errorf("bad output %q", line)
	}
	tok := strings.TrimPrefix(line, "prog ")
	var prog []updAct
	if tok != "-" {
		for _, a := range strings.Split(tok, ",") {
			p := strings.SplitN(a, ":", 2)
			act := updAct{kind: p[0]}
			switch p[0] {
			case "load", "swap":
				if len(p) != 2 {
					return "", nil, fmt.Errorf("bad action %q", a)
				}
				k, err := strconv.Atoi(p[1])
				if err != nil {
					return "", nil, fmt.Errorf("bad action %q", a)
				}
				act.skip = k
			case "store", "lock", "unlock", "assign":
				if len(p) != 1 {
					return "", nil, fmt.Errorf("bad action %q", a)
				}
			default:
				return "", nil, fmt.Errorf("unknown action %q", a)
			}
			prog = append(prog, act)
		}
	}
	return tok, prog, nil
}

func (s *updState) clone() *updState {
	c := *s
	c.ths = append([]updThread{}, s.ths...)
	return &c
}

// one step of run i (as run number `id` for the lock); false = not enabled
func updStepT(prog []updAct, id int, t *updThread, s *updState) bool {
	if t.pc >= len(prog) {
		return false
	}
	a := prog[t.pc]
	switch a.kind {
	case "load":
		if s.hash == updHash(t.view) {
			t.pc += 1 + a.skip
		} else {
			t.pc++
		}
	case "swap":
		old := s.hash
		s.hash = updHash(t.view)
		if old == updHash(t.view) {
			t.pc += 1 + a.skip
		} else {
			t.pc++
		}
	case "store":
		s.hash = updHash(t.view)
		t.pc++
	case "assign":
		s.list = t.view
		t.pc++
	case "lock":
		if s.owner != -1 {
			return false
		}
		s.owner = id
		t.pc++
	case "unlock":
		if s.owner != id {
			return false
		}
		s.owner = -1
		t.pc++
	}
	return true
}

func (s *updState) enabled(prog []updAct, i int) bool {
	if i < 0 || i >= len(s.ths) {
		return false
	}
	c := s.clone()
	return updStepT(prog, i, &c.ths[i], c)
}

func (s *updState) step(prog []updAct, i int) {
	if i < 0 || i >= len(s.ths) {
		return
	}
	updStepT(prog, i, &s.ths[i], s)
}

func updInit(v0 int, views []int) *updState {
	s := &updState{hash: updHash(v0), list: v0, owner: -1}
	for _, v := range views {
		s.ths = append(s.ths, updThread{view: v})
	}
	return s
}

func ints(xs []int) string {
	if len(xs) == 0 {
		return "-"
	}
	var p []string
	for _, x := range xs {
		p = append(p, strconv.Itoa(x))
	}
	return strings.Join(p, ",")
}

// run one schedule on the simulator and emit its line
func updEmit(run *hlib.Run, tok string, prog []updAct, v0 int, views []int, rv int, sched []int) {
	s := updInit(v0, views)
	for _, i := range sched {
		s.step(prog, i)
	}
	for fuel := len(views) * (len(prog) + 1); fuel > 0; fuel-- {
		moved := false
		for i := range s.ths {
			if s.enabled(prog, i) {
				s.step(prog, i)
				moved = true
				break
			}
		}
		if !moved {
			break
		}
	}
	done := s.owner == -1
	for _, t := range s.ths {
		if t.pc < len(prog) {
			done = false
		}
	}
	lhs := hlib.F("upd %s %d %s %d %s", tok, v0, ints(views), rv, ints(sched))
	if !done {
		run.Emit(lhs, hlib.F("%d %d stuck | - -", s.hash, s.list))
		run.Count("upd:stuck")
		return
	}
	h, l := s.hash, s.list
	rt := updThread{view: rv}
	for fuel := len(prog); fuel > 0; fuel-- {
		if !updStepT(prog, len(s.ths), &rt, s) {
			break
		}
	}
	run.Emit(lhs, hlib.F("%d %d done | %d %d", h, l, s.hash, s.list))
	if l != rv {
		run.Count("upd:repair-round-had-work")
	} else {
		run.Count("upd:already-newest")
	}
	if h != updHash(l) {
		run.Count("upd:hash-and-list-disagree-after-overlap")
	}
}

// every maximal execution (only enabled runs are picked)
func updAll(prog []updAct, s *updState, sched []int, limit *int, visit func([]int)) {
	if *limit <= 0 {
		return
	}
	any := false
	for i := range s.ths {
		if s.enabled(prog, i) {
			any = true
			c := s.clone()
			c.step(prog, i)
			updAll(prog, c, append(append([]int{}, sched...), i), limit, visit)
		}
	}
	if !any {
		*limit--
		visit(sched)
	}
}

func updRandomMaximal(rng *hlib.Rng, prog []updAct, s *updState) []int {
	var sched []int
	for {
		var en []int
		for i := range s.ths {
			if s.enabled(prog, i) {
				en = append(en, i)
			}
		}
		if len(en) == 0 {
			return sched
		}
		i := hlib.Pick(rng, en)
		s.step(prog, i)
		sched = append(sched, i)
	}
}

func updDistinct(xs []int, extra int) []int {
	seen := map[int]bool{}
	var out []int
	for _, x := range append(append([]int{}, xs...), extra) {
		if !seen[x] {
			seen[x] = true
			out = append(out, x)
		}
	}
	return out
}

func updCases(run *hlib.Run, rng *hlib.Rng) {
	run.Raw("# case upd")
	tok, prog, err := updLoad()
	if err != nil {
		// the update code is no longer in the shape the extractor understands
		run.Emit("updprog", "unreadable:"+strings.ReplaceAll(err.Error(), " ", "_"))
		run.Count("upd:unreadable")
		return
	}
	run.Emit("updprog", tok)
	emit := func(v0 int, views []int, rv int, sched []int) {
		updEmit(run, tok, prog, v0, views, rv, sched)
		run.Case(hlib.F("upd-%d-%v-%d-%v", v0, views, rv, sched))
	}
	// two overlapping runs: every interleaving, every combination of views (0 = the list already published),
	// the true list = one of the views or a newer one
	for _, views := range [][]int{{1, 2}, {2, 1}, {1, 1}, {0, 1}, {1, 0}, {0, 2}, {2, 0}, {0, 0}, {2, 2}} {
		limit := 100000
		updAll(prog, updInit(0, views), nil, &limit, func(sched []int) {
			for _, rv := range updDistinct([]int{views[1], views[0]}, 3) {
				emit(0, views, rv, sched)
			}
		})
		run.Count("upd:two-runs-exhaustive")
	}
	// three overlapping runs
	if run.Thorough() {
		for _, views := range [][]int{{1, 2, 3}, {1, 2, 2}, {1, 1, 2}, {0, 1, 2}, {2, 1, 0}} {
			limit := 60000
			updAll(prog, updInit(0, views), nil, &limit, func(sched []int) {
				emit(0, views, views[2], sched)
				emit(0, views, views[1], sched)
			})
			run.Count("upd:three-runs-exhaustive")
		}
	}
	n3 := 1500
	if run.Thorough() {
		n3 = 20000
	}
	for k := 0; k < n3; k++ {
		n := 3 + rng.Intn(2)
		var views []int
		for i := 0; i < n; i++ {
			views = append(views, rng.Intn(4))
		}
		sched := updRandomMaximal(rng, prog, updInit(0, views))
		rv := hlib.Pick(rng, updDistinct(views, 4))
		emit(0, views, rv, sched)
		run.Count(hlib.F("upd:random-maximal-%d-runs", n))
	}
	// arbitrary pick sequences (disabled and out-of-range picks are no-ops), completed by the drain
	for k := 0; k < n3/3; k++ {
		n := 1 + rng.Intn(4)
		var views []int
		for i := 0; i < n; i++ {
			views = append(views, rng.Intn(4))
		}
		var sched []int
		for i := rng.Intn(4 * (len(prog) + 1)); i > 0; i-- {
			sched = append(sched, rng.Intn(n+1))
		}
		emit(rng.Intn(3), views, hlib.Pick(rng, updDistinct(views, 4)), sched)
		run.Count("upd:random-picks")
	}
}

// replay of a recorded `upd` line against the CURRENT source's action list
func updReplay(run *hlib.Run, t []string) {
	switch t[0] {
	case "updprog":
		tok, _, err := updLoad()
		if err != nil {
			run.Emit("updprog", "unreadable:"+strings.ReplaceAll(err.Error(), " ", "_"))
			return
		}
		run.Emit("updprog", tok)
	case "upd":
		tok, prog, err := updLoad()
		if err != nil {
			run.Emit("updprog", "unreadable:"+strings.ReplaceAll(err.Error(), " ", "_"))
			return
		}
		if len(t) != 6 {
			return
		}
		parse := func(s string) []int {
			var xs []int
			if s == "-" {
				return xs
			}
			for _, p := range strings.Split(s, ",") {
				x, _ := strconv.Atoi(p)
				xs = append(xs, x)
			}
			return xs
		}
		v0, _ := strconv.Atoi(t[2])
		rv, _ := strconv.Atoi(t[4])
		updEmit(run, tok, prog, v0, parse(t[3]), rv, parse(t[5]))
	}
}
