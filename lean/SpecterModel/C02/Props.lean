import SpecterModel.C03.Props
/-!
# C02 — Ring pointers converge to the true ring order after membership churn

Proved here (safety half, every ring size and id layout):

* the ideal pointers are a FIXPOINT of the repair tasks: on a stable quiescent ring `checkPredecessor`
  changes nothing (`checkPredecessor_fixpoint`) and `stabilize` keeps every predecessor and every
  first successor, hence keeps the ring stable (`stabilize_keeps_stable`);
* finger repair is exact in ONE pass once predecessor/successor are right: after `fixK n k` the k-th
  finger of `n` is the owner of `n + 2^(k-1)` and nothing else changes (`fixK_owner`).

PARTIAL — the liveness half (from every state reachable by graceful churn, finitely many repair rounds
reach a stable ring; full successor LIST exactness) is not proved; it is validated on real nodes: after
random create/join/leave histories with task interleavings the harness runs repair rounds to a fixpoint
and the driver checks predecessor, the whole successor list and all 48 fingers of every live node of the
IMPLEMENTATION against the true ring order.
-/
namespace Specter.C02
open Specter.Ring Specter.C01 Specter.C03

theorem mem_live (net : Net) (hq : Quiescent net) (n : Nat) (h : Mem net n) : ping net n = true := by
  obtain ⟨nd, hg, hc⟩ := h
  obtain ⟨ha, hup⟩ := hq.active n nd hg hc
  unfold ping; simp [hg, checkNodeState, hup, ha]

/-- on a stable quiescent ring the predecessor check changes nothing -/
theorem checkPredecessor_fixpoint (net : Net) (hs : Stable net) (hq : Quiescent net) (n : Nat) (hn : Mem net n) :
    checkPredecessor net n = net := by
  obtain ⟨nd, hg, hc⟩ := hn
  obtain ⟨p, hp, hpm, _⟩ := hs.pred n nd hg hc
  unfold checkPredecessor
  simp only [hg, hp]
  by_cases e : (p == n) = true
  · simp [e]
  · simp [e, mem_live net hq p hpm]

/-- the true successor's predecessor is the node itself -/
theorem succ_pred_inverse (net : Net) (hs : Stable net) (n s : Nat) (nd nds : Node)
    (hg : net.get n = some nd) (hc : checkNodeState nd false = none) (hsu : nd.succs.head? = some s)
    (hgs : net.get s = some nds) (hcs : checkNodeState nds false = none) : nds.pred = some n := by
  obtain ⟨s', hs', hsm, hsmin⟩ := hs.succ n nd hg hc
  rw [hsu] at hs'; injection hs' with hs'; subst hs'
  obtain ⟨p, hp, hpm, hpmin⟩ := hs.pred s nds hgs hcs
  have hn : Mem net n := ⟨nd, hg, hc⟩
  have hnM := hs.lt n hn; have hsM := hs.lt s hsm; have hpM := hs.lt p hpm
  have h1 := hsmin p hpm
  have h2 := hpmin n hn
  rw [hp]; congr 1
  have := dist_cases n p hnM hpM; have := dist_cases n s hnM hsM
  have := dist_cases p n hpM hnM; have := dist_cases p s hpM hsM; have := M_val
  omega

theorem makeSuccList_go_head (maxLen : Nat) : ∀ (cands acc : List Nat) (x : Nat),
    acc.head? = some x → (makeSuccList.go maxLen acc cands).head? = some x := by
  intro cands
  induction cands with
  | nil => intro acc x h; simpa [makeSuccList.go] using h
  | cons c cs ih =>
    intro acc x h
    rw [makeSuccList.go]
    split
    · exact h
    · split
      · exact ih acc x h
      · apply ih; cases acc with
        | nil => simp at h
        | cons a as => simpa using h

theorem makeSuccList_head (imm : Nat) (cands : List Nat) (maxLen : Nat) :
    (makeSuccList imm cands maxLen).head? = some imm := by
  unfold makeSuccList; exact makeSuccList_go_head maxLen cands [imm] imm rfl

theorem cutAfterSelf_head (n : Nat) (l : List Nat) (x : Nat) (h : l.head? = some x) :
    (cutAfterSelf n l).head? = some x := by
  cases l with
  | nil => simp at h
  | cons a as => simp at h; subst h; unfold cutAfterSelf; split <;> simp

/-- **Fixpoint of `stabilize`.** On a stable quiescent ring, `stabilize` at any member keeps every node's
predecessor, state, fingers and store, and keeps the first successor of every node: only the tail of
the caller's successor list may be refreshed. -/
theorem stabilize_keeps_pointers (net : Net) (hs : Stable net) (hq : Quiescent net) (n : Nat) (hn : Mem net n) :
    ∀ m, ((stabilize net n).get m).map (fun x => (x.state, x.pred, x.succs.head?, x.fingers, x.crashed)) =
         (net.get m).map (fun x => (x.state, x.pred, x.succs.head?, x.fingers, x.crashed)) := by
  intro m
  obtain ⟨nd, hg, hc⟩ := hn
  obtain ⟨s, hsu, hsm, _⟩ := hs.succ n nd hg hc
  obtain ⟨nds, hgs, hcs⟩ := hsm
  have hpn := succ_pred_inverse net hs n s nd nds hg hc hsu hgs hcs
  obtain ⟨hact, hup⟩ := hq.active n nd hg hc
  -- the successor list is non-empty with head s
  cases hl : nd.succs with
  | nil => rw [hl] at hsu; simp at hsu
  | cons s' rest =>
    rw [hl] at hsu; simp at hsu; subst hsu
    have hgps : getPredSuccs net s' = some (some n, nds.succs) := by
      unfold getPredSuccs; simp [hgs, hcs, hpn]
    have hbn : between n n s' false = false := by unfold between; simp
    have hlist : stabilizeList net n (s' :: rest) = some (makeSuccList s' nds.succs succEntries) := by
      rw [stabilizeList]; simp [hgps, hbn]
    have hhead : (cutAfterSelf n (makeSuccList s' nds.succs succEntries)).head? = some s' :=
      cutAfterSelf_head n _ s' (makeSuccList_head s' nds.succs succEntries)
    unfold stabilize
    simp only [hg, hl, hlist, Option.map_some]
    simp only [hhead]
    have hcn : checkNodeState nd true = none := by simp [checkNodeState, hup, hact]
    simp only [hcn, Option.isNone_none, if_true]
    -- notify s' n is a no-op: s' already has predecessor n
    have hnot : ∀ (net1 : Net), net1.get s' = (if s' = n then some { nd with succs := cutAfterSelf n (makeSuccList s' nds.succs succEntries) } else some nds) →
        notify net1 s' n = net1 := by
      intro net1 h1
      unfold notify
      by_cases e : s' = n
      · subst e
        rw [hg] at hgs; injection hgs with hgs; subst hgs
        simp only [h1, if_true]
        simp [hc, hpn]
      · simp only [h1, e, if_false]
        simp [hcs, hpn]
    rw [hnot]
    · rw [get_upd]
      by_cases e : m = n
      · subst e; simp [hg, hl, hhead]
      · simp [e]
    · rw [get_upd]
      by_cases e : s' = n
      · subst e; simp [hg]
      · simp [e, hgs]

/-- `stabilize` preserves stability -/
theorem stabilize_keeps_stable (net : Net) (hs : Stable net) (hq : Quiescent net) (n : Nat) (hn : Mem net n) :
    Stable (stabilize net n) := by
  have key := stabilize_keeps_pointers net hs hq n hn
  have memeq : ∀ m, Mem (stabilize net n) m ↔ Mem net m := by
    intro m
    have := key m
    unfold Mem
    cases h1 : (stabilize net n).get m with
    | none => cases h2 : net.get m with
      | none => simp
      | some y => simp [h1, h2] at this
    | some x => cases h2 : net.get m with
      | none => simp [h1, h2] at this
      | some y =>
        simp [h1, h2] at this
        simp only [Option.some.injEq, exists_eq_left']
        unfold checkNodeState; rw [this.1, this.2.2.2.2]
  have view : ∀ m x, (stabilize net n).get m = some x → ∃ y, net.get m = some y ∧
      x.state = y.state ∧ x.pred = y.pred ∧ x.succs.head? = y.succs.head? ∧ x.fingers = y.fingers ∧ x.crashed = y.crashed := by
    intro m x hx
    have := key m
    cases h2 : net.get m with
    | none => simp [hx, h2] at this
    | some y => simp [hx, h2] at this; exact ⟨y, rfl, this⟩
  constructor
  · intro m hm; exact hs.lt m ((memeq m).mp hm)
  · intro m x hx hcx
    obtain ⟨y, hy, e1, e2, e3, e4, e5⟩ := view m x hx
    have hcy : checkNodeState y false = none := by unfold checkNodeState at hcx ⊢; rw [← e1, ← e5]; exact hcx
    obtain ⟨p, hp, hpm, hmin⟩ := hs.pred m y hy hcy
    exact ⟨p, by rw [e2]; exact hp, (memeq p).mpr hpm, fun q hq' => hmin q ((memeq q).mp hq')⟩
  · intro m x hx hcx
    obtain ⟨y, hy, e1, e2, e3, e4, e5⟩ := view m x hx
    have hcy : checkNodeState y false = none := by unfold checkNodeState at hcx ⊢; rw [← e1, ← e5]; exact hcx
    obtain ⟨s, hsu, hsm, hmin⟩ := hs.succ m y hy hcy
    exact ⟨s, by rw [e3]; exact hsu, (memeq s).mpr hsm, fun q hq' => hmin q ((memeq q).mp hq')⟩
  · intro m x hx hcx f hf
    obtain ⟨y, hy, e1, e2, e3, e4, e5⟩ := view m x hx
    have hcy : checkNodeState y false = none := by unfold checkNodeState at hcx ⊢; rw [← e1, ← e5]; exact hcx
    exact (memeq f).mpr (hs.fingers m y hy hcy f (by rw [← e4]; exact hf))

/-- **Finger repair is exact.** On a stable ring, `fixK n k` sets finger `k` of `n` to the owner of
`n + 2^(k-1)` and changes nothing else. -/
theorem fixK_owner (net : Net) (hs : Stable net) (n k : Nat) (hn : Mem net n)
    (hF : LookupsComplete net (moduloSum n (2^(k-1)))) :
    ∃ o, IsOwner net (moduloSum n (2^(k-1))) o ∧
      fixK net n k = net.upd n (fun nd => { nd with fingers := nd.fingers.set (k-1) (some o) }) := by
  have hk : moduloSum n (2^(k-1)) < M := by unfold moduloSum; exact Nat.mod_lt _ (by simp [M])
  obtain ⟨o, hfo, ho⟩ := lookup_FUEL_owner net hs _ hk hF n hn
  exact ⟨o, ho, by unfold fixK; simp [hfo]⟩

/-- non-vacuity: stabilize on the three-node ring of C01 leaves node 0's pointers in place -/
example : ((stabilize Specter.C01.ring3 0).get 0).map (fun x => (x.pred, x.succs)) =
    some (some (2^48-1), [5, 2^48-1, 0]) := by decide

end Specter.C02
