// C08: RequestToJoin delivered to real LocalNodes in every neighbour-pointer state: nil predecessor
// (after failure detection, with and without a delivered Notify), predecessor == self, joiner ids
// adjacent to / equal to existing ids, busy (Transferring) nodes.
package main

import (
	"strings"

	"verif/harness/hlib"
	"verif/harness/ringh"
)

func main() {
	hlib.Guarded(func(run *hlib.Run) {
		run.Rule = "RequestToJoin(joiner) sent to a random live node of rings of 1..6 real LocalNodes in states: stable; predecessor crashed + checkPredecessor (pred nil) + neighbour's stabilize with lost Notify; busy node; joiner id random / adjacent (±1) / equal to a member; joiner Inactive or Joining; non-trivial = distinct (ring state, target, joiner id) where the handling node has pred nil, pred self or is busy"
		rng := hlib.NewRng(run.Seed)
		if run.Replay != "" {
			s := ringh.NewSession(run, rng)
			for _, t := range run.ReplayLines() {
				if t[0] == "reset" {
					continue
				}
				run.Begin(strings.Join(t, " "))
				s.Do(t...)
			}
			return
		}
		cases := 25
		if run.Thorough() {
			cases = 200
		}
		for c := 0; c < cases; c++ {
			n := 1 + rng.Intn(6)
			ids := ringh.AdversarialIDs(rng, n)
			s := ringh.NewSession(run, rng)
			members := s.BuildRing(ids)
			s.Repair(members, 6)
			live := append([]uint64{}, members...)
			tag := "stable"
			race := false
			var victimID uint64
			var raceX uint64
			if len(members) >= 3 && rng.Chance(70) {
				// kill one node; its successor detects it; its predecessor repairs its list, Notify lost
				victim := hlib.Pick(rng, members)
				victimID = victim
				s.Do("crash", ringh.U(victim))
				live = live[:0]
				for _, m := range members {
					if m != victim {
						live = append(live, m)
					}
				}
				// the victim's successor: the node whose predecessor pointer now names a dead node
				raceX = members[0]
				best := uint64(0)
				for _, m := range live {
					if d := (m + ringh.M - victim) % ringh.M; best == 0 || d < best {
						best, raceX = d, m
					}
				}
				if rng.Chance(35) {
					// failure detection has NOT run yet: it will run concurrently with the join requests below,
					// between the routing decision and the membership lock (reqjoinrace)
					race = true
					tag = "pred-race"
				} else {
					for _, m := range live {
						s.Do("checkpred", ringh.U(m))
					}
				}
				if race {
				} else if rng.Chance(70) {
					for _, m := range live {
						s.Do("stabilizex", ringh.U(m))
					}
					tag = "pred-nil+lost-notify"
				} else {
					tag = "pred-nil"
				}
				if rng.Chance(30) {
					for _, m := range live {
						s.Do("fixfinger", ringh.U(m))
					}
				}
			} else if len(members) == 1 {
				tag = "pred-self"
			}
			run.Count("state:" + tag)
			for k := 0; k < 6; k++ {
				var j uint64
				switch rng.Intn(4) {
				case 0:
					j = rng.U64() % ringh.M
				case 1:
					j = (hlib.Pick(rng, members) + 1) % ringh.M
				case 2:
					j = (hlib.Pick(rng, members) + ringh.M - 1) % ringh.M
				default:
					j = hlib.Pick(rng, members) // duplicate id: refused as ErrDuplicateJoinerID or routed elsewhere
				}
				fresh := true
				for _, m := range ids {
					if m == j {
						fresh = false
					}
				}
				if fresh {
					ids = append(ids, j)
					s.Do("new", ringh.U(j))
					if rng.Bool() {
						s.Do("setstate", ringh.U(j), "Joining")
					}
				}
				target := hlib.Pick(rng, live)
				// a member that is in the middle of its own departure (state Leaving: it still answers lookups) or
				// has just departed (Left) is asked as well
				var parked uint64
				parkedState := ""
				if !race && len(live) >= 2 && rng.Chance(25) {
					parked = hlib.Pick(rng, live)
					parkedState = "Leaving"
					if rng.Chance(30) {
						parkedState = "Left"
					}
					s.Do("setstate", ringh.U(parked), parkedState)
					run.Count("state:member-" + parkedState)
				}
				var res string
				if race {
					if rng.Chance(60) {
						// a joiner in the dead node's range, i.e. one the racing node is responsible for
						j = (victimID + 1 + uint64(rng.Intn(3))) % ringh.M
						if j != victimID {
							known := false
							for _, m := range ids {
								known = known || m == j
							}
							if !known {
								ids = append(ids, j)
								s.Do("new", ringh.U(j))
							}
						}
					}
					run.Begin("reqjoinrace " + ringh.U(target) + " " + ringh.U(j) + " " + ringh.U(raceX))
					res = s.Do("reqjoinrace", ringh.U(target), ringh.U(j), ringh.U(raceX))
				} else {
					run.Begin("reqjoin " + ringh.U(target) + " " + ringh.U(j))
					res = s.Do("reqjoin", ringh.U(target), ringh.U(j))
				}
				run.Case(hlib.F("%s|%v|%d|%d", tag, members, target, j))
				if parkedState != "" {
					s.Do("setstate", ringh.U(parked), "Active")
				}
				if strings.HasPrefix(res, "ok:") {
					// release the membership lock so that further requests see an Active node again
					for _, m := range live {
						s.Do("finish", ringh.U(m), "false", "true")
					}
				}
				if s.Dead {
					break
				}
			}
		}
	})
}
