import SpecterModel.C01.Sim
/-! C01 driver: ring model + sorted-membership oracle for lookups on a stable ring. -/
namespace Specter.C01
open Specter.Util Specter.Ring

/-- live members: active, not crashed -/
def members (net : Net) : List Nat :=
  ((net.filter (fun p => p.2.state == .active && !p.2.crashed)).map (·.1)).toArray.qsort (· < ·) |>.toList

/-- the first member at or clockwise after `key` in the sorted membership -/
def oracleOwner (ms : List Nat) (key : Nat) : Option Nat :=
  match ms.find? (fun m => key ≤ m) with
  | some m => some m
  | none => ms.head?

def succOf (ms : List Nat) (n : Nat) : Option Nat := oracleOwner ms ((n + 1) % M)
def predOf (ms : List Nat) (n : Nat) : Option Nat :=
  match (ms.filter (· < n)).getLast? with
  | some p => some p
  | none => ms.getLast?

/-- executable `Stable`: exact pred / succ / all fingers members, for every live member, and no other node alive -/
def stableB (net : Net) : Bool :=
  let ms := members net
  !ms.isEmpty &&
  net.all (fun (id, nd) =>
    if nd.state == .active && !nd.crashed then
      nd.pred == predOf ms id && nd.succs.head? == succOf ms id &&
      nd.fingers.all (fun f => match f with | some f => ms.contains f | none => false) &&
      nd.fingers.head? == some (succOf ms id)
    else nd.state == .inactive || nd.state == .left || nd.crashed)

def spec (net _net' : Net) (toks : List String) (ires : String) : Option String :=
  match toks with
  | ["lookup", n, k] =>
    match n.toNat?, k.toNat? with
    | some n, some k =>
      let ms := members net
      if stableB net && ms.contains n && k < M then
        match oracleOwner ms k with
        | some o => if ires == s!"found:{o}" then none else some s!"lookup on stable ring: owner of {k} is {o}"
        | none => none
      else none
    | _, _ => none
  | _ => none

def main : IO Unit := runLoop ([] : Net) (ringStep spec)

end Specter.C01
