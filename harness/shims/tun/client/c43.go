//go:build verif

package client

import (
	"context"
	"errors"

	"go.miragespace.co/specter/spec/protocol"
	"go.miragespace.co/specter/spec/rpc"

	"github.com/zhangyunhao116/skipmap"
	"go.uber.org/atomic"
	"go.uber.org/zap"
)

// verifC43Tun scripts the three RPCs SyncConfigTunnels uses; every other method of the embedded
// (nil) interface would panic, i.e. the harness notices if the code starts calling something else.
type verifC43Tun struct {
	rpc.TunnelClient
	registered    []string
	registeredErr bool
	fresh         []string // "" = that call fails
	Calls         int
	Published     []string
}

func (f *verifC43Tun) RegisteredHostnames(context.Context, *protocol.RegisteredHostnamesRequest) (*protocol.RegisteredHostnamesResponse, error) {
	if f.registeredErr {
		return nil, errors.New("scripted failure")
	}
	return &protocol.RegisteredHostnamesResponse{Hostnames: append([]string{}, f.registered...)}, nil
}

func (f *verifC43Tun) GenerateHostname(context.Context, *protocol.GenerateHostnameRequest) (*protocol.GenerateHostnameResponse, error) {
	i := f.Calls
	f.Calls++
	if i >= len(f.fresh) || f.fresh[i] == "" {
		return nil, errors.New("scripted failure")
	}
	return &protocol.GenerateHostnameResponse{Hostname: f.fresh[i]}, nil
}

func (f *verifC43Tun) PublishTunnel(_ context.Context, req *protocol.PublishTunnelRequest) (*protocol.PublishTunnelResponse, error) {
	f.Published = append(f.Published, req.GetHostname())
	return &protocol.PublishTunnelResponse{Published: req.GetServers()}, nil
}

// VerifC43Sync runs the real SyncConfigTunnels on a client whose configuration holds `tunnels`
// (config file at path) against the scripted server. Returns the configuration's tunnels
// afterwards, the number of GenerateHostname calls and the hostnames passed to PublishTunnel.
func VerifC43Sync(path string, tunnels []Tunnel, registered []string, registeredErr bool, fresh []string) (out []Tunnel, calls int, published []string) {
	cfg := &Config{path: path, router: skipmap.NewString[route](), Version: 2, Apex: "apex.example:443",
		PrivKey: "k", Tunnels: append([]Tunnel{}, tunnels...)}
	fake := &verifC43Tun{registered: registered, registeredErr: registeredErr, fresh: fresh}
	c := &Client{
		ClientConfig: ClientConfig{Logger: zap.NewNop(), Configuration: cfg},
		rootDomain:   atomic.NewString("example.com"),
		proxies:      skipmap.NewString[*httpProxy](),
		connections:  skipmap.NewString[*protocol.Node](),
		tunnelClient: fake,
		closeCh:      make(chan struct{}),
	}
	c.connections.Store("node-1", &protocol.Node{Id: 1, Address: "node-1"})
	c.SyncConfigTunnels(context.Background())
	return append([]Tunnel{}, c.Configuration.Tunnels...), fake.Calls, fake.Published
}
