import SpecterModel.C45.Model
/-!
# C45 — Saving the client configuration never loses the client identity

`atomic_replace_safe`: for EVERY op list of the atomic-replace shape (decidable predicate
`isAtomicReplace`, evaluated by the driver on the strace-recorded operations of the real
`Config.writeFile`), every crash image of the config path after every prefix is the old or the new
content. `truncate_in_place_unsafe` / `rename_without_fsync_unsafe`: the two classic broken shapes
have a crash image that is neither.
-/
namespace Specter.C45

/-- Quiescent start: `path` names a file whose content `old` is entirely on stable storage, no other
name is a hard link to that inode, every inode in the directory is below `next`. -/
def Base (path : String) (old : List Nat) (s : Fs) : Prop :=
  ∃ i0, s.dir path = some i0 ∧ s.file i0 = ⟨old, old.length⟩ ∧
    (∀ q, q ≠ path → s.dir q ≠ some i0) ∧ (∀ q i, s.dir q = some i → i < s.next)

/-- `path` still names the untouched old file; `tmp` names a different inode `i1`. -/
def Pre (path : String) (old : List Nat) (tmp : String) (i1 : Nat) (s : Fs) : Prop :=
  ∃ i0, s.dir path = some i0 ∧ s.file i0 = ⟨old, old.length⟩ ∧ i1 ≠ i0 ∧ tmp ≠ path ∧ s.dir tmp = some i1

def Inv (path : String) (old new : List Nat) : Phase → Fs → List FsOp → Prop
  | .start, s, rest => Base path old s ∧ pending rest = new
  | .writing fd tmp, s, rest =>
    ∃ i1, Pre path old tmp i1 s ∧ s.fd fd = some i1 ∧ (s.file i1).data ++ pending rest = new
  | .synced _ tmp, s, _ => ∃ i1, Pre path old tmp i1 s ∧ s.file i1 = ⟨new, new.length⟩
  | .closed tmp, s, _ => ∃ i1, Pre path old tmp i1 s ∧ s.file i1 = ⟨new, new.length⟩
  | .done _, s, _ => ∃ i1, s.dir path = some i1 ∧ s.file i1 = ⟨new, new.length⟩

def Phase.post : Phase → Bool
  | .synced .. | .closed .. | .done .. => true
  | _ => false

theorem next_post {path : String} {ph ph' : Phase} {op : FsOp} (hp : ph.post = true)
    (hn : ph.next path op = some ph') : ph'.post = true ∧ ∀ rest, pending (op :: rest) = pending rest := by
  cases ph with
  | start => simp [Phase.post] at hp
  | writing => simp [Phase.post] at hp
  | synced fd tmp =>
    cases op <;> simp [Phase.next] at hn <;> (obtain ⟨_, rfl⟩ := hn; simp [Phase.post, pending])
  | closed tmp =>
    cases op <;> simp [Phase.next] at hn <;> (obtain ⟨_, rfl⟩ := hn; simp [Phase.post, pending])
  | done o =>
    cases o <;> cases op <;> simp [Phase.next] at hn <;> (obtain ⟨_, rfl⟩ := hn; simp [Phase.post, pending])

/-- once the temporary file is synced, the shape admits no further write -/
theorem post_no_writes (path : String) : ∀ (rest : List FsOp) (ph : Phase), ph.post = true →
    shapeFrom path ph rest = true → pending rest = [] := by
  intro rest
  induction rest with
  | nil => intros; rfl
  | cons op rest ih =>
    intro ph hp hs
    rw [shapeFrom] at hs
    split at hs
    · rename_i ph' hn
      have := next_post hp hn
      rw [this.2]; exact ih ph' this.1 hs
    · simp at hs

theorem upd_same {α β} [DecidableEq α] (f : α → β) (a : α) (b : β) : upd f a b a = b := by simp [upd]
theorem upd_other {α β} [DecidableEq α] (f : α → β) (a x : α) (b : β) (h : x ≠ a) : upd f a b x = f x := by
  simp [upd, h]

theorem inv_images {path : String} {old new : List Nat} {ph : Phase} {s : Fs} {rest : List FsOp}
    (h : Inv path old new ph s rest) : ∀ c, IsImage s path c → c = old ∨ c = new := by
  intro c ⟨i, hi, n, h1, h2, hc⟩
  have pre : ∀ tmp i1, Pre path old tmp i1 s → c = old := by
    intro tmp i1 ⟨i0, hd, hf, _⟩
    rw [hd] at hi; cases hi
    rw [hf] at h1 h2 hc; simp at h1 h2 hc
    have : n = old.length := by omega
    subst this; simpa using hc
  cases ph with
  | start =>
    obtain ⟨⟨i0, hd, hf, _⟩, _⟩ := h
    rw [hd] at hi; cases hi
    rw [hf] at h1 h2 hc; simp at h1 h2 hc
    have : n = old.length := by omega
    subst this; left; simpa using hc
  | writing fd tmp => obtain ⟨i1, hp, _⟩ := h; exact .inl (pre tmp i1 hp)
  | synced fd tmp => obtain ⟨i1, hp, _⟩ := h; exact .inl (pre tmp i1 hp)
  | closed tmp => obtain ⟨i1, hp, _⟩ := h; exact .inl (pre tmp i1 hp)
  | done o =>
    obtain ⟨i1, hd, hf⟩ := h
    rw [hd] at hi; cases hi
    rw [hf] at h1 h2 hc; simp at h1 h2 hc
    have : n = new.length := by omega
    subst this; right; simpa using hc

theorem inv_step {path : String} {old new : List Nat} {ph ph' : Phase} {s : Fs} {op : FsOp}
    {rest : List FsOp} (h : Inv path old new ph s (op :: rest)) (hn : ph.next path op = some ph')
    (hs : shapeFrom path ph' rest = true) : Inv path old new ph' (step s op) rest := by
  cases ph with
  | start =>
    cases op <;> simp [Phase.next] at hn
    rename_i fd tmp
    obtain ⟨hne, rfl⟩ := hn
    obtain ⟨⟨i0, hd, hf, hal, hlt⟩, hp⟩ := h
    simp only [pending] at hp
    cases hq : s.dir tmp with
    | some i =>
      have hi : i ≠ i0 := fun e => hal tmp hne (e ▸ hq)
      refine ⟨i, ⟨i0, ?_, ?_, hi, hne, ?_⟩, ?_, ?_⟩ <;> simp [step, hq, upd, hd, hi.symm, hf, hp]
    | none =>
      have hi : s.next ≠ i0 := by have := hlt path i0 hd; omega
      refine ⟨s.next, ⟨i0, ?_, ?_, hi, hne, ?_⟩, ?_, ?_⟩ <;>
        simp [step, hq, upd, hd, hi.symm, hf, hp, Ne.symm hne]
  | writing fd tmp =>
    obtain ⟨i1, ⟨i0, hd, hf, hi, hne, ht⟩, hfd, hdata⟩ := h
    cases op <;> simp [Phase.next] at hn
    · rename_i fd' bs
      obtain ⟨rfl, rfl⟩ := hn
      simp only [pending] at hdata
      refine ⟨i1, ⟨i0, ?_, ?_, hi, hne, ?_⟩, ?_, ?_⟩ <;>
        simp [step, hfd, upd, hd, hi.symm, hf, ht, ← hdata, List.append_assoc]
    · rename_i fd'
      obtain ⟨rfl, rfl⟩ := hn
      have hnw := post_no_writes path rest _ rfl hs
      simp only [pending, hnw, List.append_nil] at hdata
      refine ⟨i1, ⟨i0, ?_, ?_, hi, hne, ?_⟩, ?_⟩ <;>
        simp [step, hfd, upd, hd, hi.symm, hf, ht, hdata]
  | synced fd tmp =>
    obtain ⟨i1, ⟨i0, hd, hf, hi, hne, ht⟩, hnew⟩ := h
    cases op <;> simp [Phase.next] at hn
    · obtain ⟨_, rfl⟩ := hn
      exact ⟨i1, ⟨i0, by simp [step, hd], by simp [step, hf], hi, hne, by simp [step, ht]⟩, by simp [step, hnew]⟩
    · obtain ⟨⟨rfl, rfl⟩, rfl⟩ := hn
      exact ⟨i1, by simp [step, ht, upd], by simp [step, ht, hnew]⟩
  | closed tmp =>
    obtain ⟨i1, ⟨i0, hd, hf, hi, hne, ht⟩, hnew⟩ := h
    cases op <;> simp [Phase.next] at hn
    obtain ⟨⟨rfl, rfl⟩, rfl⟩ := hn
    exact ⟨i1, by simp [step, ht, upd], by simp [step, ht, hnew]⟩
  | done o =>
    obtain ⟨i1, hd, hnew⟩ := h
    cases o with
    | none => simp [Phase.next] at hn
    | some fd =>
      cases op <;> simp [Phase.next] at hn
      obtain ⟨_, rfl⟩ := hn
      exact ⟨i1, by simp [step, hd], by simp [step, hnew]⟩

theorem run_cons (s : Fs) (op : FsOp) (ops : List FsOp) : run s (op :: ops) = run (step s op) ops := rfl

theorem shape_safe_from (path : String) (old new : List Nat) :
    ∀ (ops : List FsOp) (ph : Phase) (s : Fs), Inv path old new ph s ops → shapeFrom path ph ops = true →
      ∀ k c, IsImage (run s (ops.take k)) path c → c = old ∨ c = new := by
  intro ops
  induction ops with
  | nil => intro ph s h _ k c hc; simp [run] at hc; exact inv_images h c hc
  | cons op rest ih =>
    intro ph s h hs k c hc
    cases k with
    | zero => simp [run] at hc; exact inv_images h c hc
    | succ k =>
      rw [List.take_succ_cons, run_cons] at hc
      have hs' := hs
      rw [shapeFrom] at hs'
      · split at hs'
        · rename_i ph' hn
          exact ih ph' (step s op) (inv_step h hn hs') hs' k c hc
        · simp at hs'

/-- **atomic_replace_safe.** From a quiescent state where `path` holds `old`, for every op list of
the atomic-replace shape writing `new` in total, a crash after ANY prefix leaves `path` with exactly
`old` or exactly `new` — never a truncated or partial file. -/
theorem atomic_replace_safe (path : String) (old new : List Nat) (s : Fs) (ops : List FsOp)
    (hs : Base path old s) (hshape : isAtomicReplace path ops = true) (hnew : pending ops = new) :
    ∀ k c, IsImage (run s (ops.take k)) path c → c = old ∨ c = new :=
  shape_safe_from path old new ops .start s ⟨hs, hnew⟩ hshape

/-- after the complete save the only image is the new content (the save is durable once it returns) -/
theorem atomic_replace_complete (path : String) (old new : List Nat) (s : Fs) (ops : List FsOp)
    (hs : Base path old s) (hshape : isAtomicReplace path ops = true) (hnew : pending ops = new) :
    ∀ c, IsImage (run s ops) path c → c = new := by
  suffices h : ∀ (ops : List FsOp) (ph : Phase) (s : Fs), Inv path old new ph s ops →
      shapeFrom path ph ops = true → ∀ c, IsImage (run s ops) path c → c = new from
    h ops .start s ⟨hs, hnew⟩ hshape
  intro ops
  induction ops with
  | nil =>
    intro ph s h hsh c ⟨i, hi, n, h1, h2, hc⟩
    cases ph <;> simp [shapeFrom] at hsh
    obtain ⟨i1, hd, hf⟩ := h
    simp only [run, List.foldl_nil] at hi h1 h2 hc
    rw [hd] at hi; cases hi
    rw [hf] at h1 h2 hc; simp at h1 h2 hc
    have : n = new.length := by omega
    subst this; simpa using hc
  | cons op rest ih =>
    intro ph s h hsh c hc
    rw [run_cons] at hc
    have hs' := hsh
    rw [shapeFrom] at hs'
    · split at hs'
      · rename_i ph' hn
        exact ih ph' (step s op) (inv_step h hn hs') hs' c hc
      · simp at hs'

theorem inv_exists {path : String} {old new : List Nat} {ph : Phase} {s : Fs} {rest : List FsOp}
    (h : Inv path old new ph s rest) : ∃ c, IsImage s path c := by
  have pre : ∀ tmp i1, Pre path old tmp i1 s → ∃ c, IsImage s path c := by
    intro tmp i1 ⟨i0, hd, hf, _⟩
    exact ⟨old, i0, hd, old.length, by simp [hf], by simp [hf], by simp [hf]⟩
  cases ph with
  | start =>
    obtain ⟨⟨i0, hd, hf, _⟩, _⟩ := h
    exact ⟨old, i0, hd, old.length, by simp [hf], by simp [hf], by simp [hf]⟩
  | writing fd tmp => obtain ⟨i1, hp, _⟩ := h; exact pre tmp i1 hp
  | synced fd tmp => obtain ⟨i1, hp, _⟩ := h; exact pre tmp i1 hp
  | closed tmp => obtain ⟨i1, hp, _⟩ := h; exact pre tmp i1 hp
  | done o =>
    obtain ⟨i1, hd, hf⟩ := h
    exact ⟨new, i1, hd, new.length, by simp [hf], by simp [hf], by simp [hf]⟩

/-- the config path exists (has an image) after every prefix of an atomic replace: the statement of
`atomic_replace_safe` is never vacuous -/
theorem atomic_replace_exists (path : String) (old new : List Nat) (s : Fs) (ops : List FsOp)
    (hs : Base path old s) (hshape : isAtomicReplace path ops = true) (hnew : pending ops = new) :
    ∀ k, ∃ c, IsImage (run s (ops.take k)) path c := by
  suffices h : ∀ (ops : List FsOp) (ph : Phase) (s : Fs), Inv path old new ph s ops →
      shapeFrom path ph ops = true → ∀ k, ∃ c, IsImage (run s (ops.take k)) path c from
    h ops .start s ⟨hs, hnew⟩ hshape
  intro ops
  induction ops with
  | nil => intro ph s h _ k; simpa [run] using inv_exists h
  | cons op rest ih =>
    intro ph s h hsh k
    cases k with
    | zero => simpa [run] using inv_exists h
    | succ k =>
      rw [List.take_succ_cons, run_cons]
      have hs' := hsh
      rw [shapeFrom] at hs'
      split at hs'
      · rename_i ph' hn
        exact ih ph' (step s op) (inv_step h hn hs') hs' k
      · simp at hs'


/-- **truncate_in_place_unsafe.** If the save opens the config path itself with truncation, the crash
image right after that first operation is the empty file: neither the (non-empty) old nor the
(non-empty) new configuration — certificate and key are gone. -/
theorem truncate_in_place_unsafe (path : String) (old new : List Nat) (s : Fs) (ops : List FsOp)
    (hs : Base path old s) (hshape : isTruncateInPlace path ops = true)
    (hold : old ≠ []) (hnew : new ≠ []) :
    ∃ k c, IsImage (run s (ops.take k)) path c ∧ c ≠ old ∧ c ≠ new := by
  obtain ⟨i0, hd, hf, _, _⟩ := hs
  cases ops with
  | nil => simp [isTruncateInPlace] at hshape
  | cons op rest =>
    cases op <;> simp [isTruncateInPlace] at hshape
    subst hshape
    refine ⟨1, [], ⟨i0, ?_, 0, ?_, ?_, ?_⟩, Ne.symm hold, Ne.symm hnew⟩ <;>
      simp [run, step, hd, upd]

/-- **rename_without_fsync_unsafe.** Temp file + rename but no fsync before the rename: after the
complete save the config path may still hold an empty file after a crash. -/
theorem rename_without_fsync_unsafe (path tmp : String) (fd : Nat) (old new : List Nat) (s : Fs)
    (hs : Base path old s) (_hne : tmp ≠ path) (hold : old ≠ []) (hnew : new ≠ []) :
    ∃ c, IsImage (run s [.openTrunc fd tmp, .write fd new, .close fd, .rename tmp path]) path c ∧
      c ≠ old ∧ c ≠ new := by
  obtain ⟨i0, hd, hf, hal, hlt⟩ := hs
  refine ⟨[], ?_, Ne.symm hold, Ne.symm hnew⟩
  cases hq : s.dir tmp with
  | some i =>
    refine ⟨i, ?_, 0, ?_, ?_, ?_⟩ <;> simp [run, step, hq, upd]
  | none =>
    refine ⟨s.next, ?_, 0, ?_, ?_, ?_⟩ <;> simp [run, step, hq, upd]

/-! ## non-vacuity -/

def exFs : Fs := { dir := fun p => if p = "cfg" then some 0 else none, file := fun _ => ⟨[1, 2, 3], 3⟩,
                   fd := fun _ => none, next := 1 }
def exOps : List FsOp :=
  [.openTrunc 7 "cfg.tmp", .write 7 [4, 5], .write 7 [6], .fsync 7, .close 7, .rename "cfg.tmp" "cfg"]

example : Base "cfg" [1, 2, 3] exFs := ⟨0, rfl, rfl, by intro q hq; simp [exFs, hq], by
  intro q i h; simp [exFs] at h; simp [exFs, ← h.2]⟩
example : isAtomicReplace "cfg" exOps = true := by decide
example : pending exOps = [4, 5, 6] := by decide
example : imageSync (run exFs exOps) "cfg" = some [4, 5, 6] ∧ imageLossy (run exFs exOps) "cfg" = some [4, 5, 6] ∧
    imageLossy (run exFs (exOps.take 4)) "cfg" = some [1, 2, 3] := by decide
example : isTruncateInPlace "cfg" [.openTrunc 7 "cfg", .write 7 [4, 5], .close 7] = true := by decide
example : isAtomicReplace "cfg" [.openTrunc 7 "cfg", .write 7 [4, 5], .close 7] = false := by decide
example : isAtomicReplace "cfg" [.openTrunc 7 "t", .write 7 [4], .close 7, .rename "t" "cfg"] = false := by decide

end Specter.C45
