import SpecterModel.C26.Drv

def main : IO Unit := Specter.C26.main
