import SpecterModel.Util
import SpecterModel.C22.Model
import SpecterModel.C21.Drv
/-!
C22 line-protocol driver.

`<mutation> => result`, `snap keys => state` : the clean run (model correspondence of the history).
`seg <hex> => <entries>`                     : the real segment file written by that run.
`trunc keys t => recovered|error`            : real `aof.New` on the file cut at byte `t`.
`torn keys start j fillhex kind => …`        : real `aof.New` on `file[0, start+j) ++ fill`.
`tornmid keys start j fillhex kind => …`     : real `aof.New` on `file[0, start+j) ++ fill ++ file[start+j+|fill|, …)`.

Model prediction: `reopenBytes` (the function the theorems are about) with the executable codec
`tableCodec`: byte-level framing, protobuf `LogEntry` parse, CRC-64/ECMA, version check; the entry data
is mapped back to a mutation through the table recorded from the clean run.
Oracle (property statement): the outcome is `error` or the reference state of a prefix of the history.
-/
namespace Specter.C22
open Specter.Util Specter.Aof Specter.Aof.Proto

structure St where
  store : Store := {}
  mems : Array Mem := #[Mem.empty]
  seg : Bytes := []
  table : List (Bytes × Mutation) := []     -- entry data ↦ logged mutation, from the clean run
deriving Inhabited

def predict (st : St) (keys : List Bytes) (image : Bytes) : String :=
  match reopenBytes (tableCodec st.table) image with
  | some s => renderMem keys s.mem
  | none => "error"

def judge (st : St) (keys : List Bytes) (image : Bytes) (rhs : String) : Verdict :=
  let admissible := st.mems.toList.map (renderMem keys)
  if rhs ≠ "error" ∧ ¬ admissible.contains rhs then
    .spec s!"recovered data are not the state of any prefix of the history"
  else
    let m := predict st keys image
    if m = rhs then .ok else .diff m

def decideEq (a b : Option (List Mutation)) : Bool := a == b

def step (st : St) (toks : List String) (rhs : String) : St × Verdict :=
  match toks with
  | ["reset"] => ({}, .ok)
  | ["snap", ks] =>
    match parseList ks with
    | none => (st, .bad "snap keys")
    | some keys =>
      let m := renderMem keys st.store.mem
      (st, if m = rhs then .ok else .diff m)
  | ["seg", hex] =>
    match hexToBytes hex with
    | none => (st, .bad "seg hex")
    | some bytes =>
      match load bytes with
      | none => (st, .diff "corrupt")
      | some ps =>
        let n := toString ps.length
        let datas := ps.map (fun p => match parseLogEntry p with | some e => e.data | none => [])
        let table := datas.zip st.store.log
        -- hypothesis `hcodec` of the theorems, checked: the codec reads the file back as the model's log
        let codecOk := decideEq (decodeAll (tableCodec table) ps) (some st.store.log)
        ({ st with seg := bytes, table := table },
          if ps.length ≠ st.store.log.length then .diff s!"model log has {st.store.log.length} entries"
          else if ¬ codecOk then .diff "codec does not read the file back as the logged mutations"
          else if n = rhs then .ok else .diff n)
  | ["trunc", ks, t] =>
    match parseList ks, t.toNat? with
    | some keys, some t => (st, judge st keys (st.seg.take t) rhs)
    | _, _ => (st, .bad "trunc args")
  | ["torn", ks, start, j, fill, _kind] =>
    match parseList ks, start.toNat?, j.toNat?, hexToBytes fill with
    | some keys, some start, some j, some fill => (st, judge st keys (st.seg.take (start + j) ++ fill) rhs)
    | _, _, _, _ => (st, .bad "torn args")
  | ["tornmid", ks, start, j, fill, _kind] =>
    match parseList ks, start.toNat?, j.toNat?, hexToBytes fill with
    | some keys, some start, some j, some fill =>
      (st, judge st keys (st.seg.take (start + j) ++ fill ++ st.seg.drop (start + j + fill.length)) rhs)
    | _, _, _, _ => (st, .bad "tornmid args")
  | _ =>
    match parseMutation toks with
    | none => (st, .bad "unknown op")
    | some mu =>
      if ¬ mu.WF then (st, .bad "ill-formed import") else
      let (s', r) := submit st.store mu
      let last := st.mems.getD (st.mems.size - 1) Mem.empty
      ({ st with store := s', mems := st.mems.push (specStep last mu) },
        if renderErr r = rhs then .ok else .diff (renderErr r))

def main : IO Unit := runLoop ({} : St) step

end Specter.C22
