import SpecterModel.Util
import SpecterModel.C23.Model
/-! C23 line-protocol driver (byte strings are hex tokens, `-` = empty).
Sequential cases: `key k h1 h2`, `usehash 1|2`, `put k v`, `del k`, `pappend k c`, `premove k c`,
`acquire k ttlMs now => ok:<tok>|…`, `renew k ttlMs prev now => ok:<tok>|…`, `release k tok`,
`import k:sv:children:lease;…` (`sv` = `~` nil, children `.` = none, `k:nil` = nil transfer), `remove k,k,…`,
reads `get`, `plist`, `listkeys => <listing> <dump>`, `dump => <dump>`.
Crash cases: `plan <op…>` (records the planned history), `ref n => <dump>` (real store, uncrashed, after n
planned calls), `recovered <acked> <issued> [<crash image>] => <dump>|openfail` (real store re-opened after SIGKILL;
the optional token names the crash image: kill on entry to the N-th pwrite64, or a torn log tail derived from the
killed child's directory — judged exactly like the plain line).
Deadline cases (the call's context ends while it runs): `dl <mode> <op…> => <result>` (`error` = the context's
error / ErrTxDone: not acknowledged), `dlref => <result> <dump>` (a second real store that executes, without
deadline, the calls that were acknowledged), `dlstate after <result> <op…> => <dump>` (the store under test after the call),
`dlreopen => <dump>|openfail` (closed and re-opened).
DIFF: model result / table dump differs.  SPEC (property statement, decided on the implementation's own
output): tracker rows inconsistent with the data tables, listing inconsistent with the data tables,
re-open failed, recovered state not equal to the uncrashed state after any prefix n, acked ≤ n ≤ issued,
an acknowledged call that the store does not show (tables differ from those of the uncancelled run of the
acknowledged calls), an unacknowledged call that left part of its effect, a re-opened store that differs
from the store before closing. -/
namespace Specter.C23
open Specter.Util

structure DState where
  st : Store := Store.empty
  hashes : List (String × Nat × Nat) := []
  h2 : Bool := false
  rehashed : Bool := false
  keys : List String := []
  plan : List Op := []
  refs : List (Nat × String) := []
  last : String := "S:;P:;L:;T:"          -- deadline cases: tables of the store under test after the previous call
  pend : Option (Op × String) := none     -- the call just issued and its result
  pendRef : Option String := none         -- tables of the uncancelled reference store after that call

def DState.hashFn (d : DState) (k : String) : Nat :=
  match d.hashes.find? (·.1 = k) with
  | some (_, a, b) => if d.h2 then b else a
  | none => 0

def unTok (s : String) : String := if s = "-" then "" else s
def tok (s : String) : String := if s = "" then "-" else s
def sortS (l : List String) : List String := (l.mergeSort (fun a b => !decide (b < a))).eraseDups

def parseItem (s : String) : Option (String × Option Transfer) :=
  match s.splitOn ":" with
  | [k, "nil"] => some (k, none)
  | [k, sv, ch, l] =>
    match l.toNat? with
    | some l =>
      let sv := if sv = "~" then none else some (unTok sv)
      let ch := if ch = "." then [] else ch.splitOn ","
      some (k, some ⟨sv, ch, l⟩)
    | none => none
  | _ => none

/-- operation tokens (+ the implementation result, needed only for the clock-dependent token) -/
def parseOp (toks : List String) (rhs : String) : Option Op :=
  let tokOf : Nat := if rhs.startsWith "ok:" then ((rhs.drop 3).toString.toNat?).getD 0 else 0
  match toks with
  | ["put", k, v] => some (.put k (unTok v))
  | ["del", k] => some (.delete k)
  | ["pappend", k, c] => some (.pappend k c)
  | ["premove", k, c] => some (.premove k c)
  | ["acquire", k, ttl, now] => do some (.acquire k (← ttl.toNat?) (← now.toNat?) tokOf)
  | ["renew", k, ttl, prev, now] => do some (.renew k (← ttl.toNat?) (← prev.toNat?) (← now.toNat?) tokOf)
  | ["release", k, t] => do some (.release k (← t.toNat?))
  | ["import", items] => do some (.imp (← (items.splitOn ";").mapM parseItem))
  | ["remove", ks] => some (.removeKeys (ks.splitOn ","))
  | _ => none

def opKeys : Op → List String
  | .put k _ | .delete k | .pappend k _ | .premove k _ | .acquire k .. | .renew k .. | .release k _ => [k]
  | .imp items => items.map (·.1)
  | .removeKeys ks => ks

def errTok : Err → String
  | .prefixConflict => "conflict" | .leaseConflict => "leaseconflict" | .leaseExpired => "expired"
  | .invalidTTL => "invalidttl" | .hashFnChanged => "hashchanged" | .importNil => "importnil"

def join (l : List String) : String := ",".intercalate l

def resTok : Res → String
  | .ok => "ok" | .err e => errTok e | .ctxErr => "error"

def opName : Op → String
  | .put k _ => s!"Put({k})" | .delete k => s!"Delete({k})" | .pappend k c => s!"PrefixAppend({k},{c})"
  | .premove k c => s!"PrefixRemove({k},{c})" | .acquire k .. => s!"Acquire({k})" | .renew k .. => s!"Renew({k})"
  | .release k _ => s!"Release({k})" | .imp items => s!"Import({join (items.map (·.1))})"
  | .removeKeys ks => s!"RemoveKeys({join ks})"

def dumpOf (st : Store) (keys : List String) : String :=
  let ks := sortS keys
  let s := ks.filterMap fun k => (st.simple k).map fun v => s!"{k}={tok v}"
  let p := ks.flatMap fun k => (sortS (st.pfx k)).map fun c => s!"{k}/{c}"
  let l := ks.filterMap fun k => (st.lease k).map fun t => s!"{k}={t}"
  let t := ks.filterMap fun k => (st.tracker k).map fun (h, f) => s!"{k}={h}:{f.toNat}"
  s!"S:{join s};P:{join p};L:{join l};T:{join t}"

def listingOf (rows : List (String × Nat)) : String :=
  join (sortS (rows.flatMap fun (k, f) =>
    (if f % 2 = 1 then [s!"{k}:S"] else []) ++ (if f / 2 % 2 = 1 then [s!"{k}:P"] else []) ++
    (if f / 4 % 2 = 1 then [s!"{k}:L"] else [])))

def sect (s : String) : List String :=
  let b := (s.drop 2).toString
  if b = "" then [] else b.splitOn ","

def before (s : String) (sep : String) : String := (s.splitOn sep).headD ""

/-- tracker consistency decided on the implementation's own tables; `none` = consistent -/
def dumpInconsistent (d : DState) (dump : String) : Option String :=
  match dump.splitOn ";" with
  | [s, p, l, t] =>
    let sk := (sect s).map (before · "=")
    let pk := (sect p).map (before · "/")
    let lk := (sect l).map (before · "=")
    let tr : List (String × Nat × Nat) := (sect t).filterMap fun e =>
      match e.splitOn "=" with
      | [k, hf] => match hf.splitOn ":" with
        | [h, f] => match h.toNat?, f.toNat? with
          | some h, some f => some (k, h, f)
          | _, _ => none
        | _ => none
      | _ => none
    let flagOf (k : String) : Nat := match tr.find? (·.1 = k) with | some (_, _, f) => f | none => 0
    let want (k : String) : Nat := (if k ∈ sk then 1 else 0) + (if k ∈ pk then 2 else 0) + (if k ∈ lk then 4 else 0)
    let allk := sortS (sk ++ pk ++ lk ++ tr.map (·.1))
    match allk.find? fun (k : String) => flagOf k != want k with
    | some k => some s!"tracker flags of {k} are {flagOf k}, data tables say {want k}"
    | none =>
      match tr.find? fun (x : String × Nat × Nat) => x.2.2 == 0 with
      | some (k, _, _) => some s!"tracker row of {k} has no flags"
      | none =>
        match tr.find? fun (k, h, _) =>
            match d.hashes.find? (·.1 = k) with
            | some (_, a, b) => if d.rehashed then decide (h ≠ a ∧ h ≠ b) else decide (h ≠ a)
            | none => false with
        | some (k, h, _) => some s!"stored hash {h} of {k} is not hashFn(key)"
        | none => none
  | _ => some "unparsable dump"

def trackerRows (dump : String) : List (String × Nat) :=
  match dump.splitOn ";" with
  | [s, p, l, _] =>
    let sk := (sect s).map (before · "=")
    let pk := (sect p).map (before · "/")
    let lk := (sect l).map (before · "=")
    (sortS (sk ++ pk ++ lk)).map fun k =>
      (k, (if k ∈ sk then 1 else 0) + (if k ∈ pk then 2 else 0) + (if k ∈ lk then 4 else 0))
  | _ => []

/-- the property statement on a store re-opened after a kill: it opens, its tracker rows agree with its data
tables, and its tables are those of an uncrashed run of a prefix `n` of the issued calls, `acked ≤ n ≤ issued`.
`how` (may be empty) names the crash image: the instant of the kill, or the torn log tail it left. -/
def judgeRecovered (d : DState) (a i how rhs : String) : DState × Verdict :=
  let ctx := if how = "" then "" else s!" (crash image: {how})"
  match a.toNat?, i.toNat? with
  | some a, some i =>
    if rhs = "openfail" then (d, .spec s!"store does not re-open after the kill{ctx}")
    else match dumpInconsistent d rhs with
      | some e => (d, .spec s!"after recovery{ctx}: {e}")
      | none =>
        let cands := d.refs.filter fun (n, _) => decide (a ≤ n ∧ n ≤ i)
        if cands.isEmpty then (d, .bad "no reference state in [acked, issued]")
        else if cands.any (fun (x : Nat × String) => x.2 == rhs) then (d, .ok)
        else
          let lost := if a = i then s!"the {a} acknowledged calls are not all there" else
            s!"acknowledged calls are missing or a call shows partly"
          (d, .spec s!"recovered state is not the state after any prefix n of the issued calls, {a} ≤ n ≤ {i}: {lost}{ctx}")
  | _, _ => (d, .bad "recovered args")

def step' (d : DState) (toks : List String) (rhs : String) : DState × Verdict :=
  match toks with
  | ["reset"] => ({}, .ok)
  | ["key", k, a, b] =>
    match a.toNat?, b.toNat? with
    | some a, some b => ({ d with hashes := (k, a, b) :: d.hashes, keys := k :: d.keys }, .ok)
    | _, _ => (d, .bad "key args")
  | ["usehash", n] => ({ d with h2 := n = "2", rehashed := d.rehashed || n = "2" }, .ok)
  | ["plan"] => (d, .bad "empty plan")
  | "plan" :: optoks =>
    match parseOp optoks "" with
    | some op => ({ d with plan := d.plan ++ [op], keys := opKeys op ++ d.keys }, .ok)
    | none => (d, .bad "plan op")
  | ["ref", n] =>
    match n.toNat? with
    | some n =>
      let m := dumpOf (run d.hashFn Store.empty (d.plan.take n)) d.keys
      let d' := { d with refs := (n, rhs) :: d.refs }
      match dumpInconsistent d rhs with
      | some e => (d', .spec e)
      | none => if m ≠ rhs then (d', .diff m) else (d', .ok)
    | none => (d, .bad "ref arg")
  | ["recovered", a, i] => judgeRecovered d a i "" rhs
  | ["recovered", a, i, how] => judgeRecovered d a i how rhs
  | "dl" :: _mode :: optoks =>
    match parseOp optoks rhs with
    | none => (d, .bad "dl op")
    | some op =>
      -- the model cannot predict where the context ended: `error` is explained by an ended context, every
      -- other result must be the result of the call with a live context
      let c : CtxEnd := if rhs = "error" then .beforeBegin else .alive
      let m := resTok (stepCtx d.hashFn d.st op c).2
      let d' := { d with pend := some (op, rhs), pendRef := none, keys := opKeys op ++ d.keys }
      let implOk := rhs = "ok" ∨ rhs.startsWith "ok:"
      if (implOk ∧ m = "ok") ∨ m = rhs then (d', .ok) else (d', .diff m)
  | ["dlref"] =>
    match d.pend, (rhs.splitOn " ").filter (· ≠ "") with
    | some (op, _), [res, dump] =>
      let r := stepCtx d.hashFn d.st op .alive
      let m := s!"{resTok r.2} {dumpOf r.1 d.keys}"
      let d' := { d with pendRef := some dump }
      match dumpInconsistent d dump with
      | some e => (d', .spec s!"reference store: {e}")
      | none =>
        let implOk := res = "ok" ∨ res.startsWith "ok:"
        if (implOk ∧ resTok r.2 = "ok" ∨ resTok r.2 = res) ∧ dumpOf r.1 d.keys = dump then (d', .ok) else (d', .diff m)
    | none, _ => (d, .bad "dlref without dl")
    | _, _ => (d, .bad "dlref rhs")
  | "dlstate" :: _ =>   -- the lhs repeats result and call (for the reader of a failing line); `pend` has them
    match d.pend with
    | none => (d, .bad "dlstate without dl")
    | some (op, res) =>
      let acked := res ≠ "error"
      let applied := (stepCtx d.hashFn d.st op .alive).1
      -- model: an unacknowledged call left nothing (unless the tables say otherwise: then follow them)
      let newSt := if acked then applied else if rhs = d.last then d.st else applied
      let d' := { d with st := newSt, last := rhs, pend := none, pendRef := none }
      let modelCheck : Verdict :=
        let m := dumpOf (if acked then applied else d.st) d.keys
        if m ≠ rhs then .diff m else .ok
      match dumpInconsistent d rhs with
      | some e => (d', .spec e)
      | none =>
        if acked then
          match d.pendRef with
          | none => (d', .bad "acknowledged call without reference state")
          | some r =>
            if rhs = r then (d', modelCheck)
            else if rhs = d.last then
              (d', .spec s!"acknowledged {opName op} (returned {res}) is not in the store: its tables are unchanged, the uncancelled run of the acknowledged calls shows it")
            else (d', .spec s!"store after acknowledged {opName op} (returned {res}) differs from the uncancelled run of the acknowledged calls")
        else if rhs = d.last then (d', modelCheck)
        else
          match d.pendRef with
          | none => (d', .bad "changed tables without reference state")
          | some r =>
            if rhs = r then (d', modelCheck)   -- committed although not acknowledged: allowed by the statement, not by the model
            else (d', .spec s!"unacknowledged {opName op} left a partial effect: neither the previous tables nor those after the whole call")
  | ["dlreopen"] =>
    if rhs = "openfail" then (d, .spec "store does not re-open")
    else match dumpInconsistent d rhs with
      | some e => (d, .spec s!"after re-opening: {e}")
      | none =>
        if rhs ≠ d.last then (d, .spec "re-opened store differs from the store before closing: an acknowledged call is lost or an unacknowledged one appeared")
        else (d, .ok)
  | ["get", k] =>
    let m := match d.st.simple k with | some v => tok v | none => "nil"
    (d, if m ≠ rhs then .diff m else .ok)
  | ["plist", k] =>
    let cs := sortS (d.st.pfx k)
    let m := if cs.isEmpty then "." else join cs
    (d, if m ≠ rhs then .diff m else .ok)
  | ["dump"] =>
    match dumpInconsistent d rhs with
    | some e => (d, .spec e)
    | none => let m := dumpOf d.st d.keys; (d, if m ≠ rhs then .diff m else .ok)
  | ["listkeys"] =>
    match (rhs.splitOn " ").filter (· ≠ "") with
    | [listing, dump] =>
      let lst := if listing = "." then "" else listing
      if lst ≠ listingOf (trackerRows dump) then (d, .spec "ListKeys disagrees with the data tables")
      else
        let ks := sortS d.keys
        let m := listingOf (ks.filterMap fun k => (d.st.tracker k).map fun (_, f) => (k, f.toNat))
        (d, if m ≠ lst then .diff (if m = "" then "." else m) else .ok)
    | _ => (d, .bad "listkeys rhs")
  | _ =>
    match parseOp toks rhs with
    | none => (d, .bad "unknown op")
    | some op =>
      let (st', e) := step d.hashFn d.st op
      let d' := { d with st := st', keys := opKeys op ++ d.keys }
      let implOk := rhs = "ok" ∨ rhs.startsWith "ok:"
      let m := match e with | none => "ok" | some e => errTok e
      if (implOk ∧ m = "ok") ∨ m = rhs then (d', .ok) else (d', .diff m)

def main : IO Unit := runLoop ({} : DState) step'

end Specter.C23
