//go:build verif

package tun

import (
	"io"
	"sync"
)

// VerifPipeOne runs the real unexported `pipe` goroutine body once: it copies from `reader` to `writer`,
// closes both and reports. Returns everything it sent on the error channel.
func VerifPipeOne(reader, writer io.ReadWriteCloser) []error {
	wg := &sync.WaitGroup{}
	wg.Add(1)
	ch := make(chan error, 2)
	pipe(wg, ch, reader, writer)
	wg.Wait()
	close(ch)
	var out []error
	for e := range ch {
		out = append(out, e)
	}
	return out
}
