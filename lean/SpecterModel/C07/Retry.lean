import SpecterModel.C07.Model
import SpecterModel.C07.Props
/-!
# C07 — the retry loop of `Leave()` (model: `C07/Model.lean`)

A leave attempt that fails part-way (refused by a busy successor, busy leaver, failed transfer, …) is
retried after `StabilizeInterval`; in between, the ring may change arbitrarily (`env`). Proved for EVERY
environment, every ring and every number of attempts:

* `leaveRetry_ok_is_fresh_attempt` — a leave that eventually goes through is exactly ONE fresh
  `executeLeave` on the ring as the environment left it at that moment, all earlier attempts having
  failed; nothing of a failed attempt survives into the successful one;
* `executeLeave_ok_reads_pointers`, `leaveRetry_hands_to_current_successor` — the node that is asked for
  the lock and receives the keys is the head of the leaver's successor list AT THAT MOMENT (and the
  predecessor that is advised afterwards is its predecessor pointer at that moment);
* `executeLeave_ok_delivers`, `leaveRetry_ok_delivers` — every data entry the leaver holds when the
  successful attempt starts is afterwards held (same key, hash, value, children) by that current
  successor, and the leaver holds no data any more;
* `leaveRetry_error_restores` — if all attempts fail, the last one leaves every node in the lifecycle
  state in which it found it (with C06 per attempt: no attempt leaves a lock behind);
* `leave_is_single_attempt` — the shared model's `leave` is the loop with one attempt.

`retry_across_join_witness` (kernel-evaluated) is the scenario the harness runs on real nodes: the
highest-id node leaves while its successor is locked for a joiner placed between them; the first attempt
is refused, the join concludes, the retry hands the keys to the JOINER and every key stays readable
through every remaining node. `reread_is_needed` shows the same ring with an attempt that addresses the
successor of the failed attempt instead: the keys end on a node that is not responsible for them and are
unreachable.
-/
namespace Specter.C07
open Specter.Ring Specter.C06 Specter.C05

/-- the shared model's `leave` is `Leave()` with a single attempt -/
theorem leave_is_single_attempt (env : Nat → Net → Net) (net : Net) (l : Nat) :
    leaveWith env 1 net l = leave net l := by
  unfold leaveWith leave
  cases net.get l with
  | none => rfl
  | some nd =>
    simp only
    cases nd.state <;> simp only [leaveRetry, Nat.sub_self]
    all_goals
      rcases executeLeave net l with ⟨n1, r⟩
      cases r with
      | error e => rfl
      | ok v => cases v with
        | none => rfl
        | some ps => rfl

/-- **A leave that goes through is one fresh attempt on the current ring.** If the loop ends with
success, there is an attempt number `j` such that all earlier attempts failed and the result IS
`executeLeave` applied to the ring as attempt `j` found it. -/
theorem leaveRetry_ok_is_fresh_attempt (env : Nat → Net → Net) (l : Nat) :
    ∀ (more k : Nat) (net net' : Net) (r : Option (Nat × Nat)),
      leaveRetry env l more k net = (net', .ok r) →
      ∃ j, j ≤ more ∧
        (∀ i, i < j → ∃ e, (executeLeave (ringBefore env l i k net) l).2 = .error e) ∧
        executeLeave (ringBefore env l j k net) l = (net', .ok r) := by
  intro more
  induction more with
  | zero =>
    intro k net net' r h
    exact ⟨0, Nat.le_refl 0, fun i hi => absurd hi (Nat.not_lt_zero i), by simpa [leaveRetry, ringBefore] using h⟩
  | succ more ih =>
    intro k net net' r h
    unfold leaveRetry at h
    cases hx : executeLeave net l with
    | mk n1 res =>
      cases res with
      | ok v =>
        simp only [hx] at h
        refine ⟨0, Nat.zero_le _, fun i hi => absurd hi (Nat.not_lt_zero i), ?_⟩
        simp only [ringBefore]; rw [hx]; exact h
      | error e =>
        simp only [hx] at h
        obtain ⟨j, hj, hfail, hok⟩ := ih (k + 1) (env k n1) net' r h
        refine ⟨j + 1, Nat.succ_le_succ hj, ?_, ?_⟩
        · intro i hi
          cases i with
          | zero => exact ⟨e, by simp [ringBefore, hx]⟩
          | succ i =>
            have := hfail i (Nat.lt_of_succ_lt_succ hi)
            simpa [ringBefore, hx] using this
        · simpa [ringBefore, hx] using hok

/-- everything a successful attempt did, in terms of the ring it started on -/
theorem executeLeave_ok_facts (net net' : Net) (l pre succ : Nat)
    (h : executeLeave net l = (net', .ok (some (pre, succ)))) :
    ∃ nd n1 n2, net.get l = some nd ∧ nd.pred = some pre ∧ nd.succs.head? = some succ ∧
      leaveLocks net l succ = (n1, none) ∧ transferDown n1 l succ nd.store = some n2 ∧
      net' = n2.upd l (fun nd => { nd with surrogate := some l }) := by
  unfold executeLeave at h
  cases hg : net.get l with
  | none => simp [hg] at h
  | some nd =>
    simp only [hg] at h
    cases hp : nd.pred with
    | none => simp [hp] at h
    | some pre' =>
      simp only [hp] at h
      cases hs : nd.succs.head? with
      | none => simp [hs] at h
      | some succ' =>
        simp only [hs] at h
        split at h
        · simp at h
        · cases hl : leaveLocks net l succ' with
          | mk n1 r =>
            cases r with
            | some e' => simp [hl] at h
            | none =>
              simp only [hl] at h
              cases ht : transferDown n1 l succ' nd.store with
              | none => simp [ht] at h
              | some n2 =>
                simp only [ht] at h
                simp at h
                obtain ⟨h1, h2, h3⟩ := h
                subst h2; subst h3
                exact ⟨nd, n1, n2, rfl, hp, hs, hl, ht, h1.symm⟩

/-- **One attempt reads the pointers of the moment**: the successor that was locked and received the
keys is the head of the leaver's successor list in the ring the attempt started on, the predecessor
that will be advised is its predecessor pointer in that ring. -/
theorem executeLeave_ok_reads_pointers (net net' : Net) (l pre succ : Nat)
    (h : executeLeave net l = (net', .ok (some (pre, succ)))) :
    ∃ nd, net.get l = some nd ∧ nd.pred = some pre ∧ nd.succs.head? = some succ := by
  obtain ⟨nd, _, _, hg, hp, hs, _⟩ := executeLeave_ok_facts net net' l pre succ h
  exact ⟨nd, hg, hp, hs⟩

/-- **The retry loop hands over to the CURRENT successor.** Whatever happened between the attempts,
the attempt that goes through addresses the successor (and predecessor) the leaver has in the ring of
that moment — not the one an earlier, failed attempt talked to. -/
theorem leaveRetry_hands_to_current_successor (env : Nat → Net → Net) (l more k : Nat) (net net' : Net)
    (pre succ : Nat) (h : leaveRetry env l more k net = (net', .ok (some (pre, succ)))) :
    ∃ j, j ≤ more ∧ ∃ nd, (ringBefore env l j k net).get l = some nd ∧
      nd.pred = some pre ∧ nd.succs.head? = some succ := by
  obtain ⟨j, hj, _, hok⟩ := leaveRetry_ok_is_fresh_attempt env l more k net net' _ h
  exact ⟨j, hj, executeLeave_ok_reads_pointers _ _ l pre succ hok⟩

/-- **Delivery of one attempt.** If the keys of the leaver's store are pairwise distinct and none of them
exists at the successor, then after a successful attempt every data entry of the leaver is held by that
successor (same key, hash, simple value, children set) and the leaver holds no data. -/
theorem executeLeave_ok_delivers (net net' : Net) (l pre succ : Nat) (nd nds : Node)
    (hg : net.get l = some nd) (hgs : net.get succ = some nds)
    (hnd : (nd.store.map (·.key)).Nodup)
    (hdisj : ∀ e ∈ nds.store, ∀ m ∈ nd.store, e.key ≠ m.key)
    (h : executeLeave net l = (net', .ok (some (pre, succ)))) :
    (∀ e ∈ nd.store, e.isDeleted = false →
        ∃ nds', net'.get succ = some nds' ∧ importedEntry e ∈ nds'.store) ∧
    (∃ ndl', net'.get l = some ndl' ∧ ∀ e ∈ ndl'.store, e.isDeleted = true) := by
  obtain ⟨nd0, n1, n2, hg0, _, _, hl, ht, hnet⟩ := executeLeave_ok_facts net net' l pre succ h
  rw [hg] at hg0; injection hg0 with hg0; subst hg0
  obtain ⟨hls, _, nds0, hgs0, _, _, hget⟩ := leaveLocks_ok net n1 l succ hl
  rw [hgs] at hgs0; injection hgs0 with hgs0; subst hgs0
  have hg1l : n1.get l = some { nd with state := .leaving } := by
    rw [hget]; simp [hg]
  have hg1s : n1.get succ = some { nds with state := .transferring } := by
    rw [hget]; simp [Ne.symm hls]
  constructor
  · intro e he hd
    have hb : between 0 e.hash 0 true = true := by unfold between; simp; omega
    have hmem : e ∈ rangeKeys nd.store 0 0 := (mem_rangeKeys _ _ _ _).mpr ⟨he, hb, hd⟩
    unfold transferDown at ht
    simp only at ht
    split at ht
    · rename_i hem
      rw [List.isEmpty_iff] at hem; rw [hem] at hmem; simp at hmem
    · cases hi : importAt n1 succ (rangeKeys nd.store 0 0) with
      | none => simp [hi] at ht
      | some n3 =>
        simp only [hi] at ht; simp at ht; subst ht
        obtain ⟨ndj, hgj, hn3⟩ := importAt_get n1 n3 succ _ hi
        rw [hg1s] at hgj; injection hgj with hgj; subst hgj
        refine ⟨{ ({ nds with state := .transferring } : Node) with
                  store := importEntries nds.store (rangeKeys nd.store 0 0) }, ?_, ?_⟩
        · rw [hnet, get_upd_other _ _ _ _ (Ne.symm hls), get_upd_other _ _ _ _ (Ne.symm hls), hn3,
            get_upd_same, hg1s]; rfl
        · have hmovednd : ((rangeKeys nd.store 0 0).map (·.key)).Nodup := by
            unfold rangeKeys
            exact List.Nodup.sublist (List.Sublist.map _ List.filter_sublist) hnd
          refine import_delivers _ nds.store hmovednd ?_ e hmem
          intro x hx m hm
          exact hdisj x hx m ((mem_rangeKeys _ _ _ _).mp hm).1
  · obtain ⟨ndl', hgl', hempty⟩ := transferDown_source_empty n1 n2 l succ { nd with state := .leaving } hls hg1l ht
    refine ⟨{ ndl' with surrogate := some l }, ?_, hempty⟩
    rw [hnet, get_upd_same, hgl']; rfl

/-- **Delivery of the retry loop**: whatever the environment did between the attempts, when the leave
goes through the leaver's data of that moment is at its successor of that moment. -/
theorem leaveRetry_ok_delivers (env : Nat → Net → Net) (l more k : Nat) (net net' : Net)
    (pre succ : Nat) (h : leaveRetry env l more k net = (net', .ok (some (pre, succ)))) :
    ∃ j, j ≤ more ∧ ∃ nd, (ringBefore env l j k net).get l = some nd ∧ nd.succs.head? = some succ ∧
      ∀ nds, (ringBefore env l j k net).get succ = some nds →
        (nd.store.map (·.key)).Nodup → (∀ e ∈ nds.store, ∀ m ∈ nd.store, e.key ≠ m.key) →
        (∀ e ∈ nd.store, e.isDeleted = false →
            ∃ nds', net'.get succ = some nds' ∧ importedEntry e ∈ nds'.store) ∧
        (∃ ndl', net'.get l = some ndl' ∧ ∀ e ∈ ndl'.store, e.isDeleted = true) := by
  obtain ⟨j, hj, _, hok⟩ := leaveRetry_ok_is_fresh_attempt env l more k net net' _ h
  obtain ⟨nd, hg, _, hs⟩ := executeLeave_ok_reads_pointers _ _ l pre succ hok
  refine ⟨j, hj, nd, hg, hs, ?_⟩
  intro nds hgs hnd hdisj
  exact executeLeave_ok_delivers _ _ l pre succ nd nds hg hgs hnd hdisj hok

/-- **Giving up locks nobody.** If every attempt failed, the last attempt returned every node to the
lifecycle state in which it found the ring (and so did every earlier attempt: C06). -/
theorem leaveRetry_error_restores (env : Nat → Net → Net) (l : Nat) :
    ∀ (more k : Nat) (net net' : Net) (e : Err), leaveRetry env l more k net = (net', .error e) →
      ∀ n, stateOf net' n = stateOf (ringBefore env l more k net) n := by
  intro more
  induction more with
  | zero =>
    intro k net net' e h n
    simp only [leaveRetry] at h
    simpa [ringBefore] using executeLeave_failure_restores net net' l e h n
  | succ more ih =>
    intro k net net' e h n
    unfold leaveRetry at h
    cases hx : executeLeave net l with
    | mk n1 res =>
      cases res with
      | ok v => simp [hx] at h
      | error e1 =>
        simp only [hx] at h
        have := ih (k + 1) (env k n1) net' e h n
        simpa [ringBefore, hx] using this

/-! ### the scenario of the harness, kernel-evaluated -/

/-- ring 100 → 300 → 500 (→ 100); key "k" (hash 400) is owned by 500, key "a" (hash 50) by 100 -/
def ring3 : Net :=
  [(100, { state := .active, pred := some 500, succs := [300, 500, 100], fingers := List.replicate 48 (some 300),
           store := [⟨"a", 50, some "x", []⟩] }),
   (300, { state := .active, pred := some 100, succs := [500, 100, 300], fingers := List.replicate 48 (some 500) }),
   (500, { state := .active, pred := some 300, succs := [100, 300, 500], fingers := List.replicate 48 (some 100),
           store := [⟨"k", 400, some "v", []⟩] }),
   (700, { state := .inactive })]

/-- 700 joins through 300; the join is held right after its tasks started, before its first `FinishJoin`:
100 is `Transferring` (locked for the joiner), 500 has not been told -/
def heldJoin : Net := joinTasks (joinBegin ring3 700 300).1 700

/-- the rest of the join: advisory to the predecessor 500, Joining → Active, release of 100's lock -/
def concludeJoin (net : Net) : Net := joinRelease (joinAdvise net 700) 700

/-- the join concludes during the first retry delay; nothing else happens -/
def envJoin : Nat → Net → Net
  | 0, net => concludeJoin net
  | _, net => net

def repairRound (net : Net) : Net :=
  [Task.checkPredecessor 100, .stabilize 100, .fixFinger 100, .checkPredecessor 300, .stabilize 300, .fixFinger 300,
   .checkPredecessor 700, .stabilize 700, .fixFinger 700].foldl runTask net

def settle (net : Net) : Net := repairRound (repairRound (repairRound net))

def getVia (net : Net) (via : Nat) (key : String) (h : Nat) : KvOut := (kvAt net 8 via key h .get).2

def attemptErr (a : Attempt) : Option Err := match a.2 with | .error e => some e | .ok _ => none
def attemptOk (a : Attempt) : Option (Option (Nat × Nat)) := match a.2 with | .error _ => none | .ok r => some r

/-- the ring after `Leave()` of 500 (with its retry loop) in the environment in which the join concludes
during the first retry delay, and three repair rounds of the remaining nodes -/
def finGood : Net := settle (leaveWithRetries envJoin heldJoin 500).1

/-- **The harness scenario on the model.** The first attempt of 500 is refused by the locked 100; the
join concludes; the retry asks 700 — 500's successor by then — and hands it the key; 500 is `Left`,
100, 300 and 700 are `Active`, and both keys are readable through all three. -/
theorem retry_across_join_witness :
    attemptErr (executeLeave heldJoin 500) = some .leaveInvalidState ∧
    stateOf heldJoin 100 = some .transferring ∧
    attemptOk (leaveRetry envJoin 500 (maxAttempts - 1) 0 heldJoin) = some (some (300, 700)) ∧
    stateOf finGood 500 = some .left ∧ stateOf finGood 100 = some .active ∧
    stateOf finGood 300 = some .active ∧ stateOf finGood 700 = some .active ∧
    getVia finGood 100 "k" 400 = .value (some "v") ∧ getVia finGood 300 "k" 400 = .value (some "v") ∧
    getVia finGood 700 "k" 400 = .value (some "v") ∧
    getVia finGood 100 "a" 50 = .value (some "x") ∧ getVia finGood 300 "a" 50 = .value (some "x") ∧
    getVia finGood 700 "a" 50 = .value (some "x") := by decide +kernel

/-- one attempt that addresses a GIVEN node instead of the current successor (this is NOT what the code
does; it is the behaviour the theorems above exclude) -/
def executeLeaveTo (net : Net) (l stale : Nat) : Attempt :=
  executeLeave (net.upd l (fun nd => { nd with succs := stale :: nd.succs })) l

/-- same ring, same refused first attempt, join concluded; then an attempt that still addresses 100 -/
def finStale : Net :=
  settle (leaveFinish 500 (executeLeaveTo (concludeJoin (executeLeave heldJoin 500).1) 500 100)).1

def kvValue : KvOut → Option (Option String) | .value v => some v | _ => none

/-- **Reading the successor anew is necessary.** A retry that still addressed 100 (the successor of the
failed attempt, Active again once the join concluded) would be accepted, 500 would leave, and key "k" —
owned by 700 now, stored at 100 — would be unreachable through every remaining node after repair. -/
theorem reread_is_needed :
    attemptOk (executeLeaveTo (concludeJoin (executeLeave heldJoin 500).1) 500 100) = some (some (300, 100)) ∧
    stateOf finStale 500 = some .left ∧ stateOf finStale 100 = some .active ∧
    stateOf finStale 300 = some .active ∧ stateOf finStale 700 = some .active ∧
    kvValue (getVia finStale 100 "k" 400) ≠ some (some "v") ∧
    kvValue (getVia finStale 300 "k" 400) ≠ some (some "v") ∧
    kvValue (getVia finStale 700 "k" 400) ≠ some (some "v") := by decide +kernel

/-! ### non-vacuity of the general theorems (their hypotheses hold on the scenario above) -/

theorem attemptOk_eq (a : Attempt) (r : Option (Nat × Nat)) (h : attemptOk a = some r) : a = (a.1, .ok r) := by
  rcases a with ⟨n, res⟩
  cases res with
  | error e => simp [attemptOk] at h
  | ok v => simp [attemptOk] at h; subst h; rfl

theorem attemptErr_eq (a : Attempt) (e : Err) (h : attemptErr a = some e) : a = (a.1, .error e) := by
  rcases a with ⟨n, res⟩
  cases res with
  | error e' => simp [attemptErr] at h; subst h; rfl
  | ok v => simp [attemptErr] at h

/-- the loop of the scenario ends with success, so `leaveRetry_ok_is_fresh_attempt`,
`leaveRetry_hands_to_current_successor` and `leaveRetry_ok_delivers` apply to it; the successor they
speak of is the joiner 700 -/
example : ∃ j, j ≤ 9 ∧ ∃ nd, (ringBefore envJoin 500 j 0 heldJoin).get 500 = some nd ∧
    nd.pred = some 300 ∧ nd.succs.head? = some 700 :=
  leaveRetry_hands_to_current_successor envJoin 500 9 0 heldJoin _ 300 700
    (attemptOk_eq _ _ (by decide +kernel : attemptOk (leaveRetry envJoin 500 9 0 heldJoin) = some (some (300, 700))))

/-- the ring found by the second attempt: its leaver holds the data key "k" (distinct keys), the current
successor 700 holds none of the leaver's keys — the hypotheses of `executeLeave_ok_delivers` -/
example :
    (((ringBefore envJoin 500 1 0 heldJoin).get 500).map (fun nd => nd.store.map (·.key))) = some ["k"] ∧
    (((ringBefore envJoin 500 1 0 heldJoin).get 700).map (fun nd => nd.store.map (·.key))) = some [] ∧
    attemptOk (executeLeave (ringBefore envJoin 500 1 0 heldJoin) 500) = some (some (300, 700)) := by
  decide +kernel

/-- if the join never concludes, all ten attempts are refused: the hypothesis of
`leaveRetry_error_restores` holds, and the successor is still locked for the joiner only -/
example : attemptErr (leaveRetry (fun _ net => net) 500 (maxAttempts - 1) 0 heldJoin) = some .leaveInvalidState ∧
    stateOf (leaveRetry (fun _ net => net) 500 (maxAttempts - 1) 0 heldJoin).1 500 = some .active := by
  decide +kernel

example : ∀ n, stateOf (leaveRetry (fun _ net => net) 500 9 0 heldJoin).1 n =
    stateOf (ringBefore (fun _ net => net) 500 9 0 heldJoin) n :=
  leaveRetry_error_restores _ 500 9 0 heldJoin _ .leaveInvalidState
    (attemptErr_eq _ _ (by decide +kernel))

end Specter.C07
