import SpecterModel.C51.Gen
/-!
# C51 — model of `(*Server).GetNodes` (tun/server/client_rpc.go) with
`chord.MakeSuccListByAddress` (spec/chord/chord.go) and `lookupDestination` (tun/server/resolve.go).

A chord node is identified by its advertised address (that is what the code de-duplicates on and what the
destination key `/destination/chord/<address>` is built from). `none` in the successor list = nil VNode.
Core Lean only.
-/
namespace Specter.C51

/-- the loop of `MakeSuccListByAddress`; `acc` is `succList` (the Go `seen` map holds exactly the addresses
of `succList`: both are extended together). -/
def succLoop (maxLen : Nat) : List (Option String) → List String → List String
  | [], acc => acc
  | s :: rest, acc =>
    if acc.length ≥ maxLen then acc          -- `break`
    else match s with
      | none => succLoop maxLen rest acc     -- nil successor: `continue`
      | some a => if a ∈ acc then succLoop maxLen rest acc else succLoop maxLen rest (acc ++ [a])

def makeSuccList (self : String) (succs : List (Option String)) (maxLen : Nat) : List String :=
  succLoop maxLen succs [self]

/-- what the DHT holds under `/destination/chord/<address>` as seen by `lookupDestination`. -/
inductive Rec where
  | found (tunnel : Option String)   -- decodable record; `tunnel` = address in its Tunnel field (none: field absent)
  | missing                          -- empty value
  | undecodable
  | getError (retryable : Bool)      -- `Chord.Get` failed
deriving DecidableEq, Repr

inductive Err where
  | succErr                          -- GetSuccessors failed → twirp Internal
  | missing (addr : String)
  | undecodable (addr : String)
  | kv (retryable : Bool) (addr : String)
deriving DecidableEq, Repr

def lookup (dest : String → Rec) (a : String) : Except Err (Option String) :=
  match dest a with
  | .found t => .ok t
  | .missing => .error (.missing a)
  | .undecodable => .error (.undecodable a)
  | .getError r => .error (.kv r a)

/-- all lookups run; the first error in list order is returned, else all tunnel endpoints in order. -/
def lookupAll (dest : String → Rec) : List String → Except Err (List (Option String))
  | [] => .ok []
  | a :: rest =>
    match lookup dest a, lookupAll dest rest with
    | .error e, _ => .error e
    | .ok _, .error e => .error e
    | .ok t, .ok ts => .ok (t :: ts)

def getNodes (maxLen : Nat) (self : String) (succs : Option (List (Option String))) (dest : String → Rec) :
    Except Err (List (Option String)) :=
  match succs with
  | none => .error .succErr
  | some ss => lookupAll dest (makeSuccList self ss maxLen)

def numLinks : Nat := Gen.C51.NumRedundantLinks.toNat

end Specter.C51
