/-! C15 executable model of `retry.DoWithData` (avast/retry-go v4.7.0) under the option list of
`retryableWrapper.retryOptions` (spec/chord/retry.go):
`Context(ctx), Attempts(n), Delay(d), OnRetry(count), RetryIf(ErrorIsRetryable), LastErrorOnly(true)`.

The wrapped call is a stream `rs : Nat → Res` (result of the i-th call, 0-based); `retryIf` is a
parameter; the context is `done : Nat → Bool` (`done k` = ctx is cancelled once k calls were made;
`done 0` = cancelled before the first call).  Delays/timers are not modelled.  Core Lean only. -/
namespace Specter.C15

/-- result of one underlying KV call: a value, or an error (identified by `id`, class given by `retryIf`) -/
inductive Res (ε : Type) where
  | ok (v : Nat)
  | err (e : ε)
deriving DecidableEq, Repr

/-- outcome of the wrapper: value, the error of some call, or the context's cause -/
inductive Out (ε : Type) where
  | ok (v : Nat)
  | err (e : ε)        -- returned with the zero value
  | ctx                -- `context.Cause(ctx)` with the zero value
deriving DecidableEq, Repr

variable {ε : Type}

/-- The `shouldRetry:` loop (`attempts ≥ 1`, `n = i`, `remaining = attempts - 1 - n`):
returns (number of calls made, outcome). -/
def loopB (retryIf : ε → Bool) (rs : Nat → Res ε) (done : Nat → Bool) : (i remaining : Nat) → Nat × Out ε
  | i, remaining =>
    match rs i with
    | .ok v => (i + 1, .ok v)                        -- `if err == nil { return t, nil }`
    | .err e =>
      if !retryIf e then (i + 1, .err e)             -- `break`; LastErrorOnly ⇒ last logged error
      else                                           -- onRetry(n, err)
        match remaining with
        | 0 => (i + 1, .err e)                       -- `n == attempts-1` ⇒ `break shouldRetry`
        | r + 1 =>                                   -- `n++ ; select { timer | ctx.Done }`
          if done (i + 1) then (i + 1, .ctx)
          else loopB retryIf rs done (i + 1) r

/-- The `attempts == 0` loop (retry until success); `fuel` bounds the model's unrolling only. -/
def loopU (retryIf : ε → Bool) (rs : Nat → Res ε) (done : Nat → Bool) : (fuel i : Nat) → Option (Nat × Out ε)
  | 0, _ => none
  | fuel + 1, i =>
    match rs i with
    | .ok v => some (i + 1, .ok v)
    | .err e =>
      if !retryIf e then some (i + 1, .err e)
      else if done (i + 1) then some (i + 1, .ctx)
      else loopU retryIf rs done fuel (i + 1)

/-- `DoWithData` with the wrapper's options. `none` only when `attempts = 0` and the fuel ran out. -/
def retryDo (retryIf : ε → Bool) (attempts : Nat) (rs : Nat → Res ε) (done : Nat → Bool) (fuel : Nat) :
    Option (Nat × Out ε) :=
  if done 0 then some (0, .ctx)                      -- `if err := context.Cause(ctx); err != nil`
  else if attempts = 0 then loopU retryIf rs done fuel 0
  else some (loopB retryIf rs done 0 (attempts - 1))

/-! ### Statement-level oracle (independent of the loops above) -/

/-- number of leading retryable errors among the first `bound` results -/
def leadingRetryable (retryIf : ε → Bool) (rs : Nat → Res ε) : (bound from_ : Nat) → Nat
  | 0, _ => 0
  | b + 1, i =>
    match rs i with
    | .err e => if retryIf e then 1 + leadingRetryable retryIf rs b (i + 1) else 0
    | .ok _ => 0

/-- the statement: calls = 1 + #leading retryable errors, capped at `attempts` -/
def specCalls (retryIf : ε → Bool) (attempts : Nat) (rs : Nat → Res ε) : Nat :=
  min (leadingRetryable retryIf rs attempts 0 + 1) attempts

/-- … and the result is that of the last call made (first success, or last error) -/
def specOut (retryIf : ε → Bool) (attempts : Nat) (rs : Nat → Res ε) : Out ε :=
  match rs (specCalls retryIf attempts rs - 1) with
  | .ok v => .ok v
  | .err e => .err e

/-- The statement once the caller's context may end (`done k` = ended once k calls were made): the
caller gets the result of the last call the statement prescribes (first success or last error), or —
only when the context had ended in between attempts, after `c` calls that all returned retryable
errors and before a further attempt — the context's cause after exactly those `c` calls.  A result
obtained from the final attempt is never replaced by the context's error. -/
def specAllowed (retryIf : ε → Bool) (attempts : Nat) (rs : Nat → Res ε) (done : Nat → Bool) :
    List (Nat × Out ε) :=
  (specCalls retryIf attempts rs, specOut retryIf attempts rs) ::
    ((List.range (specCalls retryIf attempts rs)).filter done).map (fun c => (c, Out.ctx))

end Specter.C15
