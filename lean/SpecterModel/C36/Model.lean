import SpecterModel.C36.Ops
import SpecterModel.C36.Gen
/-!
# C36 model — failure reporting of the gateway

* `classify` : `(*Gateway).errorHandler`, interpreting the GENERATED `if`-chain (`Gen.C36.errorChain`).
* `isTimeout`, `isNoDirect`, `statusOf` : `tun.IsTimeout`, `tun.IsNoDirect`, `tun.SendStatusProto` (spec/tun).
* `forwardTCP`, `httpConnect` : the status-frame logic of the two stream paths of gateway/proxy_handler.go.

Go's `errors.Is` on a chain of single-`Unwrap` wrappers reaches the innermost error; the type assertion
`err.(net.Error)` looks ONLY at the outermost value. Both are modelled on `Err` and validated per line
against the real `errors.Is` / `tun.IsTimeout` / `tun.IsNoDirect` (op `lib`).
-/
namespace Specter.C36

/-- `errors.Is(e, sentinel k)` -/
def Err.is (e : Err) (k : Kind) : Bool := decide (e.leaf = k)

/-- "the OUTERMOST value implements `Timeout() bool` and it returns true" -/
def timeoutMethod : List Wrap → Kind → Bool
  | [], k => decide (k = .deadline) || decide (k = .netTimeout)
  | .fmt :: _, _ => false
  | .op :: rest, k => timeoutMethod rest k     -- `t, ok := e.Err.(timeout); return ok && t.Timeout()`
  | .url :: rest, k => timeoutMethod rest k    -- the same type assertion on the direct inner error

/-- `errors.As(err, &e)` with `e net.Error`, then `e.Timeout()`: the FIRST value of the unwrap chain that is a
`net.Error` answers. `fmt` wrappers are skipped; a `net.OpError` / `url.Error` answers (by asking its direct inner
error, WITHOUT unwrapping it); of the innermost errors only `deadline` / `netTimeout` / `netOther` are `net.Error`s. -/
def asNetErrorTimeout : List Wrap → Kind → Bool
  | [], k => decide (k = .deadline) || decide (k = .netTimeout)
  | .fmt :: rest, k => asNetErrorTimeout rest k
  | .op :: rest, k => timeoutMethod rest k
  | .url :: rest, k => timeoutMethod rest k

/-- `tun.IsTimeout` (current): `errors.Is(err, context.DeadlineExceeded)`, else `errors.As(err, &netErr)` → `Timeout()`. -/
def isTimeout (e : Err) : Bool := e.is .deadline || asNetErrorTimeout e.wraps e.leaf

/-- `tun.IsTimeout` before commit "fix: detect wrapped network timeouts": type assertion on the outermost value only. -/
def isTimeoutPreFix (e : Err) : Bool := e.is .deadline || timeoutMethod e.wraps e.leaf

/-- `tun.IsTimeout` WITHOUT its first clause (`errors.Is(err, context.DeadlineExceeded)`): only the
`errors.As(err, &netErr)` → `Timeout()` branch. Not the code; used to state why the first clause is needed
(`deadline_clause_is_needed`). -/
def isTimeoutAsOnly (e : Err) : Bool := asNetErrorTimeout e.wraps e.leaf

/-- `tun.IsNoDirect` -/
def isNoDirect (e : Err) : Bool := e.is .noDirect || e.is .notConnected

def evalCond (tmo : Err → Bool) (e : Err) : Cond → Bool
  | .isAny ks => ks.any e.is
  | .isTimeout => tmo e

/-- `errorHandler` over a given `IsTimeout`: first branch of the generated chain whose condition holds, else the fall-through. -/
def classifyWith (tmo : Err → Bool) (e : Err) : Act :=
  match Gen.C36.errorChain.find? (fun p => evalCond tmo e p.1) with
  | some p => p.2
  | none => Gen.C36.errorDefault

/-- `errorHandler` as it is now -/
def classify (e : Err) : Act := classifyWith isTimeout e

/-! ### stream paths -/
inductive Frame where
  | ok | unknownError | noDirect
  deriving DecidableEq, Repr

/-- `tun.SendStatusProto(dest, err)` for a non-nil error -/
def statusOf (e : Err) : Frame := if isNoDirect e then .noDirect else .unknownError

inductive Ev where
  | dial                 -- TunnelServer.DialClient was called
  | send (f : Frame)     -- a status frame ORIGINATED by the gateway was written to the caller
  | close                -- the caller's stream was closed by the gateway
  | pipe                 -- tun.Pipe(caller, client): bytes are only relayed from now on
  deriving DecidableEq, Repr

/-- `forwardTCP`: `drain` = result of reading the caller's poke, `host` = result of extractHostname
(its errors are plain `fmt.Errorf` values), `dial` = result of `DialClient` (only consulted when reached). -/
def forwardTCP (drain : Option Err) (hostOk : Bool) (dial : Option Err) : List Ev :=
  match drain with
  | some e => [.send (statusOf e), .close]
  | none =>
    if !hostOk then [.send (statusOf ⟨[], .other⟩), .close]
    else match dial with
      | some e => [.dial, .send (statusOf e), .close]
      | none => [.dial, .pipe]

/-- `httpConnect`: result = (HTTP status sent to the caller, DialClient called, remote stream closed by the gateway, piped). -/
structure ConnectOut where
  status : Nat
  dialed : Bool
  remoteClosed : Bool
  piped : Bool
  deriving DecidableEq, Repr

/-- `addrOk`: `parseAddr(r.Host)` succeeded; `dial`: DialClient error; `recv`: the remote status frame could not
be read; `st`: the status frame the tunnel client sent; `hijackOk`: the ResponseWriter supports hijacking. -/
def httpConnect (addrOk : Bool) (dial : Option Err) (recvOk : Bool) (st : Frame) (hijackOk : Bool) : ConnectOut :=
  if !addrOk then ⟨404, false, false, false⟩
  else match dial with
    | some _ => ⟨404, true, false, false⟩
    | none =>
      if !recvOk then ⟨502, true, true, false⟩
      else if st ≠ .ok then ⟨503, true, true, false⟩
      else if !hijackOk then ⟨500, true, true, false⟩
      else ⟨200, true, false, true⟩

end Specter.C36
