import SpecterModel.Util
import SpecterModel.C24.Model
import SpecterModel.C24.Gen
/-! C24 line-protocol driver.
`open <uv> <mask> <r0,r1,r2,r3> <jm> <foreign> [<coll>] => <ok|refuse> <uv'> <mask'> <r0',r1',r2',r3'> <rows> <schema> <bytes>`
* coll bit i (default 0) = a *foreign* object of the other kind occupies the name of object i: an index
  called `key_trackers`/…/`lease_entries` on a foreign table, a table called `idx_hash`.  Such a file
  has that v1 object absent (the opener's `tableExists`/`indexExists` say so too), but the migration
  statement creating it fails, i.e. the migration script breaks off part-way.  coll and mask are disjoint;
* mask bit i = object i of [key_trackers, simple_entries, prefix_entries, lease_entries, idx_hash] exists;
* r_i = row count of table i; `rows` = `same` iff every table that existed still exists with identical
  content (incl. a foreign table when `foreign=1`); `schema` = `eq` | `sup` (old sqlite_schema rows all
  still there, new ones added) | `changed`; `bytes` = `same` | `diff` (main db file, byte-wise);
* jm = journal mode the file was fabricated in (`wal` = the DSN the repo itself uses, `delete`).
Model part (DIFF): outcome, user_version, object mask and row counts predicted by `openDb Gen.facts`.
Spec part (SPEC, from the property statement): ok ⇒ the version stamp was not lowered (a file from a
newer version carries a schema this release has no migration for, so "schema at the current version"
is unattainable for it and re-stamping it only destroys its version record: the statement leaves
refusal as its sole admissible outcome), current version, every table present, rows and old
schema intact (and the index present unless the file was already stamped current); refuse ⇒ version,
objects, rows, schema unchanged, and byte-identical file when it was fabricated with the repo's DSN. -/
namespace Specter.C24
open Specter.Util

def parseCounts (s : String) : Option (List Nat) := (s.splitOn ",").mapM String.toNat?
def showCounts (l : List Nat) : String := ",".intercalate (l.map toString)

def step (_ : Unit) (toks : List String) (rhs : String) : Unit × Verdict :=
  match toks with
  | ["reset"] => ((), .ok)
  | ["open", uv, mask, rows, jm, foreign] => openLine uv mask rows jm foreign "0" rhs
  | ["open", uv, mask, rows, jm, foreign, coll] => openLine uv mask rows jm foreign coll rhs
  | _ => ((), .bad "unknown op")
where
  openLine (uv mask rows jm _foreign coll rhs : String) : Unit × Verdict :=
    match uv.toInt?, mask.toNat?, parseCounts rows, coll.toNat?, (rhs.splitOn " ").filter (· ≠ "") with
    | some uv, some mask, some rows, some coll, [out, uv', mask', rows', rsame, schema, bytes] =>
      if (List.range 5).any (fun i => bit mask i && bit coll i) || coll ≥ 32 then
        ((), .bad "coll overlaps mask (one name cannot be a table and an index)") else
      match uv'.toInt?, mask'.toNat?, parseCounts rows' with
      | some uv', some mask', some rows' =>
        let cur := Gen.facts.schemaVersion
        let tablesAll := mask' % 16 = 15
        let specErr : Option String :=
          if out = "ok" then
            if uv' < uv then
              some s!"opened by lowering user_version {uv}->{uv'} (current {cur}): the file's version record was overwritten instead of the open being refused"
            else if uv > cur then
              some s!"opened a database from a newer version (user_version {uv} > current {cur}); it must be refused untouched"
            else if uv' ≠ cur then some s!"opened but user_version={uv'} (current {cur})"
            else if ¬ tablesAll then some "opened with a table missing"
            else if rsame ≠ "same" then some "opened but existing rows changed"
            else if schema = "changed" then some "opened but existing schema objects changed"
            else if mask' / 16 % 2 = 0 ∧ uv ≠ cur then some "opened (after migrating) without idx_hash"
            else none
          else if out = "refuse" then
            if uv' ≠ uv then some s!"refused but user_version changed {uv}->{uv'}"
            else if mask' ≠ mask then some s!"refused but schema objects changed {mask}->{mask'}"
            else if rsame ≠ "same" ∨ rows' ≠ rows then some "refused but rows changed"
            else if schema ≠ "eq" then some "refused but sqlite_schema changed"
            else if jm = "wal" ∧ bytes ≠ "same" then some "refused but the database file bytes changed"
            else none
          else some s!"unknown outcome {out}"
        match specErr with
        | some e => ((), .spec e)
        | none =>
          let (o, db') := openDb Gen.facts (ofMask uv mask rows coll)
          let mo := if o = .ok then "ok" else "refuse"
          let m := s!"{mo} {db'.uv} {maskOf db'} {showCounts (rowCounts db')}"
          if m ≠ s!"{out} {uv'} {mask'} {showCounts rows'}" then ((), .diff m) else ((), .ok)
      | _, _, _ => ((), .bad "open rhs numbers")
    | _, _, _, _, _ => ((), .bad "open args")

def main : IO Unit := runLoop () step

end Specter.C24
