package acme

import (
	"context"
	"sync"
	"testing"
	"time"

	"go.miragespace.co/specter/kv/memory"
	"go.miragespace.co/specter/spec/chord"

	"go.uber.org/zap"
)

// raceKV lets two renewals of one lease overlap once: the first Renew to arrive is held until a
// second one has been answered (or 400ms passed); everything else is passed through.
type raceKV struct {
	chord.KV
	mu      sync.Mutex
	used    bool
	waiting chan struct{}
	arrived chan struct{}
}

func (r *raceKV) Renew(ctx context.Context, lease []byte, ttl time.Duration, prev uint64) (uint64, error) {
	r.mu.Lock()
	if !r.used && r.waiting == nil {
		w := make(chan struct{})
		r.waiting = w
		r.mu.Unlock()
		close(r.arrived)
		select {
		case <-w:
		case <-time.After(400 * time.Millisecond):
		}
		r.mu.Lock()
		r.used = true
		r.mu.Unlock()
		return r.KV.Renew(ctx, lease, ttl, prev)
	}
	if !r.used && r.waiting != nil {
		w := r.waiting
		r.used = true
		r.mu.Unlock()
		tok, err := r.KV.Renew(ctx, lease, ttl, prev)
		close(w)
		return tok, err
	}
	r.mu.Unlock()
	return r.KV.Renew(ctx, lease, ttl, prev)
}

// A holds the lock; its explicit RenewLockLease overlaps one background renewal. A never unlocks,
// the KV fails nothing: B must not obtain the lock.
func TestC49RenewLockLeaseOverlapsBackgroundRenewal(t *testing.T) {
	const key = "issue_cert_example.com"
	shared := &raceKV{KV: memory.WithHashFn(chord.Hash), arrived: make(chan struct{})}
	cfg := StorageConfig{RetryInterval: 100 * time.Millisecond, LeaseTTL: time.Second}
	a, _ := NewChordStorage(zap.NewNop(), shared, cfg)
	b, _ := NewChordStorage(zap.NewNop(), shared, cfg)
	ctx := context.Background()
	if err := a.Lock(ctx, key); err != nil {
		t.Fatal(err)
	}
	<-shared.arrived // the background renewal is on its way (token already read)
	if err := a.RenewLockLease(ctx, key, time.Second); err != nil {
		t.Fatalf("RenewLockLease: %v", err)
	}
	time.Sleep(1500 * time.Millisecond) // longer than one TTL: only live renewals keep the lease
	got := make(chan error, 1)
	go func() { got <- b.Lock(ctx, key) }()
	select {
	case err := <-got:
		t.Fatalf("B's Lock returned (%v) although A holds the lock, never unlocked, and the KV failed nothing", err)
	case <-time.After(1200 * time.Millisecond):
	}
	if err := a.Unlock(ctx, key); err != nil {
		t.Fatalf("Unlock: %v", err)
	}
	if err := <-got; err != nil {
		t.Fatalf("B's Lock after A's Unlock: %v", err)
	}
	_ = b.Unlock(ctx, key)
}
