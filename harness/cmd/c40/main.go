// C40 correspondence: real spec/tun.Pipe / pipe vs the Lean copier model and the Pipe-level spec.
//   copier: the real `pipe` goroutine body over scripted reader / writer streams (D)
//   pipe2 : the real `Pipe` over two scripted streams (D: both copiers, error multiset, close counts, channel)
//   live  : the real `Pipe` over two bufconn pairs with client goroutines (V)
package main

import (
	"errors"
	"fmt"
	"io"
	"net"
	"sort"
	"strconv"
	"strings"
	"sync"
	"sync/atomic"
	"time"

	"go.miragespace.co/specter/spec/tun"
	"go.miragespace.co/specter/util/bufconn"
	"verif/harness/hlib"
)

var hangs int // calls that did not finish within the guard: stop exploring after two

type kerr int

func (k kerr) Error() string { return "scripted error " + strconv.Itoa(int(k)) }

type readRes struct {
	data []byte
	err  string
}
type writeRes struct {
	n   int
	err string
}

func mkErr(s string) error {
	switch {
	case s == "n":
		return nil
	case s == "eof":
		return io.EOF
	case s == "short":
		return io.ErrShortWrite
	case strings.HasPrefix(s, "e"):
		k, _ := strconv.Atoi(s[1:])
		return kerr(k)
	}
	return errors.New("?")
}

func errName(err error) string {
	var k kerr
	switch {
	case err == nil:
		return "n"
	case err == io.EOF:
		return "eof"
	case err == io.ErrShortWrite:
		return "short"
	case errors.As(err, &k):
		return "e" + strconv.Itoa(int(k))
	case err.Error() == "invalid write result":
		return "invalid"
	case errors.Is(err, io.ErrClosedPipe):
		return "closed"
	}
	return "other"
}

// script is a stream whose Read and Write answers are scripted; Close only counts.
type script struct {
	mu     sync.Mutex
	reads  []readRes
	writes []writeRes
	calls  [][]byte
	closes int
	tag    byte
	log    *[]byte
	logMu  *sync.Mutex
}

func (s *script) Read(p []byte) (int, error) {
	s.mu.Lock()
	defer s.mu.Unlock()
	if len(s.reads) == 0 {
		return 0, io.EOF
	}
	r := s.reads[0]
	s.reads = s.reads[1:]
	n := copy(p, r.data)
	return n, mkErr(r.err)
}

func (s *script) Write(p []byte) (int, error) {
	s.mu.Lock()
	defer s.mu.Unlock()
	s.calls = append(s.calls, append([]byte{}, p...))
	if len(s.writes) == 0 {
		return len(p), nil
	}
	w := s.writes[0]
	s.writes = s.writes[1:]
	return w.n, mkErr(w.err)
}

func (s *script) Close() error {
	s.mu.Lock()
	s.closes++
	s.mu.Unlock()
	if s.log != nil {
		s.logMu.Lock()
		*s.log = append(*s.log, s.tag)
		s.logMu.Unlock()
	}
	return nil
}

func readsTok(rs []readRes) string {
	var xs []string
	for _, r := range rs {
		xs = append(xs, hlib.Hex(r.data)+"."+r.err)
	}
	return hlib.Join(xs, "/")
}
func writesTok(ws []writeRes) string {
	var xs []string
	for _, w := range ws {
		xs = append(xs, strconv.Itoa(w.n)+"."+w.err)
	}
	return hlib.Join(xs, "/")
}
func callsTok(cs [][]byte) string {
	var xs []string
	for _, c := range cs {
		xs = append(xs, hlib.Hex(c))
	}
	return hlib.Join(xs, "/")
}

func parseReads(t string) []readRes {
	if t == "-" {
		return nil
	}
	var out []readRes
	for _, it := range strings.Split(t, "/") {
		p := strings.SplitN(it, ".", 2)
		out = append(out, readRes{hlib.UnHex(p[0]), p[1]})
	}
	return out
}
func parseWrites(t string) []writeRes {
	if t == "-" {
		return nil
	}
	var out []writeRes
	for _, it := range strings.Split(t, "/") {
		p := strings.SplitN(it, ".", 2)
		n, _ := strconv.Atoi(p[0])
		out = append(out, writeRes{n, p[1]})
	}
	return out
}

func genReads(rng *hlib.Rng) []readRes {
	n := rng.Intn(6)
	var rs []readRes
	for i := 0; i < n; i++ {
		d := rng.Bytes(rng.Intn(5))
		if rng.Chance(15) {
			d = nil
		}
		e := "n"
		switch x := rng.Intn(20); {
		case x == 0:
			e = "eof"
		case x == 1:
			e = "e" + strconv.Itoa(1+rng.Intn(3))
		}
		if i == n-1 && rng.Chance(60) {
			e = hlib.Pick(rng, []string{"eof", "eof", "e1", "e2"})
		}
		rs = append(rs, readRes{d, e})
	}
	return rs
}

func genWrites(rng *hlib.Rng, rs []readRes) []writeRes {
	if rng.Chance(45) {
		return nil // well-behaved destination
	}
	var ws []writeRes
	for _, r := range rs {
		if len(r.data) == 0 {
			continue
		}
		w := writeRes{len(r.data), "n"}
		switch rng.Intn(12) {
		case 0:
			w.n = len(r.data) - 1 // short
		case 1:
			w.n = len(r.data) + 1 // invalid
		case 2:
			w.n = -1
		case 3:
			w.err = "e" + strconv.Itoa(4+rng.Intn(3))
		case 4:
			w.n, w.err = rng.Intn(len(r.data)+1), "e7"
		case 5:
			w.n, w.err = len(r.data)+2, "e8"
		case 6:
			w.n = 0
		}
		ws = append(ws, w)
		if rng.Chance(10) {
			break
		}
	}
	return ws
}

func runCopier(r *hlib.Run, rs []readRes, ws []writeRes) {
	var log []byte
	var lm sync.Mutex
	reader := &script{reads: append([]readRes{}, rs...), tag: 'R', log: &log, logMu: &lm}
	writer := &script{writes: append([]writeRes{}, ws...), tag: 'W', log: &log, logMu: &lm}
	res := func() (out string) {
		defer func() {
			if e := recover(); e != nil {
				out = "panic"
			}
		}()
		sent := tun.VerifPipeOne(reader, writer)
		e := "n"
		if len(sent) == 1 {
			e = errName(sent[0])
			if sent[0] == nil {
				e = "nil-sent"
			}
		} else if len(sent) > 1 {
			e = "many"
		}
		sort.Slice(log, func(i, j int) bool { return log[i] < log[j] }) // the order of the two Close calls is not part of the property
		return fmt.Sprintf("calls=%s;err=%s;closes=%s", callsTok(writer.calls), e, string(log))
	}()
	lhs := "copier " + readsTok(rs) + " " + writesTok(ws)
	r.Emit(lhs, res)
	r.Case(lhs)
	if ws == nil {
		r.Count("copier:good-destination")
	} else {
		r.Count("copier:scripted-destination")
	}
	if i := strings.Index(res, ";err="); i >= 0 {
		r.Count("copier:err=" + strings.SplitN(res[i+5:], ";", 2)[0])
	}
}

func runPipe2(r *hlib.Run, ar []readRes, aw []writeRes, br []readRes, bw []writeRes) {
	a := &script{reads: append([]readRes{}, ar...), writes: append([]writeRes{}, aw...)}
	b := &script{reads: append([]readRes{}, br...), writes: append([]writeRes{}, bw...)}
	ch := tun.Pipe(a, b)
	var errs []string
	chanState := "closed"
	timeout := time.After(10 * time.Second)
loop:
	for {
		select {
		case e, ok := <-ch:
			if !ok {
				break loop
			}
			if e == nil {
				errs = append(errs, "nil-sent")
			} else {
				errs = append(errs, errName(e))
			}
		case <-timeout:
			chanState = "open"
			hangs++
			break loop
		}
	}
	sort.Strings(errs)
	a.mu.Lock()
	b.mu.Lock()
	res := fmt.Sprintf("AB=%s;BA=%s;errs=%s;cA=%d;cB=%d;chan=%s;cap=%d", callsTok(b.calls), callsTok(a.calls),
		hlib.Join(errs, ","), a.closes, b.closes, chanState, cap(ch))
	b.mu.Unlock()
	a.mu.Unlock()
	lhs := "pipe2 " + readsTok(ar) + " " + writesTok(aw) + " " + readsTok(br) + " " + writesTok(bw)
	r.Emit(lhs, res)
	r.Case(lhs)
	r.Count("pipe2:nerr=" + strconv.Itoa(len(errs)))
}

type countConn struct {
	net.Conn
	closes atomic.Int32
}

func (c *countConn) Close() error { c.closes.Add(1); return c.Conn.Close() }

// live: X = (x, xc), Y = (y, yc); Pipe(x, y); clients use xc and yc.
func runLive(r *hlib.Run, rng *hlib.Rng) {
	capX, capY := 1+rng.Intn(64), 1+rng.Intn(64)
	x0, xc := bufconn.BufferedPipe(capX)
	y0, yc := bufconn.BufferedPipe(capY)
	x, y := &countConn{Conn: x0}, &countConn{Conn: y0}
	pa, pb := rng.Bytes(rng.Intn(300)), rng.Bytes(rng.Intn(300))
	tail := rng.Bytes(rng.Intn(100))
	who := hlib.Pick(rng, []string{"x", "y"})
	ch := tun.Pipe(x, y)

	gotAB, gotBA := make([]byte, len(pa)), make([]byte, len(pb))
	var wg sync.WaitGroup
	wg.Add(4)
	wr := func(c net.Conn, p []byte, seed uint64) {
		defer wg.Done()
		g := hlib.NewRng(seed)
		for len(p) > 0 {
			n := 1 + g.Intn(40)
			if n > len(p) {
				n = len(p)
			}
			if _, err := c.Write(p[:n]); err != nil {
				return
			}
			p = p[n:]
		}
	}
	rd := func(c net.Conn, buf []byte) {
		defer wg.Done()
		io.ReadFull(c, buf)
	}
	go wr(xc, pa, rng.U64())
	go wr(yc, pb, rng.U64())
	go rd(yc, gotAB)
	go rd(xc, gotBA)
	done := make(chan struct{})
	go func() { wg.Wait(); close(done) }()
	hung := false
	select {
	case <-done:
	case <-time.After(10 * time.Second):
		hung = true
		hangs++
	}
	closer, other := xc, yc
	if who == "y" {
		closer, other = yc, xc
	}
	var gotTail []byte
	end := "hang"
	nerr := 0
	chanState := "open"
	if !hung {
		fin := make(chan struct{})
		go func() {
			closer.Write(tail)
			closer.Close()
		}()
		go func() {
			b, err := io.ReadAll(other) // until EOF
			gotTail = b
			if err == nil {
				end = "eof"
			} else {
				end = errName(err)
			}
			close(fin)
		}()
		select {
		case <-fin:
		case <-time.After(10 * time.Second):
		}
		timeout := time.After(10 * time.Second)
	loop:
		for {
			select {
			case e, ok := <-ch:
				if !ok {
					chanState = "closed"
					break loop
				}
				if e != nil {
					nerr++
				} else {
					nerr += 100
				}
			case <-timeout:
				hangs++
				break loop
			}
		}
	}
	xc.Close()
	yc.Close()
	res := fmt.Sprintf("AB=%s;BA=%s;tail=%s;end=%s;cX=%d;cY=%d;nerr=%d;chan=%s", hlib.Hex(gotAB), hlib.Hex(gotBA),
		hlib.Hex(gotTail), end, x.closes.Load(), y.closes.Load(), nerr, chanState)
	lhs := "live " + who + " " + hlib.Hex(pa) + " " + hlib.Hex(pb) + " " + hlib.Hex(tail)
	r.Emit(lhs, res)
	r.Case(lhs)
	r.Count("live:closer=" + who)
}

func main() {
	r := hlib.Start()
	r.Rule = "copier = (reader script, writer script) through the real pipe(); pipe2 = real Pipe over two scripted streams; live = real Pipe over two bufconn pairs, random payloads both ways, either side closing (after a final tail write); non-trivial = distinct scripts/payloads"
	rng := hlib.NewRng(r.Seed)
	if r.Replay != "" {
		for _, t := range r.ReplayLines() {
			switch t[0] {
			case "copier":
				runCopier(r, parseReads(t[1]), parseWrites(t[2]))
			case "pipe2":
				runPipe2(r, parseReads(t[1]), parseWrites(t[2]), parseReads(t[3]), parseWrites(t[4]))
			case "live":
				runLive(r, rng)
			}
		}
		r.Finish()
		return
	}
	nc, np, nl := 20000, 4000, 150
	if r.Thorough() {
		nc, np, nl = 300000, 60000, 1500
	}
	for i := 0; i < nc; i++ {
		rs := genReads(rng)
		runCopier(r, rs, genWrites(rng, rs))
	}
	for i := 0; i < np && hangs < 2; i++ {
		ar, br := genReads(rng), genReads(rng)
		runPipe2(r, ar, genWrites(rng, br), br, genWrites(rng, ar))
	}
	for i := 0; i < nl && hangs < 2; i++ {
		runLive(r, rng)
	}
	r.Finish()
}
