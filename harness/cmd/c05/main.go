// C05: KV operations interleaved with graceful joins/leaves on rings of real LocalNodes
// (memory back-end), compared step by step with the Lean ring model; the driver judges
// acknowledged reads against a ghost sequential KV (C03) and key placement at quiescence (C05).
package main

import (
	"verif/harness/hlib"
	"verif/harness/ringh"
)

func main() {
	hlib.Guarded(func(run *hlib.Run) {
		run.Rule = "churn histories: rings of 1..6 real LocalNodes (ids adversarial or placed on/next to key hashes), 12 keys with shared prefixes, random put/get/delete/prefix ops through random entry nodes interleaved with graceful joins (into non-empty ranges) and leaves (of nodes holding data) and repair rounds; plus real-timer scenarios (millisecond task intervals): the owner of a stored key leaves while its successor holds the membership lock for a joiner placed directly behind it, the join held before its 1st/2nd FinishJoin call, then settling, reads of every acknowledged key and a placement check on the settled ring; then repair to a fixpoint, quiescent-point placement check, and reads of every key via every member; non-trivial = distinct history with at least one membership change while data is stored"
		rng := hlib.NewRng(run.Seed)
		if run.Replay != "" {
			s := ringh.NewSession(run, rng)
			for _, t := range run.ReplayLines() {
				switch t[0] {
				case "reset":
				case "defkey":
					run.Raw("defkey " + t[1] + " " + t[2])
				case "quiet":
					s.Quiet()
				default:
					s.Do(t...)
				}
			}
			return
		}
		cases, steps := 10, 60
		if run.Thorough() {
			cases, steps = 80, 120
		}
		// real-timer scenarios (leave of a key owner inside the join window of a node placed directly behind it)
		timed := 4
		if run.Thorough() {
			timed = 40
		}
		for t := 0; t < timed; t++ {
			ringh.TimedLeaveInJoinWindow(run, rng)
		}
		for c := 0; c < cases; c++ {
			backend := "memory"
			if c%3 == 2 {
				backend = "sqlite"
			}
			s := ringh.NewSessionBackend(run, rng, backend)
			defer s.R.Close()
			before := run.Dist["op:join"] + run.Dist["op:leave"]
			s.Churn(1+rng.Intn(5), 1+rng.Intn(4), steps)
			key := ""
			if run.Dist["op:join"]+run.Dist["op:leave"] > before {
				key = hlib.F("case-%d-seed-%d", c, run.Seed)
			}
			run.Case(key)
			if s.Dead {
				run.Count("dead-session")
			}
		}
	})
}
