// C43 correspondence: the real Client.SyncConfigTunnels (tun/client/tunnel.go) against a scripted
// TunnelClient, compared with the Lean model `Specter.C43.sync` and the executable property spec.
package main

import (
	"os"
	"path/filepath"
	"strconv"
	"strings"

	"go.miragespace.co/specter/tun/client"
	"verif/harness/hlib"
)

type tun struct{ target, host string }

func encList(xs []string) string {
	if len(xs) == 0 {
		return "_"
	}
	return strings.Join(xs, ",")
}

func encTunnels(ts []tun) string {
	xs := make([]string, len(ts))
	for i, t := range ts {
		xs[i] = hlib.HexS(t.target) + ":" + hlib.HexS(t.host)
	}
	return encList(xs)
}

func encStrs(ss []string) string {
	xs := make([]string, len(ss))
	for i, s := range ss {
		xs[i] = hlib.HexS(s)
	}
	return encList(xs)
}

func decList(tok string) []string {
	if tok == "_" {
		return nil
	}
	return strings.Split(tok, ",")
}

var path string

func run(r *hlib.Run, ts []tun, reg []string, regErr bool, fresh []string) {
	in := make([]client.Tunnel, len(ts))
	for i, t := range ts {
		in[i] = client.Tunnel{Target: t.target, Hostname: t.host}
	}
	var out []client.Tunnel
	var calls int
	var pub []string
	panicked := false
	func() {
		defer func() {
			if e := recover(); e != nil {
				panicked = true
			}
		}()
		out, calls, pub = client.VerifC43Sync(path, in, reg, regErr, fresh)
	}()
	regTok := encStrs(reg)
	if regErr {
		regTok = "!"
	}
	fr := make([]string, len(fresh))
	for i, f := range fresh {
		if f == "" {
			fr[i] = "!"
		} else {
			fr[i] = hlib.HexS(f)
		}
	}
	lhs := "sync " + encTunnels(ts) + " " + regTok + " " + encList(fr)
	if panicked {
		r.Emit(lhs, "panic 0 _")
	} else {
		o := make([]tun, len(out))
		for i, t := range out {
			o[i] = tun{t.Target, t.Hostname}
		}
		r.Emit(lhs, encTunnels(o)+" "+strconv.Itoa(calls)+" "+encStrs(pub))
	}
	needy := 0
	for _, t := range ts {
		if t.target != "" && t.host == "" {
			needy++
		}
	}
	key := ""
	if needy > 0 && !regErr {
		key = lhs
	}
	r.Case(key)
	r.Count("needy:" + strconv.Itoa(min(needy, 4)))
	r.Count("requests:" + strconv.Itoa(min(calls, 3)))
	if regErr {
		r.Count("registered:error")
	}
	if calls > 0 && calls < needy {
		r.Count("branch:reuse-then-request")
	}
	// failing requests among the calls actually made (a call beyond the script fails too)
	firstFail, failed := -1, 0
	for i := 0; i < calls; i++ {
		if i >= len(fresh) || fresh[i] == "" {
			if firstFail < 0 {
				firstFail = i
			}
			failed++
		}
	}
	r.Count("failed-requests:" + strconv.Itoa(min(failed, 3)))
	if failed > 0 && !regErr {
		if firstFail > 0 || calls < needy {
			// an earlier tunnel of the same pass already got a name (reused or generated)
			r.Count("branch:named-then-request-failed")
		} else {
			r.Count("branch:first-request-failed")
		}
		if firstFail+failed < calls {
			r.Count("branch:request-failed-then-succeeded")
		}
	}
}

// runRm: the same sync, but at the RPC (point,k) of the sync the real UnpublishTunnel / ReleaseTunnel
// is called for `host` on the same client (re-entrantly from the scripted service, i.e. exactly while
// SyncConfigTunnels waits for that answer).
func runRm(r *hlib.Run, ts []tun, reg []string, regErr bool, fresh []string, point string, k int, host string, release bool) {
	in := make([]client.Tunnel, len(ts))
	for i, t := range ts {
		in[i] = client.Tunnel{Target: t.target, Hostname: t.host}
	}
	var out, mid []client.Tunnel
	var calls int
	var pub []string
	var fired, rmErr bool
	panicked := false
	func() {
		defer func() {
			if e := recover(); e != nil {
				panicked = true
			}
		}()
		out, calls, pub, fired, mid, rmErr = client.VerifC43SyncRm(path, in, reg, regErr, fresh, point, k, host, release)
	}()
	regTok := encStrs(reg)
	if regErr {
		regTok = "!"
	}
	fr := make([]string, len(fresh))
	for i, f := range fresh {
		if f == "" {
			fr[i] = "!"
		} else {
			fr[i] = hlib.HexS(f)
		}
	}
	pt := "r"
	if point != "r" {
		pt = point + strconv.Itoa(k)
	}
	kind := "u"
	if release {
		kind = "l"
	}
	lhs := "syncrm " + encTunnels(ts) + " " + regTok + " " + encList(fr) + " " + pt + " " + hlib.HexS(host) + " " + kind
	conv := func(xs []client.Tunnel) []tun {
		o := make([]tun, len(xs))
		for i, t := range xs {
			o[i] = tun{t.Target, t.Hostname}
		}
		return o
	}
	if panicked {
		r.Emit(lhs, "panic 0 _ 0 -")
	} else {
		f, m := "0", "-"
		if fired {
			f, m = "1", encTunnels(conv(mid))
			if rmErr {
				f = "E"
			}
		}
		r.Emit(lhs, encTunnels(conv(out))+" "+strconv.Itoa(calls)+" "+encStrs(pub)+" "+f+" "+m)
	}
	idx := -1
	for i, t := range ts {
		if t.host == host {
			idx = i
			break
		}
	}
	key := ""
	if fired && idx >= 0 {
		key = lhs
	}
	r.Case(key)
	r.Count("rm-point:" + point)
	switch {
	case !fired:
		r.Count("rm:point-not-reached")
	case idx < 0:
		r.Count("rm:hostname-not-configured")
	case idx == len(ts)-1:
		r.Count("rm:last-tunnel")
	default:
		r.Count("rm:inner-tunnel")
		if ts[len(ts)-1].host != "" {
			r.Count("rm:inner-tunnel,last-named")
		}
	}
	if regErr {
		r.Count("rm:registered-error")
	}
}

func main() {
	r := hlib.Start()
	r.Rule = "case = (tunnel list, registered hostnames | error, GenerateHostname script); non-trivial = at least one tunnel needs a name and the registered list is known; tunnels 0..7 with/without target and hostname, configured duplicates, dotted custom names; registered sets overlapping configured names, dotted, occasionally duplicated; scripts mostly new names; failing requests (single, early, fail-from-k, flaky, script too short) are inside the quantifier: distinctness and 'unnamed only after a failed request' are judged on them; colliding generated names / duplicated registered lists are outside (only the unconditional clauses are judged); second family (syncrm): the same inputs plus ONE UnpublishTunnel/ReleaseTunnel of a (mostly configured) hostname called on the same client while the sync waits for RegisteredHostnames / the k-th GenerateHostname / the k-th PublishTunnel; non-trivial = the removal ran and hit a configured tunnel; the outcome (configuration, published hostnames) is judged by the statement: no hostname on more tunnels / published more often than configured, no tunnel duplicated or lost"
	rng := hlib.NewRng(r.Seed)
	dir, err := os.MkdirTemp(".", "c43cfg")
	if err != nil {
		panic(err)
	}
	defer os.RemoveAll(dir)
	path = filepath.Join(dir, "client.yaml")

	if r.Replay != "" {
		for _, t := range r.ReplayLines() {
			if (t[0] != "sync" && t[0] != "syncrm") || len(t) < 4 {
				continue
			}
			var ts []tun
			for _, it := range decList(t[1]) {
				p := strings.SplitN(it, ":", 2)
				ts = append(ts, tun{string(hlib.UnHex(p[0])), string(hlib.UnHex(p[1]))})
			}
			var reg []string
			regErr := t[2] == "!"
			if !regErr {
				for _, it := range decList(t[2]) {
					reg = append(reg, string(hlib.UnHex(it)))
				}
			}
			var fresh []string
			for _, it := range decList(t[3]) {
				if it == "!" {
					fresh = append(fresh, "")
				} else {
					fresh = append(fresh, string(hlib.UnHex(it)))
				}
			}
			if t[0] == "syncrm" && len(t) >= 7 {
				point, k := t[4][:1], 0
				if len(t[4]) > 1 {
					k, _ = strconv.Atoi(t[4][1:])
				}
				runRm(r, ts, reg, regErr, fresh, point, k, string(hlib.UnHex(t[5])), t[6] == "l")
				continue
			}
			run(r, ts, reg, regErr, fresh)
		}
		r.Finish()
		return
	}

	auto := []string{"abc", "h1", "h2", "h3", "zeta", "q"}
	custom := []string{"a.example.com", "bastion.custom.dev", "h1.example.com", "x.y"}
	targets := []string{"tcp://127.0.0.1:22", "http://127.0.0.1:8080", "https://10.0.0.1", "unix:///tmp/s.sock", "tcp://127.0.0.1:3306"}

	mk := func() (ts []tun, reg []string, regErr bool, fresh []string) {
		n := rng.Intn(8)
		ts = make([]tun, n)
		for i := range ts {
			if !rng.Chance(15) {
				ts[i].target = hlib.Pick(rng, targets)
			}
			switch rng.Intn(10) {
			case 0, 1:
				ts[i].host = hlib.Pick(rng, auto)
			case 2:
				ts[i].host = hlib.Pick(rng, custom)
			case 3:
				if i > 0 {
					ts[i].host = ts[rng.Intn(i)].host // configured duplicate
				}
			}
		}
		for _, h := range auto {
			if rng.Chance(45) {
				reg = append(reg, h)
			}
		}
		for _, h := range custom {
			if rng.Chance(30) {
				reg = append(reg, h)
			}
		}
		for _, t := range ts { // configured names are usually registered too
			if t.host != "" && rng.Chance(60) {
				dup := false
				for _, x := range reg {
					dup = dup || x == t.host
				}
				if !dup {
					reg = append(reg, t.host)
				}
			}
		}
		for i := len(reg) - 1; i > 0; i-- {
			j := rng.Intn(i + 1)
			reg[i], reg[j] = reg[j], reg[i]
		}
		if len(reg) > 0 && rng.Chance(4) {
			reg = append(reg, reg[rng.Intn(len(reg))]) // not a set: outside the quantifier
			r.Count("registered:duplicate")
		}
		if rng.Chance(2) {
			reg = append(reg, "") // empty registered name
		}
		regErr = rng.Chance(4)
		fresh = make([]string, n+1)
		for i := range fresh {
			fresh[i] = "gen" + strconv.Itoa(i)
		}
		switch rng.Intn(14) {
		case 0:
			fresh[rng.Intn(len(fresh))] = "" // one failing call, anywhere in the script
			r.Count("fresh:failure")
		case 1:
			fresh[rng.Intn(len(fresh))] = hlib.Pick(rng, auto) // collides (outside the quantifier)
			r.Count("fresh:collision")
		case 2:
			fresh = fresh[:rng.Intn(len(fresh))] // script too short: every later call fails
			r.Count("fresh:short")
		case 3:
			fresh[rng.Intn(min(3, len(fresh)))] = "" // one failing call among the first requests
			r.Count("fresh:early-failure")
		case 4:
			for k := rng.Intn(min(4, len(fresh))); k < len(fresh); k++ { // the service goes away after k answers
				fresh[k] = ""
			}
			r.Count("fresh:fail-from")
		case 5:
			for k := range fresh { // flaky service: each call fails independently
				if rng.Chance(40) {
					fresh[k] = ""
				}
			}
			r.Count("fresh:flaky")
		}
		return
	}
	gen := func() {
		ts, reg, regErr, fresh := mk()
		run(r, ts, reg, regErr, fresh)
	}
	// a removal (UnpublishTunnel / ReleaseTunnel from the UI / control API) arriving while the sync
	// waits for one of its RPCs: mostly of a configured hostname (any position, the inner ones matter:
	// the later tunnels move up in the live configuration), sometimes of an unknown or the empty one
	genRm := func() {
		ts, reg, regErr, fresh := mk()
		var named []string
		for _, t := range ts {
			if t.host != "" {
				named = append(named, t.host)
			}
		}
		host := hlib.Pick(rng, auto)
		switch {
		case len(named) > 0 && !rng.Chance(12):
			host = named[rng.Intn(len(named))]
		case rng.Chance(25):
			host = ""
		}
		point, k := "r", 0
		switch rng.Intn(5) {
		case 0, 1:
		case 2:
			point, k = "g", rng.Intn(3)
		default:
			point, k = "p", rng.Intn(max(1, len(ts)))
		}
		runRm(r, ts, reg, regErr, fresh, point, k, host, rng.Chance(40))
	}
	// fixed boundary cases first
	run(r, nil, nil, false, nil)
	run(r, []tun{{"tcp://a:1", ""}}, nil, false, []string{"gen0"})
	run(r, []tun{{"tcp://a:1", ""}, {"tcp://b:1", ""}}, []string{"h1"}, false, []string{"gen0"})
	run(r, []tun{{"tcp://a:1", ""}, {"tcp://b:1", "h1"}}, []string{"h1"}, false, []string{"gen0"})
	run(r, []tun{{"tcp://a:1", ""}, {"", "h1"}}, []string{"h1", "a.b"}, false, []string{"gen0"})
	run(r, []tun{{"tcp://a:1", "x"}, {"tcp://b:1", "x"}}, []string{"x"}, false, nil)
	run(r, []tun{{"tcp://a:1", ""}}, nil, true, []string{"gen0"})
	// failing requests: first request, after a reuse, after a generated name, between two successes
	run(r, []tun{{"tcp://a:1", ""}, {"tcp://b:1", ""}}, nil, false, []string{"", "gen1"})
	run(r, []tun{{"tcp://a:1", ""}, {"tcp://b:1", ""}, {"tcp://c:1", "h2"}}, []string{"h1", "h2"}, false, []string{""})
	run(r, []tun{{"tcp://a:1", ""}, {"tcp://b:1", ""}, {"tcp://c:1", ""}}, nil, false, []string{"gen0"})
	run(r, []tun{{"tcp://a:1", ""}, {"", ""}, {"tcp://b:1", ""}, {"tcp://c:1", ""}}, []string{"h1"}, false, []string{"gen0", "", "gen2"})
	n := 8_000
	if r.Thorough() {
		n = 150_000
	}
	for i := 0; i < n; i++ {
		gen()
	}
	// removal during the sync: fixed shapes first (first / middle / last tunnel removed, with and
	// without tunnels still waiting for a name, at each kind of RPC), then random
	abc := []tun{{"tcp://a:1", "h1"}, {"tcp://b:1", "h2"}, {"tcp://c:1", "h3"}}
	pend := []tun{{"tcp://a:1", "h1"}, {"tcp://b:1", ""}, {"tcp://c:1", "h3"}, {"tcp://d:1", ""}}
	for _, h := range []string{"h1", "h2", "h3", "zeta", ""} {
		runRm(r, abc, []string{"h1", "h2", "h3"}, false, nil, "r", 0, h, false)
		runRm(r, abc, []string{"h1", "h2", "h3"}, false, nil, "p", 1, h, true)
		runRm(r, pend, []string{"h1", "h3", "q"}, false, []string{"gen0", "gen1"}, "r", 0, h, false)
		runRm(r, pend, []string{"h1", "h3", "q"}, false, []string{"gen0", "gen1"}, "g", 0, h, true)
		runRm(r, pend, []string{"h1", "h3"}, false, []string{"gen0", ""}, "g", 1, h, false)
		runRm(r, pend, []string{"h1", "h3", "q"}, false, []string{"gen0"}, "p", 2, h, false)
		runRm(r, abc, nil, true, nil, "r", 0, h, false)
	}
	m := 3_000
	if r.Thorough() {
		m = 50_000
	}
	for i := 0; i < m; i++ {
		genRm()
	}
	r.Finish()
}
