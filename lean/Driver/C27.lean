import SpecterModel.C27.Drv

def main : IO Unit := Specter.C27.main
