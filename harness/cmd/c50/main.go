// C50 correspondence: the real tun/client (*Client).getConnectedNodes (through the verif shim) with the real
// rtt.Instrumentation as recorder. Cases: 0..6 connected nodes under random map keys (insertion order random),
// measurement tables with missing keys, stale-only points (older than the 10 s window), fresh points, equal
// averages, shared measurement keys, "unknown" nodes, long-lived keys with more samples than the recorder retains
// (the line carries every recorded sample's age and value: ground truth for the oracle), and the no-recorder fast path.
package main

import (
	"sort"
	"strconv"
	"strings"
	"time"

	"go.miragespace.co/specter/rtt"
	"go.miragespace.co/specter/spec/protocol"
	srtt "go.miragespace.co/specter/spec/rtt"
	"go.miragespace.co/specter/tun/client"
	"verif/harness/hlib"
)

type conn struct {
	key, addr string
	unknown   bool
}

type point struct {
	ageMs int
	val   float64
}

type tcase struct {
	rec   bool
	conns []conn
	pts   map[string][]point // by measurement key
	order []string           // measurement keys in recording order
	// probes sent / lost per measurement key (RecordSent / RecordLost, as the overlay transport does): a key can
	// have probes and no round-trip sample at all (every probe lost) or only stale samples
	probes map[string][2]int
}

func run(r *hlib.Run, tc tcase) {
	nodes := make([]*protocol.Node, len(tc.conns))
	keys := make([]string, len(tc.conns))
	cs := make([]string, len(tc.conns))
	for i, c := range tc.conns {
		nodes[i] = &protocol.Node{Id: uint64(i), Address: c.addr, Unknown: c.unknown}
		keys[i] = c.key
		u := "0"
		if c.unknown {
			u = "1"
		}
		cs[i] = c.key + "|" + c.addr + "|" + u + "|" + srtt.MakeMeasurementKey(nodes[i])
	}
	ins := rtt.NewInstrumentation(20)
	for _, k := range tc.order {
		for _, p := range tc.pts[k] {
			if p.val < 0 {
				// ignored by RecordLatency; the back-dating shim must not be used here: it would move the
				// previously recorded point
				ins.RecordLatency(k, p.val)
				continue
			}
			ins.VerifC50RecordAged(k, p.val, time.Duration(p.ageMs)*time.Millisecond)
		}
	}
	for k, sl := range tc.probes {
		for j := 0; j < sl[0]; j++ {
			ins.RecordSent(k)
		}
		for j := 0; j < sl[1]; j++ {
			ins.RecordLost(k)
		}
	}
	var rec srtt.Recorder
	if tc.rec {
		rec = ins
	}
	var out []*protocol.Node
	panicked := false
	func() {
		defer func() {
			if recover() != nil {
				panicked = true
			}
		}()
		out = client.VerifC50ConnectedNodes(rec, keys, nodes)
	}()
	// table: every measurement key of a connected node + every recorded key, with the implementation's own average
	seen := map[string]bool{}
	var tab []string
	addKey := func(k string) {
		if seen[k] {
			return
		}
		seen[k] = true
		ages := make([]string, len(tc.pts[k]))
		vs := make([]string, len(tc.pts[k]))
		for i, p := range tc.pts[k] {
			ages[i] = strconv.Itoa(p.ageMs)
			vs[i] = strconv.FormatInt(int64(p.val), 10) // values are integers (ns)
		}
		a, v := "_", "_"
		if len(ages) > 0 {
			a = strings.Join(ages, ";")
			v = strings.Join(vs, ";")
		}
		avg := "_"
		if s := ins.Snapshot(k, 10*time.Second); s != nil {
			avg = strconv.FormatInt(int64(s.Average), 10)
		}
		sl := tc.probes[k]
		tab = append(tab, k+"|"+a+"|"+avg+"|"+strconv.Itoa(sl[0])+";"+strconv.Itoa(sl[1])+"|"+v)
	}
	for _, n := range nodes {
		addKey(srtt.MakeMeasurementKey(n))
	}
	for _, k := range tc.order {
		addKey(k)
	}
	var pk []string
	for k := range tc.probes {
		pk = append(pk, k)
	}
	sort.Strings(pk)
	for _, k := range pk {
		addKey(k)
	}
	rhs := "panic"
	if !panicked {
		ids := make([]string, len(out))
		for i, n := range out {
			ids[i] = strconv.FormatUint(n.GetId(), 10)
		}
		rhs = hlib.Join(ids, ",")
	}
	lhs := "conn " + map[bool]string{true: "1", false: "0"}[tc.rec] + " " + hlib.Join(cs, ",") + " " + hlib.Join(tab, ",")
	r.Emit(lhs, rhs)
	if len(tc.conns) < 2 {
		r.Case("")
	} else {
		r.Case(lhs)
	}
	r.Count("nodes=" + strconv.Itoa(len(tc.conns)))
	r.Count("recorder=" + hlib.B(tc.rec))
}

func main() {
	r := hlib.Start()
	r.Rule = "one case = connection map (0..6 nodes, random keys and insertion order, addresses possibly shared, unknown flag) + measurement table (per key: no points / only stale points 12..60 s / fresh points 0..8 s / mixed / long-lived key with 18..57 samples recorded as time passes, i.e. more than the recorder's 21 retained points, window filled by old or recent samples, probing continuing or stopped, a few negative values which the recorder ignores; integer values from a small set so that equal averages are frequent; per key 0..5 probes recorded as sent and some as lost, independent of the samples, so keys with probes but no (recent) sample occur) + recorder on/off; non-trivial = at least 2 nodes (distinct case text)"
	rng := hlib.NewRng(r.Seed)
	if r.Replay != "" {
		for _, t := range r.ReplayLines() {
			if t[0] != "conn" || len(t) < 4 {
				continue
			}
			tc := tcase{rec: t[1] == "1", pts: map[string][]point{}, probes: map[string][2]int{}}
			if t[2] != "-" {
				for _, e := range strings.Split(t[2], ",") {
					f := strings.Split(e, "|")
					tc.conns = append(tc.conns, conn{f[0], f[1], f[2] == "1"})
				}
			}
			if t[3] != "-" {
				for _, e := range strings.Split(t[3], ",") {
					f := strings.Split(e, "|")
					tc.order = append(tc.order, f[0])
					if len(f) > 3 {
						sl := strings.Split(f[3], ";")
						a, _ := strconv.Atoi(sl[0])
						b, _ := strconv.Atoi(sl[1])
						if a+b > 0 {
							tc.probes[f[0]] = [2]int{a, b}
						}
					}
					if f[1] == "_" {
						continue
					}
					var vs []string
					if len(f) > 4 && f[4] != "_" {
						vs = strings.Split(f[4], ";")
					}
					for j, a := range strings.Split(f[1], ";") {
						ms, _ := strconv.Atoi(a)
						v, _ := strconv.ParseFloat(f[2], 64) // old lines carry no values: the average stands in
						if j < len(vs) {
							v, _ = strconv.ParseFloat(vs[j], 64)
						}
						tc.pts[f[0]] = append(tc.pts[f[0]], point{ms, v})
					}
				}
			}
			run(r, tc)
		}
		r.Finish()
		return
	}
	vals := []float64{1e6, 2e6, 2e6, 5e6, 5e6 + 1, 3.3e7, 0, 3}
	n := 20000
	if r.Thorough() {
		n = 400000
	}
	for i := 0; i < n; i++ {
		tc := tcase{rec: !rng.Chance(12), pts: map[string][]point{}, probes: map[string][2]int{}}
		nn := rng.Intn(7)
		usedKey := map[string]bool{}
		for j := 0; j < nn; j++ {
			addr := hlib.F("10.0.0.%d:443", 1+rng.Intn(5)) // few addresses: shared measurement keys happen
			key := addr
			if rng.Chance(40) || usedKey[key] {
				key = hlib.F("k%02d", rng.Intn(100))
			}
			for usedKey[key] {
				key = hlib.F("k%02d", rng.Intn(100))
			}
			usedKey[key] = true
			tc.conns = append(tc.conns, conn{key, addr, rng.Chance(15)})
		}
		for _, c := range tc.conns {
			n := &protocol.Node{Address: c.addr, Unknown: c.unknown}
			k := srtt.MakeMeasurementKey(n)
			if _, ok := tc.pts[k]; ok {
				continue
			}
			if _, ok := tc.probes[k]; !ok && rng.Chance(60) {
				sent := 1 + rng.Intn(5)
				tc.probes[k] = [2]int{sent, rng.Intn(sent + 1)}
				r.Count("key:probed")
			}
			var ps []point
			switch rng.Intn(8) {
			case 6, 7: // long-lived gateway: more samples than the recorder retains (capacity 20 -> 21 points), recorded
				// as time passes (ages non-increasing). The window fills while the samples are old or recent, then
				// probing goes on or stops; the value drifts, so the retained suffix has its own average.
				total := 18 + rng.Intn(40)
				age := rng.Intn(70000)
				switch rng.Intn(4) {
				case 0:
					age = rng.Intn(9000) // all recent
				case 1:
					age = 12000 + rng.Intn(50000) // starts old
				}
				if age > 8000 && age < 12000 {
					age = 12000
				}
				stopAt := -1 // probing stops (gateway went silent) once the age drops below this
				if rng.Chance(25) {
					stopAt = 11000 + rng.Intn(20000)
				}
				v := hlib.Pick(rng, vals)
				for m := 0; m < total; m++ {
					if age < stopAt {
						break
					}
					if rng.Chance(25) {
						v = hlib.Pick(rng, vals)
					}
					pv := v
					if rng.Chance(4) {
						pv = -1 - float64(rng.Intn(5)) // RecordLatency ignores negative values
					}
					ps = append(ps, point{age, pv})
					// next probe later in time: small steps near the window edge are avoided (>= 2 s margin)
					step := rng.Intn(3000)
					if rng.Chance(20) {
						step = rng.Intn(30000)
					}
					age -= step
					if age < 0 {
						age = 0
					}
					if age > 8000 && age < 12000 {
						age = 8000
					}
				}
				if len(ps) > 21 {
					r.Count("key:long-lived>21")
				} else {
					r.Count("key:long-lived<=21")
				}
			case 0: // never measured
				r.Count("key:no-points")
			case 1: // only stale points
				for m, mm := 0, 1+rng.Intn(3); m < mm; m++ {
					ps = append(ps, point{12000 + rng.Intn(48000), hlib.Pick(rng, vals)})
				}
				r.Count("key:stale-only")
			case 2: // stale then fresh
				ps = append(ps, point{12000 + rng.Intn(48000), hlib.Pick(rng, vals)})
				ps = append(ps, point{rng.Intn(8000), hlib.Pick(rng, vals)})
				r.Count("key:stale+fresh")
			default:
				v := hlib.Pick(rng, vals)
				for m, mm := 0, 1+rng.Intn(3); m < mm; m++ {
					if rng.Chance(30) {
						v = hlib.Pick(rng, vals)
					}
					ps = append(ps, point{rng.Intn(8000), v})
				}
				r.Count("key:fresh")
			}
			if len(ps) > 0 {
				tc.pts[k] = ps
				tc.order = append(tc.order, k)
			}
		}
		if rng.Chance(10) { // a measured key that belongs to no connected node
			tc.pts["10.9.9.9:443/PHY"] = []point{{100, 1e6}}
			tc.order = append(tc.order, "10.9.9.9:443/PHY")
		}
		run(r, tc)
	}
	r.Finish()
}
